#!/usr/bin/env python3
"""Writes /verif/MANIFEST.json from the table below (claimed properties = those with a Props/Cnn.v)."""
import json
import os

ROOT = "/verif"
TEXT = {
 "C01": ("C01_step conservation + C01_solvency by induction over histories", "5, 8/C01"),
 "C02": ("match settlement: response flows equal the specification map", "8/C02"),
 "C03": ("acceptance implies eligibility; limit-price corollaries; converse under fees_payable", "8/C03"),
 "C04": ("cancel/expire/reject return exactly the cancelled escrow", "8/C04"),
 "C05": ("acceptance of a privileged request implies the sender's role, for every state, environment and repair-flag setting; refusal changes nothing", "8/C05"),
 "C06": ("exit liveness from the invariant", "8/C06"),
 "C07": ("admission iff well-formed and funded", "8/C07"),
 "C08": ("approval conditions; converted = size invariant", "8/C08"),
 "C09": ("fee formulas and pro-rata invariant", "8/C09"),
 "C10": ("every emitted message matches the marker type of its denomination", "8/C10"),
 "C11": ("frame, immutability, monotone remainders", "8/C11"),
 "C12": ("configuration change relation; market parameters frozen", "8/C12"),
 "C13": ("instantiate iff coherent; integrality lemma", "8/C13"),
 "C14": ("migration gate, effect, idempotence", "8/C14"),
 "C15": ("V2->V3 conversion preserves remainders (induction on the log)", "8/C15"),
 "C16": ("queries are pure lookups", "8/C16"),
 "C17": ("attribute truth; shadow-book refinement", "8/C17"),
}


def main():
    claimed = sorted(p for p in TEXT if os.path.exists("%s/coq/theories/Props/%s.v" % (ROOT, p)))
    checks = []
    for p in claimed:
        checks.append({
            "property_id": p,
            "quick_cmd": "./check %s quick" % p,
            "thorough_cmd": "./check %s thorough" % p,
            "evidence_file": "/verif/evidence/%s.json" % p,
            "replay_cmd_template": "./check replay {path}",
            "engine": "coq-model+correspondence",
            "technique": "machine-checked proof in Coq 8.16 (theorems of coq/theories/Props/%s.v about the executable model, by invariants and induction over histories) tied to the code by a differential correspondence check of the extracted model against the real contract" % p,
            "level_claimed": {
                "category": "proof",
                "text": "Theorems about a hand-written executable Gallina model of the whole contract (%s), closed under the global context (no axioms); the model is tied to /repo's current source on every run by replaying generated and directed histories through the real entry points and the extracted model and comparing this property's projection of every step; when proof or correspondence breaks the run searches the implementation's traces for a concrete failing history." % TEXT[p][0],
                "design_ref": "DESIGN.md section " + TEXT[p][1],
            },
            "level_note": "Trusted: Coq kernel, extraction (ExtrOcamlBasic), the Rust harness and Python comparison, generator coverage; modelled-not-verified: rust_decimal/uuid/semver ports (decimal port differentially tested every run), storage encodings, chain message execution and rollback. Theorems exclude the known numeric classes listed in known_findings.json by name.",
        })
    na = [{"property_id": p, "reason": "claimed check not finished yet: proof file coq/theories/Props/%s.v under construction (the technique applies; see DESIGN.md section 8)" % p}
          for p in sorted(TEXT) if p not in claimed]
    m = {
        "version": 1,
        "setup_cmd": "./check setup",
        "hooks": {
            "guard": "ats_verif",
            "enable": "none needed: every entry point and storage helper the harness uses is already pub; RUSTFLAGS=\"--cfg ats_verif\" is reserved and unused",
            "baseline_off_cmd": "cd /repo && cargo test --workspace --no-fail-fast --offline",
            "source_commits": [],
            "add_only": True,
        },
        "engines": [{"name": "coq-model+correspondence", "path": "/verif/check",
                     "serves_properties": claimed,
                     "kind_free_text": "Coq 8.16 proofs about an executable model + differential correspondence (Rust harness vs extracted OCaml model)"}],
        "checks": checks,
        "notes": "see DESIGN.md; fix: commits in /repo are listed in known_findings.json",
        "not_applicable": na,
    }
    json.dump(m, open(ROOT + "/MANIFEST.json", "w"), indent=1)
    print("claimed:", " ".join(claimed))


if __name__ == "__main__":
    main()
