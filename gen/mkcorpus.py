#!/usr/bin/env python3
"""Writes the directed corpus (corpus/*.hist): one scenario per defect found (D1-D7), per known numeric class,
and per seeded change that random generation reaches rarely.  Run by hand; the .hist files are committed."""
import os
import sys

sys.path.insert(0, os.path.dirname(os.path.abspath(__file__)))
from fmt import enc, opt, lst, optlist, coins, coin  # noqa: E402

ROOT = os.path.dirname(os.path.dirname(os.path.abspath(__file__)))
A1 = "a0000000-0000-4000-8000-000000000001"
A2 = "a0000000-0000-4000-8000-000000000002"
B1 = "b0000000-0000-4000-8000-000000000001"
B2 = "b0000000-0000-4000-8000-000000000002"


class H:
    def __init__(self, name, desc):
        self.name, self.lines = name, ["H 0 " + desc]

    def env(self, markers=None, attrs=None):
        ms = lst(sorted((markers or {}).items()), lambda kv: enc(kv[0]) + "=" + kv[1])
        def names(v):     # a list of names, or a tuple of lists = the pages the listing is served in
            return "|".join(";".join(enc(x) for x in page) for page in v) if isinstance(v, tuple) else ";".join(enc(x) for x in v)
        ats = lst(sorted((attrs or {}).items()), lambda kv: enc(kv[0]) + "=" + names(kv[1]))
        self.lines.append("ENV %s %s" % (ms, ats))
        return self

    def inst(self, conv=("cv",), quotes=("q",), approvers=("appr",), executors=("exec",), afr=None, afa=None,
             bfr=None, bfa=None, aattrs=(), battrs=(), precision=0, increment=1, name="ats", base="base"):
        self.lines.append("INST admin %s %s %s %s %s %s %s %s %s %s %s %s %d %d" % (
            enc(name), enc(base), lst(conv), lst(quotes), lst(approvers), lst(executors), opt(afr), opt(afa),
            opt(bfr), opt(bfa), lst(aattrs), lst(battrs), precision, increment))
        return self

    def ex(self, sender, funds, kind, *args, probe=False):
        self.lines.append("%s %s %s %s %s" % ("PEXEC" if probe else "EXEC", enc(sender), coins(funds), kind,
                                               " ".join(str(a) for a in args)))
        return self

    def create_ask(self, sender, funds, i, base, quote, price, size):
        return self.ex(sender, funds, "create_ask", enc(i), enc(base), enc(quote), enc(price), size)

    def create_bid(self, sender, funds, i, fee, price, quote, qsize, size, base="base"):
        return self.ex(sender, funds, "create_bid", enc(i), enc(base), opt(fee, coin), enc(price), enc(quote), qsize, size)

    def approve(self, sender, funds, i, base, size):
        return self.ex(sender, funds, "approve_ask", enc(i), enc(base), size)

    def match(self, sender, a, b, price, size, funds=()):
        return self.ex(sender, list(funds), "execute_match", enc(a), enc(b), enc(price), size)

    def rev(self, kind, sender, i, size="none", funds=(), probe=False):
        if kind.startswith("reject"):
            return self.ex(sender, list(funds), kind, enc(i), "-" if size in ("none", None) else size, probe=probe)
        return self.ex(sender, list(funds), kind, enc(i), probe=probe)

    def modify(self, sender, funds=(), approvers=None, executors=None, afr=None, afa=None, bfr=None, bfa=None,
               aattrs=None, battrs=None):
        return self.ex(sender, list(funds), "modify_contract", optlist(approvers), optlist(executors), opt(afr),
                       opt(afa), opt(bfr), opt(bfa), optlist(aattrs), optlist(battrs))

    def migrate(self, approvers=None, afr=None, afa=None, bfr=None, bfa=None, aattrs=None, battrs=None, probe=False):
        self.lines.append("%s %s %s %s %s %s %s %s" % ("PMIGRATE" if probe else "MIGRATE", optlist(approvers), opt(afr),
                                                       opt(afa), opt(bfr), opt(bfa), optlist(aattrs), optlist(battrs)))
        return self

    def query(self, kind, i=None):
        self.lines.append("QUERY %s%s" % (kind, "" if i is None else " " + enc(i)))
        return self

    def exits(self, owner_a=None, owner_b=None, a=A1, b=B1):
        if owner_a:
            self.rev("cancel_ask", owner_a, a, probe=True)
            self.rev("expire_ask", "exec", a, probe=True)
        if owner_b:
            self.rev("cancel_bid", owner_b, b, probe=True)
            self.rev("expire_bid", "exec", b, probe=True)
        return self

    def write(self, sub=""):
        d = os.path.join(ROOT, "corpus", sub)
        os.makedirs(d, exist_ok=True)
        with open(os.path.join(d, self.name + ".hist"), "w") as f:
            f.write("\n".join(self.lines) + "\n")


def rhu(x):
    return x


def main():
    # D1: partial reject of an approved convertible ask, then cancel: the approver gets 4 + 6, not 4 + 10
    H("d1_reject_then_cancel", "D1 partial reject then cancel of an approved convertible ask").env().inst() \
        .create_ask("seller", [(10, "cv")], A1, "cv", "q", "2", 10).approve("appr", [(10, "base")], A1, "base", 10) \
        .rev("reject_ask", "exec", A1, 4).exits(owner_a="seller").rev("cancel_ask", "seller", A1) \
        .query("get_ask", A1).write()
    # D2: fee 1 on a bid of 10; match at the improved price 4 (actual fee rounds to 0): the 1 must be refunded
    H("d2_zero_fee_refund", "D2 price-improved fill whose actual bid fee rounds to zero").env() \
        .inst(bfr="0.1", bfa="feeb").create_bid("buyer", [(11, "q")], B1, (1, "q"), "10", "q", 10, 1) \
        .create_ask("seller", [(1, "base")], A1, "base", "q", "4", 1).match("exec", A1, B1, "4", 1) \
        .query("get_bid", B1).write()
    # D3: increment 10, bid and ask 20 @ 2, match 15 (not a lot multiple): the 5-unit remainders must exit
    H("d3_offgrid_exit", "D3 exits after a fill that is not a lot multiple").env().inst(increment=10) \
        .create_bid("buyer", [(40, "q")], B1, None, "2", "q", 40, 20).create_ask("seller", [(20, "base")], A1, "base", "q", "2", 20) \
        .match("exec", A1, B1, "2", 15).exits(owner_a="seller", owner_b="buyer") \
        .rev("reject_bid", "exec", B1, 5).rev("reject_ask", "exec", A1, 3).rev("expire_ask", "exec", A1).write()
    # D4: convertible denom restricted, base not: base must reach the buyer by bank send
    for name, mk in (("d4_conv_restricted", {"cv": "R", "base": "U"}), ("d4_base_restricted", {"base": "R"}),
                     ("d4_quote_restricted", {"q": "R", "cv": "R"})):
        h = H(name, "D4 mixed marker types on a convertible match").env(markers=mk).inst()
        h.create_ask("seller", [] if mk.get("cv") == "R" else [(10, "cv")], A1, "cv", "q", "2", 10)
        h.approve("appr", [] if mk.get("base") == "R" else [(10, "base")], A1, "base", 10)
        h.create_bid("buyer", [] if mk.get("q") == "R" else [(20, "q")], B1, None, "2", "q", 20, 10)
        h.match("exec", A1, B1, "2", 4).exits(owner_a="seller", owner_b="buyer").match("exec", A1, B1, "2", 6).write()
    # D6: configuration change with funds attached must be refused
    H("d6_modify_with_funds", "D6 modify_contract with attached funds").env().inst() \
        .modify("exec", funds=[(77, "q")]).modify("exec").query("get_contract_info").write()
    # D7: ask fee rate 1: the fee takes the whole proceeds; no zero-coin message, restricted quote included
    for name, mk in (("d7_fee_takes_all", {}), ("d7_fee_takes_all_restricted", {"q": "R"})):
        h = H(name, "D7 ask fee equal to the gross proceeds").env(markers=mk).inst(afr="1", afa="feea")
        h.create_ask("seller", [(5, "base")], A1, "base", "q", "3", 5)
        h.create_bid("buyer", [] if mk else [(15, "q")], B1, None, "3", "q", 15, 5)
        h.match("exec", A1, B1, "3", 5).write()
    # seeded-change scenarios that random generation reaches rarely
    H("c17_fee_account_cleared", "bid fee configuration cleared by migrate while a fee-bearing bid is open").env() \
        .inst(bfr="0.1", bfa="feeb").create_bid("buyer", [(110, "q")], B1, (10, "q"), "10", "q", 100, 10) \
        .create_ask("seller", [(10, "base")], A1, "base", "q", "10", 10).match("exec", A1, B1, "10", 4) \
        .migrate(bfr="", bfa="").match("exec", A1, B1, "10", 6).exits(owner_a="seller", owner_b="buyer").write()
    H("c11_base_listed_convertible", "the base denomination is also listed as convertible").env() \
        .inst(conv=("base", "cv")).create_ask("seller", [(3, "base")], A1, "base", "q", "2", 3) \
        .create_ask("seller", [(3, "cv")], A2, "cv", "q", "2", 3).query("get_ask", A1).exits(owner_a="seller").write()
    H("c14_unnormalised_override", "migrate overrides written in non-normal decimal form").env().inst() \
        .migrate(afr="0.030", afa="feea", bfr="+0.50", bfa="feeb").migrate(afr="0.030", afa="feea", bfr="+0.50", bfa="feeb", probe=True) \
        .query("get_contract_info").write()
    H("c13_increment_not_multiple", "instantiate with increments that are not multiples of 10^precision").env() \
        .inst(precision=2, increment=150).inst(precision=2, increment=101).inst(precision=1, increment=15) \
        .inst(precision=3, increment=999).inst(precision=2, increment=200).write()
    h = H("c13_half_empty_fee_pairs", "fee pairs with exactly one empty string").env()
    for afr, afa in (("", "feea"), ("0.1", ""), ("", ""), ("0.1", "feea"), ("abc", "feea"), ("0.1", "X")):
        h.inst(afr=afr, afa=afa)
        h.inst(bfr=afr, bfa=afa)
    h.write()
    H("c05_shared_id_across_sides", "an ask and a bid open under the same id").env().inst() \
        .create_ask("seller", [(5, "base")], A1, "base", "q", "2", 5).create_bid("buyer", [(10, "q")], A1, None, "2", "q", 10, 5) \
        .rev("cancel_bid", "seller", A1).rev("cancel_ask", "buyer", A1).exits(owner_a="seller", owner_b="buyer", a=A1, b=A1) \
        .rev("cancel_bid", "buyer", A1).rev("cancel_ask", "seller", A1).write()
    H("c05_executor_removed", "executors-only configuration change, then the removed executor acts").env() \
        .inst(executors=("exec", "exec2")).create_bid("buyer", [(10, "q")], B1, None, "2", "q", 10, 5) \
        .modify("exec", executors=["exec"]).rev("expire_bid", "exec2", B1).modify("exec2", executors=["exec2"]) \
        .rev("expire_bid", "exec", B1).write()
    H("c03_price_off_by_a_hair", "execution prices that only round to a limit price").env().inst(precision=2, increment=100) \
        .create_ask("seller", [(1000, "base")], A1, "base", "q", "2", 1000).create_bid("buyer", [(2000, "q")], B1, None, "2.00", "q", 2000, 1000) \
        .match("exec", A1, B1, "1.996", 500).match("exec", A1, B1, "2.004", 500).match("exec", A1, B1, "2.0000", 500) \
        .create_ask("seller", [(1000, "base")], A2, "base", "q", "1.5", 1000).create_bid("buyer", [(2500, "q")], B2, None, "2.5", "q", 2500, 1000) \
        .match("exec", A2, B2, "1.504", 500).match("exec", A2, B2, "2.496", 500).match("exec", A2, B2, "2", 500).match("exec", A2, B2, "1.50", 500).write()
    H("c01_fractional_refund_closing", "fills at the ask price whose size makes bid price * size fractional, closing the bid").env() \
        .inst(precision=1, increment=10).create_bid("buyer", [(50, "q")], B1, None, "2.5", "q", 50, 20) \
        .create_ask("seller", [(20, "base")], A1, "base", "q", "2", 20).match("exec", A1, B1, "2", 5).match("exec", A1, B1, "2.0", 15) \
        .match("exec", A1, B1, "2", 4).exits(owner_a="seller", owner_b="buyer").write()
    H("c04_sub_lot_remainder", "partial reject leaving less than one lot after an off-grid fill").env().inst(increment=100) \
        .create_bid("buyer", [(600, "q")], B1, None, "2", "q", 600, 300).create_ask("seller", [(300, "base")], A1, "base", "q", "2", 300) \
        .match("exec", A1, B1, "2", 150).rev("reject_bid", "exec", B1, 100).exits(owner_b="buyer").rev("reject_ask", "exec", A1, 100) \
        .exits(owner_a="seller").rev("cancel_bid", "buyer", B1).write()
    H("c06_zero_fee_coin_no_fee_config", "a bid carrying an explicit zero fee coin while no bid fee is configured").env().inst() \
        .create_bid("buyer", [(10, "q")], B1, (0, "q"), "2", "q", 10, 5).exits(owner_b="buyer").rev("reject_bid", "exec", B1, 2) \
        .rev("cancel_bid", "buyer", B1).write()
    H("c11_huge_sizes", "sizes at and above 2^64").env().inst() \
        .create_bid("buyer", [(2 * (2 ** 64 + 5000), "q")], B1, None, "2", "q", 2 * (2 ** 64 + 5000), 2 ** 64 + 5000) \
        .create_ask("seller", [(2 ** 64 + 5000, "base")], A1, "base", "q", "2", 2 ** 64 + 5000) \
        .match("exec", A1, B1, "2", 2 ** 64 + 1000).exits(owner_a="seller", owner_b="buyer").match("exec", A1, B1, "2", 4000).write()
    H("c12_rate_with_more_decimals", "fee rate changes that round to the stored rate").env().inst(afr="0.01", afa="feea", bfr="0.01", bfa="feeb") \
        .create_ask("seller", [(5, "base")], A1, "base", "q", "2", 5).create_bid("buyer", [(10, "q")], B1, None, "2", "q", 10, 5) \
        .modify("exec", afr="0.0125", afa="feea").modify("exec", afr="0.00999", afa="feea").modify("exec", afr="0.010", afa="feea") \
        .modify("exec", bfr="0.014", bfa="feeb").modify("exec", bfr="0.0100", bfa="feeb").query("get_contract_info").write()
    # overlapping denominations: the base also a quote, a convertible ask quoted in the base, mixed marker types
    for mk, tag in (({"base": "R", "cv": "U"}, "base_restricted"), ({"base": "U", "cv": "R"}, "cv_restricted")):
        H("c10_base_as_quote_" + tag, "base denomination also a quote; convertible ask quoted in it; " + tag).env(markers=mk) \
            .inst(quotes=("q", "base"), afr="0.1", afa="feea", bfr="0.1", bfa="feeb") \
            .create_ask("seller", [] if mk["cv"] == "R" else [(10, "cv")], A1, "cv", "base", "2", 10) \
            .approve("appr", [] if mk["base"] == "R" else [(10, "base")], A1, "base", 10) \
            .create_bid("buyer", [] if mk["base"] == "R" else [(22, "base")], B1, (2, "base"), "2", "base", 20, 10) \
            .match("exec", A1, B1, "2", 4).exits(owner_a="seller", owner_b="buyer").match("exec", A1, B1, "2", 6).write()
    H("c07_duplicate_attributes", "required attribute lists with repeats; accounts holding a name twice") \
        .env(attrs={"seller": ["kyc", "kyc"], "buyer": ["kyc", "kyc"], "other": ["kyc", "acc"]}) \
        .inst(aattrs=("kyc", "acc"), battrs=("kyc", "acc")) \
        .create_ask("seller", [(5, "base")], A1, "base", "q", "2", 5).create_bid("buyer", [(10, "q")], B1, None, "2", "q", 10, 5) \
        .create_ask("other", [(5, "base")], A2, "base", "q", "2", 5).create_bid("other", [(10, "q")], B2, None, "2", "q", 10, 5) \
        .modify("exec", aattrs=["kyc", "kyc"], battrs=["kyc", "kyc"]) \
        .create_ask("seller", [(5, "base")], A1, "base", "q", "2", 5).create_bid("buyer", [(10, "q")], B1, None, "2", "q", 10, 5).write()
    H("c05_same_id_cancel_roles", "one id open on both sides with different owners; every cancel by either owner") \
        .env().inst().create_ask("seller", [(5, "base")], A1, "base", "q", "2", 5) \
        .create_bid("buyer", [(10, "q")], A1, None, "2", "q", 10, 5) \
        .rev("cancel_bid", "seller", A1, probe=True).rev("cancel_ask", "buyer", A1, probe=True) \
        .rev("cancel_bid", "buyer", A1, probe=True).rev("cancel_ask", "seller", A1, probe=True) \
        .rev("cancel_bid", "seller", A1).rev("cancel_bid", "buyer", A1).rev("cancel_ask", "seller", A1).write()
    H("c16_c17_id_spellings", "orders addressed by other spellings of their id").env().inst() \
        .create_ask("seller", [(5, "base")], A1, "base", "q", "2", 5).create_bid("buyer", [(10, "q")], B1, None, "2", "q", 10, 5) \
        .query("get_ask", A1.replace("-", "")).query("get_ask", A1.upper()).query("get_ask", "urn:uuid:" + A1) \
        .query("get_bid", B1.replace("-", "")).query("get_bid", "{" + B1 + "}") \
        .rev("reject_ask", "exec", A1.upper(), 2).rev("expire_ask", "exec", A1.replace("-", "")) \
        .rev("reject_bid", "exec", "urn:uuid:" + B1, 2).rev("cancel_bid", "buyer", "{" + B1 + "}").rev("cancel_ask", "seller", A1.upper()) \
        .match("exec", A1.upper(), B1, "2", 1).match("exec", A1, B1.replace("-", ""), "2", 1).write()
    H("c13_rate_spellings", "fee rates in spellings only some parsers accept").env().inst(afr="2.5e-3", afa="feea") \
        .inst(bfr="1E-2", bfa="feeb").inst(afr="1e0", afa="feea").inst(afr=".5", afa="feea").inst(afr="5.", afa="feea") \
        .inst(afr="0.5_", afa="feea").inst(afr="0_5", afa="feea").inst(afr="+.5", afa="feea").inst(afr="0.01", afa="feea") \
        .modify("exec", afr="1e-2", afa="feea").modify("exec", bfr="2.5E-3", bfa="feeb") \
        .inst(afr="0.02 ", afa="feea").inst(bfr=" 0.02", bfa="feeb").inst(afr="\t0.01", afa="feea").inst(afr="0.0 1", afa="feea").write()
    H("c12_rate_with_empty_account", "a fee rate supplied with an empty account while orders are open").env() \
        .inst(afr="0.01", afa="feea", bfr="0.01", bfa="feeb") \
        .create_ask("seller", [(5, "base")], A1, "base", "q", "2", 5).create_bid("buyer", [(10, "q")], B1, None, "2", "q", 10, 5) \
        .modify("exec", afr="0.01", afa="").modify("exec", afr="0.010", afa="").modify("exec", bfr="0.01", bfa="") \
        .modify("exec", afr="0.5", afa="").modify("exec", afr="", afa="feea").modify("exec", afr=" 0.01", afa="feea") \
        .query("get_contract_info").match("exec", A1, B1, "2", 5).write()
    H("c00_before_instantiation", "every kind of request before the contract is instantiated").env() \
        .create_ask("seller", [(5, "base")], A1, "base", "q", "2", 5).create_bid("buyer", [(10, "q")], B1, None, "2", "q", 10, 5) \
        .approve("appr", [(5, "base")], A1, "base", 5).rev("cancel_ask", "seller", A1).rev("expire_bid", "exec", B1) \
        .rev("reject_ask", "exec", A1, 1).match("exec", A1, B1, "2", 5).modify("exec") \
        .query("get_contract_info").query("get_version_info").query("get_ask", A1).query("get_bid", B1).migrate() \
        .inst().create_ask("seller", [(5, "base")], A1, "base", "q", "2", 5).query("get_contract_info").write()
    # migration of a legacy book: V2 bids whose logs hold fills, rejects with fee, refunds, two identical adjacent
    # events; current-format bids whose ids sort before and after them; legacy-id asks; then exits and a fill
    V2A, V2B, V2C = "30000000-0000-4000-8000-000000000001", "50000000000040008000000000000002", "70000000-0000-4000-8000-000000000003"
    V3A, V3B = "20000000-0000-4000-8000-00000000000a", "60000000-0000-4000-8000-00000000000b"
    for ver in ("0.16.2", "0.18.2", "0.19.0", "0.19.1", "0.16.1"):
        h = H("c15_legacy_book_" + ver.replace(".", "_"), "migration of a mixed legacy book from " + ver + " migration").env()
        h.lines += [
            "SEEDCFG ats ~ base cv q appr exec feea=0.01 feeb=0.1 [] [] 0 10",
            "SEEDVER ats_smart_contract " + ver,
            "SEEDASK %s %s seller basic base q 2 100" % (enc(A1.replace("-", "")), enc(A1.replace("-", ""))),
            "SEEDASK %s %s seller ready:appr:base:50 cv q 2 50" % (enc(A2), enc(A2)),
            "SEEDBID3 %s %s buyer base 100 0 q 200 0 20:q 0 2" % (enc(V3A), enc(V3A)),
            "SEEDBID2 %s %s buyer base 100 q 200 20:q 2 F:20:40:4;J:30:60:6" % (enc(V2A), enc(V2A)),
            "SEEDBID2 %s %s buyer2 base 100 q 200 20:q 2 F:10:10:1;R:10:1;F:10:20:2;F:10:20:2" % (enc(V2B), enc(V2B)),
            "SEEDBID3 %s %s buyer base 100 50 q 200 100 20:q 10 2" % (enc(V3B), enc(V3B)),
            "SEEDBID2 %s %s buyer2 base 100 q 200 - 2 J:10:20:-;J:10:20:-" % (enc(V2C), enc(V2C)),
        ]
        h.migrate().migrate(probe=True).query("get_version_info")
        for i in (V2A, V2B, V2C, V3A, V3B):
            h.query("get_bid", i)
        for i, o in ((V2A, "buyer"), (V2B, "buyer2"), (V2C, "buyer2"), (V3A, "buyer"), (V3B, "buyer")):
            h.rev("cancel_bid", o, i, probe=True).rev("expire_bid", "exec", i, probe=True)
        h.rev("cancel_ask", "seller", A1.replace("-", ""), probe=True).rev("expire_ask", "exec", A2, probe=True)
        h.match("exec", A2, V2A, "2", 20).rev("reject_bid", "exec", V2A, 10).rev("cancel_bid", "buyer", V2A)
        h.match("exec", A2, V2C, "2", 10).rev("reject_bid", "exec", V2B, 10).rev("cancel_bid", "buyer2", V2B).write()
    h = H("c00_numbers_beyond_u128", "numerals at and beyond 2^128-1 in every numeric field").env(markers={"base": "R"})
    h.inst(quotes=("q", "base"))
    BIG = 2 ** 128
    h.create_ask("seller", [], A1, "base", "q", "2", BIG).create_ask("seller", [], A1, "base", "q", "2", BIG - 1) \
        .create_ask("seller", [], A2, "base", "q", "2", 10 ** 43).rev("reject_ask", "exec", A1, BIG) \
        .create_bid("buyer", [(BIG, "q")], B1, None, "1", "q", 5, 5).create_bid("buyer", [(5, "q")], B1, None, "1", "q", BIG, 5) \
        .create_bid("buyer", [(5, "q")], B1, (BIG, "q"), "1", "q", 5, 5).match("exec", A1, B1, "2", BIG) \
        .approve("appr", [], A1, "base", BIG).rev("cancel_ask", "seller", A1).write()
    CAP = 2 ** 96
    h = H("c13_increment_huge", "size increments at and beyond 2^96, multiples of 10^precision or just off").env()
    for pp, inc in ((1, CAP), (1, CAP + 5), (1, 10 * (CAP // 10 + 1)), (2, 2 ** 100), (18, 2 ** 127 + 1), (0, CAP), (2, 2 ** 64 + 1),
                    (1, 2 ** 128 - 1), (3, 10 ** 28 + 100), (3, 10 ** 28 * 3)):
        h.inst(precision=pp, increment=inc)
    h.write()
    h = H("c07_amounts_at_capacity", "bids whose size / total sit at the 96-bit capacity, consistent only if conversions saturate").env()
    h.inst(bfr="0.01", bfa="feeb")
    for size, qs, funds, fee in ((CAP, CAP - 1, CAP - 1, None), (CAP, CAP - 1, CAP - 1 + rhu((CAP - 1) // 100), "auto"), (CAP - 1, CAP, CAP - 1, None),
                                 (CAP - 1, CAP - 1, CAP - 1, None), (CAP, CAP, CAP, None), (10 * 2 ** 120, CAP - 1, CAP - 1, None)):
        f = ((CAP - 1 + 50) // 100, "q") if fee == "auto" else None
        h.create_bid("buyer", [(funds if f is None else CAP - 1 + f[0], "q")], B1, f, "1", "q", qs, size)
    h.create_ask("seller", [(CAP, "base")], A1, "base", "q", "1", CAP).create_ask("seller", [(CAP - 1, "base")], A2, "base", "q", "1", CAP - 1) \
        .rev("cancel_ask", "seller", A1, probe=True).write()
    H("c03_fee_coin_without_fee_config", "bids carrying a fee coin matched while no bid fee is configured").env().inst() \
        .create_bid("buyer", [(10, "q")], B1, (0, "q"), "2", "q", 10, 5).create_ask("seller", [(5, "base")], A1, "base", "q", "2", 5) \
        .match("exec", A1, B1, "2", 2).match("exec", A1, B1, "2", 3).write()
    h = H("c03_fee_cleared_by_migration", "a fee-bearing bid rests while a migration clears the bid fee; small and large fills migration").env()
    h.lines += ["SEEDCFG ats ~ base cv q appr exec - feeb=0.01 [] [] 0 1", "SEEDVER ats_smart_contract 0.19.1",
                "SEEDBID3 %s %s buyer base 1000 0 q 1000 0 10:q 0 1" % (enc(B1), enc(B1)),
                "SEEDASK %s %s seller basic base q 1 1000" % (enc(A1), enc(A1))]
    h.migrate(bfr="", bfa="").query("get_contract_info").match("exec", A1, B1, "1", 40).match("exec", A1, B1, "1", 460) \
        .exits(owner_a="seller", owner_b="buyer").write()
    H("c12_lists_with_repetitions", "approver and executor lists that repeat a kept entry in place of a dropped one").env() \
        .inst(approvers=("appr", "appr2"), executors=("exec", "exec2")) \
        .create_bid("buyer", [(10, "q")], B1, None, "2", "q", 10, 5) \
        .modify("exec", approvers=["appr", "appr"]).modify("exec", approvers=["appr", "appr2", "appr"]) \
        .modify("exec", approvers=["appr2", "appr2", "appr2"]).modify("exec", executors=["exec", "exec"]) \
        .rev("expire_bid", "exec2", B1, probe=True).query("get_contract_info").write()
    H("c07_fee_in_another_denomination", "a bid fee named in another traded quote, the base or an unknown denomination").env(markers={"q2": "R"}) \
        .inst(quotes=("q", "q2"), bfr="0.1", bfa="feeb") \
        .create_bid("buyer", [(1100, "q")], B1, (100, "q2"), "1", "q", 1000, 1000).create_bid("buyer", [(1100, "q")], B1, (100, "base"), "1", "q", 1000, 1000) \
        .create_bid("buyer", [], B1, (100, "q"), "1", "q2", 1000, 1000).create_bid("buyer", [], B2, (100, "q2"), "1", "q2", 1000, 1000) \
        .create_bid("buyer", [(1100, "q")], B1, (100, "q"), "1", "q", 1000, 1000) \
        .create_ask("seller", [(1000, "base")], A1, "base", "q2", "1", 1000).match("exec", A1, B2, "1", 500).write()
    H("c02_rate_beyond_18_decimals", "fee rates with more than 18 decimals whose product sits a hair below a tie").env() \
        .inst(afr="0.4999999999999999999", afa="feea", bfr="0.04999999999999999999", bfa="feeb") \
        .create_ask("seller", [(30, "base")], A1, "base", "q", "1", 30).create_bid("buyer", [(31, "q")], B1, (1, "q"), "1", "q", 30, 30) \
        .match("exec", A1, B1, "1", 1).match("exec", A1, B1, "1", 3).match("exec", A1, B1, "1", 10).exits(owner_a="seller", owner_b="buyer") \
        .create_bid("buyer", [(10, "q")], B2, None, "1", "q", 10, 10).create_bid("buyer", [(10, "q")], B2, (0, "q"), "1", "q", 10, 10) \
        .modify("exec", afr="0.000833333333333333333", afa="feea").write()
    H("c02_rate_truncated_fraction", "rate 1/1200 written to 21 places against a match worth 600").env() \
        .inst(afr="0.000833333333333333333", afa="feea") \
        .create_ask("seller", [(1800, "base")], A1, "base", "q", "1", 1800).create_bid("buyer", [(1800, "q")], B1, None, "1", "q", 1800, 1800) \
        .match("exec", A1, B1, "1", 600).match("exec", A1, B1, "1", 1200).write()
    H("c09_fee_product_association", "a bid fee whose rate and price together need more than 28 decimals, near a tie").env() \
        .inst(precision=18, increment=10 ** 18, bfr="0.000000000025", bfa="feeb") \
        .create_bid("buyer", [(8750000220000000003 + 218750006, "q")], B1, (218750006, "q"), "1.250000031428571429", "q", 8750000220000000003, 7 * 10 ** 18) \
        .create_bid("buyer", [(8750000220000000003 + 218750005, "q")], B2, (218750005, "q"), "1.250000031428571429", "q", 8750000220000000003, 7 * 10 ** 18) \
        .exits(owner_b="buyer").write()
    H("c12_rate_beyond_18_decimals", "a new rate that equals the configured one in its first 18 decimals only").env() \
        .inst(afr="0.01", afa="feea", bfr="0.01", bfa="feeb") \
        .create_ask("seller", [(5, "base")], A1, "base", "q", "2", 5).create_bid("buyer", [(10, "q")], B1, None, "2", "q", 10, 5) \
        .modify("exec", afr="0.0100000000000000004", afa="feea").modify("exec", bfr="0.01000000000000000049", bfa="feeb") \
        .modify("exec", afr="0.0100000000000000000", afa="feea").modify("exec", afr="0.01000000000000000000000000004", afa="feea") \
        .query("get_contract_info").write()
    H("c03_c08_denominations_inside_one_another", "quote and base names that contain one another").env(markers={"hash": "R"}) \
        .inst(base="nhash.usd", conv=("cv", "usd"), quotes=("nhash", "hash")) \
        .create_ask("seller", [(100, "nhash.usd")], A1, "nhash.usd", "nhash", "2", 100).create_bid("buyer", [], B1, None, "2", "hash", 200, 100, base="nhash.usd") \
        .match("exec", A1, B1, "2", 100).create_bid("buyer", [(200, "nhash")], B2, None, "2", "nhash", 200, 100, base="nhash.usd") \
        .create_ask("seller", [(100, "cv")], A2, "cv", "hash", "2", 100).approve("appr", [(100, "usd")], A2, "usd", 100) \
        .approve("appr", [(100, "nhash")], A2, "nhash", 100).approve("appr", [(100, "nhash.usd")], A2, "nhash.usd", 100) \
        .match("exec", A2, B2, "2", 100).match("exec", A2, B1, "2", 100).write()
    H("c05_senders_in_another_case", "privileged requests from accounts that differ from the entitled one in letter case only").env().inst() \
        .create_ask("seller", [(5, "base")], A1, "base", "q", "2", 5).create_bid("buyer", [(10, "q")], B1, None, "2", "q", 10, 5) \
        .create_ask("seller", [(5, "cv")], A2, "cv", "q", "2", 5) \
        .rev("cancel_bid", "BUYER", B1).rev("cancel_ask", "Seller", A1).rev("expire_bid", "EXEC", B1).rev("reject_ask", "Exec", A1, 1) \
        .match("EXEC", A1, B1, "2", 5).modify("EXEC", executors=["exec", "mallory"]).approve("APPR", [(5, "base")], A2, "base", 5).write()
    H("c13_precision_modulo", "price precisions that are small only modulo 2^32 or 2^64").env() \
        .inst(precision=2 ** 32 + 2, increment=100).inst(precision=2 ** 32, increment=1).inst(precision=7 * 2 ** 32 + 18, increment=10 ** 18) \
        .inst(precision=2 ** 64 + 6, increment=3000000).inst(precision=256, increment=1).inst(precision=2 ** 127, increment=1).inst(precision=2, increment=100).write()
    for ver in ("0.19.0+hotfix.1", "0.16.2+x", "0.19.1+x"):
        h = H("c14_build_metadata_" + ver.replace(".", "_").replace("+", "_"), "migration from a version with build metadata: " + ver + " migration").env()
        h.lines += ["SEEDCFG ats ~ base cv q appr exec - feeb=0.1 [] [] 0 10", "SEEDVER ats_smart_contract " + ver,
                    "SEEDBID2 %s %s buyer base 100 q 200 20:q 2 F:20:40:4" % (enc(B1), enc(B1)),
                    "SEEDASK %s %s seller basic base q 2 100" % (enc(A1), enc(A1))]
        h.migrate().query("get_version_info").query("get_bid", B1).rev("cancel_bid", "buyer", B1, probe=True).match("exec", A1, B1, "2", 10).write()
    h = H("c06_c15_legacy_ids_in_other_spellings", "legacy orders stored under upper-case, braced and urn ids; a foreign base denomination migration").env(markers={"base": "R"})
    U1, U2, U3 = B1.upper(), "{" + B2 + "}", "urn:uuid:" + A2
    h.lines += ["SEEDCFG ats ~ base cv q appr exec - feeb=0.1 [] [] 0 10", "SEEDVER ats_smart_contract 0.18.2",
                "SEEDBID2 %s %s buyer base 100 q 200 20:q 2 F:20:40:4" % (enc(U1), enc(U1)),
                "SEEDBID2 %s %s buyer2 base 100 q 200 20:q 2 J:30:60:6" % (enc(U2), enc(U2)),
                "SEEDBID2 %s %s buyer oldbase 100 q 200 - 2 []" % (enc(B1.replace("0", "1")), enc(B1.replace("0", "1"))),
                "SEEDASK %s %s seller basic base q 2 100" % (enc(U3), enc(U3)),
                "SEEDASK %s %s seller ready:appr:base:50 cv q 2 50" % (enc(A1), enc(A1))]
    h.migrate().query("get_bid", U1).query("get_bid", B1).query("get_bid", U2).query("get_ask", U3).query("get_ask", A2)
    for i, o in ((U1, "buyer"), (U2, "buyer2"), (B1, "buyer"), (B1.replace("0", "1"), "buyer")):
        h.rev("cancel_bid", o, i, probe=True).rev("expire_bid", "exec", i, probe=True)
    h.rev("cancel_ask", "seller", U3, probe=True).rev("expire_ask", "exec", U3, probe=True).rev("reject_bid", "exec", U1, 10).rev("cancel_bid", "buyer", U1) \
        .match("exec", A1, B1.replace("0", "1"), "2", 10).write()
    # a legacy book larger than any page size a batched migration might use: 128 event-log bids with current-format bids
    # among them (the 11th and the 70th key), migrated from 0.19.0 and from 0.18.2
    for ver in ("0.19.0", "0.18.2"):
        h = H("c15_large_legacy_book_" + ver.replace(".", "_"), "a legacy book of 130 bids migration").env()
        h.lines += ["SEEDCFG ats ~ base cv q appr exec - feeb=0.1 [] [] 0 10", "SEEDVER ats_smart_contract " + ver]
        keys = ["%08x-0000-4000-8000-%012x" % (0x10000000 + 7919 * i, i) for i in range(130)]
        for n, k in enumerate(sorted(keys)):
            if n in (10, 69):
                h.lines.append("SEEDBID3 %s %s buyer base 100 0 q 200 0 20:q 0 2" % (enc(k), enc(k)))
            else:
                h.lines.append("SEEDBID2 %s %s buyer base 100 q 200 20:q 2 %s" % (enc(k), enc(k), "F:20:40:4" if n % 3 else "[]"))
        h.migrate()
        for n, k in enumerate(sorted(keys)):
            if n in (0, 9, 10, 11, 68, 69, 70, 99, 100, 101, 128, 129):
                h.query("get_bid", k).rev("cancel_bid", "buyer", k, probe=True)
        h.write()
    # a run of more than 100 current-format bids between legacy bids (a paged scan that stops at a page without legacy entries)
    h = H("c14_run_of_current_bids", "legacy bids before and after a run of 105 current-format bids migration").env()
    h.lines += ["SEEDCFG ats ~ base cv q appr exec - feeb=0.1 [] [] 0 10", "SEEDVER ats_smart_contract 0.19.0"]
    keys = sorted("%08x-0000-4000-8000-%012x" % (0x10000000 + 7919 * i, i) for i in range(112))
    for n, k in enumerate(keys):
        if n in (0, 1, 108, 109, 110, 111):
            h.lines.append("SEEDBID2 %s %s buyer base 100 q 200 20:q 2 F:20:40:4" % (enc(k), enc(k)))
        else:
            h.lines.append("SEEDBID3 %s %s buyer base 100 0 q 200 0 20:q 0 2" % (enc(k), enc(k)))
    h.migrate()
    for n in (0, 1, 2, 107, 108, 109, 111):
        h.query("get_bid", keys[n]).rev("cancel_bid", "buyer", keys[n], probe=True)
    h.write()
    NIL = "00000000-0000-0000-0000-000000000000"
    H("c06_c16_nil_uuid", "orders under the nil uuid and the all-f uuid: queries and every exit").env() \
        .inst(bfr="0.1", bfa="feeb").create_ask("seller", [(30, "cv")], NIL, "cv", "q", "2", 30).approve("appr", [(30, "base")], NIL, "base", 30) \
        .create_bid("buyer", [(132, "q")], NIL, (12, "q"), "2", "q", 120, 60).query("get_ask", NIL).query("get_bid", NIL) \
        .query("get_ask", NIL.replace("-", "")).match("exec", NIL, NIL, "2", 10).exits(owner_a="seller", owner_b="buyer", a=NIL, b=NIL) \
        .rev("reject_bid", "exec", NIL, 10).rev("reject_ask", "exec", NIL, 10).rev("cancel_bid", "buyer", NIL).rev("cancel_ask", "seller", NIL) \
        .create_bid("buyer", [(22, "q")], "ffffffff-ffff-ffff-ffff-ffffffffffff", (2, "q"), "2", "q", 20, 10).query("get_bid", "ffffffff-ffff-ffff-ffff-ffffffffffff") \
        .rev("expire_bid", "exec", "ffffffff-ffff-ffff-ffff-ffffffffffff").write()
    for code in ("Ra", "Rp", "Rc", "Rd"):
        H("c10_marker_variant_" + code, "a restricted marker with " + {"Ra": "required attributes", "Rp": "status proposed", "Rc": "status cancelled", "Rd": "status destroyed"}[code]).env(markers={"base": code, "q": code}) \
            .inst(afr="0.1", afa="feea", bfr="0.1", bfa="feeb") \
            .create_ask("seller", [], A1, "base", "q", "2", 10).create_ask("seller", [(10, "base")], A2, "base", "q", "2", 10) \
            .create_bid("buyer", [], B1, (2, "q"), "2", "q", 20, 10).create_bid("buyer", [(22, "q")], B2, (2, "q"), "2", "q", 20, 10) \
            .create_ask("seller", [(10, "cv")], A2, "cv", "q", "2", 10).approve("appr", [], A2, "base", 10) \
            .match("exec", A1, B1, "2", 4).exits(owner_a="seller", owner_b="buyer").rev("reject_bid", "exec", B1, 2).rev("cancel_ask", "seller", A2).write()
    h = H("c13_instantiate_with_funds", "instantiate called with funds attached").env()
    h.lines += ["INSTF 1:nhash admin ats base cv q appr exec - - - - [] [] 0 1"]
    h.create_ask("seller", [(5, "base")], A1, "base", "q", "2", 5).query("get_contract_info").write()
    h = H("c13_instantiate_with_funds_2", "instantiate called with several coins, incoherent and coherent").env()
    h.lines += ["INSTF 100:base,5:q admin ats base cv q appr exec - - - - [] [] 1 15", "INSTF 100:base,5:q admin ats base cv q appr exec - - - - [] [] 1 10",
                "INSTF 0:q admin ats base cv q appr exec - - - - [] [] 0 1"]
    h.query("get_contract_info").write()
    H("c03_zero_amount_coins", "requests that must carry no funds sent with zero-amount coins; approvals with an extra coin").env().inst() \
        .create_ask("seller", [(5, "base")], A1, "base", "q", "2", 5).create_bid("buyer", [(10, "q")], B1, None, "2", "q", 10, 5) \
        .create_ask("seller", [(5, "cv")], A2, "cv", "q", "2", 5) \
        .match("exec", A1, B1, "2", 1, funds=[(0, "q")]).rev("reject_bid", "exec", B1, 1, funds=[(0, "q")]).rev("expire_ask", "exec", A1, funds=[(0, "base")], probe=True) \
        .rev("cancel_bid", "buyer", B1, funds=[(0, "q"), (0, "base")], probe=True).modify("exec", funds=[(0, "q")]) \
        .approve("appr", [(5, "base"), (7, "q")], A2, "base", 5).approve("appr", [(5, "base"), (5, "base")], A2, "base", 5) \
        .approve("appr", [(5, "base"), (0, "q")], A2, "base", 5).approve("appr", [(5, "base")], A2, "base", 5) \
        .create_bid("buyer", [(10, "q"), (0, "base")], B2, None, "2", "q", 10, 5).create_ask("seller", [(5, "base"), (1, "q")], B2, "base", "q", "2", 5).write()
    H("c05_contract_as_sender", "privileged requests sent from the contract's own address").env().inst() \
        .create_ask("seller", [(5, "base")], A1, "base", "q", "2", 5).create_bid("buyer", [(10, "q")], B1, None, "2", "q", 10, 5) \
        .rev("expire_ask", "cosmos2contract", A1).rev("reject_bid", "cosmos2contract", B1, 1).rev("expire_bid", "cosmos2contract", B1) \
        .rev("reject_ask", "cosmos2contract", A1, 1).rev("cancel_ask", "cosmos2contract", A1).match("cosmos2contract", A1, B1, "2", 5) \
        .modify("cosmos2contract", executors=["cosmos2contract"]).write()
    H("c17_one_unit_left_of_a_huge_bid", "a reject leaving one unit of a bid near the decimal capacity").env().inst() \
        .create_bid("buyer", [(5 * 10 ** 28, "q")], B1, None, "1", "q", 5 * 10 ** 28, 5 * 10 ** 28) \
        .rev("reject_bid", "exec", B1, 5 * 10 ** 28 - 1).query("get_bid", B1).exits(owner_b="buyer").rev("reject_bid", "exec", B1, 1).write()
    H("c09_ask_fee_product_association", "an ask fee whose rate and price need more than 28 decimals together, near a tie").env() \
        .inst(precision=10, increment=10 ** 10, afr="0.1666666666666666666", afa="feea") \
        .create_ask("seller", [(10 ** 10, "base")], A1, "base", "q", "0.0000000003", 10 ** 10) \
        .create_bid("buyer", [(3, "q")], B1, None, "0.0000000003", "q", 3, 10 ** 10).match("exec", A1, B1, "0.0000000003", 10 ** 10).write()
    H("c02_prorata_near_tie", "a fill leaving 5/6 of the quote with fee 3: the share is 2.4999...9 in 28 digits").env() \
        .inst(bfr="0.005", bfa="feeb").create_bid("buyer", [(603, "q")], B1, (3, "q"), "2", "q", 600, 300) \
        .create_ask("seller", [(300, "base")], A1, "base", "q", "2", 300).match("exec", A1, B1, "2", 50).match("exec", A1, B1, "2", 50) \
        .match("exec", A1, B1, "2", 100).exits(owner_a="seller", owner_b="buyer").write()
    # pro-rata shares of exactly 7 1/2 whose 28-digit quotient is 7.4999...: adding one half does not fit 96 bits
    for tag, (total, rate, fee, rej) in (("fee9", (900, "0.01", 9, 150)), ("fee11", (1100, "0.01", 11, 350)), ("fee13", (1300, "0.01", 13, 550))):
        H("c04_share_seven_and_a_half_" + tag, "partial reject after which the fee share is exactly 7 1/2 (repeating quotient)").env() \
            .inst(bfr=rate, bfa="feeb").create_bid("buyer", [(total + fee, "q")], B1, (fee, "q"), "1", "q", total, total) \
            .rev("reject_bid", "exec", B1, rej).query("get_bid", B1) \
            .create_ask("seller", [(100, "base")], A1, "base", "q", "1", 100).match("exec", A1, B1, "1", 100).exits(owner_a="seller", owner_b="buyer").write()
    H("c02_share_seven_and_a_half_fill", "a fill after which the fee share is exactly 7 1/2").env() \
        .inst(bfr="0.01", bfa="feeb").create_bid("buyer", [(909, "q")], B1, (9, "q"), "1", "q", 900, 900) \
        .create_ask("seller", [(900, "base")], A1, "base", "q", "1", 900).match("exec", A1, B1, "1", 150).query("get_bid", B1) \
        .match("exec", A1, B1, "1", 100).exits(owner_a="seller", owner_b="buyer").write()
    # pro-rata shares a hair below / above one half (fee * unspent = k*quote + (quote -+ 1)/2): an intermediate rounding of the
    # share to fewer decimals turns them into ties and moves them by a whole unit
    from fractions import Fraction as _Fr
    from math import gcd as _gcd
    for tag, Q, rate in (("q3e11", 314159265359, "0.0025"), ("q1e13", 10000000000037, "0.003"), ("q2e11", 200000000003, "0.05")):
        fee = int(_Fr(rate) * Q + _Fr(1, 2))
        while _gcd(fee, Q) != 1:
            Q += 2
            fee = int(_Fr(rate) * Q + _Fr(1, 2))
        for side, target in (("below", (Q - 1) // 2), ("above", (Q + 1) // 2)):
            R = target * pow(fee, -1, Q) % Q
            if not 0 < R < Q:
                continue
            H("c09_share_just_%s_half_fill_%s" % (side, tag), "a fill after which the pro-rata fee share is within 1/(2*quote) %s one half" % side).env() \
                .inst(bfr=rate, bfa="feeb").create_bid("buyer", [(Q + fee, "q")], B1, (fee, "q"), "1", "q", Q, Q) \
                .create_ask("seller", [(Q, "base")], A1, "base", "q", "1", Q).match("exec", A1, B1, "1", Q - R).query("get_bid", B1) \
                .exits(owner_a="seller", owner_b="buyer").rev("cancel_bid", "buyer", B1).write()
            H("c09_share_just_%s_half_reject_%s" % (side, tag), "a partial reject after which the pro-rata fee share is within 1/(2*quote) %s one half" % side).env() \
                .inst(bfr=rate, bfa="feeb").create_bid("buyer", [(Q + fee, "q")], B1, (fee, "q"), "1", "q", Q, Q) \
                .rev("reject_bid", "exec", B1, Q - R).query("get_bid", B1) \
                .create_ask("seller", [(R, "base")], A1, "base", "q", "1", R).match("exec", A1, B1, "1", R).write()
    H("c09_share_just_below_half_two_fills", "two fills, the second leaving a share 1.6e-12 below one half").env() \
        .inst(bfr="0.0025", bfa="feeb").create_bid("buyer", [(314159265359 + 785398163, "q")], B1, (785398163, "q"), "1", "q", 314159265359, 314159265359) \
        .create_ask("seller", [(314159265359, "base")], A1, "base", "q", "1", 314159265359).match("exec", A1, B1, "1", 100000000000) \
        .match("exec", A1, B1, "1", 180569909942).query("get_bid", B1).rev("cancel_bid", "buyer", B1).write()
    H("c12_only_pending_asks", "fee changes while the ask side holds only asks awaiting approval").env().inst(afr="0.01", afa="feea") \
        .create_ask("seller", [(5, "cv")], A1, "cv", "q", "2", 5).modify("exec", afr="0.5", afa="feea").modify("exec", afr="", afa="") \
        .modify("exec", aattrs=["kyc"]).approve("appr", [(5, "base")], A1, "base", 5).modify("exec", afr="0.5", afa="feea").query("get_contract_info").write()
    # a book carried over from a release that left the approver amount stale after a partial reject (size 200, amount 300):
    # every way out and a fill
    for tag, steps in (("reject_expire", lambda h: h.rev("reject_ask", "exec", A1, 100).query("get_ask", A1).rev("expire_ask", "exec", A1)),
                       ("fill_cancel", lambda h: h.match("exec", A1, B1, "2", 100).query("get_ask", A1).rev("cancel_ask", "seller", A1)),
                       ("cancel", lambda h: h.query("get_ask", A1).rev("cancel_ask", "seller", A1))):
        h = H("c08_stale_approver_amount_" + tag, "a legacy approved ask whose approver amount is ahead of its size migration").env()
        h.lines += ["SEEDCFG ats ~ base cv q appr exec - - [] [] 0 100", "SEEDVER ats_smart_contract 0.19.1",
                    "SEEDASK %s %s seller ready:appr:base:300 cv q 2 200" % (enc(A1), enc(A1)),
                    "SEEDBID3 %s %s buyer base 200 0 q 400 0 - 0 2" % (enc(B1), enc(B1))]
        h.migrate()
        steps(h)
        h.write()
    h = H("c13_blank_names", "contract names made of blanks").env()
    for nm in (" ", "\t", "  ", " ats "):
        h.inst(name=nm)
    h.query("get_contract_info").write()
    for definition in ("def", "ats-smart-contract", "other_contract"):
        for ver in ("1.0.0", "0.18.2"):
            h = H("c14_foreign_definition_%s_%s" % (definition.replace("-", "_"), ver.replace(".", "_")), "a version record written under another contract name migration").env()
            h.lines += ["SEEDCFG ats ~ base cv q appr exec - feeb=0.1 [] [] 0 10", "SEEDVER %s %s" % (enc(definition), ver),
                        "SEEDBID2 %s %s buyer base 100 q 200 20:q 2 F:20:40:4" % (enc(B1), enc(B1)),
                        "SEEDASK %s %s seller basic base q 2 100" % (enc(A1), enc(A1))]
            h.migrate().query("get_version_info").migrate(probe=True).query("get_bid", B1).rev("cancel_bid", "buyer", B1, probe=True).write()
    LONG = "q" * 128
    H("c10_denomination_of_128_characters", "restricted markers whose names have 127, 128 and 129 characters").env(markers={LONG: "R", "q" * 127: "R", "q" * 129: "R", "base": "U"}) \
        .inst(quotes=("q", LONG, "q" * 127, "q" * 129)) \
        .create_bid("buyer", [], B1, None, "2", LONG, 10, 5).create_bid("buyer", [(10, LONG)], B2, None, "2", LONG, 10, 5) \
        .create_ask("seller", [(5, "base")], A1, "base", LONG, "2", 5).match("exec", A1, B1, "2", 2).match("exec", A1, B2, "2", 2) \
        .exits(owner_a="seller", owner_b="buyer").exits(owner_b="buyer", b=B2).rev("reject_bid", "exec", B2, 1).rev("cancel_bid", "buyer", B1) \
        .create_bid("buyer", [], B2, None, "2", "q" * 127, 10, 5).create_bid("buyer", [], A2, None, "2", "q" * 129, 10, 5).write()
    H("c07_verbatim_replay", "the very same creation sent twice, funds included").env().inst(bfr="0.01", bfa="feeb") \
        .create_bid("buyer", [(505, "q")], B1, (5, "q"), "2.5", "q", 500, 200).create_bid("buyer", [(505, "q")], B1, (5, "q"), "2.5", "q", 500, 200) \
        .create_bid("buyer", [(505, "q")], B1, (5, "q"), "2.50", "q", 500, 200) \
        .create_ask("seller", [(5, "base")], A1, "base", "q", "2", 5).create_ask("seller", [(5, "base")], A1, "base", "q", "2", 5) \
        .create_ask("seller", [(5, "cv")], A2, "cv", "q", "2", 5).create_ask("seller", [(5, "cv")], A2, "cv", "q", "2", 5).exits(owner_a="seller", owner_b="buyer").write()
    H("c06_comma_prices", "prices written with a decimal comma, with totals consistent with that reading").env().inst(precision=1, increment=10) \
        .create_bid("buyer", [(25, "q")], B1, None, "2,5", "q", 25, 10).create_ask("seller", [(10, "base")], A1, "base", "q", "2,5", 10) \
        .create_bid("buyer", [(25, "q")], B2, None, "2.5", "q", 25, 10).match("exec", A1, B2, "2,5", 10).exits(owner_b="buyer", b=B2).write()
    h = H("c03_approver_dropped_by_migration", "an approved ask whose approver a later migration leaves out of the approver list").env()
    h.inst(approvers=("appr", "appr2")).create_ask("seller", [(10, "cv")], A1, "cv", "q", "2", 10).approve("appr", [(10, "base")], A1, "base", 10) \
        .create_bid("buyer", [(20, "q")], B1, None, "2", "q", 20, 10).migrate(approvers=["appr2"]).query("get_contract_info") \
        .match("exec", A1, B1, "2", 4).exits(owner_a="seller", owner_b="buyer").rev("reject_ask", "exec", A1, 2).rev("cancel_ask", "seller", A1).write()
    h = H("c08_second_approval_after_approver_dropped", "a flawless second approval of an approved ask whose approver a migration has dropped").env()
    h.inst(approvers=("appr", "appr2")).create_ask("seller", [(10, "cv")], A1, "cv", "q", "2", 10).approve("appr", [(10, "base")], A1, "base", 10) \
        .migrate(approvers=["appr2"]).approve("appr2", [(10, "base")], A1, "base", 10).query("get_ask", A1) \
        .approve("appr", [(10, "base")], A1, "base", 10).exits(owner_a="seller", owner_b="buyer").rev("cancel_ask", "seller", A1).write()
    h = H("c05_c10_marker_access_list_names_the_sender", "a restricted base whose access list grants everything to every account: roles still come from the configuration")
    h.env(markers={"base": "Rx", "q": "Rx"}).inst().create_ask("seller", [(5, "cv")], A1, "cv", "q", "2", 5) \
        .approve("mallory", [], A1, "base", 5).approve("seller", [], A1, "base", 5).approve("exec", [], A1, "base", 5).approve("appr", [], A1, "base", 5) \
        .create_bid("buyer", [], B1, None, "2", "q", 10, 5).rev("expire_ask", "mallory", A1).rev("cancel_bid", "mallory", B1).match("mallory", A1, B1, "2", 5) \
        .modify("mallory", executors=["mallory"]).match("exec", A1, B1, "2", 5).write()
    for code in ("Z", "T"):
        H("c07_c10_marker_of_type_" + code, "a marker whose type is neither coin nor restricted: funded by attached coins, paid by bank sends") \
            .env(markers={"base": code, "q": code, "cv": code}).inst() \
            .create_ask("seller", [(5, "base")], A1, "base", "q", "2", 5).create_ask("seller", [], A2, "base", "q", "2", 5) \
            .create_bid("buyer", [(10, "q")], B1, None, "2", "q", 10, 5).create_bid("buyer", [], B2, None, "2", "q", 10, 5) \
            .match("exec", A1, B1, "2", 3).exits(owner_a="seller", owner_b="buyer").write()
    for tag, px in (("19th_decimal", "1.0000000000000000001"), ("28th_decimal", "1.0000000000000000000000000001"), ("below_19th", "0.9999999999999999999")):
        big = 10 ** 19 if tag != "28th_decimal" else 10 ** 28
        H("c01_price_a_hair_off_closing_the_bid_" + tag, "execution price differing from the limit only beyond the 18th decimal, on a size that makes the total whole").env() \
            .inst().create_bid("other", [(5, "q")], B2, None, "1", "q", 5, 5) \
            .create_bid("buyer", [(big, "q")], B1, None, "1", "q", big, big).create_ask("seller", [(big, "base")], A1, "base", "q", "1", big) \
            .match("exec", A1, B1, px, big).match("exec", A1, B1, "1", big).exits(owner_a="seller", owner_b="buyer").rev("cancel_bid", "other", B2).write()
    # the bid fee configuration withdrawn by a migration while a fee-bearing bid rests (no execute request can do that):
    # fills whose fee share is positive / rounds to zero, the fill that closes the bid, every exit, a partial reject
    for tag, steps in (("fill_small_then_large", lambda h: h.match("exec", A1, B1, "1", 10).match("exec", A1, B1, "1", 100).match("exec", A1, B1, "1", 890)),
                       ("fill_closing", lambda h: h.match("exec", A1, B1, "1", 1000)),
                       ("cancel", lambda h: h.rev("cancel_bid", "buyer", B1)),
                       ("expire", lambda h: h.rev("expire_bid", "exec", B1)),
                       ("reject_part_then_cancel", lambda h: h.rev("reject_bid", "exec", B1, 300).query("get_bid", B1).rev("cancel_bid", "buyer", B1))):
        h = H("c01_bid_fee_cleared_mid_history_" + tag, "a migration clears the bid fee while a fee-bearing bid rests").env()
        h.inst(bfr="0.01", bfa="feeb").create_bid("buyer", [(1010, "q")], B1, (10, "q"), "1", "q", 1000, 1000) \
            .create_ask("seller", [(1000, "base")], A1, "base", "q", "1", 1000).migrate(bfr="", bfa="").query("get_contract_info")
        steps(h)
        h.exits(owner_a="seller", owner_b="buyer").write()
    H("c01_ask_fee_cleared_mid_history", "a migration clears the ask fee under resting orders, then a fill").env() \
        .inst(afr="0.1", afa="feea").create_bid("buyer", [(100, "q")], B1, None, "1", "q", 100, 100) \
        .create_ask("seller", [(100, "base")], A1, "base", "q", "1", 100).match("exec", A1, B1, "1", 10).migrate(afr="", afa="") \
        .match("exec", A1, B1, "1", 10).migrate(afr="0.5", afa="feea").match("exec", A1, B1, "1", 10).exits(owner_a="seller", owner_b="buyer").write()
    for who in ("afa", "bfa"):
        kw = {who[0] + "fr": "0.1", who: "cosmos2contract"}
        H("c13_contract_as_%s_fee_account" % ("ask" if who == "afa" else "bid"), "the contract's own address configured as a fee account").env() \
            .inst(**kw).query("get_contract_info").create_bid("buyer", [(110 if who == "bfa" else 100, "q")], B1, (10, "q") if who == "bfa" else None, "1", "q", 100, 100) \
            .create_ask("seller", [(100, "base")], A1, "base", "q", "1", 100).match("exec", A1, B1, "1", 50).exits(owner_a="seller", owner_b="buyer").write()
    H("c07_attribute_listing_in_pages", "accounts whose attribute listing the attribute module serves in two pages") \
        .env(attrs={"seller": (["kyc"], ["acc"]), "buyer": ([], ["kyc"]), "other": (["kyc", "acc"], ["buy"])}).inst(aattrs=["kyc", "acc"], battrs=["kyc"]) \
        .create_ask("seller", [(5, "base")], A1, "base", "q", "2", 5).create_ask("other", [(5, "base")], A2, "base", "q", "2", 5) \
        .create_bid("buyer", [(10, "q")], B1, None, "2", "q", 10, 5).create_bid("other", [(10, "q")], B2, None, "2", "q", 10, 5).write()
    for code in ("R", "U"):
        H("c10_native_coin_name_" + code, "a quote denomination spelled like the chain's native coin, typed by the marker table like any other") \
            .env(markers={"nhash": code}).inst(quotes=("nhash",)) \
            .create_bid("buyer", [] if code == "R" else [(10, "nhash")], B1, None, "2", "nhash", 10, 5) \
            .create_bid("buyer", [(10, "nhash")] if code == "R" else [], B2, None, "2", "nhash", 10, 5) \
            .create_ask("seller", [(5, "base")], A1, "base", "nhash", "2", 5).match("exec", A1, B1, "2", 2).rev("reject_bid", "exec", B1, 1) \
            .exits(owner_a="seller", owner_b="buyer").write()
    # a denomination whose spelling suggests a kind of coin while the marker table says otherwise, and changes its mind:
    # escrowed while it is an ordinary coin, paid out after it has become a restricted marker (and the other way round)
    IBC = "ibc/" + "0123456789ABCDEF" * 4
    for dn, tag in ((IBC, "ibc"), ("nhash", "nhash"), ("factory/alice/sub", "factory")):
        for first, then in (("U", "R"), ("R", "U")):
            H("c10_%s_marker_turns_%s" % (tag, then), "denomination %s escrowed as %s, paid out as %s" % (tag, first, then)) \
                .env(markers={dn: first}).inst(quotes=(dn,)) \
                .create_bid("buyer", [(20, dn)] if first == "U" else [], B1, None, "2", dn, 20, 10) \
                .create_ask("seller", [(10, "base")], A1, "base", dn, "2", 10).env(markers={dn: then}) \
                .match("exec", A1, B1, "2", 3).rev("reject_bid", "exec", B1, 2).exits(owner_a="seller", owner_b="buyer") \
                .rev("cancel_bid", "buyer", B1).write()
    # fee = rate * (price * size): re-associating the product loses digits when rate and price need more than 28 decimals
    # together, and a large size turns the loss into a unit (directed: random generation cannot be expected to find these)
    H("c09_ask_fee_association_tiny_rate_tiny_price", "rate 1e-15, price 4e-14, size 1.25e28: the exact fee is 0.5").env() \
        .inst(afr="0.000000000000001", afa="feea", precision=14, increment=10 ** 14) \
        .create_ask("seller", [(125 * 10 ** 26, "base")], A1, "base", "q", "0.00000000000004", 125 * 10 ** 26) \
        .create_bid("buyer", [(5 * 10 ** 14, "q")], B1, None, "0.00000000000004", "q", 5 * 10 ** 14, 125 * 10 ** 26) \
        .match("exec", A1, B1, "0.00000000000004", 125 * 10 ** 26).write()
    H("c02_ask_fee_association_18_decimal_price", "rate 1.6e-10, price 3e-18, size 1e27: the exact fee is 0.48").env() \
        .inst(afr="0.00000000016", afa="feea", precision=18, increment=10 ** 18) \
        .create_ask("seller", [(10 ** 27, "base")], A1, "base", "q", "0.000000000000000003", 10 ** 27) \
        .create_bid("buyer", [(3 * 10 ** 9, "q")], B1, None, "0.000000000000000003", "q", 3 * 10 ** 9, 10 ** 27) \
        .match("exec", A1, B1, "0.000000000000000003", 10 ** 27).write()
    H("c07_bid_fee_association_powers_of_two", "rate 2^-19, price 2^-18, size 2^18 * 10^18: the exact fee is 1907348632812 1/2").env() \
        .inst(bfr="0.0000019073486328125", bfa="feeb", precision=18, increment=10 ** 18) \
        .create_bid("buyer", [(10 ** 18 + 1907348632813, "q")], B1, (1907348632813, "q"), "0.000003814697265625", "q", 10 ** 18, 2 ** 18 * 10 ** 18) \
        .create_bid("buyer", [(10 ** 18 + 1907348632812, "q")], B2, (1907348632812, "q"), "0.000003814697265625", "q", 10 ** 18, 2 ** 18 * 10 ** 18).write()
    # the bid's share of a fill formed in 96 bits (recorded class K_inexact); a cheaper ask is executed at its own price by an
    # off-lot size: (bid price - price) * size = 10.000000000000000001 exactly, bid price * size is judged whole
    H("c03_inexact_bid_share_with_improvement", "bid price 1.000000000000000001, fill of 1e19+1 at the ask's price 1").env() \
        .inst(precision=18, increment=10 ** 18) \
        .create_bid("buyer", [(2 * 10 ** 19 + 20, "q")], B1, None, "1.000000000000000001", "q", 2 * 10 ** 19 + 20, 2 * 10 ** 19) \
        .create_ask("seller", [(2 * 10 ** 19, "base")], A1, "base", "q", "1", 2 * 10 ** 19) \
        .match("exec", A1, B1, "1", 10 ** 19 + 1).match("exec", A1, B1, "1", 10 ** 19).exits(owner_a="seller", owner_b="buyer").write()
    h = H("c14_c15_schema_words_and_undeclared_members", "a legacy book whose records carry a member the struct does not declare, owners named like schema fields migration").env()
    h.lines += ["SEEDCFG ats ~ base cv q appr exec - feeb=0.1 [] [] 0 1", "SEEDVER ats_smart_contract 0.18.2",
                "SEEDBID2X %s %s events_desk base 10 q 20 2:q 2 []" % (enc(B1), enc(B1)),
                "SEEDBID3 %s %s events base 10 0 q 20 0 2:q 0 2" % (enc(B2), enc(B2)),
                "SEEDASK %s %s accumulated_base basic base q 2 10" % (enc(A1), enc(A1))]
    h.migrate().query("get_bid", B1).query("get_bid", B2).match("exec", A1, B1, "2", 4).rev("cancel_bid", "events_desk", B1).rev("cancel_bid", "events", B2).write()
    H("c08_same_approval_twice", "the recorded approver repeats a flawless approval of an approved ask").env() \
        .inst().create_ask("seller", [(10, "cv")], A1, "cv", "q", "2", 10).approve("appr", [(10, "base")], A1, "base", 10) \
        .approve("appr", [(10, "base")], A1, "base", 10).query("get_ask", A1).rev("cancel_ask", "seller", A1).write()
    H("c05_wasm_admin_as_sender", "privileged requests from the account the wasm module knows as the contract's admin").env().inst() \
        .create_ask("seller", [(5, "base")], A1, "base", "q", "2", 5).create_bid("buyer", [(10, "q")], B1, None, "2", "q", 10, 5) \
        .modify("admin", executors=["admin"]).rev("expire_ask", "admin", A1).rev("cancel_bid", "admin", B1).match("admin", A1, B1, "2", 5) \
        .create_ask("seller", [(5, "cv")], A2, "cv", "q", "2", 5).approve("admin", [(5, "base")], A2, "base", 5).write()
    for rate in ("1", "0.5"):
        H("c01_convertible_also_quote_fee_" + rate.replace(".", "_"), "a convertible denomination that is also a quote, sold for itself, with an ask fee that takes all or half").env() \
            .inst(conv=("cv",), quotes=("q", "cv"), afr=rate, afa="feea") \
            .create_ask("seller", [(100, "cv")], A1, "cv", "cv", "1", 100).approve("appr", [(100, "base")], A1, "base", 100) \
            .create_bid("buyer", [(100, "cv")], B1, None, "1", "cv", 100, 100).match("exec", A1, B1, "1", 1).match("exec", A1, B1, "1", 40) \
            .exits(owner_a="seller", owner_b="buyer").match("exec", A1, B1, "1", 59).write()
    # known numeric classes (recorded findings): witnesses live in corpus/known/
    H("k_inexact_match", "K_inexact: precision 18, increment 1e18, price 0.999999999999999999, size 1e18+1").env() \
        .inst(precision=18, increment=10 ** 18) \
        .create_ask("seller", [(2 * 10 ** 18, "base")], A1, "base", "q", "0.999999999999999999", 2 * 10 ** 18) \
        .create_bid("buyer", [(2 * 10 ** 18 - 2, "q")], B1, None, "0.999999999999999999", "q", 2 * 10 ** 18 - 2, 2 * 10 ** 18) \
        .match("exec", A1, B1, "0.999999999999999999", 10 ** 18 + 1).exits(owner_a="seller", owner_b="buyer").write("known")
    H("k_rate_double_rounding", "K_rate: rate 0.0954045954045954045954045954 x total 1001").env() \
        .inst(bfr="0.0954045954045954045954045954", bfa="feeb") \
        .create_bid("buyer", [(1001 + 95, "q")], B1, (95, "q"), "1", "q", 1001, 1001) \
        .create_bid("buyer", [(1001 + 96, "q")], B2, (96, "q"), "1", "q", 1001, 1001).write("known")
    Q, F, U = 1000000000000037, 10000000000019, 974771873322634
    H("k_prorata_snap", "K_prorata: pro-rata product snaps to a half").env() \
        .inst(bfr="0.0100000000000186299999", bfa="feeb") \
        .create_bid("buyer", [(Q + F, "q")], B1, (F, "q"), "1", "q", Q, Q) \
        .rev("reject_bid", "exec", B1, Q - U).query("get_bid", B1).write("known")
    H("k_capacity", "K_capacity: amounts at or above 2^96 abort").env().inst() \
        .create_bid("buyer", [(2 ** 96, "q")], B1, None, "1", "q", 2 ** 96, 2 ** 96) \
        .create_bid("buyer", [(2 ** 96 - 1, "q")], B2, None, "1", "q", 2 ** 96 - 1, 2 ** 96 - 1).write("known")
    H("c07_price_28_decimals", "a 28-decimal price against precision 18 (refused)").env() \
        .inst(precision=18, increment=10 ** 18) \
        .create_ask("seller", [(10 ** 18, "base")], A1, "base", "q", "1.0000000000000000000000000001", 10 ** 18) \
        .create_bid("buyer", [(10 ** 18, "q")], B1, None, "1.0000000000000000000000000001", "q", 10 ** 18, 10 ** 18).write()


if __name__ == "__main__":
    main()
