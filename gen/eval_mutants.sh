#!/bin/sh
# eval_mutants.sh <out file> <mutant dirs...> : apply each seeded change to /repo, run ./check detect, undo it.
OUT="$1"; shift
cd "$(dirname "$0")/.."
for d in "$@"; do
  [ -f "$d/patch.diff" ] || continue
  echo "=== $d" >> "$OUT"
  git -C /repo apply "$d/patch.diff" || { echo "APPLY-FAILED" >> "$OUT"; continue; }
  ./check detect quick >> "$OUT" 2>&1
  git -C /repo checkout -- .
done
git -C /repo status --short >> "$OUT"
echo DONE >> "$OUT"
