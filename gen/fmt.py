"""Token encodings of FORMAT.md and trace-block parsing (shared by generator, diff and oracles)."""
import re

_PLAIN = set(b"ABCDEFGHIJKLMNOPQRSTUVWXYZabcdefghijklmnopqrstuvwxyz0123456789._")


def enc(s):
    if s == "":
        return "~"
    out = []
    for b in s.encode("latin-1"):
        out.append(chr(b) if b in _PLAIN else "%%%02X" % b)
    return "".join(out)


def dec(t):
    if t == "~":
        return ""
    return re.sub(r"%([0-9A-F]{2})", lambda m: chr(int(m.group(1), 16)), t)


def opt(x, f=enc):
    return "-" if x is None else f(x)


def lst(xs, f=enc):
    return "[]" if not xs else ",".join(f(x) for x in xs)


def optlist(xs, f=enc):
    return "-" if xs is None else lst(xs, f)


def coin(c):
    return "%d:%s" % (c[0], enc(c[1]))


def coins(cs):
    return lst(cs, coin)


def dcoin(t):
    a, d = t.split(":")
    return (int(a), dec(d))


def dlist(t, f=dec):
    return [] if t == "[]" else [f(x) for x in t.split(",")]


def dopt(t, f=dec):
    return None if t == "-" else f(t)


def dclass(t):
    p = t.split(":")
    if p[0] == "ready":
        return ("ready", dec(p[1]), dec(p[2]), int(p[3]))
    return (p[0],)


def dfee(t):
    if t == "-":
        return None
    a, r = t.split("=")
    return (dec(a), dec(r))


class Ask:
    __slots__ = ("key", "id", "owner", "cls", "base", "quote", "price", "size")

    def __init__(self, f):
        self.key = dec(f[0]); self.id = dec(f[1]); self.owner = dec(f[2]); self.cls = dclass(f[3])
        self.base = dec(f[4]); self.quote = dec(f[5]); self.price = dec(f[6]); self.size = int(f[7])


class Bid:
    __slots__ = ("key", "id", "owner", "base_denom", "base_amt", "acc_base", "quote_denom", "quote_amt",
                 "acc_quote", "fee", "acc_fee", "price")

    def __init__(self, f):
        self.key = dec(f[0]); self.id = dec(f[1]); self.owner = dec(f[2]); self.base_denom = dec(f[3])
        self.base_amt = int(f[4]); self.acc_base = int(f[5]); self.quote_denom = dec(f[6])
        self.quote_amt = int(f[7]); self.acc_quote = int(f[8]); self.fee = dopt(f[9], dcoin)
        self.acc_fee = int(f[10]); self.price = dec(f[11])

    @property
    def rem_base(self):
        return self.base_amt - self.acc_base

    @property
    def rem_quote(self):
        return self.quote_amt - self.acc_quote

    @property
    def rem_fee(self):
        return (self.fee[0] - self.acc_fee) if self.fee else 0


class Cfg:
    def __init__(self, f):
        self.name = dec(f[0]); self.bind = dec(f[1]); self.base = dec(f[2]); self.conv = dlist(f[3])
        self.quotes = dlist(f[4]); self.approvers = dlist(f[5]); self.executors = dlist(f[6])
        self.ask_fee = dfee(f[7]); self.bid_fee = dfee(f[8]); self.ask_attrs = dlist(f[9])
        self.bid_attrs = dlist(f[10]); self.precision = int(f[11]); self.increment = int(f[12])


class Block:
    """One event of a trace: the EV line and everything up to END."""

    def __init__(self, lines):
        self.lines = lines
        self.ev = lines[0][3:] if lines and lines[0].startswith("EV ") else ""
        self.kind = self.ev.split(" ", 1)[0] if self.ev else ""
        self.ok = None
        self.err = None
        self.msgs = []      # ('bank', to, [(amt, denom)]) | ('xfer', frm, to, (amt, denom), admin) | ('other', hex)
        self.attrs = []     # (key, value)
        self.qry = None
        self.storage_changed = False
        self.asks = {}
        self.bids = {}      # key -> Bid | ('v2', fields) | ('x', hex)
        self.askx = {}
        self.cfg = None
        self.ver = None
        self.has_dump = False
        self.xkeys = []
        for l in lines[1:]:
            t = l.split(" ")
            k = t[0]
            if k == "OUT":
                self.ok = (t[1] == "ok")
                if not self.ok:
                    self.err = " ".join(t[2:])
            elif k == "MSG":
                if t[1] == "bank":
                    self.msgs.append(("bank", dec(t[2]), tuple(dlist(t[3], dcoin))))
                elif t[1] == "xfer":
                    self.msgs.append(("xfer", dec(t[2]), dec(t[3]), dcoin(t[4]), dec(t[5])))
                else:
                    self.msgs.append(("other", " ".join(t[2:])))
            elif k == "ATTR":
                self.attrs.append((dec(t[1]), dec(t[2])))
            elif k == "QRY":
                self.qry = t[1:]
            elif k == "STORAGE":
                self.storage_changed = True
            elif k == "ASK":
                a = Ask(t[1:]); self.asks[a.key] = a
            elif k == "ASKX":
                self.askx[dec(t[1])] = t[2]
            elif k == "BID3":
                b = Bid(t[1:]); self.bids[b.key] = b
            elif k == "BID2":
                self.bids[dec(t[1])] = ("v2", tuple(t[2:]))
            elif k == "BIDX":
                self.bids[dec(t[1])] = ("x", t[2])
            elif k == "CFG":
                self.has_dump = True
                self.cfg = None if t[1] == "-" else Cfg(t[1:])
            elif k == "VER":
                self.ver = None if t[1] == "-" else (dec(t[1]), dec(t[2]))
            elif k == "XKEY":
                self.xkeys.append(t[1:])


def read_blocks(fh):
    cur = None
    for raw in fh:
        l = raw.rstrip("\n")
        if l.startswith("EV "):
            cur = [l]
        elif l == "END":
            if cur is not None:
                yield Block(cur)
            cur = None
        elif cur is not None:
            cur.append(l)
