"""Per-property projections of trace blocks (what the correspondence check compares for each property)
and implementation-side oracles (used to look for a concrete failing input).  See DESIGN.md section 8."""
from fractions import Fraction

import fmt

SELF = "cosmos2contract"
PROPS = ["C%02d" % i for i in range(1, 18)]
REVERSE = ("cancel_ask", "cancel_bid", "expire_ask", "expire_bid", "reject_ask", "reject_bid")
PRIV = REVERSE + ("execute_match", "modify_contract", "approve_ask")


def parse_dec(s):
    t = s.replace("_", "")
    neg = False
    if t[:1] in "+-":
        neg = t[0] == "-"
        t = t[1:]
    if not t or t.count(".") > 1:
        return None
    w, _, f = t.partition(".")
    if not (w + f).isdigit():
        return None
    v = Fraction(int(w + f), 10 ** len(f))
    return -v if neg else v



def parse_dec_exact(text):
    """value of a decimal string as the contract reads it, or None when this oracle does not judge it: beyond 28
    digits / 96 bits the implementation's parser rounds; that reading is the model's business (Dec.dec_parse,
    compared case by case in the correspondence), not the oracles'"""
    t = text.replace("_", "").lstrip("+-")
    digits = t.replace(".", "")
    if not digits.isdigit():
        return None
    decimals = len(t.partition(".")[2])
    return parse_dec(text) if decimals <= 28 and int(digits) < 2 ** 96 else None


def addr_ok(s):
    return 3 <= len(s) <= 90 and s == s.lower() and "\x00" not in s


def rate_parses(s):
    """plain decimal strings only; None when the spelling is outside what this oracle can judge"""
    if s == "" or s in ("+", "-", ".", "-.", "+."):
        return False
    t = s.replace("_", "")
    if not all(ch in "0123456789.+-" for ch in t):
        return None if any(ch in "eE" for ch in t) else False
    v = parse_dec(s)
    if v is None:
        return False
    digits = t.lstrip("+-").replace(".", "")
    return True if len(digits) <= 28 and s[0] != "_" and not s.endswith("_") and ".." not in s else None


def pair_coherent(rate, acct):
    """None = cannot judge"""
    if (rate is None) != (acct is None):
        return False
    if rate is None:
        return True
    if rate == "" and acct == "":
        return True
    rp = rate_parses(rate)
    if rp is None:
        return None
    return rp and addr_ok(acct)


def inst_coherent(t):
    """t = tokens after 'INST sender': name base conv quotes approvers executors afr afa bfr bfa aattrs battrs precision increment"""
    name, base = fmt.dec(t[0]), fmt.dec(t[1])
    quotes, apprs, execs = fmt.dlist(t[3]), fmt.dlist(t[4]), fmt.dlist(t[5])
    afr, afa, bfr, bfa = fmt.dopt(t[6]), fmt.dopt(t[7]), fmt.dopt(t[8]), fmt.dopt(t[9])
    p, inc = int(t[12]), int(t[13])
    pa, pb = pair_coherent(afr, afa), pair_coherent(bfr, bfa)
    if pa is None or pb is None:
        return None
    return bool(name and base and quotes and execs and p <= 18 and inc >= 1 and inc % (10 ** min(p, 40)) == 0 and pa and pb
                and all(addr_ok(a) for a in apprs) and all(addr_ok(a) for a in execs))


class Ev:
    """decoded EV line of an EXEC/PEXEC"""

    def __init__(self, ev):
        t = ev.split(" ")
        self.inst_funds = None
        if t[0] == "INSTF" and len(t) > 2:      # instantiate with funds attached: same request, funds kept aside
            self.inst_funds = t[1]
            t = ["INST"] + t[2:]
        elif t[0] == "INSTX":                   # instantiate sent as JSON with an undeclared member: same request
            t = ["INST"] + t[1:]
        self.tok = t
        self.kind = t[0]
        self.sub = None
        self.sender = None
        self.funds = []
        self.args = []
        if self.kind in ("EXEC", "PEXEC") and len(t) >= 4:
            try:
                self.sender = fmt.dec(t[1])
                self.funds = fmt.dlist(t[2], fmt.dcoin)
                self.sub = t[3]
                self.args = t[4:]
            except Exception:
                self.sub = None

    def ids(self):
        """(ask ids, bid ids) named by the request"""
        a = self.args
        try:
            if self.sub in ("cancel_ask", "expire_ask", "reject_ask", "approve_ask", "create_ask"):
                return [fmt.dec(a[0])], []
            if self.sub in ("cancel_bid", "expire_bid", "reject_bid", "create_bid"):
                return [], [fmt.dec(a[0])]
            if self.sub == "execute_match":
                return [fmt.dec(a[0])], [fmt.dec(a[1])]
        except Exception:
            pass
        return [], []


def flows(b, ev):
    """net change per (account, denom) caused by an accepted request: attached funds + messages"""
    f = {}

    def add(acct, d, amt):
        f[(acct, d)] = f.get((acct, d), 0) + amt
        if f[(acct, d)] == 0:
            del f[(acct, d)]
    if b.ok:
        for amt, d in ev.funds:
            add(ev.sender, d, -amt)
            add(SELF, d, amt)
        for m in b.msgs:
            if m[0] == "bank":
                for amt, d in m[2]:
                    add(SELF, d, -amt)
                    add(m[1], d, amt)
            elif m[0] == "xfer":
                amt, d = m[3]
                add(m[1], d, -amt)
                add(m[2], d, amt)
    return tuple(sorted(f.items()))


def ask_amounts(a):
    return (a.key, a.size, a.cls)


def bid_amounts(b):
    if isinstance(b, fmt.Bid):
        return (b.key, b.base_amt, b.acc_base, b.quote_amt, b.acc_quote, b.fee, b.acc_fee)
    return ("raw",) + tuple(b)


def ask_full(a):
    return (a.key, a.id, a.owner, a.cls, a.base, a.quote, a.price, a.size)


def bid_full(b):
    if isinstance(b, fmt.Bid):
        return (b.key, b.id, b.owner, b.base_denom, b.base_amt, b.acc_base, b.quote_denom, b.quote_amt,
                b.acc_quote, b.fee, b.acc_fee, b.price)
    return ("raw",) + tuple(b)


def book_lines(b):
    return tuple(l for l in b.lines if l.split(" ", 1)[0] in ("ASK", "ASKX", "BID3", "BID2", "BIDX"))


def line_of(b, kw):
    for l in b.lines:
        if l.startswith(kw + " "):
            return l
    return None


NAMED_ATTRS = {"action", "id", "ask_id", "bid_id", "reverse_size", "order_open", "size", "price", "ask_fee",
               "bid_fee", "class", "quote_size", "base", "quote", "fee", "target_base"}


def unauthorized(ev, pre):
    """True when the sender of a privileged request lacks the role the property demands (judged on the
    implementation's state before the request); None when the role cannot be judged (order absent)"""
    cfg = pre.get("cfg")
    if cfg is None:
        return None
    s = ev.sender
    ai, bi = ev.ids()
    if ev.sub == "cancel_ask":
        a = pre["asks"].get(ai[0]) if ai else None
        return None if a is None else a.owner != s
    if ev.sub == "cancel_bid":
        x = pre["bids"].get(bi[0]) if bi else None
        return None if not isinstance(x, fmt.Bid) else x.owner != s
    if ev.sub in ("expire_ask", "expire_bid", "reject_ask", "reject_bid", "execute_match", "modify_contract"):
        return s not in cfg.executors
    if ev.sub == "approve_ask":
        return s not in cfg.approvers
    return None


def shape(m):
    """mechanism-relevant part of a message: kind, denomination, positivity, source class, administrator"""
    if m[0] == "bank":
        return ("bank", tuple((d, amt > 0) for amt, d in m[2]))
    if m[0] == "xfer":
        return ("xfer", m[3][1], m[3][0] > 0, "self" if m[1] == SELF else "other", m[4] == SELF, m[2] == SELF)
    return m


def project(prop, b, ev, ctx):
    """projection of block b for property prop: None (event not relevant) or (gate, value).  Model and
    implementation are compared on `value` only when their gates agree: a property that says nothing about
    whether a request is accepted has the outcome as its gate, one that does has it in the value."""
    k, sub = ev.kind, ev.sub
    is_exec = k in ("EXEC", "PEXEC")
    ok = b.ok
    if prop == "C01":
        if k in ("EXEC", "MIGRATE"):
            # every amount on the book after the step (a migration rewrites bids: what they are owed must not move)
            return (ok, (flows(b, ev), tuple(sorted(ask_amounts(a) for a in b.asks.values())),
                         tuple(sorted(bid_amounts(x) for x in b.bids.values()))))
    elif prop == "C02":
        if is_exec and sub == "execute_match":
            ai, bi = ev.ids()
            return (ok, (flows(b, ev), tuple(ask_amounts(b.asks[i]) if i in b.asks else None for i in ai),
                         tuple(bid_amounts(b.bids[i]) if i in b.bids else None for i in bi)))
    elif prop == "C03":
        if is_exec and sub == "execute_match":
            return (None, ok)
    elif prop == "C04":
        if k == "MIGRATE":
            # what a later cancel / expire / reject has to return is fixed by the book the migration leaves behind
            return (ok, (tuple(sorted(ask_amounts(a) for a in b.asks.values())),
                         tuple(sorted(bid_amounts(x) for x in b.bids.values()))))
        if is_exec and sub in REVERSE:
            ai, bi = ev.ids()
            val = (flows(b, ev), tuple(sorted(repr(shape(m)) for m in b.msgs)),
                   tuple(ask_amounts(b.asks[i]) if i in b.asks else None for i in ai),
                   tuple(bid_amounts(b.bids[i]) if i in b.bids else None for i in bi))
            explicit = sub in ("reject_ask", "reject_bid") and len(ev.args) > 1 and ev.args[1] != "-"
            return (None, (ok, val)) if explicit else (ok, val)
    elif prop == "C05":
        if is_exec and sub in PRIV and unauthorized(ev, ctx["pre"]):
            return (None, (ok, len(b.msgs) if ok else 0))
    elif prop == "C06":
        if k == "MIGRATE":
            # what every order's exit will have to return is fixed by the book the migration leaves behind
            return (ok, (tuple(sorted(ask_amounts(a) for a in b.asks.values())),
                         tuple(sorted(bid_amounts(x) for x in b.bids.values()))))
        if k == "EXEC" and b.has_dump and sub not in ("modify_contract",):
            # ... and, after every request, by what the orders it names record as remaining
            ai, bi = ev.ids()
            return (ok, (tuple(ask_amounts(b.asks[i]) if i in b.asks else None for i in ai),
                         tuple(bid_amounts(b.bids[i]) if i in b.bids else None for i in bi)))
        if k == "PEXEC" and sub in ("cancel_ask", "cancel_bid", "expire_ask", "expire_bid"):
            ai, bi = ev.ids()
            # ... and which orders are open afterwards: every other order must still be there to be exited in its turn
            return (None, (ok, flows(b, ev), tuple(sorted(repr(shape(m)) for m in b.msgs)) if ok else (),
                           tuple(i in b.asks for i in ai) if ok else (), tuple(i in b.bids for i in bi) if ok else (),
                           (tuple(sorted(b.asks)), tuple(sorted(b.bids))) if ok else ()))
    elif prop == "C07":
        if is_exec and sub in ("create_ask", "create_bid"):
            return (None, (ok, tuple(b.msgs), book_lines(b)))
    elif prop == "C08":
        if is_exec and sub == "approve_ask":
            ai, _ = ev.ids()
            return (None, (ok, tuple(b.msgs), tuple((a.key, a.cls, a.size) for a in b.asks.values() if a.key in ai)))
        if is_exec:
            # the approval status of every ask (class assigned at creation included), and for approved asks the
            # approver, the amount recorded and the remaining size; when an ask leaves or shrinks (cancel, expire,
            # reject) also what is sent back to whom and by which mechanism (the approver's share must reach them)
            st = tuple(sorted((a.key, a.cls, a.size if a.cls[0] == "ready" else None) for a in b.asks.values()))
            if sub in ("cancel_ask", "expire_ask", "reject_ask"):
                return (ok, (st, flows(b, ev), tuple(sorted(repr(shape(m)) for m in b.msgs))))
            return (ok, st)
    elif prop == "C09":
        if k == "MIGRATE":
            # fee escrowed and fee consumed so far, per bid, as the migration leaves them
            return (ok, tuple(sorted((x.key, x.fee, x.acc_fee, x.acc_quote) if isinstance(x, fmt.Bid) else ("raw", repr(bid_amounts(x)))
                                     for x in b.bids.values())))
        if is_exec and sub == "create_bid":
            _, bi = ev.ids()
            return (None, (ok, tuple((x.key, x.fee) for x in b.bids.values() if isinstance(x, fmt.Bid) and x.key in bi)))
        if is_exec and sub in ("execute_match", "cancel_bid", "expire_bid", "reject_bid"):
            return (ok, (flows(b, ev), tuple(sorted((x.key, x.fee, x.acc_fee, x.acc_quote) for x in b.bids.values()
                                                    if isinstance(x, fmt.Bid)))))
    elif prop == "C10":
        if k in ("EXEC", "PEXEC", "INST", "MIGRATE", "PMIGRATE"):
            return (ok, tuple(sorted(repr(shape(m)) for m in b.msgs)))
    elif prop == "C11":
        if k in ("EXEC", "PEXEC", "MIGRATE"):
            return (ok, (book_lines(b), line_of(b, "CFG"), line_of(b, "VER")))
    elif prop == "C12":
        if is_exec and sub == "modify_contract":
            return (None, (ok, line_of(b, "CFG")))
        if is_exec:
            cl = line_of(b, "CFG")
            return (None, (not ok) or ctx["pre_cfg_line"] is None or cl == ctx["pre_cfg_line"])
    elif prop == "C13":
        if k == "INST":
            return (None, (ok, line_of(b, "CFG"), line_of(b, "VER"), tuple(b.msgs)))
    elif prop == "C14":
        if k in ("MIGRATE", "PMIGRATE"):
            # "preserves the book": asks exactly, and the bid slots it leaves (their conversion is C15's subject, their
            # presence, keys and readability are the book's)
            return (None, (ok, book_lines(b), line_of(b, "CFG"), line_of(b, "VER"), tuple(b.msgs)))
    elif prop == "C15":
        if k in ("MIGRATE", "PMIGRATE"):
            return (ok, tuple(l for l in b.lines if l.split(" ", 1)[0] in ("BID3", "BID2", "BIDX")))
        if ctx["migration"] and ctx["migrated"] and is_exec:
            _, bi = ev.ids()
            return (ok, (flows(b, ev), tuple(bid_amounts(b.bids[i]) if i in b.bids else None for i in bi)))
    elif prop == "C16":
        if k == "QUERY":
            return (None, (ok, tuple(b.qry) if b.qry else None, b.storage_changed))
        if k in ("MIGRATE", "PMIGRATE", "INST") and b.has_dump:
            # what get_contract_info / get_version_info will answer from now on
            return (ok, (line_of(b, "CFG"), line_of(b, "VER")))
        if is_exec and b.has_dump:
            # what get_ask / get_bid of the ids this request names will answer from now on (the record, or "not on the book")
            ai, bi = ev.ids()
            return (ok, (tuple(ask_full(b.asks[i]) if i in b.asks else None for i in ai),
                         tuple(bid_full(b.bids[i]) if i in b.bids else None for i in bi)))
    elif prop == "C17":
        if is_exec:
            # the price is reported "as a number": "2", "2.00" and "+2" are the same report, "2.00...04" is not
            def norm(a, v):
                if a == "price":
                    x = parse_dec(v)
                    return "number:%s" % x if x is not None else v
                return v
            # the attributes, and next to them what the step moved (amounts reported are judged against it)
            return (ok, (tuple(sorted((a, norm(a, v)) for a, v in b.attrs if a in NAMED_ATTRS)), flows(b, ev)))
    return None



# ---------------------------------------------------------------------------------------------------------
# model-backed verdicts: where a theorem fixes the outcome of a request completely (an "if and only if", or a
# function of the stored data), the outcome of the proved model IS what the property prescribes, so an implementation
# that decides otherwise on the same state and request fails the property on that input.  Used only after the
# correspondence broke, on the minimised replay, when every earlier step of it is agreed by model and implementation
# (the pre-state is then one the model reaches too) and the request is outside the recorded numeric classes.
# ---------------------------------------------------------------------------------------------------------
def _mant(text):
    return int(text.replace("_", "").lstrip("+-").replace(".", "") or "0")


def order_wellformed(o, cfg):
    """the order-level part of the invariant (Inv.v / InvBid.v), for orders taken over from seeded legacy books"""
    try:
        if cfg is None or o.key != o.id:
            return False
        if isinstance(o, fmt.Ask):
            ok = o.size >= 1 and o.quote in cfg.quotes and (o.base == cfg.base or o.base in cfg.conv)
            ok = ok and (o.cls[0] == "basic") == (o.base == cfg.base)
            if o.cls[0] == "ready":
                ok = ok and o.cls[2] == cfg.base and o.cls[3] == o.size
            pv = parse_dec_exact(o.price)
            return bool(ok and pv is not None and pv > 0)
        if isinstance(o, fmt.Bid):
            pv = parse_dec_exact(o.price)
            if pv is None or pv <= 0 or o.base_denom != cfg.base or o.quote_denom not in cfg.quotes:
                return False
            if not (1 <= o.rem_base <= o.base_amt < 2 ** 96 and 0 <= o.rem_quote <= o.quote_amt < 2 ** 96):
                return False
            if pv * o.base_amt != o.quote_amt or pv * o.rem_base != o.rem_quote:
                return False
            if o.fee:
                if o.fee[1] != o.quote_denom or not (0 <= o.rem_fee <= o.fee[0] < 2 ** 96):
                    return False
                if 20 * o.quote_amt * o.fee[0] > 10 ** 28:
                    return False
                exact = Fraction(o.fee[0] * o.rem_quote, o.quote_amt)
                if abs(exact - o.rem_fee) > Fraction(1, 2):
                    return False
            elif o.acc_fee:
                return False
            return True
    except Exception:
        pass
    return False


def model_backed(prop, ev, bi, bm, pre):
    """message when the implementation's outcome at this event contradicts what the theorems of `prop` prescribe,
    None when this rule does not judge the event.  bi / bm: implementation / model block of the event;
    pre: dict(asks, bids, cfg, seeded, migration, tainted, self_sent) -- the implementation's state before it."""
    k, sub = ev.kind, ev.sub
    is_exec = k in ("EXEC", "PEXEC")
    if pre.get("tainted") or pre.get("self_sent"):
        return None
    legacy = pre.get("seeded") or pre.get("migration")
    merr = fmt.dec(bm.err) if getattr(bm, "err", None) else "?"
    ierr = fmt.dec(bi.err) if getattr(bi, "err", None) else "?"
    try:
        if prop == "C03" and is_exec and sub == "execute_match" and not legacy and bi.ok != bm.ok:
            a = pre["asks"].get(fmt.dec(ev.args[0]))
            b = pre["bids"].get(fmt.dec(ev.args[1]))
            s = int(ev.args[3])
            if a is not None and isinstance(b, fmt.Bid):
                if not (_mant(fmt.dec(ev.args[2])) * s < 2 ** 96 and _mant(b.price) * s < 2 ** 96 and _mant(a.price) * s < 2 ** 96):
                    return None
            if bi.ok:
                return ("match accepted although it is not eligible: the proved model refuses it (refusal point %s; theorem "
                        "C03_only_if lists the conditions an accepted match meets)" % merr)
            return ("eligible match refused (%s): the proved model carries it out, and C03_if shows every request meeting "
                    "the conditions of the property is accepted" % ierr)
        if prop == "C04" and is_exec and sub in ("reject_ask", "reject_bid") and len(ev.args) > 1 and ev.args[1] != "-" and bi.ok != bm.ok:
            ai, bids_ = ev.ids()
            o = pre["asks"].get(ai[0]) if ai else pre["bids"].get(bids_[0]) if bids_ else None
            cfg = pre["cfg"]
            if not isinstance(o, (fmt.Ask, fmt.Bid)) or cfg is None or (legacy and not order_wellformed(o, cfg)):
                return None
            if bi.ok:
                return ("%s by size %s accepted although the size rule of the property fails (the proved model refuses it, refusal point "
                        "%s; C04_reverse_ask / C04_reverse_bid)" % (sub, ev.args[1], merr))
            return ("%s by a positive multiple of the increment not exceeding what remains is refused (%s); the proved model carries it "
                    "out (C04_reject_ask_if / C04_reject_bid_if)" % (sub, ierr))
        if prop == "C06" and k == "PEXEC" and sub in ("cancel_ask", "cancel_bid", "expire_ask", "expire_bid") and bm.ok and not bi.ok:
            ai, bids_ = ev.ids()
            o = pre["asks"].get(ai[0]) if ai else pre["bids"].get(bids_[0]) if bids_ else None
            cfg = pre["cfg"]
            entitled = (isinstance(o, (fmt.Ask, fmt.Bid)) and not ev.funds and cfg is not None and
                        (ev.sender == o.owner if sub.startswith("cancel") else ev.sender in cfg.executors))
            if entitled and order_wellformed(o, cfg):
                return ("%s of an open, well-formed order by its %s is refused (%s); the proved model accepts it "
                        "(C06_ask_cancel / C06_bid_cancel / C06_after_migration)" % (sub, "owner" if sub.startswith("cancel") else "executor", ierr))
            return None
        if prop == "C07" and is_exec and sub in ("create_ask", "create_bid") and not legacy:
            if sub == "create_bid":
                cfg = pre["cfg"]
                q, sz = int(ev.args[5]), int(ev.args[6])
                if max(q, sz) >= 2 ** 96:
                    return None
                if cfg is not None and cfg.bid_fee and _mant(cfg.bid_fee[1]) * q >= 2 ** 96:
                    return None
                if _mant(fmt.dec(ev.args[3])) * sz >= 2 ** 96:
                    return None
            if bi.ok and not bm.ok:
                return ("%s recorded although an admission condition fails: the proved model refuses it (refusal point %s; "
                        "C07_ask_iff / C07_bid_only_if)" % (sub, merr))
            if bm.ok and not bi.ok:
                return ("%s meeting every admission condition is refused (%s); the proved model admits it "
                        "(C07_ask_iff / C07_bid_if)" % (sub, ierr))
            if bi.ok and bm.ok and (tuple(bi.msgs) != tuple(bm.msgs) or book_lines(bi) != book_lines(bm)):
                return ("%s admitted, but the recorded order / the escrow pulled differ from the request "
                        "(C07_bid_only_if, C07_escrow_equals_obligation fix both)" % sub)
            return None
        if prop == "C08" and is_exec and sub == "approve_ask" and not legacy and bi.ok != bm.ok:
            if bi.ok:
                return ("approval accepted although a condition of the property fails: the proved model refuses it "
                        "(refusal point %s; C08_approve_only_if)" % merr)
            return "approval meeting every condition is refused (%s); the proved model accepts it (C08_approve_if)" % ierr
        if prop == "C13" and k == "INST" and bi.ok != bm.ok:
            if bi.ok:
                return "instantiate accepted for a configuration that is not coherent (model refusal point %s; C13_iff)" % merr
            return "coherent configuration refused at instantiation (%s; C13_iff)" % ierr
        if prop == "C14" and k in ("MIGRATE", "PMIGRATE") and bi.ok != bm.ok:
            if bi.ok:
                return ("migration accepted although the proved model refuses it (refusal point %s; "
                        "C14_refused_when_unsupported / C14_gate_and_effect)" % merr)
            return "migration from a supported version with a valid request refused (%s; C14_gate_and_effect)" % ierr
        if prop == "C15" and k in ("MIGRATE", "PMIGRATE") and bi.ok and bm.ok:
            want = tuple(l for l in bm.lines if l.split(" ", 1)[0] in ("BID3", "BID2", "BIDX"))
            got = tuple(l for l in bi.lines if l.split(" ", 1)[0] in ("BID3", "BID2", "BIDX"))
            if want != got:
                diff = sorted(set(want) ^ set(got))
                return ("the bid book after migration is not the conversion the property prescribes (C15_conversion_preserves, "
                        "C15_book_slots, C15_nothing_rewritten_after_window): %s" % (" | ".join(diff[:2])[:400]))
            return None
        if prop == "C16" and k == "QUERY":
            if (bi.ok, tuple(bi.qry) if bi.qry else None, bi.storage_changed) != (bm.ok, tuple(bm.qry) if bm.qry else None, bm.storage_changed):
                return ("query answer differs from the stored book / configuration (C16_get_ask, C16_get_bid, C16_absent_*, "
                        "C16_contract_info, C16_version_info determine it): implementation %s, prescribed %s" %
                        ("ok" if bi.ok else "fails", "ok" if bm.ok else "fails"))
    except Exception:
        return None
    return None

# ---------------------------------------------------------------------------------------------------------
# implementation-side oracles: evaluate the property text on the implementation's own observations
# ---------------------------------------------------------------------------------------------------------
def shadow_of(asks, bids):
    """what an off-chain consumer tracks: open asks (remaining size, approval state), open bids (remaining size)"""
    return (dict((k, (a.size, a.cls[0])) for k, a in asks.items()),
            dict((k, x.rem_base) for k, x in bids.items() if isinstance(x, fmt.Bid)))


def shadow_step(attrs, sh):
    """the consumer of C17: one step from the attribute list alone (same function as Shadow.shadow_step in Coq)"""
    asks, bids = dict(sh[0]), dict(sh[1])
    at = dict(attrs)
    act = at.get("action")

    def num(name):
        v = at.get(name)
        return int(v) if v is not None and v.isdigit() else None

    def reverse(book, pair):
        i, n, o = at.get("id"), num("reverse_size"), at.get("order_open")
        if i in book and n is not None and o is not None:
            if o == "true":
                book[i] = (book[i][0] - n, book[i][1]) if pair else book[i] - n
            else:
                del book[i]

    def shrink(book, i, n, pair):
        if i in book and n is not None:
            left = (book[i][0] if pair else book[i]) - n
            if left == 0:
                del book[i]
            else:
                book[i] = (left, book[i][1]) if pair else left
    if act == "create_ask":
        i, n, cl = at.get("id"), num("size"), at.get("class")
        if i is not None and n is not None and cl is not None:
            asks[i] = (n, "basic" if cl == '"Basic"' else "pending" if "PendingIssuerApproval" in cl else "ready")
    elif act == "create_bid":
        i, n = at.get("id"), num("size")
        if i is not None and n is not None:
            bids[i] = n
    elif act == "approve_ask":
        i = at.get("id")
        if i in asks:
            asks[i] = (asks[i][0], "ready")
    elif act == "cancel_ask":
        asks.pop(at.get("id"), None)
    elif act in ("expire_ask", "reject_ask"):
        reverse(asks, True)
    elif act in ("cancel_bid", "expire_bid", "reject_bid"):
        reverse(bids, False)
    elif act == "execute":
        n = num("size")
        shrink(asks, at.get("ask_id"), n, True)
        shrink(bids, at.get("bid_id"), n, False)
    return (asks, bids)


class Oracle:
    """Folds over the blocks of one history of an implementation trace and reports property failures as
    (property, class_tag, message).  class_tag names the known class when the failing step falls in one."""

    def __init__(self):
        self.match_stats = {}    # accepted matches inside / outside the side condition of the theorems (InvBid.small_products)
        self.reset()

    def reset(self):
        self.markers = {}
        self.asks = {}
        self.bids = {}
        self.cfg = None
        self.ver = None
        self.hold = {}
        self.migration = False
        self.tainted = None      # name of the known class that took the history outside the invariant
        self.started = False     # an accepted INST seen (C01 ledger histories)
        self.seeded = False
        self.self_sent = False
        self.closed = set()
        self.role_exec = None    # executor / approver lists as the accepted requests set them (independent of storage)
        self.role_appr = None
        self.meta_version = getattr(self, "meta_version", None)
        self.model_inv = None    # InvCheck.inv_check on the state before the current event, as the model runner reports it
        self.inv_reported = False

    def restricted(self, d):
        return (self.markers.get(d) or "").startswith("R")

    def judges_invariant(self):
        """the theorems claim Inv for states reached from an instantiation by accepted requests outside the recorded
        classes (Inv_reachable, Hist.Inv_hrun); seeded legacy books are claimed only when well-formed (MigPre), which the
        generator does not promise"""
        return self.started and self.tainted is None and not self.seeded and not self.migration

    def owed(self, asks, bids):
        o = {}

        def add(d, x):
            if x:
                o[d] = o.get(d, 0) + x
        for a in asks.values():
            add(a.base, a.size)
            if a.cls[0] == "ready":
                add(a.cls[2], a.cls[3])
        for b in bids.values():
            if isinstance(b, fmt.Bid):
                add(b.quote_denom, b.rem_quote + b.rem_fee)
        return o

    def match_check(self, ev):
        """conditions an accepted match must meet (C03); list of (class, message)"""
        out = []
        try:
            aid, bid_ = fmt.dec(ev.args[0]), fmt.dec(ev.args[1])
            s = int(ev.args[3])
            a, b = self.asks.get(aid), self.bids.get(bid_)
            if a is None or not isinstance(b, fmt.Bid):
                return [(None, "match accepted for an order that is not on the book")]
            def judged(text):
                # beyond 28 digits / 96 bits the implementation's parser rounds; that reading is the model's business
                # (Dec.dec_parse, compared case by case), not this oracle's
                return parse_dec_exact(text)
            p, ap, bp = judged(fmt.dec(ev.args[2])), judged(a.price), judged(b.price)
            if self.cfg is not None and ev.sender not in self.cfg.executors:
                out.append((None, "match by a non-executor"))
            if ev.funds:
                out.append((None, "match with funds attached"))
            if a.quote != b.quote_denom:
                out.append((None, "match across different quote denominations"))
            if a.cls[0] == "pending":
                out.append((None, "match of an ask pending approval"))
            if not (1 <= s <= a.size and s <= b.rem_base):
                out.append((None, "match size outside 1..remaining"))
            if None not in (p, ap, bp):
                if ap > bp:
                    out.append((None, "match although ask price exceeds bid price"))
                if p != ap and p != bp:
                    out.append((None, "execution price is neither limit price"))

                def frac(price_str, price):
                    if (price * s).denominator == 1:
                        return None
                    digits = price_str.replace("_", "").lstrip("+-").replace(".", "")
                    return "K_inexact" if int(digits or "0") * s >= 2 ** 96 else "plain"
                for ps, pv in ((fmt.dec(ev.args[2]), p),) + (((b.price, bp),) if p < bp else ()):
                    c = frac(ps, pv)
                    if c:
                        out.append(("K_inexact" if c == "K_inexact" else None,
                                    "match accepted although price*size is not a whole number"))
        except Exception:
            pass
        return out

    def feed(self, b, ev):
        # a book in which some record sits under a key that is not its own id field is not a state of the contract
        # (every version saves an order under its id: Inv.v, MigrateInv.MigPre); seeded that way it is compared with
        # the model like any other, but the property text is not judged on it
        try:
            odd = any(o.key != o.id for o in self.asks.values()) or \
                any((o.key != o.id) if isinstance(o, fmt.Bid) else (isinstance(o, tuple) and o[0] == "v2" and fmt.dec(o[1][0]) != kk)
                    for kk, o in self.bids.items())
        except Exception:
            odd = False
        out = self.feed_(b, ev)
        return [] if odd else out

    def feed_(self, b, ev):
        out = []
        k = ev.kind
        if k == "META":
            try:
                self.meta_version = fmt.dec(ev.tok[2])
            except Exception:
                pass
            return out
        if k == "H":
            self.reset()
            self.migration = "migration" in b.ev
            return out
        if k == "ENV":
            try:
                self.markers = dict((fmt.dec(x.split("=")[0]), x.split("=")[1])
                                    for x in ([] if ev.tok[1] == "[]" else ev.tok[1].split(",")))
            except Exception:
                pass
            return out
        if k.startswith("SEED"):
            self.seeded = True
        # ---- C11: the state the implementation is in satisfies the invariant of the theorems (decided by the extracted
        # InvCheck.inv_check, proved equivalent to Inv); reported once per history
        if self.model_inv is False and not self.inv_reported and self.judges_invariant() and \
                k in ("EXEC", "PEXEC", "QUERY", "MIGRATE", "PMIGRATE"):
            self.inv_reported = True
            out.append(("C11", None, "the state before this event violates the invariant of the theorems (Inv.v: order stored under its own "
                                     "valid id, positive remainders, unspent = price * unfilled, fee held = pro-rata share, class and "
                                     "denominations consistent with the configuration, ...)"))
        # ---- C10: message shape against the marker table served
        if b.ok and k in ("EXEC", "PEXEC", "INST", "MIGRATE", "PMIGRATE"):
            for m in b.msgs:
                bad = None
                if m[0] == "bank":
                    if len(m[2]) != 1:
                        bad = "bank send of %d coins" % len(m[2])
                    else:
                        amt, d = m[2][0]
                        if amt <= 0:
                            bad = "bank send of a zero coin" if not (self.migration or self.seeded) else None
                        elif self.restricted(d):
                            bad = "bank send of restricted marker %s" % d
                elif m[0] == "xfer":
                    amt, d = m[3]
                    if amt <= 0:
                        bad = "zero marker transfer" if not (self.migration or self.seeded) else None
                    elif not self.restricted(d):
                        bad = "marker transfer of unrestricted %s" % d
                    elif m[4] != SELF:
                        bad = "administrator is not the contract"
                    elif not (m[1] == SELF or (m[1] == ev.sender and m[2] == SELF
                                               and ev.sub in ("create_ask", "create_bid", "approve_ask"))):
                        bad = "marker transfer drawn from %s" % m[1]
                else:
                    bad = "unexpected message kind"
                if bad:
                    out.append(("C10", None, bad))
        # ---- C16: queries
        if k == "QUERY":
            if b.storage_changed:
                out.append(("C16", None, "query changed storage"))
            t = ev.tok
            if len(t) >= 3 and t[1] in ("get_ask", "get_bid"):
                try:
                    i = fmt.dec(t[2])
                except Exception:
                    i = None
                book = self.asks if t[1] == "get_ask" else self.bids
                slot = book.get(i)
                if b.ok:
                    if slot is None or not isinstance(slot, (fmt.Ask, fmt.Bid)):
                        out.append(("C16", None, "query found an order that is not on the book"))
                    else:
                        want = ask_full(slot)[1:] if t[1] == "get_ask" else bid_full(slot)[1:]
                        q = b.qry[1:]
                        got = ask_full(fmt.Ask(["~"] + q))[1:] if t[1] == "get_ask" else bid_full(fmt.Bid(["~"] + q))[1:]
                        if want != got:
                            out.append(("C16", None, "query result differs from the stored order"))
                        left = slot.size if t[1] == "get_ask" else slot.rem_base
                        if left < 1 and not (self.migration or self.seeded):
                            out.append(("C16", None, "query returns an order with nothing remaining (completely filled / rejected)"))
                elif isinstance(slot, (fmt.Ask, fmt.Bid)):
                    out.append(("C16", None, "query failed for an order on the book"))
            return out
        if k not in ("EXEC", "PEXEC", "INST", "MIGRATE", "PMIGRATE") and not k.startswith("SEED"):
            return out
        # ---- C16: what a query of an ask reports (remaining size, the approver's recorded coin) is what its owner's
        # cancel pays out, in every state -- seeded legacy books included
        if b.ok and k in ("EXEC", "PEXEC") and ev.sub == "cancel_ask" and not self.self_sent:
            try:
                a = self.asks.get(ev.ids()[0][0])
                if a is not None and SELF not in (a.owner, a.cls[1] if a.cls[0] == "ready" else None):
                    want = {}
                    want[(a.owner, a.base)] = a.size
                    if a.cls[0] == "ready":
                        want[(a.cls[1], a.cls[2])] = want.get((a.cls[1], a.cls[2]), 0) + a.cls[3]
                    got = dict((kk, v) for kk, v in dict(flows(b, ev)).items() if kk[0] != SELF)
                    if got != dict((kk, v) for kk, v in want.items() if v):
                        out.append(("C16", None, "cancel_ask pays %r, the order a query reports holds %r" % (sorted(got.items()), sorted(want.items()))))
            except Exception:
                pass
        # ---- C16: what get_ask reports for a plain ask (the denomination it sells) is what a match delivers to the buyer
        if b.ok and k in ("EXEC", "PEXEC") and ev.sub == "execute_match" and not self.self_sent:
            try:
                ai_, bi_ = ev.ids()
                a0_, b0_ = self.asks.get(ai_[0]), self.bids.get(bi_[0])
                s_ = int(ev.args[3])
                if a0_ is not None and isinstance(b0_, fmt.Bid) and a0_.cls[0] == "basic" and b0_.owner != SELF:
                    got_ = dict(flows(b, ev)).get((b0_.owner, a0_.base), 0)
                    if got_ < s_ and not (b0_.owner == a0_.owner):
                        out.append(("C16", None, "the ask reported by get_ask sells %s; the match of %d delivered %d of it to the buyer"
                                    % (a0_.base, s_, got_)))
            except Exception:
                pass
        # ---- C13: instantiate accepted exactly for coherent messages, stored = request
        if k == "INST" and len(ev.tok) >= 16:
            try:
                t = ev.tok[2:]
                want = inst_coherent(t)
                if want is not None and want != bool(b.ok):
                    out.append(("C13", None, "instantiate %s although the message is %scoherent" % ("accepted" if b.ok else "refused", "" if want else "in")))
                if b.ok and b.cfg is not None:
                    c = b.cfg
                    def fee(rate, acct):
                        return None if rate is None or (rate == "" and acct == "") else (acct, rate)
                    exp = (fmt.dec(t[0]), "", fmt.dec(t[1]), fmt.dlist(t[2]), fmt.dlist(t[3]), fmt.dlist(t[4]), fmt.dlist(t[5]),
                           fee(fmt.dopt(t[6]), fmt.dopt(t[7])), fee(fmt.dopt(t[8]), fmt.dopt(t[9])), fmt.dlist(t[10]), fmt.dlist(t[11]),
                           int(t[12]), int(t[13]))
                    got = (c.name, c.bind, c.base, c.conv, c.quotes, c.approvers, c.executors, c.ask_fee, c.bid_fee, c.ask_attrs,
                           c.bid_attrs, c.precision, c.increment)
                    if exp != got:
                        out.append(("C13", None, "stored configuration differs from the instantiate message"))
            except Exception:
                pass
        # ---- C12: what an accepted configuration change may do
        if k in ("EXEC", "PEXEC") and ev.sub == "modify_contract" and b.ok and self.cfg is not None and b.cfg is not None:
            try:
                a = ev.args
                ap, ex = fmt.dopt(a[0], fmt.dlist), fmt.dopt(a[1], fmt.dlist)
                afr, afa, bfr, bfa = fmt.dopt(a[2]), fmt.dopt(a[3]), fmt.dopt(a[4]), fmt.dopt(a[5])
                aat, bat = fmt.dopt(a[6], fmt.dlist), fmt.dopt(a[7], fmt.dlist)
                c0, c1 = self.cfg, b.cfg
                if (c1.name, c1.bind, c1.base, c1.conv, c1.quotes, c1.precision, c1.increment) != \
                        (c0.name, c0.bind, c0.base, c0.conv, c0.quotes, c0.precision, c0.increment):
                    out.append(("C12", None, "market parameters changed by a configuration request"))
                if c1.approvers != (ap if ap is not None else c0.approvers) or c1.executors != (ex if ex is not None else c0.executors):
                    out.append(("C12", None, "approver / executor list not installed as supplied (or changed although omitted)"))
                if c1.ask_attrs != (aat if aat is not None else c0.ask_attrs) or c1.bid_attrs != (bat if bat is not None else c0.bid_attrs):
                    out.append(("C12", None, "required attributes not installed as supplied"))
                if (ap is not None and not ap) or (ex is not None and not ex):
                    out.append(("C12", None, "approver / executor list set empty"))
                for side, book, rate, acct, f0, f1, attrs in (("ask", self.asks, afr, afa, c0.ask_fee, c1.ask_fee, aat),
                                                               ("bid", self.bids, bfr, bfa, c0.bid_fee, c1.bid_fee, bat)):
                    exp = f0 if rate is None else (None if (rate == "" and acct == "") else (acct, rate))
                    if f1 != exp:
                        out.append(("C12", None, "%s fee not installed as supplied" % side))
                    if book:
                        if attrs is not None:
                            out.append(("C12", None, "%s attributes changed while %ss are open" % (side, side)))
                        r0 = parse_dec_exact(f0[1]) if f0 else None
                        r1 = parse_dec_exact(f1[1]) if f1 else None
                        if (f0 is None) != (f1 is None) or (r0 is not None and r1 is not None and r0 != r1):
                            out.append(("C12", None, "%s fee rate changed while %ss are open" % (side, side)))
                if (self.asks or self.bids) and ap is not None and not set(c0.approvers) <= set(ap):
                    out.append(("C12", None, "an approver was dropped while orders are open"))
            except Exception:
                pass
        # ---- C14 / C15: migration effect
        if k in ("MIGRATE", "PMIGRATE") and b.ok and self.cfg is not None and b.cfg is not None:
            try:
                a = ev.tok[1:]
                ap = fmt.dopt(a[0], fmt.dlist)
                afr, afa, bfr, bfa = fmt.dopt(a[1]), fmt.dopt(a[2]), fmt.dopt(a[3]), fmt.dopt(a[4])
                aat, bat = fmt.dopt(a[5], fmt.dlist), fmt.dopt(a[6], fmt.dlist)
                c0, c1 = self.cfg, b.cfg
                def feeexp(f0, rate, acct):
                    return f0 if rate is None else (None if (rate == "" and acct == "") else (acct, rate))
                exp = (c0.name, c0.bind, c0.base, c0.conv, c0.quotes, ap if ap is not None else c0.approvers, c0.executors,
                       feeexp(c0.ask_fee, afr, afa), feeexp(c0.bid_fee, bfr, bfa), aat if aat is not None else c0.ask_attrs,
                       bat if bat is not None else c0.bid_attrs, c0.precision, c0.increment)
                got = (c1.name, c1.bind, c1.base, c1.conv, c1.quotes, c1.approvers, c1.executors, c1.ask_fee, c1.bid_fee,
                       c1.ask_attrs, c1.bid_attrs, c1.precision, c1.increment)
                if exp != got:
                    out.append(("C14", None, "configuration after migrate is not the old one with exactly the requested overrides"))
                if sorted(ask_full(x) for x in b.asks.values()) != sorted(ask_full(x) for x in self.asks.values()):
                    out.append(("C14", None, "migrate changed the ask book"))
                if b.ver is None or b.ver[1] != (self.meta_version or b.ver[1]):
                    out.append(("C14", None, "migrate did not stamp the package version"))
                if set(b.bids) != set(self.bids):
                    out.append(("C15", None, "migrate lost or invented a bid"))
                # the conversion window, for stored versions written as three plain numbers (other spellings are the
                # model's business: Semver.v)
                vt = None
                try:
                    vs = self.ver[1] if self.ver else None
                    if vs is not None and all(x.isdigit() and (x == "0" or x[0] != "0") and len(x) < 15 for x in vs.split(".")) and vs.count(".") == 2:
                        vt = tuple(int(x) for x in vs.split("."))
                except Exception:
                    vt = None
                if vt is not None:
                    if vt < (0, 16, 2):
                        out.append(("C14", None, "migration accepted from stored version %s, older than the supported minimum" % vs))
                    for key, old in self.bids.items():
                        new = b.bids.get(key)
                        if isinstance(old, tuple) and old[0] == "v2":
                            if (0, 16, 2) <= vt < (0, 19, 1) and not isinstance(new, fmt.Bid):
                                out.append(("C15", None, "migrating from %s left bid %s in the old format" % (vs, str(key)[:8])))
                            if vt >= (0, 19, 1) and new != old:
                                out.append(("C15", None, "migrating from %s (after the format change) rewrote bid %s" % (vs, str(key)[:8])))
                for key, old in self.bids.items():
                    new = b.bids.get(key)
                    if isinstance(old, fmt.Bid) and (not isinstance(new, fmt.Bid) or bid_full(new) != bid_full(old)):
                        out.append(("C15", None, "migrate rewrote a current-format bid"))
                    if isinstance(old, tuple) and old[0] == "v2" and isinstance(new, fmt.Bid):
                        f = old[1]     # id owner base_denom base_amt quote_denom quote_amt fee price events
                        sb = sq = sf = 0
                        for evt in ([] if f[8] == "[]" else f[8].split(";")):
                            p = evt.split(":")
                            if p[0] in ("F", "J"):
                                sb += int(p[1]); sq += int(p[2]); sf += 0 if p[3] == "-" else int(p[3])
                            else:
                                sq += int(p[1]); sf += 0 if p[2] == "-" else int(p[2])
                        if (new.acc_base, new.acc_quote, new.acc_fee) != (sb, sq, sf) or \
                                (fmt.enc(new.id), fmt.enc(new.owner), new.base_amt, new.quote_amt, fmt.enc(new.price)) != (f[0], f[1], int(f[3]), int(f[5]), f[7]):
                            out.append(("C15", None, "converted bid does not preserve the remaining amounts of its event log"))
                        if (new.acc_quote, new.acc_fee) != (sq, sf) and new.quote_amt == int(f[5]):
                            # order by order (C01): received on the bid's behalf minus paid on its behalf, per its own log
                            fee0 = new.fee[0] if new.fee else 0
                            out.append(("C01", None, "bid %s: escrowed %d, paid out %d per its event log, yet the converted bid records %d remaining"
                                        % (str(key)[:8], new.quote_amt + fee0, sq + sf, new.rem_quote + new.rem_fee)))
                        if new.acc_fee != sf:
                            out.append(("C09", None, "bid %s: fees paid and returned so far add up to %d, the converted bid records %d"
                                        % (str(key)[:8], sf, new.acc_fee)))
            except Exception:
                pass
        probe = k in ("PEXEC", "PMIGRATE")
        # ---- C05: accepted privileged request => role (state before; role lists tracked from the accepted requests)
        if b.ok and k in ("EXEC", "PEXEC") and self.cfg is not None:
            s = ev.sender
            execs = self.role_exec if self.role_exec is not None else self.cfg.executors
            apprs = self.role_appr if self.role_appr is not None else self.cfg.approvers
            ai, bi = ev.ids()
            why = None
            if ev.sub == "cancel_ask":
                a = self.asks.get(ai[0])
                if a is not None and a.owner != s:
                    why = "cancel_ask by a non-owner"
            elif ev.sub == "cancel_bid":
                x = self.bids.get(bi[0])
                if isinstance(x, fmt.Bid) and x.owner != s:
                    why = "cancel_bid by a non-owner"
            elif ev.sub in ("expire_ask", "expire_bid", "reject_ask", "reject_bid", "execute_match",
                            "modify_contract"):
                if s not in execs:
                    why = "%s by a non-executor" % ev.sub
            elif ev.sub == "approve_ask":
                if s not in apprs:
                    why = "approve_ask by a non-approver"
            if why:
                out.append(("C05", None, why))
        if not b.ok and k in ("EXEC", "PEXEC") and (b.msgs or b.attrs):
            out.append(("C05", None, "refused request carries messages"))
        # ---- C03: what an accepted match must satisfy (state before)
        if b.ok and k in ("EXEC", "PEXEC") and ev.sub == "execute_match" and self.cfg is not None and not self.seeded:
            if k == "EXEC":
                try:
                    b0 = self.bids.get(fmt.dec(ev.args[1]))
                    sz = int(ev.args[3])

                    def mant(text):
                        return int(text.replace("_", "").lstrip("+-").replace(".", "") or "0")
                    inside = mant(fmt.dec(ev.args[2])) * sz < 2 ** 96 and mant(b0.price) * sz < 2 ** 96
                    key = "small_products holds" if inside else "outside (mantissa*size >= 2^96)"
                    self.match_stats[key] = self.match_stats.get(key, 0) + 1
                except Exception:
                    self.match_stats["not judged"] = self.match_stats.get("not judged", 0) + 1
            for cls, msg in self.match_check(ev):
                out.append(("C03", cls, msg))
                if k == "EXEC" and self.tainted is None and cls == "K_inexact":
                    self.tainted = "K_inexact"
        if k == "EXEC" and b.ok and ev.sender == SELF:
            # assumption A-self (DESIGN section 5): the contract is never a sender, hence never an owner or approver; what it
            # pays to itself is invisible in the flows, so the flow-based oracles abstain for the rest of such a history
            self.self_sent = True
        # a fee account equal to the contract's own address: what the contract pays to itself is invisible in the flows
        # (assumption A-self covers fee accounts as it covers senders and owners)
        fee_self = self.cfg is not None and SELF in [f[0] for f in (self.cfg.ask_fee, self.cfg.bid_fee) if f]
        if fee_self:
            self.self_sent = True      # for the rest of the history, like a request sent by the contract itself
        clean = self.tainted is None and not self.migration and not self.seeded and not self.self_sent
        # the ledger oracle (C01) stops after its first failure, because every later step would repeat it; the oracles that
        # judge one request's payouts on the state before it (C06 exits, C02 / C04 recipients) go on: what an earlier step
        # left wrong in the book does not excuse what the next request pays out
        clean_flows = (self.tainted in (None, "C01")) and not self.migration and not self.seeded and not self.self_sent
        # ---- C06: exit probes
        if k == "PEXEC" and ev.sub in ("cancel_ask", "cancel_bid", "expire_ask", "expire_bid") and clean_flows:
            ai, bi = ev.ids()
            o = self.asks.get(ai[0]) if ai else self.bids.get(bi[0]) if bi else None
            entitled = (isinstance(o, (fmt.Ask, fmt.Bid)) and not ev.funds and self.cfg is not None and
                        (ev.sender == o.owner if ev.sub.startswith("cancel") else ev.sender in self.cfg.executors))
            if not b.ok:
                if entitled:
                    out.append(("C06", None, "%s of an open order refused: %s" % (ev.sub, fmt.dec(b.err or "~"))))
            else:
                fl = dict(flows(b, ev))
                if ai:
                    a = self.asks.get(ai[0])
                    if a is not None:
                        want = {}
                        want[(a.owner, a.base)] = want.get((a.owner, a.base), 0) + a.size
                        if a.cls[0] == "ready":
                            want[(a.cls[1], a.cls[2])] = want.get((a.cls[1], a.cls[2]), 0) + a.size
                        got = dict((kk, v) for kk, v in fl.items() if kk[0] != SELF)
                        if got != want or ai[0] in b.asks:
                            out.append(("C06", None, "ask exit did not return the whole escrow"))
                if bi:
                    x = self.bids.get(bi[0])
                    if isinstance(x, fmt.Bid):
                        want = {(x.owner, x.quote_denom): x.rem_quote + x.rem_fee}
                        want = dict((kk, v) for kk, v in want.items() if v)
                        got = dict((kk, v) for kk, v in fl.items() if kk[0] != SELF)
                        if got != want or bi[0] in b.bids:
                            out.append(("C06", None, "bid exit did not return the whole escrow"))
        # ---- C11 / C07: a creation never touches a record already resting under its id (whatever its storage format)
        if b.ok and k in ("EXEC", "PEXEC") and ev.sub in ("create_ask", "create_bid") and b.has_dump:
            ai, bi = ev.ids()
            for i, pre_book, post_book in [(x, self.asks, b.asks) for x in ai] + [(x, self.bids, b.bids) for x in bi]:
                if i in pre_book:
                    o0, o1 = pre_book[i], post_book.get(i)
                    same = (o1 is not None and type(o0) is type(o1) and
                            ((ask_full(o0) == ask_full(o1)) if isinstance(o0, fmt.Ask) else (bid_full(o0) == bid_full(o1))))
                    if not same:
                        out.append(("C11", None, "%s under id %s rewrote the order already resting under that id" % (ev.sub, i[:13])))
                        out.append(("C07", None, "%s under id %s admitted although the id is on that side of the book; the resting order was overwritten" % (ev.sub, i[:13])))
        # ---- C11 / C06: an exit touches the order it names and no other; an order that vanishes without being named can
        # never be cancelled by its owner
        if b.ok and k in ("EXEC", "PEXEC") and ev.sub in REVERSE and b.has_dump:
            ai, bi = ev.ids()
            gone = sorted((set(self.asks) - set(ai)) - set(b.asks)) + sorted((set(self.bids) - set(bi)) - set(b.bids))
            if gone:
                out.append(("C11", None, "%s of %s removed another order from the book: %s" % (ev.sub, (ai or bi)[0][:12], gone[0][:40])))
                out.append(("C06", None, "%s of %s removed order %s, which its owner can now never cancel" % (ev.sub, (ai or bi)[0][:12], gone[0][:40])))
        # ---- C17: a shadow book kept in step with the attributes alone never diverges from the book
        if b.ok and k in ("EXEC", "PEXEC") and b.has_dump and not self.seeded and not self.migration:
            try:
                want = shadow_of(b.asks, b.bids)
                got = shadow_step(b.attrs, shadow_of(self.asks, self.bids))
                if got != want:
                    diff = sorted(set(got[0].items()) ^ set(want[0].items())) + sorted(set(got[1].items()) ^ set(want[1].items()))
                    out.append(("C17", None, "attribute-driven shadow book diverges from the book after %s: %s" % (ev.sub, diff[:3])))
            except Exception:
                pass
        # ---- C17: attributes of accepted executes
        if b.ok and k in ("EXEC", "PEXEC"):
            at = dict(b.attrs)
            names = {"cancel_ask": "cancel_ask", "cancel_bid": "cancel_bid", "expire_ask": "expire_ask",
                     "expire_bid": "expire_bid", "reject_ask": "reject_ask", "reject_bid": "reject_bid",
                     "execute_match": "execute", "modify_contract": "modify_contract",
                     "approve_ask": "approve_ask", "create_ask": "create_ask", "create_bid": "create_bid"}
            if at.get("action") != names.get(ev.sub):
                out.append(("C17", None, "action attribute %r for %s" % (at.get("action"), ev.sub)))
            ai, bi = ev.ids()
            if ev.sub in ("expire_ask", "reject_ask", "expire_bid", "reject_bid", "cancel_bid"):
                side_before = self.asks if ai else self.bids
                side_after = b.asks if ai else b.bids
                i = (ai or bi)[0]
                o = side_before.get(i)
                if isinstance(o, (fmt.Ask, fmt.Bid)):
                    rem0 = o.size if ai else o.rem_base
                    n = side_after.get(i)
                    rem1 = 0 if n is None else (n.size if ai else n.rem_base)
                    if at.get("reverse_size") != str(rem0 - rem1):
                        out.append(("C17", None, "reverse_size attribute differs from the size returned"))
                    if at.get("order_open") != ("true" if n is not None else "false"):
                        out.append(("C17", None, "order_open attribute differs from the book"))
                    if at.get("id") != i:
                        out.append(("C17", None, "id attribute differs from the order acted on"))
            if ev.sub == "execute_match" and self.cfg is not None:
                fl = dict(flows(b, ev))
                a0 = self.asks.get(ai[0])
                b0 = self.bids.get(bi[0])
                if isinstance(b0, fmt.Bid) and a0 is not None:
                    n = b.bids.get(bi[0])
                    filled = b0.rem_base - (n.rem_base if n is not None else 0)
                    if at.get("size") != str(filled) or at.get("ask_id") != ai[0] or at.get("bid_id") != bi[0]:
                        out.append(("C17", None, "match size/id attributes differ from what was executed"))
                    # reported fees against what the fee accounts actually received
                    try:
                        rep = {"ask": int(at.get("ask_fee", "0")), "bid": int(at.get("bid_fee", "0"))}
                        accts = {"ask": self.cfg.ask_fee[0] if self.cfg.ask_fee else None,
                                 "bid": self.cfg.bid_fee[0] if self.cfg.bid_fee else None}
                        parties = {a0.owner, b0.owner} | ({a0.cls[1]} if a0.cls[0] == "ready" else set())
                        q = b0.quote_denom
                        for side in ("ask", "bid"):
                            if rep[side] and accts[side] is None:
                                out.append(("C17", None, "%s_fee %d reported but no %s-fee account is configured" % (side, rep[side], side)))
                        if accts["ask"] == accts["bid"]:
                            want = {accts["ask"]: rep["ask"] + rep["bid"]} if accts["ask"] else {}
                        else:
                            want = dict((accts[s_], rep[s_]) for s_ in ("ask", "bid") if accts[s_])
                        for acct, amt in want.items():
                            if acct not in parties and acct != SELF and fl.get((acct, q), 0) != amt:
                                out.append(("C17", None, "fee attributes report %d for %s, it received %d" % (amt, acct, fl.get((acct, q), 0))))
                    except Exception:
                        pass
        # ---- C02 / C04: who receives what (exact rationals; states reached without seeds or known-class steps)
        if b.ok and k in ("EXEC", "PEXEC") and self.cfg is not None and clean_flows:
            fl = dict(flows(b, ev))
            ai, bi = ev.ids()
            try:
                if ev.sub == "execute_match":
                    a0, b0 = self.asks.get(ai[0]), self.bids.get(bi[0])
                    s = int(ev.args[3])
                    p, bp = parse_dec_exact(fmt.dec(ev.args[2])), parse_dec_exact(b0.price)
                    q = b0.quote_denom
                    seller = a0.cls[1] if a0.cls[0] == "ready" else a0.owner
                    allowed = {SELF, b0.owner, seller} | ({self.cfg.ask_fee[0]} if self.cfg.ask_fee else set()) | \
                        ({self.cfg.bid_fee[0]} if self.cfg.bid_fee else set())
                    for (acct, d), v in fl.items():
                        if acct not in allowed:
                            out.append(("C02", None, "match pays %s, who is no party to it" % acct))
                    roles = [b0.owner, seller] + ([self.cfg.ask_fee[0]] if self.cfg.ask_fee else []) + \
                        ([self.cfg.bid_fee[0]] if self.cfg.bid_fee else [])
                    # per-(account, denomination) sums can only be told apart when the parties are distinct and the
                    # quote denomination is neither the base nor the ask's denomination; overlapping cases are left
                    # to the model (exact in all of them)
                    distinct = len(set(roles)) == len(roles) and q not in (self.cfg.base, a0.base)
                    if distinct and p is not None and bp is not None:
                        gross = p * s
                        if fl.get((b0.owner, self.cfg.base), 0) != s:
                            out.append(("C02", None, "buyer received %d base for a fill of %d" % (fl.get((b0.owner, self.cfg.base), 0), s)))
                        af = fl.get((self.cfg.ask_fee[0], q), 0) if self.cfg.ask_fee else 0
                        if fl.get((seller, q), 0) + af != gross:
                            out.append(("C02", None, "selling side + ask fee received %d, price*size is %s" % (fl.get((seller, q), 0) + af, gross)))
                        if a0.cls[0] == "ready" and fl.get((seller, a0.base), 0) != s:
                            out.append(("C02", None, "approver did not receive the converted denomination"))
                        # the ask fee: configured rate times the executed total, rounded half away from zero (exact whenever
                        # mantissa(rate) * total < 2^96; beyond that lies the recorded class K_rate)
                        if self.cfg.ask_fee and gross.denominator == 1:
                            rate = parse_dec_exact(self.cfg.ask_fee[1])
                            if rate is not None and rate >= 0:
                                exact = rate * gross
                                qf, rf = divmod(exact.numerator, exact.denominator)
                                want_fee = qf + 1 if 2 * rf >= exact.denominator else qf
                                if af != want_fee:
                                    inside = _mant(self.cfg.ask_fee[1]) * int(gross) >= 2 ** 96
                                    out.append(("C09", "K_rate" if inside else None,
                                                "ask fee of %d taken on a total of %d, rate %s rounds to %d" % (af, int(gross), self.cfg.ask_fee[1], want_fee)))
                                    if not inside:
                                        out.append(("C02", None, "ask-fee account received %d, rate*price*size rounded half away from zero is %d" % (af, want_fee)))
                        if p < bp and fl.get((b0.owner, q), 0) < (bp - p) * s:
                            out.append(("C02", None, "price-improvement refund below (bid price - price)*size"))
                        # the part of its escrowed fee the fill releases from the bid goes to the bid-fee account and, with the
                        # refund, back to the bid's owner -- all of it, to nobody else (fees paid and returned add up, C09)
                        nb = b.bids.get(bi[0])
                        released = b0.rem_fee - (nb.rem_fee if isinstance(nb, fmt.Bid) else 0)
                        bfa = self.cfg.bid_fee[0] if self.cfg.bid_fee else None
                        to_fee_acct = fl.get((bfa, q), 0) if bfa else 0
                        refund = (bp - p) * s
                        if refund.denominator == 1 and b0.fee:
                            to_owner = fl.get((b0.owner, q), 0) - int(refund)
                            if to_fee_acct + to_owner != released:
                                msg = ("the fill released %d of the bid's escrowed fee; the bid-fee account received %d and the owner %d"
                                       % (released, to_fee_acct, to_owner))
                                out.append(("C02", None, msg))
                                out.append(("C09", None, msg))
                elif ev.sub in REVERSE:
                    side_ask = bool(ai)
                    o = self.asks.get(ai[0]) if side_ask else self.bids.get(bi[0])
                    after = (b.asks if side_ask else b.bids).get((ai or bi)[0])
                    if isinstance(o, (fmt.Ask, fmt.Bid)):
                        rem0 = o.size if side_ask else o.rem_base
                        rem1 = 0 if after is None else (after.size if side_ask else after.rem_base)
                        c = rem0 - rem1
                        want = {}
                        if side_ask:
                            want[(o.owner, o.base)] = want.get((o.owner, o.base), 0) + c
                            if o.cls[0] == "ready":
                                want[(o.cls[1], self.cfg.base)] = want.get((o.cls[1], self.cfg.base), 0) + c
                        got = dict((kk, v) for kk, v in fl.items() if kk[0] != SELF)
                        if side_ask and got != dict((kk, v) for kk, v in want.items() if v):
                            out.append(("C04", None, "ask reversal of %d paid %r" % (c, sorted(got.items()))))
                        if not side_ask:
                            pr = parse_dec_exact(o.price)
                            paid = got.get((o.owner, o.quote_denom), 0)
                            fee_back = o.rem_fee - (after.rem_fee if after is not None else 0)
                            if set(got) - {(o.owner, o.quote_denom)}:
                                out.append(("C04", None, "bid reversal pays somebody other than the owner"))
                            if pr is not None and paid != pr * c + fee_back:
                                out.append(("C04", None, "bid reversal of %d returned %d, price*c + fee part is %s" % (c, paid, pr * c + fee_back)))
                        if after is not None and rem1 == 0:
                            out.append(("C04", None, "order reduced to zero by %s stays on the book" % ev.sub))
                        if len(ev.args) > 1 and ev.args[1] != "-" and ev.sub.startswith("reject"):
                            sz = int(ev.args[1])
                            if not (1 <= sz <= rem0 and sz % self.cfg.increment == 0):
                                out.append(("C04", None, "partial size %d accepted (increment %d, remaining %d)" % (sz, self.cfg.increment, rem0)))
            except Exception:
                pass
        # ---- C09 fee exactness (rates judged exactly; pro-rata to the nearest unit, lower unit only on a tie)
        if k == "EXEC" and self.cfg is not None and clean:
            if ev.sub == "create_bid" and b.ok:
                try:
                    _, bi = ev.ids()
                    nb = b.bids.get(bi[0])
                    rate = parse_dec_exact(self.cfg.bid_fee[1]) if self.cfg.bid_fee else Fraction(0)
                    if isinstance(nb, fmt.Bid) and rate is not None and rate >= 0:
                        exact = rate * nb.quote_amt
                        q, r = divmod(exact.numerator, exact.denominator)
                        want = q + 1 if 2 * r >= exact.denominator else q
                        got = nb.fee[0] if nb.fee else 0
                        if got != want:
                            digits = self.cfg.bid_fee[1].replace("_", "").lstrip("+-").replace(".", "")
                            cls = "K_rate" if int(digits or "0") * nb.quote_amt >= 2 ** 96 else None
                            out.append(("C09", cls, "bid admitted with fee %d, exact rate*total rounds to %d" % (got, want)))
                except Exception:
                    pass
            if ev.sub == "create_bid" and not b.ok and "panic" in (b.err or ""):
                try:
                    if max(int(ev.args[5]), int(ev.args[6])) >= 2 ** 96:
                        out.append(("C07", "K_capacity", "create_bid with an amount >= 2^96 aborts"))
                except Exception:
                    pass
            if b.ok:
                attrib = {"execute_match": "C02", "cancel_bid": "C04", "expire_bid": "C04", "reject_bid": "C04"}.get(ev.sub)
                for x in b.bids.values():
                    if isinstance(x, fmt.Bid) and x.fee and x.quote_amt:
                        exact = Fraction(x.fee[0] * x.rem_quote, x.quote_amt)
                        q, r = divmod(exact.numerator, exact.denominator)
                        tie = 2 * r == exact.denominator
                        want = q + 1 if 2 * r >= exact.denominator else q
                        if x.rem_fee != want and not (tie and x.rem_fee == q):
                            cls = "K_prorata" if 20 * x.quote_amt * x.fee[0] > 10 ** 28 else None
                            out.append(("C09", cls, "bid %s holds fee %d, pro-rata share is %d" % (x.key[:8], x.rem_fee, want)))
                            if attrib and cls is None and x.key in (ev.ids()[1] or []):
                                out.append((attrib, None, "after %s bid %s holds fee %d, pro-rata share is %d" % (ev.sub, x.key[:8], x.rem_fee, want)))
        # ---- C11: every bid on the book is internally consistent (unspent = price * unfilled, something left)
        if k == "EXEC" and b.ok and clean:
            for x in b.bids.values():
                if isinstance(x, fmt.Bid):
                    pr = parse_dec_exact(x.price)
                    if x.rem_base < 1 or (pr is not None and pr * x.rem_base != x.rem_quote):
                        out.append(("C11", None, "bid %s: unspent quote %d, price*unfilled is %s" % (x.key[:8], x.rem_quote, None if pr is None else pr * x.rem_base)))
            for x in list(b.asks.values()) + [y for y in b.bids.values() if isinstance(y, fmt.Bid)]:
                pv = parse_dec(x.price)
                if pv is None or pv <= 0:
                    out.append(("C11", None, "order %s carries a price that is not a positive decimal numeral: %r" % (x.key[:8], x.price)))
                elif self.cfg is not None and self.cfg.precision <= 28 and pv * 10 ** self.cfg.precision >= 2 ** 96:
                    out.append(("C11", None, "order %s carries price %s, which cannot be scaled by 10^%d in 96 bits: the contract can never "
                                             "price a match of it" % (x.key[:8], x.price, self.cfg.precision)))
            for a in b.asks.values():
                if a.size < 1 or (a.cls[0] == "basic") != (self.cfg is not None and a.base == self.cfg.base):
                    out.append(("C11", None, "ask %s inconsistent (size %d, class %s, base %s)" % (a.key[:8], a.size, a.cls[0], a.base)))
                if (a.cls[0] == "basic") != (self.cfg is not None and a.base == self.cfg.base):
                    out.append(("C08", None, "ask %s selling %s is %s: plain asks are exactly those selling the base denomination"
                                % (a.key[:8], a.base, a.cls[0])))
                if a.cls[0] == "ready" and a.cls[3] != a.size:
                    out.append(("C08", None, "ask %s: approver amount %d, remaining size %d" % (a.key[:8], a.cls[3], a.size)))
        # ---- C04 / C06: an exit whose payout uses the wrong mechanism is rejected by the chain
        if b.ok and k in ("EXEC", "PEXEC") and ev.sub in REVERSE:
            for m in b.msgs:
                wrong = (m[0] == "bank" and any(self.restricted(d) for _, d in m[2])) or (m[0] == "xfer" and not self.restricted(m[3][1]))
                if wrong:
                    out.append(("C04", None, "payout of %s uses the wrong transfer mechanism" % ev.sub))
                    if k == "PEXEC" and ev.sub in ("cancel_ask", "cancel_bid", "expire_ask", "expire_bid"):
                        out.append(("C06", None, "exit payout uses the wrong transfer mechanism: the chain would refuse it"))
        # ---- C01 ledger (histories that start with an accepted instantiate, no seeds, clean)
        if k == "INST" and b.ok:
            self.started = True
            self.hold = {}
        if k == "EXEC" and b.ok and self.started and clean:
            for (acct, d), v in flows(b, ev):
                if acct == SELF:
                    self.hold[d] = self.hold.get(d, 0) + v
            owed = self.owed(b.asks, b.bids)
            hold = dict((d, v) for d, v in self.hold.items() if v)
            if hold != owed:
                diff = sorted(set(hold.items()) ^ set(owed.items()))
                out.append(("C01", None, "holdings differ from what open orders are owed: %r" % (diff,)))
                self.tainted = self.tainted or "C01"
        if b.ok and not probe:
            try:
                if k == "INST":
                    self.role_appr, self.role_exec = fmt.dlist(ev.tok[6]), fmt.dlist(ev.tok[7])
                elif k == "EXEC" and ev.sub == "modify_contract":
                    ap, ex = fmt.dopt(ev.args[0], fmt.dlist), fmt.dopt(ev.args[1], fmt.dlist)
                    if ap is not None and self.role_appr is not None:
                        self.role_appr = ap
                    if ex is not None and self.role_exec is not None:
                        self.role_exec = ex
                elif k == "MIGRATE":
                    ap = fmt.dopt(ev.tok[1], fmt.dlist)
                    if ap is not None and self.role_appr is not None:
                        self.role_appr = ap
                elif k.startswith("SEED"):
                    self.role_appr = self.role_exec = None
            except Exception:
                self.role_appr = self.role_exec = None
        if b.ok and b.has_dump and not probe:
            self.asks, self.bids, self.cfg, self.ver = b.asks, b.bids, b.cfg, b.ver
        return out
