#!/bin/sh
# confirm_mutant.sh <worktree> <outdir(mK)> : confirms a seeded change in a scratch worktree:
#   suite passes with the change, demo fails with it, demo passes without it.  Prints CONFIRMED or NOT-CONFIRMED.
set -u
WT="$1"; OUT="$2"
export CARGO_NET_OFFLINE=true CARGO_TARGET_DIR="$WT/target"
cd "$WT" || exit 2
git checkout -q -- . ; rm -rf tests
mkdir -p tests; cp "$OUT/demo.rs" tests/demo_seeded.rs
R0=$(cargo test --offline --test demo_seeded 2>&1 | grep -E "^test result" | head -1)
git apply "$OUT/patch.diff" || { echo "NOT-CONFIRMED patch does not apply"; exit 1; }
R1=$(cargo test --offline --test demo_seeded 2>&1 | grep -E "^test result" | head -1)
rm -rf tests
R2=$(cargo test --offline 2>&1 | grep -E "^test result" | head -1)
git checkout -q -- . ; rm -rf tests
echo "demo-without: $R0"; echo "demo-with: $R1"; echo "suite-with: $R2"
case "$R0" in *"ok."*" 0 failed"*) ;; *) echo "NOT-CONFIRMED demo fails on unchanged code"; exit 1;; esac
case "$R1" in *FAILED*) ;; *) echo "NOT-CONFIRMED demo does not fail with change"; exit 1;; esac
case "$R2" in *"ok. 178 passed; 0 failed"*) ;; *) echo "NOT-CONFIRMED suite"; exit 1;; esac
echo CONFIRMED
