#!/bin/sh
# eval_patches.sh <out file> <patch dirs...> : apply each patch to /repo, run ./check detect quick, undo.  Development tool.
OUT="$1"; shift
cd "$(dirname "$0")/.."
for d in "$@"; do
  [ -f "$d/patch.diff" ] || continue
  echo "=== $d" >> "$OUT"
  git -C /repo apply "$d/patch.diff" || { echo "APPLY-FAILED" >> "$OUT"; git -C /repo checkout -- .; continue; }
  ./check detect quick 2>&1 | grep -v "mismatches=0 oracle=0" >> "$OUT"
  git -C /repo checkout -- .
done
git -C /repo status --short >> "$OUT"
echo DONE >> "$OUT"
