#!/usr/bin/env python3
"""Copies confirmed seeded changes into /verif/seeded/<id>/ and runs the registered quick check of the property
each one targets against /repo with the change applied (then undoes it).  Development tool; never run by a check."""
import glob
import json
import os
import re
import shutil
import subprocess
import sys

ROOT = "/verif"
need = {}
only = sys.argv[1:]
for d in sorted(glob.glob("/tmp/mut_C*/OUT/m*") + glob.glob("/tmp/mut2_C*/OUT/m*") + glob.glob("/tmp/mut3_C*/OUT/m*") + glob.glob("/tmp/mut4_C*/OUT/m*") + glob.glob("/tmp/mut5_C*/OUT/m*") + glob.glob("/tmp/mut6_C*/OUT/m*") + glob.glob("/tmp/mut7_C*/OUT/m*") + glob.glob("/tmp/mut8_C*/OUT/m*") + glob.glob("/tmp/mut9_C*/OUT/m*") + glob.glob("/tmp/mut10_C*/OUT/m*") + glob.glob("/tmp/mut11_C*/OUT/m*")):
    prop = re.search(r"mut(?:[2-9]|1[01])?_(C\d\d)", d).group(1)
    if only and not any(o in d for o in only):
        continue
    k = os.path.basename(d)
    sid = "%s_%s" % (prop, k)
    out = "%s/seeded/%s" % (ROOT, sid)
    os.makedirs(out, exist_ok=True)
    for f in ("patch.diff", "demo.rs", "README.md", "confirm.log"):
        if os.path.exists(d + "/" + f):
            shutil.copy(d + "/" + f, out + "/" + f)
    readme = open(d + "/README.md").read() if os.path.exists(d + "/README.md") else ""
    conf = open(d + "/confirm.log").read() if os.path.exists(d + "/confirm.log") else ""
    subprocess.check_call(["git", "-C", "/repo", "apply", out + "/patch.diff"])
    try:
        r = subprocess.run(["./check", prop, "quick"], cwd=ROOT, stdout=subprocess.PIPE, stderr=subprocess.STDOUT, text=True, timeout=1800)
        det = subprocess.run(["./check", "detect", "quick"], cwd=ROOT, stdout=subprocess.PIPE, stderr=subprocess.STDOUT, text=True, timeout=1800)
    finally:
        subprocess.check_call(["git", "-C", "/repo", "checkout", "--", "."])
    viol = [l for l in r.stdout.split("\n") if l.startswith("VIOLATION")]
    replay = None
    m = re.search(r"replay=(\S+)", viol[0]) if viol else None
    if m and os.path.exists(m.group(1)):
        shutil.copy(m.group(1), out + "/replay.hist")
        replay = "replay.hist"
    others = []
    for l in det.stdout.split("\n"):
        mm = re.match(r"(C\d\d) mismatches=(\d+) oracle=(\d+)", l)
        if mm and (int(mm.group(2)) or (int(mm.group(3)) and not (mm.group(1) == "C07" and "2^96" in l))):
            others.append(mm.group(1))
    meta = dict(id=sid, breaks_property=prop, source="fresh sub-agent given only the property text and a scratch worktree",
                needs_to_manifest=readme.strip()[:1500],
                confirmed=dict(ran="gen/confirm_mutant.sh in the scratch worktree: demo on unchanged code, demo with the change, full suite with the change",
                               result=[l for l in conf.strip().split("\n") if l][-4:]),
                check=dict(cmd="./check %s quick (with the patch applied to /repo, undone afterwards)" % prop, exit_code=r.returncode,
                           violation_line=viol[0] if viol else None, no_failing_input=bool(viol and "no-failing-input-found" in viol[0]),
                           replay=replay),
                all_checks_reacting=sorted(set(others)))
    json.dump(meta, open(out + "/meta.json", "w"), indent=1)
    print(sid, r.returncode, (viol[0][:120] if viol else "NO VIOLATION"), "|", " ".join(sorted(set(others))), flush=True)
subprocess.call(["git", "-C", ROOT, "checkout", "--", "evidence"])
print("DONE")
