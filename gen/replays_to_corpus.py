#!/usr/bin/env python3
"""Copies the minimised replay of every seeded change (seeded/<id>/replay.hist, written by gen/seed_eval*.py) into
corpus/seeded/<id>.hist, so that the histories on which a change once diverged run first in every later check.
Comment lines are dropped; nothing but history lines is kept.  Development tool."""
import glob
import os

ROOT = os.path.dirname(os.path.dirname(os.path.abspath(__file__)))
os.makedirs(ROOT + "/corpus/seeded", exist_ok=True)
n = 0
for f in sorted(glob.glob(ROOT + "/seeded/*/replay.hist")):
    sid = os.path.basename(os.path.dirname(f))
    lines = [l.rstrip("\n") for l in open(f) if l.strip() and not l.startswith("#") and not l.startswith("META ")]
    if not any(l.startswith("H ") for l in lines):
        continue
    with open("%s/corpus/seeded/%s.hist" % (ROOT, sid), "w") as out:
        out.write("\n".join(lines) + "\n")
    n += 1
print("copied", n)
