#!/usr/bin/env python3
"""History generator.  Drives the implementation harness interactively (so it sees the real book and can
aim at valid matches, exact remainders, existing ids) and writes the implementation's trace.  Every random
choice comes from one PRNG seeded by (seed, shard); the trace is also a history the model replays."""
import argparse
import random
import subprocess
import threading
import sys
from fractions import Fraction

import fmt
from fmt import enc, opt, lst, optlist, coins, coin

CONTRACT = "cosmos2contract"
ACCOUNTS = ["alice", "bob", "carol", "dave", "erin", "frank", "grace", "heidi"]
SCHEMA_WORDS = ["events", "events_desk", "accumulated_base", "accumulated_fee", "owner", "price", "quote", "action", "fee_events"]
RATES = ["0", "0.003", "0.01", "0.1", "0.5", "0.25", "0.0005", "1", "0.999", "1.5", "0.05", "0.005",
         "0.0954045954045954045954045954", "0.00000000000000000001", "-0.01", "0.3333333333333333333333333333",
         "2.5e-3", "1E-2", "1e0", ".01", "0.01_", " 0.02", "0.02 ", "\t0.01", "0.0 1",
         "0.4999999999999999999", "0.04999999999999999999", "0.000833333333333333333", "0.0100000000000000004",
         "0.000000000025", "0.4999999999999999999999999999", "0.0100000000000000000000000049",
         "0.0099999999999999999999999951"]
RATE_W = [3, 6, 6, 6, 4, 3, 3, 1, 1, 1, 4, 3, 1, 1, 1, 1, 1, 1, 0.5, 0.5, 0.5, 0.7, 0.7, 0.4, 0.3, 1.2, 0.8, 0.8, 0.8, 0.5,
          0.6, 0.5, 0.4]


def parse_dec(s):
    """Fraction value of a plain decimal string (sign, digits, '.', '_'); None if not plain."""
    t = s.replace("_", "")
    neg = False
    if t[:1] in "+-":
        neg = t[0] == "-"
        t = t[1:]
    if not t or t.count(".") > 1:
        return None
    w, _, f = t.partition(".")
    if not (w + f).isdigit():
        return None
    v = Fraction(int((w + f) or "0"), 10 ** len(f))
    return -v if neg else v


def rhu(x):
    """round half away from zero of a non-negative Fraction"""
    n, d = x.numerator, x.denominator
    q, r = divmod(n, d)
    return q + 1 if 2 * r >= d else q


def price_str(units, p, rng):
    s = str(units).rjust(p + 1, "0")
    whole, frac = (s[:-p], s[-p:]) if p else (s, "")
    frac = frac.rstrip("0")
    base = whole + ("." + frac if frac else "")
    r = rng.random()
    if r < 0.80:
        return base
    if r < 0.86:
        return base + ("0" if frac else ".0")
    if r < 0.90:
        return "+" + base
    if r < 0.94:
        return "0" + base
    if r < 0.97 and frac:
        return whole + "." + frac + "00"
    return base


class Impl:
    def __init__(self, binary, out):
        self.p = subprocess.Popen([binary, "run"], stdin=subprocess.PIPE, stdout=subprocess.PIPE,
                                  text=True, bufsize=1)
        self.out = out
        self.meta = self._read()

    def _read(self):
        lines = []
        while True:
            l = self.p.stdout.readline()
            if not l:
                raise RuntimeError("harness died")
            l = l.rstrip("\n")
            self.out.write(l + "\n")
            if l == "END":
                return fmt.Block(lines)
            lines.append(l)

    def send(self, line):
        # a request the contract never answers (a loop introduced by a change) must not stall the whole check
        t = threading.Timer(120, self.p.kill)
        t.start()
        try:
            self.p.stdin.write(line + "\n")
            self.p.stdin.flush()
            return self._read()
        finally:
            t.cancel()

    def close(self):
        self.p.stdin.close()
        self.p.wait()


def new_uuid(rng):
    if rng.random() < 0.01:
        return rng.choice(["00000000-0000-0000-0000-000000000000", "ffffffff-ffff-ffff-ffff-ffffffffffff",
                           "00000000-0000-0000-0000-000000000001"])
    h = "%032x" % rng.getrandbits(128)
    return "%s-%s-%s-%s-%s" % (h[:8], h[8:12], h[12:16], h[16:20], h[20:])


def id_variant(i, rng):
    """a differently written form of the same uuid (legacy / non-canonical)"""
    h = i.replace("-", "")
    return rng.choice([h, i.upper(), "{" + i + "}", "urn:uuid:" + i, h.upper(), i[:-1], i + "0", "", "zz"])


class World:
    def __init__(self, rng, impl, stats):
        self.rng = rng
        self.impl = impl
        self.stats = stats
        self.asks = {}
        self.bids = {}
        self.cfg = None
        self.markers = {}
        self.attrs = {}
        self.ids = []
        self.last_create = None
        self.last_approve = None
        self.focus = None        # (side, key) of an order being worked on repeatedly
        self.focus_left = 0
        self.accounts = []

    # ------------------------------------------------------------------ plumbing
    def send(self, line):
        b = self.impl.send(line)
        if b.has_dump and not line.startswith(("PEXEC", "PMIGRATE")):
            self.asks, self.bids, self.cfg = b.asks, b.bids, b.cfg
        k = line.split(" ")
        tag = k[0] if k[0] not in ("EXEC", "PEXEC") else k[0] + ":" + k[3]
        self.stats[(tag, "ok" if b.ok else ("err" if b.ok is False else "-"))] = \
            self.stats.get((tag, "ok" if b.ok else ("err" if b.ok is False else "-")), 0) + 1
        return b

    def restricted(self, d):
        return (self.markers.get(d) or "").startswith("R")

    def by_pull(self, d):
        """how a sender funds an escrow of d: by a pull transfer exactly when d is a restricted marker -- and now and
        then the other way round (exact funds attached for a restricted marker, none for an ordinary coin)"""
        r = self.restricted(d)
        return (not r) if self.rng.random() < 0.06 else r

    def env_line(self):
        ms = lst(sorted(self.markers.items()), lambda kv: enc(kv[0]) + "=" + kv[1])
        def names(a, n):
            cut = getattr(self, "pages", {}).get(a)
            if cut is None or cut > len(n):
                return ";".join(enc(x) for x in n)
            # the attribute module serves this account's listing in two pages (the contract reads the first)
            return ";".join(enc(x) for x in n[:cut]) + "|" + ";".join(enc(x) for x in n[cut:])
        ats = lst(sorted((a, n) for a, n in self.attrs.items() if n), lambda kv: enc(kv[0]) + "=" + names(kv[0], kv[1]))
        return "ENV %s %s" % (ms, ats)

    def render(self, r):
        k = r["kind"]
        if k == "create_ask":
            args = [enc(r["id"]), enc(r["base"]), enc(r["quote"]), enc(r["price"]), str(r["size"])]
        elif k == "create_bid":
            args = [enc(r["id"]), enc(r["base"]), opt(r["fee"], coin), enc(r["price"]), enc(r["quote"]),
                    str(r["quote_size"]), str(r["size"])]
        elif k == "approve_ask":
            args = [enc(r["id"]), enc(r["base"]), str(r["size"])]
        elif k in ("cancel_ask", "cancel_bid", "expire_ask", "expire_bid"):
            args = [enc(r["id"])]
        elif k in ("reject_ask", "reject_bid"):
            args = [enc(r["id"]), opt(r["size"], str)]
        elif k == "execute_match":
            args = [enc(r["ask_id"]), enc(r["bid_id"]), enc(r["price"]), str(r["size"])]
        elif k == "modify_contract":
            args = [optlist(r["approvers"]), optlist(r["executors"]), opt(r["afr"]), opt(r["afa"]),
                    opt(r["bfr"]), opt(r["bfa"]), optlist(r["aattrs"]), optlist(r["battrs"])]
        else:
            raise ValueError(k)
        return "%s %s %s %s" % (enc(r["sender"]), coins(r["funds"]), k, " ".join(args))

    # ------------------------------------------------------------------ setup
    def setup(self, hn, desc):
        rng = self.rng
        self.send("H %d %s" % (hn, desc))
        nacc = rng.randint(3, 6)
        self.accounts = rng.sample(ACCOUNTS, nacc)
        if rng.random() < 0.06:
            # an account whose name is a word of the storage schema
            self.accounts[rng.randrange(nacc)] = rng.choice(SCHEMA_WORDS)
        conv = rng.sample(["cva", "cvb"], rng.choice([0, 1, 1, 2]))
        quotes = rng.sample(["qa", "qb", "qc"], rng.choice([1, 1, 2, 3]))
        if rng.random() < 0.08:
            # denomination names contained in one another ("q" in "qa", "bas" in "base", "cv" in "cva")
            quotes = quotes + rng.sample(["q", "qaa", "a"], rng.randint(1, 2))
        if rng.random() < 0.06:
            conv = conv + rng.sample(["bas", "basex", "cv", "ase"], rng.randint(1, 2))
        if rng.random() < 0.06:
            quotes = quotes + ["base"]                      # the base denomination also accepted as a quote
        if conv and rng.random() < 0.04:
            quotes = quotes + [rng.choice(conv)]            # a convertible denomination also accepted as a quote
        shaped = []
        if rng.random() < 0.08:
            # denominations spelled like vouchers of other modules; the marker table alone says what they are
            hx = "".join(rng.choice("0123456789ABCDEF") for _ in range(64))
            shaped = [rng.choice(["ibc/" + hx] * 4 + ["ibc/" + hx.lower(), "ibc/" + hx[:63], "factory/alice/sub", "gamm/pool/1",
                                                    "nhash", "nhash", "nhash", "hash", "uusd", "vspn", "events"])]
            if rng.random() < 0.7:
                quotes = quotes + shaped
            else:
                conv = conv + shaped
        if rng.random() < 0.05:
            # the same denomination twice in one list, adjacent or apart
            which = rng.choice(["q", "c"]) if conv else "q"
            l_ = quotes if which == "q" else conv
            x_ = rng.choice(l_)
            l_ = (l_[:l_.index(x_) + 1] + [x_] + l_[l_.index(x_) + 1:]) if rng.random() < 0.6 else (l_ + [x_])
            if which == "q":
                quotes = l_
            else:
                conv = l_
        for d in dict.fromkeys(["base"] + conv + quotes + ["zz"]):
            m = rng.choice(["R", "U", None, None]) if d not in shaped else rng.choice(["R", "R", "U", "Z", None])
            if m and rng.random() < 0.15:
                # same marker type, other fields (required attributes, life-cycle status): the contract looks at the type only
                m = rng.choice(["Ra", "Rp", "Rc", "Rd", "Rx", "Rx", "Rm", "Rm"] if m == "R" else ["Ua", "Ud", "E", "Z", "T", "Um"])
            if m:
                self.markers[d] = m
        execs = rng.sample(self.accounts, rng.randint(1, 2))
        apprs = rng.sample(self.accounts, rng.randint(0, 2))
        p = rng.choice([0, 0, 1, 2, 2, 2, 3, 4, 6, 9, 18])
        inc = 10 ** p * rng.choice([1, 1, 1, 2, 5, 10, 25, 100])

        def feepair():
            r = rng.random()
            if r < 0.35:
                return None, None
            if r < 0.40:
                return "", ""
            return rng.choices(RATES, RATE_W)[0], (rng.choice(self.accounts) if rng.random() > 0.03 else "cosmos2contract")
        afr, afa = feepair()
        bfr, bfa = feepair()
        aat = rng.choice([[], [], [], [], ["kyc"], ["kyc"], ["kyc", "acc"], ["kyc", "acc"], ["kyc", "kyc"], ["acc", "kyc", "acc"]])
        bat = rng.choice([[], [], [], [], ["kyc"], ["kyc"], ["buy"], ["buy"], ["kyc", "buy"], ["buy", "buy"]])
        for a in self.accounts:
            have = [n for n in ["kyc", "acc", "buy"] if rng.random() < 0.8]
            if have and rng.random() < 0.15:
                have = have + [rng.choice(have)]          # the same attribute name held twice
            self.attrs[a] = have
            if have and rng.random() < 0.06:
                if not hasattr(self, "pages"):
                    self.pages = {}
                self.pages[a] = rng.randint(0, len(have))
        self.send(self.env_line())
        if rng.random() < 0.06:
            conv = conv + ["base"]

        def inst_line(f):
            return "INST %s %s %s %s %s %s %s %s %s %s %s %s %s %d %d" % (
                enc("admin"), enc(f["name"]), enc(f["base"]), lst(f["conv"]), lst(f["quotes"]), lst(f["apprs"]),
                lst(f["execs"]), opt(f["afr"]), opt(f["afa"]), opt(f["bfr"]), opt(f["bfa"]), lst(aat), lst(bat),
                f["p"], f["inc"])
        if rng.random() < 0.03:
            quotes = quotes + [rng.choice(["q" * 128, "q" * 127, "q" * 129])]      # names at the length limit of a denomination
        if rng.random() < 0.03:
            conv = conv + [rng.choice(["c" * 128, "c" * 127])]
        good = dict(name=rng.choice(["ats"] * 12 + [" ", "\t", "  ats  "]), base="base", conv=conv, quotes=quotes, apprs=apprs, execs=execs, afr=afr, afa=afa,
                    bfr=bfr, bfa=bfa, p=p, inc=inc)
        # instantiate messages one step away from coherent (each refused or accepted on its own merits)
        for _ in range(rng.choice([0, 0, 1, 2, 3])):
            f = dict(good)
            m = rng.randint(0, 9)
            if m == 0:
                f["inc"] = max(0, inc + rng.choice([-1, 1, 10 ** p // 2, -inc]))
            elif m == 1:
                f["p"] = rng.choice([17, 18, 19, 20, 30]); f["inc"] = 10 ** min(f["p"], 30) * rng.choice([1, 3])
            elif m == 2:
                f["inc"] = 10 ** p * rng.randint(1, 9) + 10 ** p // rng.choice([2, 5, 10]) if p else inc
            elif m == 3:
                f[rng.choice(["name", "base"])] = ""
            elif m == 4:
                f[rng.choice(["quotes", "execs", "apprs", "conv"])] = []
            elif m == 5:
                k = rng.choice(["a", "b"])
                f[k + "fr"], f[k + "fa"] = rng.choice([("0.1", None), (None, "alice"), ("", "alice"), ("0.1", ""),
                                                       ("abc", "alice"), ("0.1", "X"), ("0.1", "ab"), ("", ""),
                                                       ("1e2", "alice"), (".5", "alice"), ("0.1", "Alice")])
            elif m == 6:
                f["execs"] = rng.choice([["X"], ["ab"], ["alice", "Bob"], ["a" * 91], ["a" * 90]])
            elif m == 7:
                f["apprs"] = rng.choice([["X"], ["ab"], ["carol", "CAROL"]])
            elif m == 8 and rng.random() < 0.4:
                r_ = rng.choice([0, 1, 2, 6, 18])
                f["p"] = rng.choice([2 ** 32, 2 ** 64, 7 * 2 ** 32, 2 ** 8, 2 ** 16, 2 ** 127]) + r_
                f["inc"] = 10 ** r_ * rng.choice([1, 3, 100])
            elif m == 8:
                f["p"] = rng.randint(0, 19); f["inc"] = 10 ** rng.randint(0, 19) * rng.choice([1, 2, 5])
            elif m == 9 and rng.random() < 0.5:
                # increments at and beyond what a 96-bit decimal holds, multiples of 10^precision or just off
                pp = rng.choice([p, 1, 2, 18])
                f["p"] = pp
                f["inc"] = rng.choice([2 ** 96, 2 ** 96 + 10 ** pp // 2, 2 ** 100, 2 ** 127 + 1, 2 ** 128 - 1,
                                       10 ** pp * (2 ** 96 // 10 ** pp + 1), 10 ** pp * (2 ** 96 // 10 ** pp) + 1,
                                       2 ** 64, 2 ** 64 + 1, 10 ** 28 + 10 ** pp // 10 if pp else 10 ** 28 + 1])
            else:
                f["inc"] = 10 ** p * rng.choice([1, 7]) + rng.choice([0, 1])
            self.send(inst_line(f))
        line = inst_line(good)
        if rng.random() < 0.05:
            line = "INSTX " + line[len("INST "):]      # the same message as JSON with a member the struct does not declare
        elif rng.random() < 0.05:
            line = "INSTF %s %s" % (coins([(rng.randint(1, 100), rng.choice(["base", "qa", "nhash"]))] if rng.random() < 0.8 else
                                          [(0, "qa")]), line[len("INST "):])
        b = self.send(line)
        return b.ok

    # ------------------------------------------------------------------ request builders (valid by intent)
    def units(self):
        # small price grid so that books cross often
        return self.rng.choice([1, 2, 3, 4, 5, 7, 10, 12, 25, 99, 100, 101, 250, 1000, 12345])

    def lots(self):
        return self.rng.choice([1, 1, 2, 2, 3, 4, 5, 8, 10, 17, 100])

    def r_create_ask(self):
        c, rng = self.cfg, self.rng
        base = rng.choice([c.base] * 3 + c.conv) if c.conv else c.base
        size = c.increment * self.lots()
        nid = rng.choice(list(self.bids)) if self.bids and rng.random() < 0.06 else new_uuid(rng)
        return self.maybe_reuse_id(
            dict(kind="create_ask", sender=rng.choice(self.accounts), id=nid, base=base,
                 quote=rng.choice(c.quotes), price=price_str(self.units(), c.precision, rng), size=size,
                 funds=[] if self.by_pull(base) else [(size, base)]), "ask")

    def r_create_bid(self):
        c, rng = self.cfg, self.rng
        size = c.increment * self.lots()
        u = self.units()
        total = u * size // 10 ** c.precision
        quote = rng.choice(c.quotes)
        fee = None
        if c.bid_fee:
            rate = parse_dec(c.bid_fee[1])
            if rate is not None and rate >= 0:
                f = rhu(rate * total)
                if f > 0 or rng.random() < 0.2:
                    fee = (f, quote)
        if not c.bid_fee and rng.random() < 0.06:
            fee = (0, quote)                         # an explicit zero fee coin on a contract without a bid fee
        due = total + (fee[0] if fee else 0)
        if rng.random() < 0.02:
            # sizes / totals at the 96-bit capacity of the decimal type, consistent with each other if the
            # conversion saturates instead of failing (price 1 or below)
            cap = 2 ** 96
            size = rng.choice([cap, cap + c.increment, cap - (cap % c.increment) + c.increment, cap - 1, 10 * 2 ** 120])
            total = rng.choice([cap - 1, cap, min(size, cap - 1)])
            u = 10 ** c.precision
            f = rhu(parse_dec(c.bid_fee[1]) * (cap - 1)) if c.bid_fee and parse_dec(c.bid_fee[1]) is not None and parse_dec(c.bid_fee[1]) >= 0 else 0
            fee = (f, quote) if f > 0 else None
            due = rng.choice([cap - 1, total]) + (fee[0] if fee else 0)
        nid = rng.choice(list(self.asks)) if self.asks and rng.random() < 0.06 else new_uuid(rng)
        return self.maybe_reuse_id(
            dict(kind="create_bid", sender=rng.choice(self.accounts), id=nid, base=c.base,
                 fee=fee, price=price_str(u, c.precision, rng), quote=quote, quote_size=total, size=size,
                 funds=[] if self.by_pull(quote) else [(due, quote)]), "bid")

    def maybe_reuse_id(self, r, side):
        """an otherwise valid creation under the id of an order already open on the same side"""
        book = self.asks if side == "ask" else self.bids
        if book and self.rng.random() < 0.05:
            r["id"] = self.rng.choice(list(book))
        # the canonical spelling of a uuid that is already on the book under a legacy spelling (two live keys, one uuid)
        legacy = [k for k in list(self.asks) + list(self.bids) if len(k) == 32 and all(ch in "0123456789abcdefABCDEF" for ch in k)]
        if legacy and self.rng.random() < 0.15:
            h = self.rng.choice(legacy).lower()
            r["id"] = "%s-%s-%s-%s-%s" % (h[:8], h[8:12], h[12:16], h[16:20], h[20:])
        return r

    def r_approve(self):
        c, rng = self.cfg, self.rng
        pend = [a for a in self.asks.values() if a.cls[0] == "pending"]
        if not pend:
            anyask = list(self.asks.values())
            if not anyask:
                return None
            a = rng.choice(anyask)
        else:
            a = rng.choice(pend)
        sender = rng.choice(c.approvers) if c.approvers and rng.random() < 0.9 else rng.choice(self.accounts)
        size = a.size
        if rng.random() < 0.08:
            # an approval that is consistent in itself (funds = its own size) but not with the ask's size
            size = max(1, rng.choice([a.size // 2, a.size * 2, a.size + c.increment, a.size - c.increment, a.size + 1]))
        return dict(kind="approve_ask", sender=sender, id=a.key, base=c.base, size=size,
                    funds=[] if self.by_pull(c.base) else [(size, c.base)])

    def r_match(self):
        c, rng = self.cfg, self.rng
        asks = list(self.asks.values())
        bids = [b for b in self.bids.values() if isinstance(b, fmt.Bid)]
        if not asks or not bids:
            return None
        pairs = []
        for a in asks:
            pa = parse_dec(a.price)
            for b in bids:
                pb = parse_dec(b.price)
                if a.quote == b.quote_denom and pa is not None and pb is not None and pa <= pb:
                    pairs.append((a, b))
        if pairs and rng.random() < 0.9:
            a, b = rng.choice(pairs)
        else:
            a, b = rng.choice(asks), rng.choice(bids)
        m = max(0, min(a.size, b.rem_base))      # ill-formed seeded logs can leave a negative remainder
        r = rng.random()
        ts = self.tie_size(b, m) if rng.random() < 0.15 else None
        if ts:
            size = ts
        elif r < 0.55 or m <= 1:
            size = m
        elif r < 0.8:
            k = m // c.increment
            size = c.increment * rng.randint(1, max(1, k)) if k else m
        elif r < 0.9:
            g = 10 ** c.precision
            k = m // g
            size = g * rng.randint(1, max(1, k)) if k else rng.randint(1, m)
        else:
            # smallest grid on which one of the two limit prices times the size is whole (the other may not be)
            import math
            pv = parse_dec(rng.choice([a.price, b.price]))
            g = 10 ** c.precision
            if pv is not None and pv > 0:
                u = pv * g
                if u.denominator == 1:
                    g = g // math.gcd(int(u), g)
            k = m // g
            size = g * rng.randint(1, max(1, k)) if k else rng.randint(1, m)
        price = rng.choice([a.price, b.price])
        if rng.random() < 0.1:
            pv = parse_dec(price)
            if pv is not None and pv > 0:
                price = price_str(int(pv * 10 ** c.precision), c.precision, rng) if (pv * 10 ** c.precision).denominator == 1 else price
        if rng.random() < 0.10:
            # an execution price a hair away from a limit price, with more decimals than the precision allows, and a
            # size on which that price still gives a whole total
            pv = parse_dec(price)
            if pv is not None and pv > 0:
                extra = rng.choice([1, 2])
                scale = c.precision + extra
                delta = rng.choice([-4, -1, 1, 4, 5, -5]) * (1 if extra == 1 else rng.choice([1, 10]))
                units = int(pv * 10 ** scale) + delta
                if units > 0:
                    price = price_str(units, scale, rng)
                    g = 10 ** scale
                    size = g * rng.randint(1, max(1, m // g)) if m >= g else size
                    if m >= g and m % g == 0 and rng.random() < 0.5:
                        size = m            # ... closing the smaller order at that price
        if rng.random() < 0.04 and parse_dec(price) is not None:
            # the limit price written with 30 decimals whose last digits the parser rounds away
            w_, _, f_ = price.lstrip("+").partition(".")
            if len(f_) <= 28 and w_.isdigit():
                price = w_ + "." + f_.ljust(28, "0") + rng.choice(["04", "4", "001", "49"])
        sender = rng.choice(c.executors) if c.executors else rng.choice(self.accounts)
        return dict(kind="execute_match", sender=sender, ask_id=a.key, bid_id=b.key, price=price, size=size,
                    funds=[])

    def r_reverse(self):
        c, rng = self.cfg, self.rng
        side = rng.choice(["ask", "bid"])
        book = list(self.asks.values()) if side == "ask" else \
            [b for b in self.bids.values() if isinstance(b, fmt.Bid)]
        if not book:
            return None
        o = rng.choice(book)
        rem = max(0, o.size if side == "ask" else o.rem_base)
        kind = rng.choice(["reject", "reject", "reject", "expire", "cancel"])
        if kind == "cancel":
            return dict(kind="cancel_" + side, sender=o.owner, id=o.key, funds=[])
        sender = rng.choice(c.executors) if c.executors else rng.choice(self.accounts)
        if kind == "expire":
            return dict(kind="expire_" + side, sender=sender, id=o.key, funds=[])
        r = rng.random()
        k = rem // c.increment
        ts = self.tie_size(o) if side == "bid" and rng.random() < 0.3 else None
        if ts:
            size = ts
        elif r < 0.15:
            size = None
        elif r < 0.75 and k >= 1:
            size = c.increment * rng.randint(1, k)
        elif r < 0.85:
            size = rem
        elif r < 0.89:
            size = max(1, rem - 1)                    # leaves exactly one unit
        elif r < 0.93:
            size = rng.randint(1, rem + 1)
        else:
            size = rem + c.increment
        return dict(kind="reject_" + side, sender=sender, id=o.key, size=size, funds=[])

    def tie_size(self, o, cap=None):
        """a size (multiple of the increment, below the remainder) after which the pro-rata share of the bid's fee
        is exactly k + 1/2: the midpoint rule decides, and the quotient fee*rest/quote is mostly a repeating decimal"""
        c = self.cfg
        try:
            if not (isinstance(o, fmt.Bid) and o.fee and o.quote_amt > 0):
                return None
            pv = parse_dec(o.price)
            k = min(o.rem_base if cap is None else min(cap, o.rem_base), 400 * c.increment) // c.increment
            js = list(range(1, k))
            self.rng.shuffle(js)
            found = []
            for j in js[:200]:
                rest = o.rem_quote - pv * (c.increment * j)
                if rest.denominator == 1 and rest > 0 and (2 * o.fee[0] * int(rest)) % (2 * o.quote_amt) == o.quote_amt:
                    found.append((c.increment * j, (o.fee[0] * int(rest)) // o.quote_amt))
            # shares of 7 1/2, 7922 1/2, ...: just below them the 96-bit mantissa is full
            special = [x for x in found if x[1] in (7, 79, 792, 7922, 79228, 792281)]
            if special:
                return self.rng.choice(special)[0]
            if found:
                return found[0][0]
        except Exception:
            pass
        return None

    # ------------------------------------------------------------------ repeated partial operations on one order
    def pick_focus(self):
        c, rng = self.cfg, self.rng
        bids = [("bid", b.key) for b in self.bids.values() if isinstance(b, fmt.Bid) and b.rem_base >= 3 * c.increment]
        feeb = [x for x in bids if self.bids[x[1]].fee]
        asks = [("ask", a.key) for a in self.asks.values() if a.size >= 3 * c.increment]
        pool = feeb * 3 + bids + asks
        if pool:
            self.focus = rng.choice(pool)
            self.focus_left = rng.randint(3, 7)

    def r_focus(self):
        """a small partial reject or partial fill of the order in focus (histories in which the same order is
        consumed in many steps: rounding of pro-rata fees compounds, remainders leave the lot grid, ...)"""
        c, rng = self.cfg, self.rng
        side, key = self.focus
        o = (self.asks if side == "ask" else self.bids).get(key)
        if o is None or (side == "bid" and not isinstance(o, fmt.Bid)):
            self.focus_left = 0
            return None
        rem = max(0, o.size if side == "ask" else o.rem_base)
        lots = rem // c.increment
        ex = rng.choice(c.executors) if c.executors else rng.choice(self.accounts)
        small = c.increment * rng.randint(1, max(1, lots // 3))
        if rng.random() < 0.5:
            return dict(kind="reject_" + side, sender=ex, id=key, size=min(small, rem) if rng.random() < 0.9 else rem, funds=[])
        # a partial fill against any crossing counter-order
        if side == "bid":
            pb = parse_dec(o.price)
            cands = [a for a in self.asks.values() if a.quote == o.quote_denom and a.cls[0] != "pending" and
                     parse_dec(a.price) is not None and pb is not None and parse_dec(a.price) <= pb]
            if not cands:
                return dict(kind="reject_bid", sender=ex, id=key, size=min(small, rem), funds=[])
            a = rng.choice(cands)
            b = o
        else:
            pa = parse_dec(o.price)
            cands = [b for b in self.bids.values() if isinstance(b, fmt.Bid) and b.quote_denom == o.quote and
                     parse_dec(b.price) is not None and pa is not None and pa <= parse_dec(b.price)]
            if not cands or o.cls[0] == "pending":
                return dict(kind="reject_ask", sender=ex, id=key, size=min(small, rem), funds=[])
            a = o
            b = rng.choice(cands)
        m = max(0, min(a.size, b.rem_base))
        size = min(small, m)
        r = rng.random()
        if r < 0.2:
            size = m                                  # exactly what is left of one of them
        elif r < 0.45 and m > 1:
            # off the lot grid: the smallest grid on which one limit price times the size is whole, or anything
            import math
            pv = parse_dec(rng.choice([a.price, b.price]))
            g = 10 ** c.precision
            if pv is not None and pv > 0 and (pv * g).denominator == 1:
                g = g // math.gcd(int(pv * g), g)
            size = g * rng.randint(1, max(1, min(m // g, 7))) if m >= g and rng.random() < 0.8 else rng.randint(1, m)
        return dict(kind="execute_match", sender=ex, ask_id=a.key, bid_id=b.key, price=rng.choice([a.price, b.price]),
                    size=size, funds=[])

    def r_modify(self):
        c, rng = self.cfg, self.rng

        def maybe(f, pr=0.3):
            return f() if rng.random() < pr else None
        ap = maybe(lambda: sorted(set(c.approvers) | set(rng.sample(self.accounts, rng.randint(0, 2))))
                   if rng.random() < 0.7 else rng.sample(self.accounts, rng.randint(0, 2)))
        ex = maybe(lambda: sorted(set(rng.sample(self.accounts, rng.randint(0, 2)) + c.executors[:1]))
                   if rng.random() < 0.8 else rng.sample(self.accounts, rng.randint(0, 1)), 0.25)

        if ap is not None and c.approvers and rng.random() < 0.15:
            keep = rng.sample(c.approvers, max(1, len(c.approvers) - 1))
            ap = keep + [rng.choice(keep) for _ in range(len(c.approvers) - len(keep) + rng.randint(0, 1))]
        if ex is not None and len(c.executors) > 1 and rng.random() < 0.15:
            ex = [c.executors[0]] * len(c.executors)
        if rng.random() < 0.04 and len(c.approvers) >= 2:
            # one name that spells the whole stored list, or two neighbours of it, joined by a comma
            j = rng.randint(0, len(c.approvers) - 2)
            ap = rng.choice([[",".join(c.approvers)], c.approvers[:j] + [c.approvers[j] + "," + c.approvers[j + 1]] + c.approvers[j + 2:]])
        if rng.random() < 0.03 and len(c.executors) >= 2:
            ex = [",".join(c.executors)]

        def pair(cur):
            r = rng.random()
            if r < 0.55:
                return None, None
            if r < 0.62:
                return "", ""
            if cur and r < 0.85:
                rate = cur[1]
                if rng.random() < 0.4:
                    rate = rng.choice([rate + "0" if "." in rate else rate + ".0", "+" + rate, "0" + rate])
                return rate, rng.choice(self.accounts)
            if r < 0.92:
                return rng.choices(RATES, RATE_W)[0], rng.choice(self.accounts)
            if cur and rng.random() < 0.25 and parse_dec(cur[1]) is not None and "." in cur[1] and parse_dec(cur[1]) > 0:
                w_, _, f_ = cur[1].lstrip("+").partition(".")
                lead = len(f_) - len(f_.lstrip("0")) if w_.strip("0") == "" else 0
                keep = lead + rng.choice([15, 16, 17])
                if len(f_) <= keep and keep < 27:
                    return w_ + "." + f_.ljust(keep, "0") + rng.choice(["1", "5", "49", "9"]), cur[0]
            if cur and rng.random() < 0.3 and parse_dec(cur[1]) is not None and "." in cur[1] and len(cur[1].partition(".")[2]) <= 18:
                w_, _, f_ = cur[1].partition(".")
                return w_ + "." + f_.ljust(18, "0") + rng.choice(["4", "0004", "49", "0000000001"]), cur[0]
            return rng.choice([(None, "alice"), ("0.1", None), ("abc", "alice"), ("0.1", "X"), ("", "alice"), ("0.1", ""),
                               (cur[1] if cur else "0.01", ""), ((cur[1] + "0") if cur and "." in cur[1] else "0.010", ""),
                               (" " + (cur[1] if cur else "0.01"), rng.choice(self.accounts))])
        afr, afa = pair(c.ask_fee)
        bfr, bfa = pair(c.bid_fee)
        if rng.random() < 0.08 and c.bid_fee:
            afr, afa = rng.choice([c.bid_fee[1], c.bid_fee[1] + ("0" if "." in c.bid_fee[1] else ".0")]), (c.ask_fee[0] if c.ask_fee else rng.choice(self.accounts))
        if rng.random() < 0.08 and c.ask_fee:
            bfr, bfa = rng.choice([c.ask_fee[1], c.ask_fee[1] + ("0" if "." in c.ask_fee[1] else ".0")]), (c.bid_fee[0] if c.bid_fee else rng.choice(self.accounts))
        aat = maybe(lambda: rng.choice([[], ["kyc"], ["acc"]]), 0.2)
        bat = maybe(lambda: rng.choice([[], ["kyc"], ["buy"]]), 0.2)
        sender = rng.choice(c.executors) if c.executors and rng.random() < 0.9 else rng.choice(self.accounts)
        funds = [] if rng.random() < 0.93 else [(rng.randint(1, 50), rng.choice(c.quotes))]
        return dict(kind="modify_contract", sender=sender, approvers=ap, executors=ex, afr=afr, afa=afa,
                    bfr=bfr, bfa=bfa, aattrs=aat, battrs=bat, funds=funds)

    # ------------------------------------------------------------------ mutation (stream 3/4)
    def mutate(self, r):
        rng = self.rng
        r = dict(r)
        c = self.cfg
        choices = ["sender", "funds"]
        for f in ("size", "quote_size", "price", "id", "ask_id", "bid_id", "base", "quote", "fee"):
            if f in r:
                choices.append(f)
        f = rng.choice(choices)
        if f == "sender":
            pool = self.accounts + c.executors + c.approvers + ["mallory", "cosmos2contract", "admin", "admin"]
            for fi in (c.ask_fee, c.bid_fee):
                if fi:
                    pool.append(fi[0])
            for a in self.asks.values():
                pool.append(a.owner)
                if a.cls[0] == "ready":
                    pool.append(a.cls[1])
            for b in self.bids.values():
                if isinstance(b, fmt.Bid):
                    pool.append(b.owner)
            r["sender"] = rng.choice(pool)
            if rng.random() < 0.25:
                r["sender"] = rng.choice([r["sender"].upper(), r["sender"].capitalize(), r["sender"] + " ", " " + r["sender"]])
        elif f == "funds":
            fu = list(r["funds"])
            m = rng.randint(0, 5)
            if m == 0 and fu:
                fu[0] = (fu[0][0] + rng.choice([-1, 1]), fu[0][1])
            elif m == 1 and fu:
                fu.append((1, rng.choice(c.quotes)))
            elif m == 2 and fu:
                fu[0] = (fu[0][0], rng.choice(c.quotes + [c.base, "zz"]))
            elif m == 3:
                fu = []
            elif m == 4 and fu:
                fu = [fu[0], fu[0]]
            elif m == 5 and rng.random() < 0.5:
                fu = fu + [(0, rng.choice(c.quotes + [c.base]))] if fu and rng.random() < 0.5 else [(0, rng.choice(c.quotes + [c.base]))]
            else:
                fu = [(rng.randint(1, 1000), rng.choice(c.quotes + [c.base]))] + fu
            r["funds"] = [x for x in fu if x[0] >= 0]
        elif f in ("size", "quote_size"):
            if r[f] is None:
                r[f] = rng.choice([0, 1, c.increment])
            else:
                r[f] = max(0, r[f] + rng.choice([-1, 1, -c.increment, c.increment, -r[f], 2 ** 96 - r[f],
                                                 2 ** 96 - 1 - r[f], 2 ** 128 - 1 - r[f], 2 ** 64, 2 ** 32,
                                                 2 ** 64 - r[f], 2 ** 32 * c.increment]))
        elif f == "price":
            p = c.precision
            if "." in r["price"] and rng.random() < 0.25:
                r["price"] = r["price"].replace(".", rng.choice([",", ",", " .", ". ", "·"]))
                return r
            r["price"] = rng.choice(["0", "-1", "", "abc", "1e3", "1." + "0" * (p) + "1", ".5", "5.", "1_0",
                                     "0." + "0" * p + "5", "-0", "+0.0", r["price"] + "1", "1" + r["price"],
                                     "79228162514264337593543950336", "0.0000000000000000000000000001",
                                     "1.00000000000000000000000000001",
                                     # prices that parse but cannot be scaled by 10^precision within 96 bits
                                     "79228162514264337593543950335", "1" + "0" * 27, "7922816251426433759354395033.5",
                                     str(2 ** 96 // 10 ** min(p, 28) + rng.choice([0, 1, 7])), str(2 ** 96 // 10 ** min(p, 28) - 1)])
        elif f in ("id", "ask_id", "bid_id"):
            m = rng.random()
            if m < 0.5:
                r[f] = id_variant(r[f], rng)
            elif m < 0.8 and self.ids:
                r[f] = rng.choice(self.ids)
            else:
                r[f] = new_uuid(rng)
        elif f in ("base", "quote"):
            cur = r[f] or c.base
            r[f] = rng.choice([c.base, "zz", ""] + c.conv + c.quotes +
                              [cur[:-1], cur[1:], cur + "x", cur.upper(), c.base[:3], c.base[1:]])
            if r["kind"] == "approve_ask" and r["funds"] and rng.random() < 0.7:
                r["funds"] = [(r["funds"][0][0], r[f])]      # the funds follow the denomination named
        elif f == "fee":
            q = r["quote"]
            if r["fee"] is None:
                r["fee"] = rng.choice([(0, q), (1, q)])
            else:
                others = [d for d in c.quotes + [c.base] + c.conv if d != q] or ["zz"]
                r["fee"] = rng.choice([None, (r["fee"][0] + 1, q), (max(0, r["fee"][0] - 1), q),
                                       (r["fee"][0], "zz"), (0, q), (r["fee"][0], rng.choice(others)),
                                       (r["fee"][0], rng.choice(others))])
        return r

    # ------------------------------------------------------------------ one step
    def step(self):
        rng = self.rng
        if self.cfg is None:
            return
        nb = len(self.asks) + len(self.bids)
        w = [("create_ask", 5 if nb < 14 else 1), ("create_bid", 5 if nb < 14 else 1), ("approve", 3),
             ("match", 8), ("reverse", 5), ("modify", 1.2), ("env", 0.4), ("query", 0.8)]
        kind = rng.choices([k for k, _ in w], [x for _, x in w])[0]
        if kind == "env":
            held = [a.base for a in self.asks.values()] + [b.quote_denom for b in self.bids.values() if isinstance(b, fmt.Bid)]
            d = rng.choice(held) if held and rng.random() < 0.5 else rng.choice(list(self.markers.keys()) + ["base", "qa", "cva"])
            m = rng.choice(["R", "U", None, "Ra", "Rc", "Rp", "Ua", "E", "Rx", "Rx", "Z", "T", "Rm", "Um"])
            if m:
                self.markers[d] = m
            else:
                self.markers.pop(d, None)
            a = rng.choice(self.accounts)
            self.attrs[a] = [n for n in ["kyc", "acc", "buy"] if rng.random() < 0.8]
            if self.attrs[a] and rng.random() < 0.2:
                self.attrs[a] = self.attrs[a] + [rng.choice(self.attrs[a])]
            self.send(self.env_line())
            return
        if kind == "query":
            ids = self.ids + list(self.asks) + list(self.bids)
            i = rng.choice(ids) if ids and rng.random() < 0.8 else new_uuid(rng)
            if rng.random() < 0.2:
                i = id_variant(i, rng)
            self.send(rng.choice(["QUERY get_ask " + enc(i), "QUERY get_bid " + enc(i),
                                  "QUERY get_contract_info", "QUERY get_version_info"]))
            return
        if self.last_create is not None and rng.random() < 0.03:
            self.send("EXEC " + self.last_create)          # the very same creation again, funds included
            return
        if self.last_approve is not None and rng.random() < 0.04:
            self.send("EXEC " + self.last_approve)         # the very same approval again, by the same approver, funds included
            return
        if rng.random() < (0.006 if not any(a.cls[0] == "ready" for a in self.asks.values()) else 0.015):
            # a migration in the middle of an ordinary history (the approver list rewritten without looking at the book)
            ap = rng.choice([None, [], rng.sample(self.accounts, rng.randint(1, 2)), list(self.cfg.approvers[1:])])
            self.send("MIGRATE %s - - - - - -" % optlist(ap))
            return
        feeb = [b for b in self.bids.values() if isinstance(b, fmt.Bid) and b.fee and b.rem_fee > 0]
        if rng.random() < (0.004 if not feeb else 0.02):
            # ... or the fee pairs: cleared by the empty pair, moved to another account, another rate -- with fee-bearing bids resting
            def pair_():
                r_ = rng.random()
                if r_ < 0.45:
                    return "~ ~"
                if r_ < 0.6:
                    return "- -"
                return "%s %s" % (enc(rng.choice(["0.1", "0.02", "0.5", "0"])), enc(rng.choice(self.accounts)))
            self.send("MIGRATE - %s %s - -" % (pair_() if rng.random() < 0.4 else "- -", pair_()))
            return
        r = None
        focused = False
        orphan = [a for a in self.asks.values() if a.cls[0] == "ready" and a.cls[1] not in self.cfg.approvers]
        if orphan and self.cfg.approvers and rng.random() < 0.3:
            # an approved ask whose approver a migration has dropped from the list: a flawless second approval by a current one
            a = rng.choice(orphan)
            r = dict(kind="approve_ask", sender=rng.choice(self.cfg.approvers), id=a.key, base=self.cfg.base, size=a.size,
                     funds=[] if self.restricted(self.cfg.base) else [(a.size, self.cfg.base)])
            focused = True
        elif self.focus_left > 0:
            self.focus_left -= 1
            if rng.random() < 0.8:
                r = self.r_focus()
                focused = r is not None
        elif rng.random() < 0.08:
            self.pick_focus()
        if r is None:
            r = {"create_ask": self.r_create_ask, "create_bid": self.r_create_bid, "approve": self.r_approve,
                 "match": self.r_match, "reverse": self.r_reverse, "modify": self.r_modify}[kind]()
        if r is None:
            return
        if rng.random() < (0.05 if focused else 0.22):
            r = self.mutate(r)
            if rng.random() < 0.15:
                r = self.mutate(r)
        before_a = {k: (a.size, a.cls) for k, a in self.asks.items()}
        before_b = {k: (b.acc_base, b.acc_quote, b.acc_fee) if isinstance(b, fmt.Bid) else None
                    for k, b in self.bids.items()}
        line = self.render(r)
        b = self.send("EXEC " + line)
        if b.ok and r["kind"] in ("create_ask", "create_bid"):
            self.last_create = line
        if b.ok and r["kind"] == "approve_ask":
            self.last_approve = line
        named = [r[f] for f in ("id", "ask_id", "bid_id") if f in r]
        for i in named:
            if i not in self.ids:
                self.ids.append(i)
        if not b.ok:
            return
        # probes: exits of every order this step created or changed (all orders after a config change)
        allp = r["kind"] == "modify_contract"
        ex = self.cfg.executors[0] if self.cfg.executors else "nobody"
        for k, a in list(self.asks.items()):
            if allp or before_a.get(k) != (a.size, a.cls):
                self.send("PEXEC %s [] cancel_ask %s" % (enc(a.owner), enc(k)))
                self.send("PEXEC %s [] expire_ask %s" % (enc(ex), enc(k)))
        for k, bd in list(self.bids.items()):
            if not isinstance(bd, fmt.Bid):
                continue
            if allp or before_b.get(k) != (bd.acc_base, bd.acc_quote, bd.acc_fee):
                self.send("PEXEC %s [] cancel_bid %s" % (enc(bd.owner), enc(k)))
                self.send("PEXEC %s [] expire_bid %s" % (enc(ex), enc(k)))
        # queries on every id the request named (open or closed now)
        for i in named:
            self.send("QUERY get_ask " + enc(i))
            self.send("QUERY get_bid " + enc(i))
        if r["kind"] == "modify_contract":
            self.send("QUERY get_contract_info")


# ---------------------------------------------------------------------- migration stream
VERSIONS = ["0.19.0+hotfix.1", "0.16.2+x", "0.19.1+x", "0.16.1+x", "0.19.0-rc.1",
            "0.14.9", "0.15.0", "0.16.1", "0.16.2", "0.16.3", "0.17.0", "0.18.2", "0.19.0", "0.19.1", "0.19.2",
            "1.0.0", "2.3.4", "0.17.0-rc1", "0.17.0+build5", "0.17", "v0.17.0", "00.17.0", "0.17.0 ", "",
            "0.16.2-alpha", "18446744073709551616.0.0", "0.19.1-rc.1", "1.0.0-0"]


def migration_history(w, hn):
    rng = w.rng
    w.send("H %d migration" % hn)
    w.accounts = rng.sample(ACCOUNTS, 4)
    if rng.random() < 0.1:
        w.accounts[rng.randrange(4)] = rng.choice(SCHEMA_WORDS)
    for d in ["base", "qa", "cva"]:
        m = rng.choice(["R", "U", None, None])
        if m:
            w.markers[d] = m
    w.send(w.env_line())
    p = rng.choice([0, 1, 2])
    inc = 10 ** p * rng.choice([1, 2, 10])
    rate = rng.choice(["0.1", "0.01", "0.5"])
    bidfee = rng.choice(["-", "%s=%s" % (enc(w.accounts[0]), enc(rate))])
    askfee = rng.choice(["-", "%s=%s" % (enc(w.accounts[1]), enc("0.01"))])
    legacy_apprs = w.accounts[:1] if rng.random() > 0.1 else w.accounts[:1] + [rng.choice(["Approver_Legacy", "X", "ab", "CAROL"])]
    w.send("SEEDCFG %s ~ base %s qa %s %s %s %s [] [] %d %d" % (
        enc("ats"), "cva", lst(legacy_apprs), lst(w.accounts[1:2]), askfee, bidfee, p, inc))
    if rng.random() < 0.93:
        # half of the migration histories start inside the conversion window; the others at and around every
        # threshold and at malformed version strings
        ver = rng.choice(["0.16.2", "0.16.3", "0.17.0", "0.18.2", "0.19.0", "0.19.0", "0.19.0+hotfix.1", "0.18.2+b"]) if rng.random() < 0.5 else rng.choice(VERSIONS)
        definition = "ats_smart_contract" if rng.random() < 0.85 else rng.choice(["def", "ats-smart-contract", "other_contract", ""])
        if definition != "ats_smart_contract" and rng.random() < 0.4:
            # a record written under another name that happens to carry this package's own version
            try:
                ver = fmt.dec(w.impl.meta.ev.split(" ")[2])
            except Exception:
                pass
        w.send("SEEDVER %s %s" % (enc(definition), enc(ver)))
    # seeded orders, some under legacy un-hyphenated ids
    def legacy_id():
        i = new_uuid(rng)
        r_ = rng.random()
        if r_ < 0.4:
            return i.replace("-", "")
        if r_ < 0.55:
            return rng.choice([i.upper(), "{" + i + "}", "urn:uuid:" + i, i.replace("-", "").upper()])
        return i

    for _ in range(rng.randint(0, 3)):
        i = legacy_id()
        size = inc * rng.randint(1, 5)
        base = rng.choice(["base", "base", "cva"])
        cls = "basic" if base == "base" else rng.choice(
            ["pending", "ready:%s:base:%d" % (enc(w.accounts[0]), size),
             # a book carried over from a release that left the approver amount stale after a partial reject
             "ready:%s:base:%d" % (enc(w.accounts[0]), size + inc * rng.randint(1, 3))])
        idf = i
        if rng.random() < 0.04:
            idf = rng.choice([i.replace("-", ""), i.upper(), new_uuid(rng)] + (w.ids[-2:] if w.ids else []))
        w.send("SEEDASK %s %s %s %s %s qa %s %d" % (enc(i), enc(idf), enc(rng.choice(w.accounts)), cls, base,
                                                     enc(price_str(rng.choice([2, 5, 10]), p, rng)), size))
        w.ids.append(i)
    nbids = rng.randint(1, 4) if rng.random() > 0.03 else rng.randint(105, 140)
    run_of_current = nbids > 100 and rng.random() < 0.5
    for bn in range(nbids):
        i = legacy_id()
        if run_of_current:
            # keys in ascending order: over a hundred current-format bids, then old-format ones behind them
            i = "%08x-0000-4000-8000-%012x" % (bn + 1, rng.getrandbits(48))
        lots = rng.randint(2, 8)
        size = inc * lots
        u = rng.choice([2, 5, 10, 25])
        total = u * size // 10 ** p
        feeamt = rhu(Fraction(rate) * total) if (bidfee != "-" or rng.random() < 0.15) else 0
        fee = "%d:qa" % feeamt if feeamt else "-"
        owner = rng.choice(w.accounts)
        price = price_str(u, p, rng)
        finer = rng.random() < 0.06
        if finer:
            # a readable price with one decimal more than the precision (books older than the precision setting)
            lots += lots % 2
            size = inc * lots
            price = price_str(10 * u + 5, p + 1, rng)
            total = (10 * u + 5) * size // 10 ** (p + 1)
            feeamt = rhu(Fraction(rate) * total) if feeamt else 0
            fee = "%d:qa" % feeamt if feeamt else "-"
        # a well-formed log: fills/rejects at the bid price, in whole lots, with pro-rata fees
        done = rng.randint(0, lots - 1) if not finer else 0
        unrefunded = rng.random() < 0.08
        late_events = rng.random() < 0.1
        evs, sb, sq, sf = [], 0, 0, 0
        left = done
        while left > 0:
            k = rng.randint(1, left)
            left -= k
            b_ = inc * k
            q_ = u * b_ // 10 ** p
            if unrefunded and u > 1:
                q_ = (u - 1) * b_ // 10 ** p          # filled below the limit price, the refund never logged
            keep = rhu(Fraction(feeamt) * Fraction(total - sq - q_, total)) if feeamt else 0
            f_ = (feeamt - sf) - keep
            ff = str(f_) if (feeamt and (f_ > 0 or rng.random() < 0.3)) else "-"
            evs.append("%s:%d:%d:%s" % (rng.choice("FJJ") if not late_events else rng.choice("fjj"), b_, q_, ff))
            sb += b_; sq += q_; sf += f_ if ff != "-" else 0
        if rng.random() < 0.15:
            evs.append("R:%d:-" % 0)
        if rng.random() < 0.12:   # ill-formed logs: sums beyond the order or overflowing
            evs.append(rng.choice(["F:%d:%d:-" % (size, total), "J:%d:1:5" % (2 ** 128 - 1), "R:%d:7" % (2 ** 127)]))
        idf = i
        if rng.random() < 0.04:
            # a record whose id field is not its key: another spelling of it, a fresh id, or the key of another order
            idf = rng.choice([i.replace("-", ""), i.upper(), new_uuid(rng)] + (w.ids[-2:] if w.ids else []))
        if (rng.random() < 0.7) if not run_of_current else (bn >= nbids - rng.randint(1, 3) - (0 if rng.random() < 0.7 else 50)):
            w.send("%s %s %s %s %s %d qa %d %s %s %s" % ("SEEDBID2" if rng.random() > 0.06 else "SEEDBID2X",
                enc(i), enc(idf), enc(owner), "base" if rng.random() < 0.9 else rng.choice(["cva", "oldbase"]), size, total, fee,
                enc(price), ";".join(evs) if evs else "[]"))
        else:
            w.send("SEEDBID3 %s %s %s base %d %d qa %d %d %s %d %s" % (
                enc(i), enc(idf), enc(owner), size, sb, total, sq, fee, sf, enc(price)))
        w.ids.append(i)

    def migline():
        def maybe(f, pr=0.3):
            return f() if rng.random() < pr else None
        ap = maybe(lambda: rng.choice([[], w.accounts[:2], ["X"], [w.accounts[2]], list(legacy_apprs), list(legacy_apprs[-1:]),
                                       list(legacy_apprs) + [w.accounts[2]]]))

        def pair():
            r = rng.random()
            if r < 0.5:
                return None, None
            if r < 0.7:
                return "", ""
            if r < 0.9:
                return rng.choice(["0.1", "0.02", "0.5", "0.030", "0.10", "+0.5", "00.5", "1.0", "5e-1"]), rng.choice(w.accounts)
            return rng.choice([(None, "alice"), ("0.1", None), ("abc", "alice"), ("0.1", "X"), ("", "alice"), ("0.1", "")])
        afr, afa = pair()
        bfr, bfa = pair()
        aat = maybe(lambda: rng.choice([[], ["kyc"]]), 0.2)
        bat = maybe(lambda: rng.choice([[], ["buy"]]), 0.2)
        return "%s %s %s %s %s %s %s" % (optlist(ap), opt(afr), opt(afa), opt(bfr), opt(bfa), optlist(aat),
                                         optlist(bat))
    if w.cfg is not None and rng.random() < 0.25:
        for _ in range(rng.randint(1, 4)):
            v2keys = [k for k, x in w.bids.items() if not isinstance(x, fmt.Bid)]
            if v2keys and rng.random() < 0.5:
                try:
                    r = w.r_create_bid()
                    k_ = rng.choice(v2keys)
                    h_ = k_.lower()
                    r["id"] = k_ if rng.random() < 0.6 or len(k_) != 32 else "%s-%s-%s-%s-%s" % (h_[:8], h_[8:12], h_[12:16], h_[16:20], h_[20:])
                    w.send("EXEC " + w.render(r))
                except (ValueError, IndexError, KeyError, TypeError, AttributeError):
                    pass
            else:
                safe_step(w, stats=w.stats)
    ml = migline()
    b = w.send("MIGRATE " + ml)
    if b.ok:
        w.send("PMIGRATE " + ml)            # idempotence probe: same message again
        w.send("QUERY get_version_info")
        w.send("QUERY get_contract_info")
    for i in w.ids:
        w.send("QUERY get_ask " + enc(i))
        w.send("QUERY get_bid " + enc(i))
    # exits of everything on the migrated (or un-migrated) book, then a continuation
    ex = w.cfg.executors[0] if w.cfg and w.cfg.executors else "nobody"
    for k, a in list(w.asks.items()):
        w.send("PEXEC %s [] cancel_ask %s" % (enc(a.owner), enc(k)))
        w.send("PEXEC %s [] expire_ask %s" % (enc(ex), enc(k)))
    for k, bd in list(w.bids.items()):
        if isinstance(bd, fmt.Bid):
            w.send("PEXEC %s [] cancel_bid %s" % (enc(bd.owner), enc(k)))
            w.send("PEXEC %s [] expire_bid %s" % (enc(ex), enc(k)))
    for _ in range(rng.randint(5, 25)):
        safe_step(w, stats=w.stats)
    if rng.random() < 0.3:
        w.send("MIGRATE " + migline())


def safe_step(w, stats):
    """one generator step; a slip of the generator itself on an odd state (never of the harness: I/O errors
    propagate) skips the step and is counted, so that it cannot take a whole check down"""
    try:
        w.step()
    except (ValueError, IndexError, KeyError, ZeroDivisionError, TypeError, AttributeError):
        stats[("GENERATOR-SKIP", "-")] = stats.get(("GENERATOR-SKIP", "-"), 0) + 1


def main():
    ap = argparse.ArgumentParser()
    ap.add_argument("--harness", required=True)
    ap.add_argument("--seed", type=int, default=1)
    ap.add_argument("--shard", type=int, default=0)
    ap.add_argument("--histories", type=int, default=10)
    ap.add_argument("--steps", type=int, default=40)
    ap.add_argument("--mig-share", type=float, default=0.2)
    ap.add_argument("--out", required=True)
    ap.add_argument("--stats")
    a = ap.parse_args()
    rng = random.Random(a.seed * 1000003 + a.shard)
    stats = {}
    with open(a.out, "w") as out:
        impl = Impl(a.harness, out)
        for hn in range(a.histories):
            w = World(rng, impl, stats)
            if rng.random() < a.mig_share:
                migration_history(w, a.shard * 100000 + hn)
                continue
            for _ in range(5):
                if w.setup(a.shard * 100000 + hn, "random"):
                    break
                w.markers, w.attrs = {}, {}
            n = rng.randint(max(5, a.steps // 3), a.steps)
            for _ in range(n):
                safe_step(w, stats)
        impl.close()
    if a.stats:
        with open(a.stats, "w") as f:
            for (k, o), v in sorted(stats.items()):
                f.write("%s %s %d\n" % (k, o, v))


if __name__ == "__main__":
    main()
