#!/usr/bin/env python3
"""Evaluates every seeded change under /verif/seeded/<id>/patch.diff in parallel lanes.  Each lane owns a scratch git
worktree of /repo and a scratch copy of /verif whose harness points at that worktree, so that /repo itself is never
touched.  For every change: apply it to the lane's worktree, run `./check <its property> quick` and `./check detect quick`
in the lane's copy, undo it, write seeded/<id>/meta.json (check part) in /verif.  Development tool; never run by a check.
usage: seed_eval_par.py [lanes] [id-substring ...]"""
import glob
import json
import os
import re
import shutil
import subprocess
import sys
from multiprocessing import Pool

ROOT = "/verif"
LANES = int(sys.argv[1]) if len(sys.argv) > 1 and sys.argv[1].isdigit() else 4
ONLY = [a for a in sys.argv[1:] if not a.isdigit()]


def sh(cmd, **kw):
    return subprocess.run(cmd, shell=True, stdout=subprocess.PIPE, stderr=subprocess.STDOUT, text=True, **kw)


def setup_lane(i):
    lane = "/tmp/lane%d" % i
    repo = lane + "/repo"
    if os.path.exists(repo):
        sh("git -C /repo worktree remove --force %s" % repo)
    shutil.rmtree(lane, ignore_errors=True)
    os.makedirs(lane)
    r = sh("git -C /repo worktree add --detach %s HEAD" % repo)
    assert r.returncode == 0, r.stdout
    sh("rsync -a --exclude=.cache --exclude=.git --exclude=seeded --exclude=evidence/replays %s/ %s/verif/" % (ROOT, lane))
    for f in ("harness/Cargo.toml", "harness/build.sh"):
        p = "%s/verif/%s" % (lane, f)
        s = re.sub(r"(?<![\w.])/repo(?![.\w])", repo, open(p).read())
        open(p, "w").write(s)
    # reuse the compiled Coq development and model (identical sources): copy the build products
    os.makedirs(lane + "/verif/.cache", exist_ok=True)
    sh("cp -r %s/.cache/ocaml %s/verif/.cache/ocaml; cp %s/.cache/coq.stamp %s/verif/.cache/coq.stamp" % (ROOT, lane, ROOT, lane))
    sh("rsync -a %s/coq/ %s/verif/coq/" % (ROOT, lane))
    r = sh("./check setup", cwd=lane + "/verif", timeout=3000)
    return i, r.stdout[-300:]


def eval_one(args):
    i, sid = args
    lane = "/tmp/lane%d" % i
    repo = lane + "/repo"
    prop = sid.split("_")[0]
    patch = "%s/seeded/%s/patch.diff" % (ROOT, sid)
    a = sh("git -C %s apply %s" % (repo, patch))
    if a.returncode != 0:
        sh("git -C %s checkout -- ." % repo)
        return sid, None, "APPLY-FAILED " + a.stdout[-200:], [], None
    try:
        r = sh("./check %s quick" % prop, cwd=lane + "/verif", timeout=2400)
        det = sh("./check detect quick", cwd=lane + "/verif", timeout=2400)
    finally:
        sh("git -C %s checkout -- ." % repo)
    viol = [l for l in r.stdout.split("\n") if l.startswith("VIOLATION")]
    replay_src = None
    m = re.search(r"replay=(\S+)", viol[0]) if viol else None
    if m and os.path.exists(m.group(1)):
        replay_src = m.group(1)
        shutil.copy(replay_src, "%s/seeded/%s/replay.hist" % (ROOT, sid))
    others = []
    for l in det.stdout.split("\n"):
        mm = re.match(r"(C\d\d) mismatches=(\d+) oracle=(\d+)", l)
        if mm and (int(mm.group(2)) or (int(mm.group(3)) and not ("2^96" in l and mm.group(1) == "C07") and not ("pro-rata share" in l and mm.group(1) == "C09") and not ("not a whole number" in l and mm.group(1) == "C03"))):
            others.append(mm.group(1))
    return sid, r.returncode, (viol[0] if viol else None), sorted(set(others)), ("replay.hist" if replay_src else None)


def lane_worker(args):
    i, sids = args
    out = []
    for sid in sids:
        res = eval_one((i, sid))
        out.append(res)
        sid, rc, v, others, replay = res
        line = "%s %s %s | %s" % (sid, rc, (v or "NO VIOLATION")[:140].replace("/tmp/lane%d/verif" % i, "/verif"), " ".join(others))
        with open("/tmp/seed_eval_par.log", "a") as f:
            f.write(line + "\n")
        mp = "%s/seeded/%s/meta.json" % (ROOT, sid)
        meta = json.load(open(mp)) if os.path.exists(mp) else dict(id=sid, breaks_property=sid.split("_")[0])
        vline = v.replace("/tmp/lane%d/verif" % i, "/verif") if v else None
        meta["check"] = dict(cmd="./check %s quick (with the patch applied to a scratch worktree of /repo the harness was pointed at, undone afterwards)" % sid.split("_")[0],
                             exit_code=rc, violation_line=vline, no_failing_input=bool(v and "no-failing-input-found" in v), replay=replay)
        meta["all_checks_reacting"] = others
        json.dump(meta, open(mp, "w"), indent=1)
    return out


def main():
    sids = sorted(os.path.basename(os.path.dirname(p)) for p in glob.glob(ROOT + "/seeded/*/patch.diff"))
    if ONLY:
        sids = [s for s in sids if any(o in s for o in ONLY)]
    open("/tmp/seed_eval_par.log", "w").close()
    with Pool(LANES) as p:
        for i, tail in p.map(setup_lane, range(LANES)):
            print("lane", i, tail.strip().split("\n")[-1], flush=True)
        work = [(i, sids[i::LANES]) for i in range(LANES)]
        res = p.map(lane_worker, work)
    bad = [r for lane in res for r in lane if r[1] != 1 or not r[2]]
    print("evaluated", sum(len(x) for x in res), "not reported by their own check:", [b[0] for b in bad])
    for i in range(LANES):
        sh("git -C /repo worktree remove --force /tmp/lane%d/repo" % i)
        shutil.rmtree("/tmp/lane%d" % i, ignore_errors=True)
    print("DONE")


if __name__ == "__main__":
    main()
