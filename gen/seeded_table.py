#!/usr/bin/env python3
"""Rewrites the table of seeded changes at the end of DESIGN.md from seeded/*/meta.json.  Development tool."""
import glob
import json
import os

ROOT = os.path.dirname(os.path.dirname(os.path.abspath(__file__)))
MARK = "| seeded change | `./check <its property> quick` |"
rows = [MARK + " every check that reacts | what it is (first line of its README) |", "|---|---|---|---|"]
n = own = withinput = 0
for d in sorted(glob.glob(ROOT + "/seeded/*/")):
    m = json.load(open(d + "meta.json"))
    readme = open(d + "README.md").read().strip().split("\n")[0] if os.path.exists(d + "README.md") else ""
    c = m["check"]
    if c["violation_line"]:
        res = "VIOLATION (no failing input)" if c["no_failing_input"] else "VIOLATION with failing history"
        own += 1
        withinput += 0 if c["no_failing_input"] else 1
    else:
        res = "not reported by " + m["breaks_property"]
    n += 1
    rows.append("| %s | %s | %s | %s |" % (m["id"], res, " ".join(m["all_checks_reacting"]), readme[:110].replace("|", "/")))
p = ROOT + "/DESIGN.md"
s = open(p).read()
i = s.index(MARK)
open(p, "w").write(s[:i] + "\n".join(rows) + "\n")
print("%d seeded changes, %d reported by their own property's quick check, %d of those with a concrete failing history" % (n, own, withinput))
