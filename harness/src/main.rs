// atsharness — drives the real ats-smart-contract through its public entry points and prints the
// canonical line-based trace described in /verif/FORMAT.md.
//
//   atsharness run [FILE]   history lines from FILE (or stdin) -> trace on stdout (flushed per event)
//   atsharness dec          decimal differential cases from stdin -> `<case> => <result>` lines
#![allow(deprecated)]

mod codec;
mod decmode;

use ats_smart_contract::ask_order::{AskOrderClass, AskOrderStatus, AskOrderV1, ASKS_V1};
use ats_smart_contract::bid_order::{BidOrderV2, BidOrderV3, BIDS_V2, BIDS_V3};
use ats_smart_contract::common::{Action, BlockInfo, Event, FeeInfo};
use ats_smart_contract::contract::{execute, instantiate, migrate, query};
use ats_smart_contract::contract_info::{set_contract_info, ContractInfoV3};
use ats_smart_contract::msg::{ExecuteMsg, InstantiateMsg, MigrateMsg, QueryMsg};
use ats_smart_contract::version_info::{set_version_info, VersionInfoV1, CRATE_NAME, PACKAGE_VERSION};
use codec::*;
use cosmwasm_std::testing::{mock_env, MockApi, MockStorage};
use cosmwasm_std::{
    from_slice, to_binary, to_vec, Addr, BankMsg, Binary, Coin, ContractResult, CosmosMsg, Empty,
    MessageInfo, Order, OwnedDeps, ReplyOn, Response, Storage, SystemError, SystemResult, Uint128,
};
use prost::Message;
use provwasm_common::MockableQuerier;
use provwasm_mocks::{mock_provenance_dependencies, MockProvenanceQuerier};
use provwasm_std::shim::Any;
use provwasm_std::types::cosmos::auth::v1beta1::BaseAccount;
use provwasm_std::types::cosmos::base::query::v1beta1::PageResponse;
use provwasm_std::types::provenance::attribute::v1::{
    Attribute, AttributeType, QueryAttributesRequest, QueryAttributesResponse,
};
use provwasm_std::types::provenance::marker::v1::{
    AccessGrant, MarkerAccount, MsgTransferRequest, QueryMarkerRequest, QueryMarkerResponse,
};
use std::cell::RefCell;
use std::collections::BTreeMap;
use std::io::{self, BufRead, BufWriter, Write};
use std::panic::{catch_unwind, AssertUnwindSafe};
use std::rc::Rc;

type Deps = OwnedDeps<MockStorage, MockApi, MockProvenanceQuerier, Empty>;
type Snap = Vec<(Vec<u8>, Vec<u8>)>;

const MARKER_PATH: &str = "/provenance.marker.v1.Query/Marker";
const ATTRS_PATH: &str = "/provenance.attribute.v1.Query/Attributes";
const XFER_TYPE_URL: &str = "/provenance.marker.v1.MsgTransferRequest";
const ASK_PREFIX: &[u8] = b"\x00\x03ask";
const BID_PREFIX: &[u8] = b"\x00\x03bid";
const CFG_KEY: &[u8] = b"contract_info";
const VER_KEY: &[u8] = b"version_info";

/// Lines of a trace that carry no history information; ignored on input.
const TRACE_WORDS: &[&str] = &[
    "OUT", "MSG", "ATTR", "QRY", "STORAGE", "ASK", "ASKX", "BID3", "BID2", "BIDX", "CFG", "VER",
    "XKEY", "END",
];

// ------------------------------------------------------------------------------------------------
// environment tables (markers, account attributes) shared with the querier closures
// ------------------------------------------------------------------------------------------------

#[derive(Default)]
struct Tables {
    // denomination -> (marker type, status, required attributes)
    markers: BTreeMap<String, (i32, i32, Vec<String>)>,
    attrs: BTreeMap<String, Vec<Vec<String>>>,     // per account: the pages its attribute listing is served in
}

fn sys_err(kind: &str) -> cosmwasm_std::QuerierResult {
    SystemResult::Err(SystemError::InvalidRequest {
        error: kind.to_string(),
        request: Binary::default(),
    })
}

fn new_deps(tables: &Rc<RefCell<Tables>>) -> Deps {
    let mut deps = mock_provenance_dependencies();
    // host-chain metadata the contract has no business consulting: the wasm module knows "admin" as the contract's admin
    // and creator (a contract that asks and acts on the answer behaves differently from the model for sender "admin")
    deps.querier.mock_querier.update_wasm(|q| match q {
        cosmwasm_std::WasmQuery::ContractInfo { .. } => {
            let mut r = cosmwasm_std::ContractInfoResponse::default();
            r.code_id = 1;
            r.creator = "admin".to_string();
            r.admin = Some("admin".to_string());
            SystemResult::Ok(cosmwasm_std::ContractResult::Ok(cosmwasm_std::to_binary(&r).unwrap()))
        }
        _ => SystemResult::Err(SystemError::UnsupportedRequest { kind: "wasm".to_string() }),
    });
    let t = tables.clone();
    deps.querier.register_custom_query(
        MARKER_PATH.to_string(),
        Box::new(move |data: &Binary| {
            let req = match QueryMarkerRequest::decode(data.as_slice()) {
                Ok(r) => r,
                Err(_) => return sys_err("undecodable QueryMarkerRequest"),
            };
            let kind = t.borrow().markers.get(&req.id).cloned();
            if let Some((-1, _, _)) = kind {
                return sys_err("marker module unavailable");
            }
            let resp = match kind {
                Some((marker_type, status, mut required_attributes)) => {
                    // "Rx": the marker's access list grants every permission (1..=7) to every account of the attribute
                    // table and to the well-known names; the contract is meant to take roles from its configuration only
                    let mut access_control = vec![];
                    let mut manager = String::new();
                    if required_attributes.first().map(|x| x == "\u{1}manager").unwrap_or(false) {
                        required_attributes.clear();
                        manager = "manager".to_string();
                    }
                    if required_attributes.first().map(|x| x == "\u{1}grants").unwrap_or(false) {
                        required_attributes.clear();
                        let mut names: Vec<String> = t.borrow().attrs.keys().cloned().collect();
                        for extra in ["admin", "mallory", "alice", "bob", "carol", "dave", "erin", "frank", "grace", "heidi", "seller", "buyer", "appr", "appr2", "exec", "feea", "feeb"] {
                            if !names.iter().any(|n| n == extra) {
                                names.push(extra.to_string());
                            }
                        }
                        for address in names {
                            access_control.push(AccessGrant { address, permissions: vec![1, 2, 3, 4, 5, 6, 7] });
                        }
                    }
                    let m = MarkerAccount {
                        base_account: Some(BaseAccount {
                            address: "marker".into(),
                            pub_key: None,
                            account_number: 1,
                            sequence: 0,
                        }),
                        manager,
                        access_control,
                        status,
                        denom: req.id.clone(),
                        supply: "1".into(),
                        marker_type,
                        supply_fixed: false,
                        allow_governance_control: true,
                        allow_forced_transfer: false,
                        required_attributes,
                    };
                    QueryMarkerResponse {
                        marker: Some(Any {
                            type_url: "/provenance.marker.v1.MarkerAccount".into(),
                            value: m.encode_to_vec(),
                        }),
                    }
                }
                None => QueryMarkerResponse { marker: None },
            };
            match to_binary(&resp) {
                Ok(b) => SystemResult::Ok(ContractResult::Ok(b)),
                Err(_) => sys_err("unserialisable QueryMarkerResponse"),
            }
        }),
    );
    let t = tables.clone();
    deps.querier.register_custom_query(
        ATTRS_PATH.to_string(),
        Box::new(move |data: &Binary| {
            let req = match QueryAttributesRequest::decode(data.as_slice()) {
                Ok(r) => r,
                Err(_) => return sys_err("undecodable QueryAttributesRequest"),
            };
            let pages = t.borrow().attrs.get(&req.account).cloned().unwrap_or_default();
            // page k is asked for with key = [k]; no key = first page
            let k = req.pagination.as_ref().and_then(|p| p.key.first().copied()).unwrap_or(0) as usize;
            let names = pages.get(k).cloned().unwrap_or_default();
            let more = k + 1 < pages.len();
            let resp = QueryAttributesResponse {
                account: req.account.clone(),
                attributes: names
                    .into_iter()
                    .map(|name| Attribute {
                        name,
                        value: vec![],
                        attribute_type: AttributeType::String.into(),
                        address: req.account.clone(),
                    })
                    .collect(),
                pagination: if pages.len() > 1 {
                    Some(PageResponse { next_key: if more { vec![(k + 1) as u8] } else { vec![] }, total: 0 })
                } else {
                    None
                },
            };
            match to_binary(&resp) {
                Ok(b) => SystemResult::Ok(ContractResult::Ok(b)),
                Err(_) => sys_err("unserialisable QueryAttributesResponse"),
            }
        }),
    );
    deps
}

// ------------------------------------------------------------------------------------------------
// storage snapshots
// ------------------------------------------------------------------------------------------------

fn snapshot(s: &MockStorage) -> Snap {
    s.range(None, None, Order::Ascending).collect()
}

fn restore(snap: &Snap) -> MockStorage {
    let mut n = MockStorage::default();
    for (k, v) in snap {
        n.set(k, v);
    }
    n
}

// ------------------------------------------------------------------------------------------------
// parsed history events
// ------------------------------------------------------------------------------------------------

enum Ev {
    NewHistory,
    Env(Tables),
    Inst { sender: String, funds: Vec<Coin>, msg: InstantiateMsg },
    Exec { probe: bool, sender: String, funds: Vec<Coin>, msg: ExecuteMsg },
    Query(QueryMsg),
    Migrate { probe: bool, msg: MigrateMsg },
    SeedVer(VersionInfoV1),
    SeedNoVer,
    SeedCfg(ContractInfoV3),
    SeedAsk(Vec<u8>, AskOrderV1),
    SeedBid3(Vec<u8>, BidOrderV3),
    SeedBid2(Vec<u8>, BidOrderV2),
    SeedBid2X(Vec<u8>, BidOrderV2),
}

fn parse_env(t: &mut Toks) -> PResult<Tables> {
    let mut tables = Tables::default();
    let m = t.next()?;
    if m != "[]" {
        for item in m.split(',') {
            let (d, k) = item.split_once('=').ok_or(Malformed)?;
            // R / U: restricted / coin marker, active, no required attributes; the variants keep the type and vary
            // the fields the contract is meant to ignore: a = required attributes, p = proposed, c = cancelled, d = destroyed
            let kind = match k {
                "R" => (2, 3, vec![]),
                "U" => (1, 3, vec![]),
                "Ra" => (2, 3, vec!["kyc.passport.pb".to_string()]),
                "Ua" => (1, 3, vec!["kyc.passport.pb".to_string()]),
                "Rp" => (2, 1, vec![]),
                "Rc" => (2, 4, vec![]),
                "Rd" => (2, 5, vec![]),
                "Ud" => (1, 5, vec![]),
                "E" => (-1, 0, vec![]),            // the marker query itself fails
                "Rx" => (2, 3, vec!["\u{1}grants".to_string()]),   // restricted, access list naming every account
                "Rm" => (2, 3, vec!["\u{1}manager".to_string()]),   // restricted, manager field set
                "Um" => (1, 3, vec!["\u{1}manager".to_string()]),
                "Z" => (0, 3, vec![]),             // marker of type 0 (MARKER_TYPE_UNSPECIFIED): not restricted
                "T" => (3, 3, vec![]),             // marker of a type number the enum does not name: not restricted
                _ => return Err(Malformed),
            };
            if tables.markers.insert(dec_str(d)?, kind).is_some() {
                return Err(Malformed);
            }
        }
    }
    let a = t.next()?;
    if a != "[]" {
        for item in a.split(',') {
            let (acct, names) = item.split_once('=').ok_or(Malformed)?;
            // `|` separates the pages the attribute module serves the listing in (next_key set on all but the last)
            let mut pages = vec![];
            for page in names.split('|') {
                if page.is_empty() {
                    pages.push(vec![]);
                } else {
                    pages.push(page.split(';').map(dec_str).collect::<PResult<Vec<String>>>()?);
                }
            }
            if tables.attrs.insert(dec_str(acct)?, pages).is_some() {
                return Err(Malformed);
            }
        }
    }
    t.end()?;
    Ok(tables)
}

fn parse_feeinfo(tok: &str) -> PResult<Option<FeeInfo>> {
    if tok == "-" {
        return Ok(None);
    }
    let (a, r) = tok.split_once('=').ok_or(Malformed)?;
    Ok(Some(FeeInfo { account: Addr::unchecked(dec_str(a)?), rate: dec_str(r)? }))
}

fn parse_class(tok: &str) -> PResult<AskOrderClass> {
    match tok {
        "basic" => Ok(AskOrderClass::Basic),
        "pending" => Ok(AskOrderClass::Convertible { status: AskOrderStatus::PendingIssuerApproval }),
        _ => {
            let p: Vec<&str> = tok.split(':').collect();
            if p.len() != 4 || p[0] != "ready" {
                return Err(Malformed);
            }
            Ok(AskOrderClass::Convertible {
                status: AskOrderStatus::Ready {
                    approver: Addr::unchecked(dec_str(p[1])?),
                    converted_base: Coin { denom: dec_str(p[2])?, amount: Uint128::new(parse_num(p[3])?) },
                },
            })
        }
    }
}

fn parse_events(tok: &str, base_denom: &str, quote_denom: &str, price: &str) -> PResult<Vec<Event>> {
    if tok == "[]" {
        return Ok(vec![]);
    }
    let c = |amt: &str, denom: &str| -> PResult<Coin> {
        Ok(Coin { denom: denom.to_string(), amount: Uint128::new(parse_num(amt)?) })
    };
    let fee = |amt: &str| -> PResult<Option<Coin>> {
        if amt == "-" {
            Ok(None)
        } else {
            Ok(Some(c(amt, quote_denom)?))
        }
    };
    let mut out = vec![];
    for item in tok.split(';') {
        let p: Vec<&str> = item.split(':').collect();
        // a lower-case letter: the same event, logged with a block height far above any call's (the contract reads amounts only)
        let late = p[0].chars().all(|ch| ch.is_ascii_lowercase());
        let upper = p[0].to_ascii_uppercase();
        let action = match (upper.as_str(), p.len()) {
            ("F", 4) => Action::Fill {
                base: c(p[1], base_denom)?,
                fee: fee(p[3])?,
                price: price.to_string(),
                quote: c(p[2], quote_denom)?,
            },
            ("R", 3) => Action::Refund { fee: fee(p[2])?, quote: c(p[1], quote_denom)? },
            ("J", 4) => Action::Reject {
                base: c(p[1], base_denom)?,
                fee: fee(p[3])?,
                quote: c(p[2], quote_denom)?,
            },
            _ => return Err(Malformed),
        };
        let mut block_info = BlockInfo::default();
        if late {
            block_info.height = u64::MAX / 2;
        }
        out.push(Event { action, block_info });
    }
    Ok(out)
}

fn parse_exec_msg(t: &mut Toks) -> PResult<ExecuteMsg> {
    let kind = t.next()?;
    let msg = match kind {
        "approve_ask" => ExecuteMsg::ApproveAsk { id: t.string()?, base: t.string()?, size: t.uint()? },
        "cancel_ask" => ExecuteMsg::CancelAsk { id: t.string()? },
        "cancel_bid" => ExecuteMsg::CancelBid { id: t.string()? },
        "create_ask" => ExecuteMsg::CreateAsk {
            id: t.string()?,
            base: t.string()?,
            quote: t.string()?,
            price: t.string()?,
            size: t.uint()?,
        },
        "create_bid" => ExecuteMsg::CreateBid {
            id: t.string()?,
            base: t.string()?,
            fee: t.optcoin()?,
            price: t.string()?,
            quote: t.string()?,
            quote_size: t.uint()?,
            size: t.uint()?,
        },
        "execute_match" => ExecuteMsg::ExecuteMatch {
            ask_id: t.string()?,
            bid_id: t.string()?,
            price: t.string()?,
            size: t.uint()?,
        },
        "expire_ask" => ExecuteMsg::ExpireAsk { id: t.string()? },
        "expire_bid" => ExecuteMsg::ExpireBid { id: t.string()? },
        "reject_ask" => ExecuteMsg::RejectAsk { id: t.string()?, size: t.opt_uint()? },
        "reject_bid" => ExecuteMsg::RejectBid { id: t.string()?, size: t.opt_uint()? },
        "modify_contract" => ExecuteMsg::ModifyContract {
            approvers: t.optlist()?,
            executors: t.optlist()?,
            ask_fee_rate: t.opt_string()?,
            ask_fee_account: t.opt_string()?,
            bid_fee_rate: t.opt_string()?,
            bid_fee_account: t.opt_string()?,
            ask_required_attributes: t.optlist()?,
            bid_required_attributes: t.optlist()?,
        },
        _ => return Err(Malformed),
    };
    t.end()?;
    Ok(msg)
}

fn parse_migrate_msg(t: &mut Toks) -> PResult<MigrateMsg> {
    let msg = MigrateMsg {
        approvers: t.optlist()?,
        ask_fee_rate: t.opt_string()?,
        ask_fee_account: t.opt_string()?,
        bid_fee_rate: t.opt_string()?,
        bid_fee_account: t.opt_string()?,
        ask_required_attributes: t.optlist()?,
        bid_required_attributes: t.optlist()?,
    };
    t.end()?;
    Ok(msg)
}

thread_local! {
    static INST_EXTRA: std::cell::Cell<bool> = std::cell::Cell::new(false);
}

fn parse_event(line: &str) -> PResult<Ev> {
    let mut t = Toks::new(line);
    let word = t.next()?;
    let ev = match word {
        "H" => Ev::NewHistory,
        "ENV" => Ev::Env(parse_env(&mut t)?),
        "INST" | "INSTF" | "INSTX" => {
            // INSTF <coins> <INST fields>: the same instantiate call with funds attached (the contract ignores them)
            // INSTX <INST fields>: the same message sent as JSON with one more member than the struct declares
            let funds = if word == "INSTF" { t.coins()? } else { vec![] };
            INST_EXTRA.with(|x| x.set(word == "INSTX"));
            let sender = t.string()?;
            let msg = InstantiateMsg {
                name: t.string()?,
                base_denom: t.string()?,
                convertible_base_denoms: t.list()?,
                supported_quote_denoms: t.list()?,
                approvers: t.list()?,
                executors: t.list()?,
                ask_fee_rate: t.opt_string()?,
                ask_fee_account: t.opt_string()?,
                bid_fee_rate: t.opt_string()?,
                bid_fee_account: t.opt_string()?,
                ask_required_attributes: t.list()?,
                bid_required_attributes: t.list()?,
                price_precision: t.uint()?,
                size_increment: t.uint()?,
            };
            t.end()?;
            Ev::Inst { sender, funds, msg }
        }
        "EXEC" | "PEXEC" => {
            let sender = t.string()?;
            let funds = t.coins()?;
            let msg = parse_exec_msg(&mut t)?;
            Ev::Exec { probe: word == "PEXEC", sender, funds, msg }
        }
        "QUERY" => {
            let msg = match t.next()? {
                "get_ask" => QueryMsg::GetAsk { id: t.string()? },
                "get_bid" => QueryMsg::GetBid { id: t.string()? },
                "get_contract_info" => QueryMsg::GetContractInfo {},
                "get_version_info" => QueryMsg::GetVersionInfo {},
                _ => return Err(Malformed),
            };
            t.end()?;
            Ev::Query(msg)
        }
        "MIGRATE" | "PMIGRATE" => Ev::Migrate { probe: word == "PMIGRATE", msg: parse_migrate_msg(&mut t)? },
        "SEEDVER" => {
            let v = VersionInfoV1 { definition: t.string()?, version: t.string()? };
            t.end()?;
            Ev::SeedVer(v)
        }
        "SEEDNOVER" => {
            t.end()?;
            Ev::SeedNoVer
        }
        "SEEDCFG" => {
            let c = ContractInfoV3 {
                name: t.string()?,
                bind_name: t.string()?,
                base_denom: t.string()?,
                convertible_base_denoms: t.list()?,
                supported_quote_denoms: t.list()?,
                approvers: t.list()?.into_iter().map(Addr::unchecked).collect(),
                executors: t.list()?.into_iter().map(Addr::unchecked).collect(),
                ask_fee_info: parse_feeinfo(t.next()?)?,
                bid_fee_info: parse_feeinfo(t.next()?)?,
                ask_required_attributes: t.list()?,
                bid_required_attributes: t.list()?,
                price_precision: t.uint()?,
                size_increment: t.uint()?,
            };
            t.end()?;
            Ev::SeedCfg(c)
        }
        "SEEDASK" => {
            let key = t.bytes()?;
            let a = AskOrderV1 {
                id: t.string()?,
                owner: Addr::unchecked(t.string()?),
                class: parse_class(t.next()?)?,
                base: t.string()?,
                quote: t.string()?,
                price: t.string()?,
                size: t.uint()?,
            };
            t.end()?;
            Ev::SeedAsk(key, a)
        }
        "SEEDBID3" => {
            let key = t.bytes()?;
            let id = t.string()?;
            let owner = Addr::unchecked(t.string()?);
            let base_denom = t.string()?;
            let base_amt = t.uint()?;
            let accumulated_base = t.uint()?;
            let quote_denom = t.string()?;
            let quote_amt = t.uint()?;
            let accumulated_quote = t.uint()?;
            let fee = t.optcoin()?;
            let accumulated_fee = t.uint()?;
            let price = t.string()?;
            t.end()?;
            Ev::SeedBid3(
                key,
                BidOrderV3 {
                    base: Coin { denom: base_denom, amount: base_amt },
                    accumulated_base,
                    accumulated_quote,
                    accumulated_fee,
                    fee,
                    id,
                    owner,
                    price,
                    quote: Coin { denom: quote_denom, amount: quote_amt },
                },
            )
        }
        "SEEDBID2" | "SEEDBID2X" => {
            let extra = word == "SEEDBID2X";
            let key = t.bytes()?;
            let id = t.string()?;
            let owner = Addr::unchecked(t.string()?);
            let base_denom = t.string()?;
            let base_amt = t.uint()?;
            let quote_denom = t.string()?;
            let quote_amt = t.uint()?;
            let fee = t.optcoin()?;
            let price = t.string()?;
            let events = parse_events(t.next()?, &base_denom, &quote_denom, &price)?;
            t.end()?;
            let mk = if extra { Ev::SeedBid2X } else { Ev::SeedBid2 };
            mk(
                key,
                BidOrderV2 {
                    base: Coin { denom: base_denom, amount: base_amt },
                    events,
                    fee,
                    id,
                    owner,
                    price,
                    quote: Coin { denom: quote_denom, amount: quote_amt },
                },
            )
        }
        _ => return Err(Malformed),
    };
    Ok(ev)
}

// ------------------------------------------------------------------------------------------------
// printing of typed records
// ------------------------------------------------------------------------------------------------

fn class_s(c: &AskOrderClass) -> String {
    match c {
        AskOrderClass::Basic => "basic".into(),
        AskOrderClass::Convertible { status: AskOrderStatus::PendingIssuerApproval } => "pending".into(),
        AskOrderClass::Convertible { status: AskOrderStatus::Ready { approver, converted_base } } => format!(
            "ready:{}:{}:{}",
            enc_str(approver.as_str()),
            enc_str(&converted_base.denom),
            converted_base.amount.u128()
        ),
    }
}

fn feeinfo_s(f: &Option<FeeInfo>) -> String {
    match f {
        None => "-".into(),
        Some(f) => format!("{}={}", enc_str(f.account.as_str()), enc_str(&f.rate)),
    }
}

fn optamt_s(c: &Option<Coin>) -> String {
    match c {
        None => "-".into(),
        Some(c) => c.amount.u128().to_string(),
    }
}

fn events_s(events: &[Event]) -> String {
    if events.is_empty() {
        return "[]".into();
    }
    events
        .iter()
        .map(|e| match &e.action {
            Action::Fill { base, fee, price: _, quote } => {
                format!("F:{}:{}:{}", base.amount.u128(), quote.amount.u128(), optamt_s(fee))
            }
            Action::Refund { fee, quote } => format!("R:{}:{}", quote.amount.u128(), optamt_s(fee)),
            Action::Reject { base, fee, quote } => {
                format!("J:{}:{}:{}", base.amount.u128(), quote.amount.u128(), optamt_s(fee))
            }
        })
        .collect::<Vec<_>>()
        .join(";")
}

fn ask_fields(a: &AskOrderV1) -> String {
    format!(
        "{} {} {} {} {} {} {}",
        enc_str(&a.id),
        enc_str(a.owner.as_str()),
        class_s(&a.class),
        enc_str(&a.base),
        enc_str(&a.quote),
        enc_str(&a.price),
        a.size.u128()
    )
}

fn bid3_fields(b: &BidOrderV3) -> String {
    format!(
        "{} {} {} {} {} {} {} {} {} {} {}",
        enc_str(&b.id),
        enc_str(b.owner.as_str()),
        enc_str(&b.base.denom),
        b.base.amount.u128(),
        b.accumulated_base.u128(),
        enc_str(&b.quote.denom),
        b.quote.amount.u128(),
        b.accumulated_quote.u128(),
        optcoin_s(&b.fee),
        b.accumulated_fee.u128(),
        enc_str(&b.price)
    )
}

fn bid2_fields(b: &BidOrderV2) -> String {
    format!(
        "{} {} {} {} {} {} {} {} {}",
        enc_str(&b.id),
        enc_str(b.owner.as_str()),
        enc_str(&b.base.denom),
        b.base.amount.u128(),
        enc_str(&b.quote.denom),
        b.quote.amount.u128(),
        optcoin_s(&b.fee),
        enc_str(&b.price),
        events_s(&b.events)
    )
}

fn cfg_fields(c: &ContractInfoV3) -> String {
    format!(
        "{} {} {} {} {} {} {} {} {} {} {} {} {}",
        enc_str(&c.name),
        enc_str(&c.bind_name),
        enc_str(&c.base_denom),
        list_s(c.convertible_base_denoms.iter().map(|s| enc_str(s))),
        list_s(c.supported_quote_denoms.iter().map(|s| enc_str(s))),
        list_s(c.approvers.iter().map(|a| enc_str(a.as_str()))),
        list_s(c.executors.iter().map(|a| enc_str(a.as_str()))),
        feeinfo_s(&c.ask_fee_info),
        feeinfo_s(&c.bid_fee_info),
        list_s(c.ask_required_attributes.iter().map(|s| enc_str(s))),
        list_s(c.bid_required_attributes.iter().map(|s| enc_str(s))),
        c.price_precision.u128(),
        c.size_increment.u128()
    )
}

fn ver_fields(v: &VersionInfoV1) -> String {
    format!("{} {}", enc_str(&v.definition), enc_str(&v.version))
}

// ------------------------------------------------------------------------------------------------
// the runner
// ------------------------------------------------------------------------------------------------

fn panic_text(p: Box<dyn std::any::Any + Send>) -> String {
    if let Some(s) = p.downcast_ref::<&str>() {
        format!("panic {}", s)
    } else if let Some(s) = p.downcast_ref::<String>() {
        format!("panic {}", s)
    } else {
        "panic".to_string()
    }
}

struct Runner<W: Write> {
    deps: Deps,
    tables: Rc<RefCell<Tables>>,
    out: W,
    tick: u64,
}

// the block every call sees: height and time advance with every event and regularly pass round numbers, so that
// nothing in the contract can come to depend on them unnoticed (the current-format contract never reads them)
fn env_at(tick: u64) -> cosmwasm_std::Env {
    let mut env = mock_env();
    env.block.height = 12_300 + tick * 25;
    env.block.time = env.block.time.plus_seconds(tick * 3_600);
    env
}

impl<W: Write> Runner<W> {
    fn new(out: W) -> Self {
        let tables = Rc::new(RefCell::new(Tables::default()));
        let deps = new_deps(&tables);
        Runner { deps, tables, out, tick: 0 }
    }

    fn line(&mut self, s: &str) {
        // a closed pipe is the normal way for a driver to stop us
        if writeln!(self.out, "{}", s).is_err() {
            std::process::exit(0);
        }
    }

    fn end(&mut self) {
        self.line("END");
        if self.out.flush().is_err() {
            std::process::exit(0);
        }
    }

    /// Runs `f` on the dependencies; on `Err` or panic the storage is rolled back.
    fn guarded<R>(&mut self, f: impl FnOnce(&mut Deps) -> Result<R, String>) -> Result<R, String> {
        let snap = snapshot(&self.deps.storage);
        let deps = &mut self.deps;
        let r = catch_unwind(AssertUnwindSafe(|| f(deps)));
        match r {
            Ok(Ok(x)) => Ok(x),
            Ok(Err(e)) => {
                self.deps.storage = restore(&snap);
                Err(e)
            }
            Err(p) => {
                self.deps.storage = restore(&snap);
                Err(panic_text(p))
            }
        }
    }

    fn print_response(&mut self, resp: &Response, skip_contract_info: bool) {
        for sub in &resp.messages {
            if sub.reply_on != ReplyOn::Never || sub.gas_limit.is_some() {
                self.line(&format!("MSG other {}", hex(format!("{:?}", sub).as_bytes())));
                continue;
            }
            let l = match &sub.msg {
                CosmosMsg::Bank(BankMsg::Send { to_address, amount }) => {
                    Some(format!("MSG bank {} {}", enc_str(to_address), coins_s(amount)))
                }
                CosmosMsg::Stargate { type_url, value } if type_url == XFER_TYPE_URL => {
                    match MsgTransferRequest::decode(value.as_slice()) {
                        Ok(t) => {
                            let coin = match &t.amount {
                                None => Some("0:~".to_string()),
                                Some(c) => match parse_num(&c.amount) {
                                    Ok(n) => Some(format!("{}:{}", n, enc_str(&c.denom))),
                                    Err(_) => None,
                                },
                            };
                            coin.map(|coin| {
                                format!(
                                    "MSG xfer {} {} {} {}",
                                    enc_str(&t.from_address),
                                    enc_str(&t.to_address),
                                    coin,
                                    enc_str(&t.administrator)
                                )
                            })
                        }
                        Err(_) => None,
                    }
                }
                _ => None,
            };
            let l = l.unwrap_or_else(|| format!("MSG other {}", hex(format!("{:?}", sub.msg).as_bytes())));
            self.line(&l);
        }
        if !resp.events.is_empty() {
            self.line(&format!("MSG other {}", hex(format!("{:?}", resp.events).as_bytes())));
        }
        if let Some(d) = &resp.data {
            self.line(&format!("MSG other {}", hex(format!("{:?}", d).as_bytes())));
        }
        for a in &resp.attributes {
            if skip_contract_info && a.key == "contract_info" {
                continue;
            }
            self.line(&format!("ATTR {} {}", enc_str(&a.key), enc_str(&a.value)));
        }
    }

    fn dump(&mut self) {
        let all = snapshot(&self.deps.storage);
        let mut asks = vec![];
        let mut bids = vec![];
        let mut cfg = "CFG -".to_string();
        let mut ver = "VER -".to_string();
        let mut extra = vec![];
        for (k, v) in &all {
            if k.starts_with(ASK_PREFIX) {
                let key = enc(&k[ASK_PREFIX.len()..]);
                asks.push(match from_slice::<AskOrderV1>(v) {
                    Ok(a) => format!("ASK {} {}", key, ask_fields(&a)),
                    Err(_) => format!("ASKX {} {}", key, hex(v)),
                });
            } else if k.starts_with(BID_PREFIX) {
                let key = enc(&k[BID_PREFIX.len()..]);
                bids.push(if let Ok(b) = from_slice::<BidOrderV3>(v) {
                    format!("BID3 {} {}", key, bid3_fields(&b))
                } else if let Ok(b) = from_slice::<BidOrderV2>(v) {
                    format!("BID2 {} {}", key, bid2_fields(&b))
                } else {
                    format!("BIDX {} {}", key, hex(v))
                });
            } else if k.as_slice() == CFG_KEY {
                if let Ok(c) = from_slice::<ContractInfoV3>(v) {
                    cfg = format!("CFG {}", cfg_fields(&c));
                }
            } else if k.as_slice() == VER_KEY {
                if let Ok(x) = from_slice::<VersionInfoV1>(v) {
                    ver = format!("VER {}", ver_fields(&x));
                }
            } else {
                extra.push(format!("XKEY {} {}", hex(k), hex(v)));
            }
        }
        // storage iteration is in key byte order, so each group is already sorted by raw key
        for l in asks.iter().chain(bids.iter()) {
            self.line(l);
        }
        self.line(&cfg);
        self.line(&ver);
        for l in &extra {
            self.line(l);
        }
    }

    fn finish_response(&mut self, r: Result<Response, String>, probe: bool, before: Snap, is_inst: bool) {
        match r {
            Ok(resp) => {
                self.line("OUT ok");
                self.print_response(&resp, is_inst);
                self.dump();
            }
            Err(e) => self.line(&format!("OUT err {}", enc_str(&e))),
        }
        if probe {
            self.deps.storage = restore(&before);
        }
    }

    fn seeded(&mut self, r: Result<(), String>) {
        match r {
            Ok(()) => {
                self.line("OUT ok");
                self.dump();
            }
            Err(e) => self.line(&format!("OUT err {}", enc_str(&e))),
        }
    }

    fn run_event(&mut self, ev: Ev) {
        self.tick += 1;
        let tick = self.tick;
        match ev {
            Ev::NewHistory => {
                *self.tables.borrow_mut() = Tables::default();
                self.deps = new_deps(&self.tables);
            }
            Ev::Env(t) => {
                *self.tables.borrow_mut() = t;
            }
            Ev::Inst { sender, funds, msg } => {
                let before = snapshot(&self.deps.storage);
                let r = self.guarded(|deps| {
                    let mut bytes = to_vec(&msg).map_err(|e| e.to_string())?;
                    if INST_EXTRA.with(|x| x.get()) {
                        let mut raw = b"{\"bind_name\":\"\",".to_vec();
                        raw.extend_from_slice(&bytes[1..]);
                        bytes = raw;
                    }
                    let msg: InstantiateMsg = from_slice(&bytes).map_err(|e| e.to_string())?;
                    let info = MessageInfo { sender: Addr::unchecked(sender), funds };
                    instantiate(deps.as_mut(), env_at(tick), info, msg).map_err(|e| e.to_string())
                });
                self.finish_response(r, false, before, true);
            }
            Ev::Exec { probe, sender, funds, msg } => {
                let before = snapshot(&self.deps.storage);
                let r = self.guarded(|deps| {
                    let bytes = to_vec(&msg).map_err(|e| e.to_string())?;
                    let msg: ExecuteMsg = from_slice(&bytes).map_err(|e| e.to_string())?;
                    let info = MessageInfo { sender: Addr::unchecked(sender), funds };
                    execute(deps.as_mut(), env_at(tick), info, msg).map_err(|e| e.to_string())
                });
                self.finish_response(r, probe, before, false);
            }
            Ev::Migrate { probe, msg } => {
                let before = snapshot(&self.deps.storage);
                let r = self.guarded(|deps| {
                    let bytes = to_vec(&msg).map_err(|e| e.to_string())?;
                    let msg: MigrateMsg = from_slice(&bytes).map_err(|e| e.to_string())?;
                    migrate(deps.as_mut(), env_at(tick), msg).map_err(|e| e.to_string())
                });
                self.finish_response(r, probe, before, false);
            }
            Ev::Query(msg) => {
                let before = snapshot(&self.deps.storage);
                let kind = match &msg {
                    QueryMsg::GetAsk { .. } => 0,
                    QueryMsg::GetBid { .. } => 1,
                    QueryMsg::GetContractInfo {} => 2,
                    QueryMsg::GetVersionInfo {} => 3,
                };
                // not `guarded`: the storage comparison must see the state the query left behind
                let deps = &self.deps;
                let r = catch_unwind(AssertUnwindSafe(|| -> Result<Binary, String> {
                    let bytes = to_vec(&msg).map_err(|e| e.to_string())?;
                    let msg: QueryMsg = from_slice(&bytes).map_err(|e| e.to_string())?;
                    query(deps.as_ref(), env_at(tick), msg).map_err(|e| e.to_string())
                }))
                .unwrap_or_else(|p| Err(panic_text(p)));
                let changed = snapshot(&self.deps.storage) != before;
                if r.is_err() && changed {
                    self.deps.storage = restore(&before);
                }
                match r {
                    Ok(bin) => {
                        self.line("OUT ok");
                        let b = bin.as_slice();
                        let typed = match kind {
                            0 => from_slice::<AskOrderV1>(b).ok().map(|a| format!("QRY ask {}", ask_fields(&a))),
                            1 => from_slice::<BidOrderV3>(b).ok().map(|x| format!("QRY bid {}", bid3_fields(&x))),
                            2 => from_slice::<ContractInfoV3>(b).ok().map(|c| format!("QRY cfg {}", cfg_fields(&c))),
                            _ => from_slice::<VersionInfoV1>(b).ok().map(|v| format!("QRY ver {}", ver_fields(&v))),
                        };
                        let l = typed.unwrap_or_else(|| format!("QRY other {}", hex(b)));
                        self.line(&l);
                    }
                    Err(e) => self.line(&format!("OUT err {}", enc_str(&e))),
                }
                if changed {
                    self.line("STORAGE changed");
                }
            }
            Ev::SeedVer(v) => {
                let r = self.guarded(|deps| set_version_info(&mut deps.storage, &v).map_err(|e| e.to_string()));
                self.seeded(r);
            }
            Ev::SeedNoVer => {
                self.deps.storage.remove(VER_KEY);
                self.seeded(Ok(()));
            }
            Ev::SeedCfg(c) => {
                let r = self.guarded(|deps| set_contract_info(&mut deps.storage, &c).map_err(|e| e.to_string()));
                self.seeded(r);
            }
            Ev::SeedAsk(key, a) => {
                let r = self.guarded(|deps| ASKS_V1.save(&mut deps.storage, &key, &a).map_err(|e| e.to_string()));
                self.seeded(r);
            }
            Ev::SeedBid3(key, b) => {
                let r = self.guarded(|deps| BIDS_V3.save(&mut deps.storage, &key, &b).map_err(|e| e.to_string()));
                self.seeded(r);
            }
            Ev::SeedBid2(key, b) => {
                let r = self.guarded(|deps| BIDS_V2.save(&mut deps.storage, &key, &b).map_err(|e| e.to_string()));
                self.seeded(r);
            }
            Ev::SeedBid2X(key, b) => {
                // the same record as stored JSON text carrying one more top-level member than the struct declares
                let r = self.guarded(|deps| {
                    let json = cosmwasm_std::to_vec(&b).map_err(|e| e.to_string())?;
                    let mut raw = b"{\"size\":\"10\",".to_vec();
                    raw.extend_from_slice(&json[1..]);
                    let path = BIDS_V2.key(&key);
                    deps.storage.set(&path, &raw);
                    Ok(())
                });
                self.seeded(r);
            }
        }
    }

    /// One input line. Returns without output for blank lines, comments, trace lines and META.
    fn input_line(&mut self, raw: &str) {
        let mut line = raw;
        if line.is_empty() || line.starts_with('#') {
            return;
        }
        let first = line.split(' ').next().unwrap_or("");
        if TRACE_WORDS.contains(&first) {
            return;
        }
        if let Some(rest) = line.strip_prefix("EV ") {
            line = rest;
        }
        if line == "META" || line.starts_with("META ") {
            return;
        }
        self.line(&format!("EV {}", line));
        match parse_event(line) {
            Ok(ev) => self.run_event(ev),
            Err(Malformed) => self.line("OUT err malformed"),
        }
        self.end();
    }
}

fn run_mode(file: Option<&str>) -> io::Result<()> {
    std::panic::set_hook(Box::new(|_| {}));
    let stdout = io::stdout();
    let mut runner = Runner::new(BufWriter::new(stdout.lock()));
    let addr = mock_env().contract.address;
    runner.line(&format!(
        "EV META {} {} {}",
        enc_str(CRATE_NAME),
        enc_str(PACKAGE_VERSION),
        enc_str(addr.as_str())
    ));
    runner.end();
    let mut input: Box<dyn BufRead> = match file {
        Some(p) => Box::new(io::BufReader::new(std::fs::File::open(p)?)),
        None => Box::new(io::BufReader::new(io::stdin())),
    };
    let mut buf: Vec<u8> = Vec::new();
    loop {
        buf.clear();
        if input.read_until(b'\n', &mut buf)? == 0 {
            break;
        }
        if buf.last() == Some(&b'\n') {
            buf.pop();
        }
        if buf.last() == Some(&b'\r') {
            buf.pop();
        }
        let line = String::from_utf8_lossy(&buf).into_owned();
        runner.input_line(&line);
    }
    let _ = runner.out.flush();
    Ok(())
}

fn usage() -> ! {
    eprintln!("usage: atsharness run [FILE] | atsharness dec");
    std::process::exit(2);
}

fn main() {
    let args: Vec<String> = std::env::args().collect();
    match args.get(1).map(|s| s.as_str()) {
        Some("run") if args.len() <= 3 => {
            if let Err(e) = run_mode(args.get(2).map(|s| s.as_str())) {
                eprintln!("atsharness: {}", e);
                std::process::exit(1);
            }
        }
        Some("dec") if args.len() == 2 => decmode::dec_mode(),
        _ => usage(),
    }
}
