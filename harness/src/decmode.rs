// `atsharness dec`: decimal differential cases (FORMAT.md, "Decimal differential lines") evaluated
// with the real rust_decimal crate, the same build the contract links.
use crate::codec::{dec, enc_str, parse_num};
use rust_decimal::prelude::*;
use rust_decimal::{Decimal, RoundingStrategy};
use std::io::{self, BufRead, BufWriter, Write};
use std::panic::{catch_unwind, AssertUnwindSafe};

/// (mantissa < 2^96, scale 0..=28, sign 0|1) -> Decimal with exactly that representation
/// (`from_parts` normalises -0 to +0, so the sign is set afterwards).
fn mk(m: &str, s: &str, n: &str) -> Option<Decimal> {
    let m = parse_num(m).ok()?;
    let s = parse_num(s).ok()?;
    if m >> 96 != 0 || s > 28 {
        return None;
    }
    let neg = match n {
        "0" => false,
        "1" => true,
        _ => return None,
    };
    let mut d = Decimal::from_parts(m as u32, (m >> 32) as u32, (m >> 64) as u32, false, s as u32);
    if neg {
        d.set_sign_negative(true);
    }
    Some(d)
}

fn show(d: Decimal) -> String {
    format!("{} {} {}", d.mantissa().unsigned_abs(), d.scale(), if d.is_sign_negative() { 1 } else { 0 })
}

/// Results of mul/div/sub with a zero mantissa are compared by value only.
fn show_arith(d: Option<Decimal>) -> String {
    match d {
        None => "none".to_string(),
        Some(d) if d.mantissa() == 0 => "0 0 0".to_string(),
        Some(d) => show(d),
    }
}

fn eval(t: &[&str]) -> Option<String> {
    let two = |t: &[&str]| -> Option<(Decimal, Decimal)> {
        if t.len() != 7 {
            return None;
        }
        Some((mk(t[1], t[2], t[3])?, mk(t[4], t[5], t[6])?))
    };
    let one = |t: &[&str]| -> Option<Decimal> {
        if t.len() != 4 {
            return None;
        }
        mk(t[1], t[2], t[3])
    };
    Some(match *t.first()? {
        "mul" => {
            let (a, b) = two(t)?;
            show_arith(a.checked_mul(b))
        }
        "div" => {
            let (a, b) = two(t)?;
            show_arith(a.checked_div(b))
        }
        "sub" => {
            let (a, b) = two(t)?;
            show_arith(a.checked_sub(b))
        }
        "rnd" => {
            let d = one(t)?.round_dp_with_strategy(0, RoundingStrategy::MidpointAwayFromZero);
            match d.to_u128() {
                Some(u) => format!("{} {}", show(d), u),
                None => format!("{} none", show(d)),
            }
        }
        "parse" => {
            if t.len() != 2 {
                return None;
            }
            let bytes = dec(t[1]).ok()?;
            match String::from_utf8(bytes) {
                Err(_) => "err".to_string(),
                Ok(s) => match Decimal::from_str(&s) {
                    Ok(d) => show(d),
                    Err(_) => "err".to_string(),
                },
            }
        }
        "str" => enc_str(&one(t)?.to_string()),
        "cmp" => {
            let (a, b) = two(t)?;
            match a.cmp(&b) {
                std::cmp::Ordering::Less => "lt",
                std::cmp::Ordering::Equal => "eq",
                std::cmp::Ordering::Greater => "gt",
            }
            .to_string()
        }
        "fract" => show(one(t)?.fract()),
        // the two other crates the model ports: uuid (Uuid::parse_str, the contract's own is_hyphenated_uuid_str, the
        // hyphenated form) and semver (Version::parse and the four requirements the contract uses)
        "uuid" => {
            if t.len() != 2 {
                return None;
            }
            let bytes = dec(t[1]).ok()?;
            match String::from_utf8(bytes) {
                Err(_) => "0".to_string(),
                Ok(s) => match uuid::Uuid::parse_str(&s) {
                    Err(_) => "0".to_string(),
                    Ok(u) => format!(
                        "1 {} {}",
                        if ats_smart_contract::util::is_hyphenated_uuid_str(&s) { 1 } else { 0 },
                        enc_str(&u.hyphenated().to_string())
                    ),
                },
            }
        }
        "ver" => {
            if t.len() != 2 {
                return None;
            }
            let bytes = dec(t[1]).ok()?;
            match String::from_utf8(bytes) {
                Err(_) => "err".to_string(),
                Ok(s) => match semver::Version::parse(&s) {
                    Err(_) => "err".to_string(),
                    Ok(v) => {
                        let m = |r: &str| -> u8 {
                            match semver::VersionReq::parse(r) {
                                Ok(q) => u8::from(q.matches(&v)),
                                Err(_) => 9,
                            }
                        };
                        format!(
                            "{} {} {} {} {} {} {} {}",
                            v.major,
                            v.minor,
                            v.patch,
                            if v.pre.is_empty() { 0 } else { 1 },
                            m(">=0.16.2"),
                            m(">=0.15.0"),
                            m(">=0.16.2, <0.19.1"),
                            m("<0.16.2")
                        )
                    }
                },
            }
        }
        _ => return None,
    })
}

pub fn dec_mode() {
    std::panic::set_hook(Box::new(|_| {}));
    let stdin = io::stdin();
    let stdout = io::stdout();
    let mut out = BufWriter::new(stdout.lock());
    for line in stdin.lock().lines() {
        let line = match line {
            Ok(l) => l,
            Err(_) => break,
        };
        let line = line.strip_suffix('\r').unwrap_or(&line).to_string();
        if line.is_empty() || line.starts_with('#') {
            continue;
        }
        let toks: Vec<&str> = line.split(' ').collect();
        let res = match catch_unwind(AssertUnwindSafe(|| eval(&toks))) {
            Ok(Some(r)) => r,
            Ok(None) => "malformed".to_string(),
            Err(_) => "panic".to_string(),
        };
        if writeln!(out, "{} => {}", line, res).is_err() {
            return;
        }
    }
    let _ = out.flush();
}
