// Token encodings of /verif/FORMAT.md: enc()/dec(), numbers, opt, list, coin(s), and a token cursor.
use cosmwasm_std::{Coin, Uint128};

/// Marker for an input line that does not follow the format.
#[derive(Debug, Clone, Copy, PartialEq, Eq)]
pub struct Malformed;
pub type PResult<T> = Result<T, Malformed>;

pub fn enc(s: &[u8]) -> String {
    if s.is_empty() {
        return "~".to_string();
    }
    let mut out = String::with_capacity(s.len());
    for &b in s {
        if b.is_ascii_alphanumeric() || b == b'.' || b == b'_' {
            out.push(b as char);
        } else {
            out.push_str(&format!("%{:02X}", b));
        }
    }
    out
}

pub fn enc_str(s: &str) -> String {
    enc(s.as_bytes())
}

fn hexval(c: u8) -> PResult<u8> {
    match c {
        b'0'..=b'9' => Ok(c - b'0'),
        b'A'..=b'F' => Ok(c - b'A' + 10),
        _ => Err(Malformed),
    }
}

pub fn dec(t: &str) -> PResult<Vec<u8>> {
    if t == "~" {
        return Ok(vec![]);
    }
    if t.is_empty() {
        return Err(Malformed);
    }
    let b = t.as_bytes();
    let mut out = Vec::with_capacity(b.len());
    let mut i = 0;
    while i < b.len() {
        let c = b[i];
        if c.is_ascii_alphanumeric() || c == b'.' || c == b'_' {
            out.push(c);
            i += 1;
        } else if c == b'%' {
            if i + 2 >= b.len() {
                return Err(Malformed);
            }
            out.push(hexval(b[i + 1])? * 16 + hexval(b[i + 2])?);
            i += 3;
        } else {
            return Err(Malformed);
        }
    }
    Ok(out)
}

pub fn dec_str(t: &str) -> PResult<String> {
    String::from_utf8(dec(t)?).map_err(|_| Malformed)
}

/// Lower-case hex of arbitrary bytes (`MSG other`, `ASKX`, `BIDX`, `XKEY`, `QRY other`).
pub fn hex(b: &[u8]) -> String {
    if b.is_empty() {
        return "~".to_string();
    }
    let mut out = String::with_capacity(b.len() * 2);
    for x in b {
        out.push_str(&format!("{:02x}", x));
    }
    out
}

/// Canonical decimal u128: no sign, no leading zeros.
pub fn parse_num(t: &str) -> PResult<u128> {
    if t.is_empty() || !t.bytes().all(|c| c.is_ascii_digit()) || (t.len() > 1 && t.starts_with('0')) {
        return Err(Malformed);
    }
    t.parse::<u128>().map_err(|_| Malformed)
}

pub fn parse_coin(t: &str) -> PResult<Coin> {
    let (a, d) = t.split_once(':').ok_or(Malformed)?;
    Ok(Coin { denom: dec_str(d)?, amount: Uint128::new(parse_num(a)?) })
}

pub fn list_s(items: impl Iterator<Item = String>) -> String {
    let v: Vec<String> = items.collect();
    if v.is_empty() {
        "[]".to_string()
    } else {
        v.join(",")
    }
}

pub fn coin_s(c: &Coin) -> String {
    format!("{}:{}", c.amount.u128(), enc_str(&c.denom))
}

pub fn coins_s(c: &[Coin]) -> String {
    list_s(c.iter().map(coin_s))
}

pub fn optcoin_s(c: &Option<Coin>) -> String {
    match c {
        None => "-".to_string(),
        Some(c) => coin_s(c),
    }
}

/// Cursor over the single-space separated tokens of a line.
pub struct Toks<'a> {
    it: std::str::Split<'a, char>,
}

impl<'a> Toks<'a> {
    pub fn new(line: &'a str) -> Self {
        Toks { it: line.split(' ') }
    }
    pub fn next(&mut self) -> PResult<&'a str> {
        self.it.next().ok_or(Malformed)
    }
    pub fn end(&mut self) -> PResult<()> {
        match self.it.next() {
            None => Ok(()),
            Some(_) => Err(Malformed),
        }
    }
    pub fn string(&mut self) -> PResult<String> {
        dec_str(self.next()?)
    }
    pub fn bytes(&mut self) -> PResult<Vec<u8>> {
        dec(self.next()?)
    }
    pub fn uint(&mut self) -> PResult<Uint128> {
        Ok(Uint128::new(parse_num(self.next()?)?))
    }
    pub fn opt_uint(&mut self) -> PResult<Option<Uint128>> {
        match self.next()? {
            "-" => Ok(None),
            t => Ok(Some(Uint128::new(parse_num(t)?))),
        }
    }
    pub fn opt_string(&mut self) -> PResult<Option<String>> {
        match self.next()? {
            "-" => Ok(None),
            t => Ok(Some(dec_str(t)?)),
        }
    }
    fn list_of(t: &str) -> PResult<Vec<String>> {
        if t == "[]" {
            return Ok(vec![]);
        }
        t.split(',').map(dec_str).collect()
    }
    pub fn list(&mut self) -> PResult<Vec<String>> {
        Self::list_of(self.next()?)
    }
    pub fn optlist(&mut self) -> PResult<Option<Vec<String>>> {
        match self.next()? {
            "-" => Ok(None),
            t => Ok(Some(Self::list_of(t)?)),
        }
    }
    pub fn coins(&mut self) -> PResult<Vec<Coin>> {
        let t = self.next()?;
        if t == "[]" {
            return Ok(vec![]);
        }
        t.split(',').map(parse_coin).collect()
    }
    pub fn optcoin(&mut self) -> PResult<Option<Coin>> {
        match self.next()? {
            "-" => Ok(None),
            t => Ok(Some(parse_coin(t)?)),
        }
    }
}
