#!/bin/sh
# Build the harness against the contract sources in /repo (offline).
# Prints "REPOHASH <sha256>" for the contract sources that were compiled in.
set -eu
HERE="$(cd "$(dirname "$0")" && pwd)"
CACHE="$(dirname "$HERE")/.cache"
export CARGO_TARGET_DIR="$CACHE/target"
export CARGO_NET_OFFLINE=true
mkdir -p "$CACHE"

# the lock file of the contract pins every dependency that is available offline
cp /repo/Cargo.lock "$HERE/Cargo.lock"

# content hash of everything of /repo that goes into the build (paths + bytes, sorted)
HASH="$( (cd /repo && { find src -type f | LC_ALL=C sort; echo Cargo.toml; echo Cargo.lock; } \
        | while IFS= read -r f; do printf '%s\n' "$f"; sha256sum < "$f"; done) | sha256sum | cut -d' ' -f1)"
OLD=""
[ -f "$CACHE/repo.hash" ] && OLD="$(cat "$CACHE/repo.hash")"
cd "$HERE"
if [ "$HASH" != "$OLD" ]; then
    # stale-build trap: cargo may not notice changed sources with old mtimes
    cargo clean --release --offline -p ats-smart-contract >/dev/null 2>&1 || true
fi
cargo build --release --offline 1>&2
printf '%s\n' "$HASH" > "$CACHE/repo.hash"
echo "REPOHASH $HASH"
echo "BINARY $CARGO_TARGET_DIR/release/atsharness" 1>&2
