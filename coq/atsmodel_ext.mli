
val xorb : bool -> bool -> bool

val negb : bool -> bool

type nat =
| O
| S of nat

val fst : ('a1 * 'a2) -> 'a1

val snd : ('a1 * 'a2) -> 'a2

val length : 'a1 list -> nat

val app : 'a1 list -> 'a1 list -> 'a1 list

type comparison =
| Eq
| Lt
| Gt

type uint =
| Nil
| D0 of uint
| D1 of uint
| D2 of uint
| D3 of uint
| D4 of uint
| D5 of uint
| D6 of uint
| D7 of uint
| D8 of uint
| D9 of uint

val revapp : uint -> uint -> uint

val rev : uint -> uint

module Little :
 sig
  val double : uint -> uint

  val succ_double : uint -> uint
 end

val add : nat -> nat -> nat

val sub : nat -> nat -> nat

type positive =
| XI of positive
| XO of positive
| XH

type n =
| N0
| Npos of positive

val bool_dec : bool -> bool -> bool

val eqb : bool -> bool -> bool

module Pos :
 sig
  type mask =
  | IsNul
  | IsPos of positive
  | IsNeg
 end

module Coq_Pos :
 sig
  val succ : positive -> positive

  val add : positive -> positive -> positive

  val add_carry : positive -> positive -> positive

  val pred_double : positive -> positive

  type mask = Pos.mask =
  | IsNul
  | IsPos of positive
  | IsNeg

  val succ_double_mask : mask -> mask

  val double_mask : mask -> mask

  val double_pred_mask : positive -> mask

  val sub_mask : positive -> positive -> mask

  val sub_mask_carry : positive -> positive -> mask

  val mul : positive -> positive -> positive

  val iter : ('a1 -> 'a1) -> 'a1 -> positive -> 'a1

  val pow : positive -> positive -> positive

  val compare_cont : comparison -> positive -> positive -> comparison

  val compare : positive -> positive -> comparison

  val eqb : positive -> positive -> bool

  val coq_Nsucc_double : n -> n

  val coq_Ndouble : n -> n

  val coq_land : positive -> positive -> n

  val iter_op : ('a1 -> 'a1 -> 'a1) -> positive -> 'a1 -> 'a1

  val to_nat : positive -> nat

  val of_succ_nat : nat -> positive

  val to_little_uint : positive -> uint

  val to_uint : positive -> uint
 end

module N :
 sig
  val succ_double : n -> n

  val double : n -> n

  val add : n -> n -> n

  val sub : n -> n -> n

  val mul : n -> n -> n

  val compare : n -> n -> comparison

  val eqb : n -> n -> bool

  val leb : n -> n -> bool

  val ltb : n -> n -> bool

  val min : n -> n -> n

  val even : n -> bool

  val odd : n -> bool

  val pow : n -> n -> n

  val pos_div_eucl : positive -> n -> n * n

  val div_eucl : n -> n -> n * n

  val div : n -> n -> n

  val modulo : n -> n -> n

  val coq_land : n -> n -> n

  val to_nat : n -> nat

  val of_nat : nat -> n

  val to_uint : n -> uint
 end

val removelast : 'a1 list -> 'a1 list

val rev0 : 'a1 list -> 'a1 list

val map : ('a1 -> 'a2) -> 'a1 list -> 'a2 list

val fold_right : ('a2 -> 'a1 -> 'a1) -> 'a1 -> 'a2 list -> 'a1

val existsb : ('a1 -> bool) -> 'a1 list -> bool

val forallb : ('a1 -> bool) -> 'a1 list -> bool

type ascii =
| Ascii of bool * bool * bool * bool * bool * bool * bool * bool

val zero : ascii

val one : ascii

val shift : bool -> ascii -> ascii

val ascii_dec : ascii -> ascii -> bool

val eqb0 : ascii -> ascii -> bool

val ascii_of_pos : positive -> ascii

val ascii_of_N : n -> ascii

val n_of_digits : bool list -> n

val n_of_ascii : ascii -> n

val compare0 : ascii -> ascii -> comparison

type string =
| EmptyString
| String of ascii * string

val eqb1 : string -> string -> bool

val compare1 : string -> string -> comparison

val ltb0 : string -> string -> bool

val append : string -> string -> string

val length0 : string -> nat

val substring : nat -> nat -> string -> string

val prefix : string -> string -> bool

module NilEmpty :
 sig
  val string_of_uint : uint -> string
 end

type 'a res =
| Ok of 'a
| Refused of n

val bind : 'a1 res -> ('a1 -> 'a2 res) -> 'a2 res

val guard : bool -> n -> unit res

val of_opt : 'a1 option -> n -> 'a1 res

val mem : string -> string list -> bool

val subset : string list -> string list -> bool

val str_empty : string -> bool

val list_empty : 'a1 list -> bool

val string_of_N : n -> string

val show_N : n -> string

val chars : string -> ascii list

val of_chars : ascii list -> string

val code : ascii -> n

val lookup : string -> (string * 'a1) list -> 'a1 option

val remove : string -> (string * 'a1) list -> (string * 'a1) list

val insert : string -> 'a1 -> (string * 'a1) list -> (string * 'a1) list

type dec = { d_neg : bool; d_mant : n; d_scale : n }

val b96 : n

val pow10 : n -> n

val dec_zero : dec

val dec_of_N : n -> dec

val dec_from_u128 : n -> dec option

val dec_is_zero : dec -> bool

val dec_is_neg : dec -> bool

val rhe : n -> n -> n

val rhu : n -> n -> n

val least_d : nat -> n -> n -> n

val rescale : n -> n -> (n * n) option

val two32 : n

val dec_mul : dec -> dec -> dec option

val find_scale_loop : nat -> n -> n -> n

val find_scale : n -> n -> n

val unscale_step : n -> n -> n -> n -> n * n

val unscale8 : nat -> n -> n -> n * n

val unscale : n -> n -> n * n

val div_loop : nat -> n -> n -> n -> n -> (n * n) option

val dec_div_int : n -> n -> dec option

val dec_round0 : dec -> dec

val dec_to_u128 : dec -> n option

val dec_has_fract : dec -> bool

val dec_cmp : dec -> dec -> comparison

val dec_eqb : dec -> dec -> bool

val dec_ltb : dec -> dec -> bool

val dec_sub_int : dec -> dec -> dec option

val is_digit : n -> bool

val parse_round : bool -> bool -> n -> n -> n -> dec option

val parse_loop :
  bool -> bool -> n list -> bool -> bool -> n -> n -> dec option

val dec_parse : string -> dec option

val zeros : nat -> string

val dec_to_string : dec -> string

val hexval : n -> n option

val hexvals : n list -> n list option

val take_n : nat -> 'a1 list -> ('a1 list * 'a1 list) option

val hyphen : n

val parse_hyphenated : n list -> n list option

val urn_prefix : n list

val list_N_eqb : n list -> n list -> bool

val uuid_parse : string -> n list option

val hexchar : n -> ascii

val uuid_hyphenated : n list -> string

val uuid_valid : string -> bool

val uuid_canonical : string -> bool

type version = { v_major : n; v_minor : n; v_patch : n; v_has_pre : bool }

val u64MAX : n

val numeric_loop : n list -> n -> n -> (n * n list) option

val numeric_identifier : n list -> (n * n list) option

val is_alpha_hyphen : n -> bool

val is_num : n -> bool

val ident_loop :
  bool -> n list -> n -> n -> bool -> bool -> (bool * n list) option

val expect_dot : n list -> n list option

val version_parse : string -> version option

val ver_cmp : version -> n -> n -> n -> comparison

val ver_ge : version -> n -> n -> n -> bool

val ver_lt : version -> n -> n -> n -> bool

val req_ge_0_16_2 : version -> bool

val req_ge_0_15_0 : version -> bool

val req_window : version -> bool

val req_lt_0_16_2 : version -> bool

type mkind =
| MRestricted
| MOther
| MNone

type env = { e_marker : (string -> mkind); e_attrs : (string -> string list);
             e_addr_ok : (string -> bool); e_self : string;
             e_pkg_version : string; e_crate_name : string }

val is_restricted : env -> string -> bool

type coin = { c_amt : n; c_denom : string }

type aclass =
| Basic
| Pending
| Ready of string * coin

type ask = { a_id : string; a_owner : string; a_class : aclass;
             a_base : string; a_quote : string; a_price : string; a_size : 
             n }

type bid = { b_base : coin; b_acc_base : n; b_acc_quote : n; b_acc_fee : 
             n; b_fee : coin option; b_id : string; b_owner : string;
             b_price : string; b_quote : coin }

type action =
| AFill of n * n * n option
| ARefund of n * n option
| AReject of n * n * n option

type bid2 = { b2_base : coin; b2_events : action list; b2_fee : coin option;
              b2_id : string; b2_owner : string; b2_price : string;
              b2_quote : coin }

type bslot =
| SlotV3 of bid
| SlotV2 of bid2

type feeinfo = { f_account : string; f_rate : string }

type cfg = { cf_name : string; cf_bind : string; cf_base : string;
             cf_conv : string list; cf_quotes : string list;
             cf_approvers : string list; cf_executors : string list;
             cf_ask_fee : feeinfo option; cf_bid_fee : feeinfo option;
             cf_ask_attrs : string list; cf_bid_attrs : string list;
             cf_precision : n; cf_increment : n }

type state = { st_cfg : cfg option; st_ver : (string * string) option;
               st_asks : (string * ask) list; st_bids : (string * bslot) list }

val empty_state : state

type modmsg = { m_approvers : string list option;
                m_executors : string list option; m_afr : string option;
                m_afa : string option; m_bfr : string option;
                m_bfa : string option; m_aattrs : string list option;
                m_battrs : string list option }

type emsg =
| ApproveAsk of string * string * n
| CancelAsk of string
| CancelBid of string
| CreateAsk of string * string * string * string * n
| CreateBid of string * string * coin option * string * string * n * n
| ExecuteMatch of string * string * string * n
| ExpireAsk of string
| ExpireBid of string
| RejectAsk of string * n option
| RejectBid of string * n option
| ModifyContract of modmsg

type instmsg = { i_name : string; i_base : string; i_conv : string list;
                 i_quotes : string list; i_approvers : string list;
                 i_executors : string list; i_afr : string option;
                 i_afa : string option; i_bfr : string option;
                 i_bfa : string option; i_aattrs : string list;
                 i_battrs : string list; i_precision : n; i_increment : 
                 n }

type migmsg = { g_approvers : string list option; g_afr : string option;
                g_afa : string option; g_bfr : string option;
                g_bfa : string option; g_aattrs : string list option;
                g_battrs : string list option }

type qmsg =
| GetAsk of string
| GetBid of string
| GetContractInfo
| GetVersionInfo

type qres =
| QAsk of ask
| QBid of bid
| QCfg of cfg
| QVer of string * string

type msg =
| Bank of string * coin
| Xfer of string * string * coin * string

type resp = { r_msgs : msg list; r_attrs : (string * string) list }

type fixes = { fix_reject_converted : bool; fix_zero_fee_refund : bool;
               fix_exit_lot : bool; fix_conv_marker : bool;
               fix_zero_net : bool; fix_modify_funds : bool }

val all_fixes : fixes

val no_fixes : fixes

val u128MAX : n

val coin_eqb : coin -> coin -> bool

val coins_eqb : coin list -> coin list -> bool

val checked_add : n -> n -> n res

val checked_sub : n -> n -> n -> n res

val dec_of_u128 : n -> dec res

val mul_size : dec -> n -> dec res

val round_to_u128 : dec -> n res

val rate_fee : dec -> dec -> n res

val invalid_price_precision : dec -> n -> bool res

val valid_price : string -> n -> dec res

val remaining_base : bid -> n res

val remaining_quote : bid -> n res

val remaining_fee : bid -> n res

val quote_ratio : bid -> n -> dec res

val fee_for_rest : bid -> n -> n -> n res

val calculate_fee : bid -> n -> n option res

val opt_amt : n option -> n

val accumulate : bid -> n -> n -> n option -> bid res

val ev_base : action -> n

val ev_quote : action -> n

val ev_fee : action -> n

val sum_checked : n list -> n -> n res

val convert_bid : bid2 -> bid res

val q : string -> string

val coin_json : coin -> string

val class_json : aclass -> string

val coin_debug : coin -> string

val bool_str : bool -> string

val add_transfer : env -> bool -> n -> string -> string -> msg res

val pay : env -> n -> string -> string -> msg res

val pull_in : env -> n -> string -> string -> msg res

val funds_ok : bool -> coin list -> n -> string -> bool

val has_attrs : env -> string list -> string -> bool

val get_cfg : state -> cfg res

val load_ask : state -> string -> ask res

val load_bid : state -> string -> bid res

val set_asks : state -> (string * ask) list -> state

val set_bids : state -> (string * bslot) list -> state

val set_cfg : state -> cfg -> state

val opt_pair_ok : string option -> string option -> bool

val opt_size_ok : n option -> bool

val opt_nonempty : string list option -> bool

val validate_exec : emsg -> bool

val validate_inst : instmsg -> bool

val validate_mig : migmsg -> bool

val validate_query : qmsg -> bool

val addrs_ok : env -> string list -> bool

val fee_pair :
  env -> feeinfo option -> string option -> string option -> feeinfo option
  res

val instantiate : env -> state -> instmsg -> (state * resp) res

val approve_ask :
  env -> state -> string -> coin list -> string -> string -> n ->
  (state * resp) res

val create_ask :
  env -> state -> string -> coin list -> string -> string -> string -> string
  -> n -> (state * resp) res

val create_bid :
  env -> state -> string -> coin list -> string -> string -> coin option ->
  string -> string -> n -> n -> (state * resp) res

val cancel_ask :
  env -> state -> string -> coin list -> string -> (state * resp) res

val lot_ok : fixes -> cfg -> n option -> n -> bool

val reverse_ask :
  fixes -> env -> state -> string -> coin list -> string -> string -> n
  option -> (state * resp) res

val reverse_bid :
  fixes -> env -> state -> string -> coin list -> string -> string -> bool ->
  n option -> (state * resp) res

val price_rule : dec -> dec -> dec -> bool

val skip_zero : fixes -> n -> bool

val execute_match :
  fixes -> env -> state -> string -> coin list -> string -> string -> string
  -> n -> (state * resp) res

val check_attrs_frozen : bool -> string list option -> bool

val check_fee_rate :
  bool -> feeinfo option -> string option -> string option -> bool

val modify_version_ok : state -> bool

val opt_list : string list -> string list option -> string list

val opt_addrs_ok : env -> string list option -> bool

val modify_contract :
  fixes -> env -> state -> string -> coin list -> modmsg -> (state * resp) res

val execute :
  fixes -> env -> state -> string -> coin list -> emsg -> (state * resp) res

val stored_version : state -> version res

val convert_slots : bool -> (string * bslot) list -> (string * bslot) list res

val migrate : env -> state -> migmsg -> (state * resp) res

val query : state -> qmsg -> qres res

val unfilled : bid -> n

val unspent : bid -> n

val held : bid -> n

val price_b : string -> bool

val coin_eqb0 : coin -> coin -> bool

val is_basic : aclass -> bool

val ask_b : cfg -> string -> ask -> bool

val fee_b : bid -> bool

val hdr_b : cfg -> string -> bid -> bool

val pricepart_b : cfg -> bid -> bool

val bid_b : cfg -> string -> bid -> bool

val nodup_b : string list -> bool

val cfg_b : cfg -> bool

val ver_b : state -> bool

val inv_check : state -> bool

val split_aux : ascii -> string -> ascii list -> string list

val split : ascii -> string -> string list

val hexdigit : n -> ascii

val plain : n -> bool

val enc_chars : string -> string

val enc : string -> string

val dec_chars : string -> string option

val dstr : string -> string option

val num_loop : string -> n -> n option

val dnum : string -> n option

val dopt : (string -> 'a1 option) -> string -> 'a1 option option

val mapM : ('a1 -> 'a2 option) -> 'a1 list -> 'a2 list option

val dlist : (string -> 'a1 option) -> string -> 'a1 list option

val dcoin : string -> coin option

val dclass : string -> aclass option

val dfeeinfo : string -> feeinfo option option

val doptamt : string -> n option option

val daction : string -> action option

val devents : string -> action list option

val join : string -> string list -> string

val plist : ('a1 -> string) -> 'a1 list -> string

val popt : ('a1 -> string) -> 'a1 option -> string

val pcoin : coin -> string

val pclass : aclass -> string

val pfee : feeinfo option -> string

val words : string list -> string

val pask_fields : ask -> string list

val pbid_fields : bid -> string list

val paction : action -> string

val pbid2_fields : bid2 -> string list

val pcfg_fields : cfg -> string list

val ins_sorted : (string * 'a1) -> (string * 'a1) list -> (string * 'a1) list

val sort_keys : (string * 'a1) list -> (string * 'a1) list

val dump : state -> string list

val pmsg : msg -> string

val pattr : (string * string) -> string

val presp : resp -> string list

val pqres : qres -> string

type follow = { fo_on : bool; fo_adopt : bool; fo_seen : bool; fo_acc : state }

type rstate = { rs_st : state; rs_markers : (string * mkind) list;
                rs_attrs : (string * string list) list; rs_crate : string;
                rs_version : string; rs_self : string; rs_fix : fixes;
                rs_follow : follow }

val mkrs :
  state -> (string * mkind) list -> (string * string list) list -> string ->
  string -> string -> fixes -> rstate

val no_upper : string -> bool

val mock_addr_ok : string -> bool

val env_of : rstate -> env

val init_rstate : fixes -> bool -> rstate

val with_st : rstate -> state -> rstate

val with_follow : rstate -> follow -> rstate

val dmarker : string -> (string * mkind) option

val dattr : string -> (string * string list) option

val dexec : string -> string list -> emsg option

val dinst : string list -> instmsg option

val dmig : string list -> migmsg option

val dcfg : string list -> cfg option

val dask : string list -> ask option

val dbid3 : string list -> bid option

val dbid2 : string list -> bid2 option

val malformed : string -> string list

val block : string -> string list -> string list

val err_line : n -> string

val finish :
  rstate -> string -> bool -> (state * resp) res -> rstate * string list

val strip_ev : string -> string

val is_trace_kw : string -> bool

val step_line : rstate -> string -> rstate * string list

val adoptable : string -> bool

val run_line : rstate -> string -> rstate * string list

val pdec : dec -> string

val pdecv : dec -> string

val ddec : string -> string -> string -> dec option

val dec_case : string -> string
