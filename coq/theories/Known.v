(* Known: the four recorded numeric classes (known_findings.json), each with its witness evaluated on the model.  On these
   inputs the property text is FALSE of the code; the theorems of Props/ exclude the classes by name, and the examples
   below show that the exclusions are needed (the same histories are corpus/known/*.hist, replayed on the implementation
   by every run). *)
From ATS Require Import Prelude Dec DecFacts Uuid Semver Types Contract Tactics Spec Inv InvAsk InstProofs AskProofs
  BidFacts InvBid InvStep.

Definition k_env : env := mkenv (fun _ => MNone) (fun _ => []) (fun s => negb (str_empty s)) "self" "1.0.0" "ats_smart_contract".
Definition kA : string := "a0000000-0000-4000-8000-000000000001".
Definition kB : string := "b0000000-0000-4000-8000-000000000001".
Definition kB2 : string := "b0000000-0000-4000-8000-000000000002".
Definition k_start (m : instmsg) : state := match instantiate k_env empty_state m with Ok (st, _) => st | Refused _ => empty_state end.
Definition k_ok (st : state) (sender : string) (funds : list coin) (m : emsg) : bool := is_ok (execute FX k_env st sender funds m).
Definition k_ev (sender : string) (funds : list coin) (m : emsg) : event := mkev k_env sender funds m.

(* ---- K_capacity (C07, converse): an amount of 2^96 or more cannot be admitted, whatever else holds *)
Definition k_cap_inst : instmsg := mkinst "ats" "base" ["cv"] ["q"] ["appr"] ["exec"] None None None None [] [] 0 1.
Example k_capacity_witness :
  let st := k_start k_cap_inst in
  st_cfg st <> None /\
  k_ok st "buyer" [mkcoin 79228162514264337593543950336 "q"]
       (CreateBid kB "base" None "1" "q" 79228162514264337593543950336 79228162514264337593543950336) = false /\
  k_ok st "buyer" [mkcoin 79228162514264337593543950335 "q"]
       (CreateBid kB2 "base" None "1" "q" 79228162514264337593543950335 79228162514264337593543950335) = true.
Proof. vm_compute. repeat split; try reflexivity. discriminate. Qed.

(* ---- K_rate (C09): rate * total formed in 96 bits, rounded twice *)
Definition k_rate_inst : instmsg :=
  mkinst "ats" "base" ["cv"] ["q"] ["appr"] ["exec"] None None (Some "0.0954045954045954045954045954") (Some "feeb") [] [] 0 1.
Example k_rate_witness :
  let st := k_start k_rate_inst in
  (* the contract demands a fee of 96 and refuses 95 ... *)
  k_ok st "buyer" [mkcoin 1097 "q"] (CreateBid kB "base" (Some (mkcoin 96 "q")) "1" "q" 1001 1001) = true /\
  k_ok st "buyer" [mkcoin 1096 "q"] (CreateBid kB "base" (Some (mkcoin 95 "q")) "1" "q" 1001 1001) = false /\
  (* ... while rate * total = 95.4999999999999999999999999954 lies below 95 1/2: half away from zero gives 95 *)
  2 * (954045954045954045954045954 * 1001) < (2 * 95 + 1) * 10 ^ 28 /\
  (2 * 95 - 1) * 10 ^ 28 <= 2 * (954045954045954045954045954 * 1001).
Proof. vm_compute. repeat split; try reflexivity; discriminate. Qed.

(* ---- K_prorata (C09): the share of the fee kept for the unspent quote, formed in 28-digit decimals *)
Definition k_prorata_inst : instmsg :=
  mkinst "ats" "base" ["cv"] ["q"] ["appr"] ["exec"] None None (Some "0.0100000000000186299999") (Some "feeb") [] [] 0 1.
Definition k_prorata_hist : list event :=
  [k_ev "buyer" [mkcoin 1010000000000056 "q"] (CreateBid kB "base" (Some (mkcoin 10000000000019 "q")) "1" "q" 1000000000000037 1000000000000037);
   k_ev "exec" [] (RejectBid kB (Some 25228126677403))].
Example k_prorata_witness :
  match lookup kB (st_bids (run (k_start k_prorata_inst) k_prorata_hist)) with
  | Some (SlotV3 b) => (c_amt (b_quote b), unspent b, held b)
  | _ => (0, 0, 0)
  end = (1000000000000037, 974771873322634, 9747718733245) /\
  (* the exact share fee * unspent / quote lies strictly below 9747718733244 1/2: the nearest unit is ...244, the bid holds ...245 *)
  2 * (10000000000019 * 974771873322634) < (2 * 9747718733244 + 1) * 1000000000000037 /\
  20 * 1000000000000037 * 10000000000019 > 10 ^ 28.
Proof. vm_compute. repeat split; try reflexivity; discriminate. Qed.

(* ---- K_inexact (C03): "price * size is a whole number" judged on the 96-bit-rounded product *)
Definition k_inexact_inst : instmsg :=
  mkinst "ats" "base" ["cv"] ["q"] ["appr"] ["exec"] None None None None [] [] 18 1000000000000000000.
Definition k_inexact_book : list event :=
  [k_ev "seller" [mkcoin 2000000000000000000 "base"] (CreateAsk kA "base" "q" "0.999999999999999999" 2000000000000000000);
   k_ev "buyer" [mkcoin 1999999999999999998 "q"]
        (CreateBid kB "base" None "0.999999999999999999" "q" 1999999999999999998 2000000000000000000)].
Example k_inexact_witness :
  let st := run (k_start k_inexact_inst) k_inexact_book in
  (* both orders are on the book, the match is accepted ... *)
  k_ok st "exec" [] (ExecuteMatch kA kB "0.999999999999999999" 1000000000000000001) = true /\
  (* ... although price * size = 999999999999999999 * (10^18 + 1) / 10^18 is not a whole number *)
  (999999999999999999 * 1000000000000000001) mod 10 ^ 18 <> 0 /\
  (* and the side condition of the theorems fails here, as it must: mantissa * size >= 2^96 *)
  2 ^ 96 <= 999999999999999999 * 1000000000000000001.
Proof. vm_compute. repeat split; try reflexivity; discriminate. Qed.

(* ---- the witnesses lie in reachable states: the invariant holds where the property text fails *)
Lemma k_env_ok : env_version_ok k_env.
Proof.
  unfold env_version_ok. destruct (version_parse (e_pkg_version k_env)) as [v|] eqn:E; [|vm_compute in E; discriminate].
  exists v. split; [reflexivity|]. vm_compute in E. injection E as <-. vm_compute. reflexivity.
Qed.
Lemma k_reach m evs : is_ok (instantiate k_env empty_state m) = true -> clean_run (k_start m) evs -> Inv (run (k_start m) evs).
Proof.
  intros Hok Hc. unfold k_start in *. destruct (instantiate k_env empty_state m) as [[st0 r0]|] eqn:E; [|discriminate].
  exact (Inv_reachable k_env m st0 r0 evs k_env_ok E Hc).
Qed.
Lemma k_inexact_inv : Inv (run (k_start k_inexact_inst) k_inexact_book).
Proof. apply k_reach; [vm_compute; reflexivity|]. cbn [clean_run k_inexact_book k_ev ev_msg clean_exec]. auto. Qed.
Lemma k_prorata_inv : Inv (run (k_start k_prorata_inst) k_prorata_hist).
Proof. apply k_reach; [vm_compute; reflexivity|]. cbn [clean_run k_prorata_hist k_ev ev_msg clean_exec]. auto. Qed.
Lemma k_start_inv m : is_ok (instantiate k_env empty_state m) = true -> Inv (k_start m).
Proof. intros H. exact (k_reach m [] H I). Qed.
