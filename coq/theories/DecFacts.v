(* DecFacts: value-level facts about the decimal model (Dec.v) used by the bookkeeping proofs. *)
From ATS Require Import Prelude Dec.
Ltac Zify.zify_post_hook ::= Z.div_mod_to_equations.

Lemma B96_pow : B96 = 2 ^ 96. Proof. reflexivity. Qed.
Lemma pow10_nz d : 10 ^ d <> 0. Proof. apply N.pow_nonzero. discriminate. Qed.
Lemma pow10_pos d : 0 < 10 ^ d. Proof. pose proof (pow10_nz d). lia. Qed.

Lemma rhe_exact v p : p <> 0 -> v mod p = 0 -> rhe v p = v / p.
Proof.
  intros Hp Hr. unfold rhe. cbv zeta. rewrite Hr. replace (2 * 0) with 0 by lia.
  destruct (N.ltb_spec p 0); [lia|]. destruct (N.eqb_spec 0 p); [lia|]. reflexivity.
Qed.
Lemma rhu_exact v p : p <> 0 -> v mod p = 0 -> rhu v p = v / p.
Proof.
  intros Hp Hr. unfold rhu. cbv zeta. rewrite Hr. replace (2 * 0) with 0 by lia.
  destruct (N.leb_spec p 0); [lia|]. reflexivity.
Qed.

Lemma least_d_le fuel : forall v d dd, d <= dd -> v / pow10 dd < B96 -> least_d fuel v d <= dd.
Proof.
  induction fuel as [|f IH]; intros v d dd Hle Hfit; cbn [least_d]; [exact Hle|].
  destruct (N.ltb_spec (v / pow10 d) B96) as [_|Hbig]; [exact Hle|].
  apply IH; [|exact Hfit]. assert (d <> dd) by (intro; subst; lia). lia.
Qed.
Lemma least_d_ge fuel : forall v d, d <= least_d fuel v d.
Proof.
  induction fuel as [|f IH]; intros v d; cbn [least_d]; [lia|].
  destruct (N.ltb_spec (v / pow10 d) B96); [lia|]. specialize (IH v (d + 1)). lia.
Qed.
Lemma least_d_fits fuel : forall v d dd, d <= dd -> dd < d + N.of_nat fuel -> v / pow10 dd < B96 ->
  v / pow10 (least_d fuel v d) < B96.
Proof.
  induction fuel as [|f IH]; intros v d dd Hle Hf Hfit; cbn [least_d].
  - lia.
  - destruct (N.ltb_spec (v / pow10 d) B96) as [Hok|Hbig]; [exact Hok|].
    assert (d <> dd) by (intro; subst; lia). apply (IH v (d + 1) dd); lia.
Qed.

(* if v = m * 10^k with m < 2^96, k <= s, s - k <= 28 then rescale keeps the exact value *)
Lemma rescale_exact v s m k :
  v = m * 10 ^ k -> m < B96 -> k <= s -> s - k <= 28 -> k < 64 ->
  exists m' s', rescale v s = Some (m', s') /\ s' <= s /\ m' * 10 ^ (s - s') = v /\ m' < B96.
Proof.
  intros Hv Hm Hk Hs Hk60. unfold rescale.
  assert (Hd0 : s - 28 <= k) by lia.
  assert (Hfitk : v / pow10 k < B96).
  { unfold pow10. rewrite Hv, N.div_mul by apply pow10_nz. exact Hm. }
  pose proof (least_d_le 64 v (s - 28) k Hd0 Hfitk) as Hle.
  pose proof (least_d_ge 64 v (s - 28)) as Hge.
  assert (Hfit : v / pow10 (least_d 64 v (s - 28)) < B96).
  { apply (least_d_fits 64 v (s - 28) k); try assumption. cbn. lia. }
  set (d := least_d 64 v (s - 28)) in *. cbv zeta.
  destruct (N.ltb_spec s d); [lia|].
  destruct (N.eqb_spec d 0) as [Hz|Hnz].
  - exists v, s. repeat split; try lia.
    + rewrite N.sub_diag. cbn. lia.
    + rewrite Hz in Hfit. unfold pow10 in Hfit. cbn in Hfit. rewrite N.div_1_r in Hfit. exact Hfit.
  - assert (Hsplit : v = (m * 10 ^ (k - d)) * 10 ^ d).
    { rewrite Hv. rewrite <- N.mul_assoc, <- N.pow_add_r. f_equal. f_equal. lia. }
    assert (Hdiv : v mod pow10 d = 0).
    { unfold pow10. rewrite Hsplit. apply N.mod_mul. apply pow10_nz. }
    assert (Hq : v / pow10 d = m * 10 ^ (k - d)).
    { unfold pow10. rewrite Hsplit at 1. apply N.div_mul. apply pow10_nz. }
    rewrite (rhe_exact v (pow10 d) (pow10_nz d) Hdiv).
    destruct (N.ltb_spec (v / pow10 d) B96); [|lia].
    exists (v / pow10 d), (s - d). repeat split; try lia.
    replace (s - (s - d)) with d by lia. rewrite Hq. symmetry. exact Hsplit.
Qed.

(* ---- integer-valued products: price (m / 10^s) times a whole number n giving the whole number q ---- *)
Definition dec_int_value (r : dec) (q : N) : Prop :=
  dec_has_fract r = false /\ d_mant r / pow10 (d_scale r) = q /\ d_mant r = q * pow10 (d_scale r).

Lemma dec_mul_int a n q :
  d_scale a <= 28 -> n < B96 -> q < B96 ->
  d_mant a * n = q * 10 ^ d_scale a ->
  exists r, dec_mul a (dec_of_N n) = Some r /\ dec_int_value r q /\ (d_neg a = false -> d_neg r = false).
Proof.
  intros Hs Hn Hq Hprod. unfold dec_mul, dec_of_N. cbn [d_mant d_scale d_neg].
  rewrite N.add_0_r. rewrite xorb_false_r.
  destruct (N.eqb_spec (d_mant a) 0) as [Hz|Hnz]; cbn [orb].
  { exists dec_zero. assert (q = 0). { rewrite Hz in Hprod. pose proof (pow10_pos (d_scale a)). nia. }
    subst q. split; [reflexivity|]. split; [|reflexivity]. unfold dec_int_value. cbn. auto. }
  destruct (N.eqb_spec n 0) as [Hz|Hnz2].
  { exists dec_zero. assert (q = 0). { rewrite Hz in Hprod. pose proof (pow10_pos (d_scale a)). nia. }
    subst q. split; [reflexivity|]. split; [|reflexivity]. unfold dec_int_value. cbn. auto. }
  destruct ((d_mant a <? two32) && (n <? two32)).
  - destruct (N.ltb_spec 28 (d_scale a)); [lia|].
    eexists. split; [reflexivity|]. split; [|auto]. unfold dec_int_value, dec_has_fract, pow10. cbn [d_mant d_scale].
    rewrite Hprod. rewrite N.mod_mul, N.div_mul by apply pow10_nz. auto.
  - destruct (rescale_exact (d_mant a * n) (d_scale a) q (d_scale a)) as (m' & s' & Hr & Hle & Hval & Hm');
      try lia; try exact Hprod.
    rewrite Hr. eexists. split; [reflexivity|]. split; [|auto].
    unfold dec_int_value, dec_has_fract, pow10. cbn [d_mant d_scale].
    assert (Hm : m' = q * 10 ^ s').
    { rewrite Hprod in Hval. replace (d_scale a) with (s' + (d_scale a - s')) in Hval at 2 by lia.
      rewrite N.pow_add_r, N.mul_assoc in Hval. apply N.mul_cancel_r in Hval; [exact Hval|apply pow10_nz]. }
    rewrite Hm. rewrite N.mod_mul, N.div_mul by apply pow10_nz. auto.
Qed.

(* conversely: an exact, fraction-free product is the integer it denotes *)
Lemma dec_int_value_exact a n r q :
  mul_is_exact a (dec_of_N n) r = true -> dec_int_value r q -> d_mant a * n = q * 10 ^ d_scale a.
Proof.
  unfold mul_is_exact, dec_int_value, dec_of_N, pow10. cbn [d_mant d_scale]. rewrite N.add_0_r.
  intros He (_ & _ & Hm). apply N.eqb_eq in He. rewrite Hm in He.
  assert (H : q * 10 ^ d_scale a * 10 ^ d_scale r = d_mant a * n * 10 ^ d_scale r) by lia.
  apply N.mul_cancel_r in H; [lia|apply pow10_nz].
Qed.

Lemma no_fract_int_value r : dec_has_fract r = false -> dec_int_value r (d_mant r / pow10 (d_scale r)).
Proof.
  unfold dec_int_value, dec_has_fract. intros H. apply negb_false_iff in H. apply N.eqb_eq in H.
  split; [apply negb_false_iff; apply N.eqb_eq; exact H|]. split; [reflexivity|].
  pose proof (N.div_mod (d_mant r) (pow10 (d_scale r)) (pow10_nz _)). lia.
Qed.
Lemma to_u128_value r q : dec_to_u128 r = Some q -> q = d_mant r / pow10 (d_scale r) /\ d_neg r = false.
Proof. unfold dec_to_u128. destruct (d_neg r); [discriminate|]. intros H. injection H as <-. auto. Qed.

(* ---- parser bounds: every parsed decimal has scale <= 28 and mantissa < 2^96 ---- *)
Definition dec_wf (d : dec) : Prop := d_scale d <= 28 /\ d_mant d < B96.

Lemma parse_round_wf neg point data nxt scale d :
  scale <= 28 -> data < B96 -> parse_round neg point data nxt scale = Some d -> dec_wf d.
Proof.
  unfold parse_round, dec_wf. intros Hs Hd.
  destruct (if is_digit nxt then Some (nxt - 48) else if nxt =? 95 then Some 0
            else if (nxt =? 46) && point then Some 0 else None) as [dg|]; [|discriminate].
  destruct (5 <=? dg).
  - destruct (N.leb_spec B96 (data + 1)).
    + destruct (scale =? 0) eqn:E; [discriminate|]. intros Hx. injection Hx as <-. cbn. apply N.eqb_neq in E.
      split; [lia|]. assert (data + 1 = B96) by lia. unfold B96 in *. lia.
    + intros Hx. injection Hx as <-. cbn. lia.
  - intros Hx. injection Hx as <-. cbn. lia.
Qed.

Lemma parse_loop_wf big neg l : forall has point data scale d,
  scale <= 28 -> data < B96 -> (point = false -> scale = 0) ->
  (big = true -> point = true -> l <> [] -> scale <= 27) ->
  (big = false -> scale + N.of_nat (List.length l) <= 28) ->
  parse_loop big neg l has point data scale = Some d -> dec_wf d.
Proof.
  induction l as [|c rest IH]; intros has point data scale d Hs Hd Hp0 Hbig Hsmall; cbn [parse_loop].
  - destruct has; [|discriminate]. intros H. injection H as <-. split; cbn; assumption.
  - destruct (is_digit c).
    + destruct (N.leb_spec B96 (data * 10 + (c - 48))) as [Hov|Hfit].
      * destruct point; [|discriminate]. apply parse_round_wf; assumption.
      * set (scale' := if point then scale + 1 else scale).
        assert (Hs' : scale' <= 28).
        { unfold scale'. destruct point; [|exact Hs]. destruct big.
          - specialize (Hbig eq_refl eq_refl). assert (c :: rest <> []) by discriminate. specialize (Hbig H). lia.
          - specialize (Hsmall eq_refl). cbn [List.length] in Hsmall. lia. }
        destruct rest as [|nxt rest'].
        -- apply IH; [exact Hs'|exact Hfit| | |].
           ++ intros Hpf. unfold scale'. rewrite Hpf. auto.
           ++ intros _ _ Hne. congruence.
           ++ intros Hb. specialize (Hsmall Hb). cbn [List.length] in *. unfold scale'. destruct point; lia.
        -- destruct (point && big && (28 <=? scale')) eqn:Ec.
           ++ apply parse_round_wf; assumption.
           ++ apply IH; [exact Hs'|exact Hfit| | |].
              ** intros Hpf. unfold scale'. rewrite Hpf. auto.
              ** intros Hb Hpt _. rewrite Hb, Hpt in Ec. cbn in Ec. apply N.leb_gt in Ec. lia.
              ** intros Hb. specialize (Hsmall Hb). cbn [List.length] in *. unfold scale'. destruct point; lia.
    + destruct ((c =? 46) && negb point) eqn:Edot.
      * apply andb_prop in Edot as [_ Hnp]. apply negb_true_iff in Hnp. subst point.
        apply IH; [exact Hs|exact Hd| | |].
        -- discriminate.
        -- intros Hb _ Hne. rewrite (Hp0 eq_refl). lia.
        -- intros Hb. specialize (Hsmall Hb). cbn [List.length] in Hsmall. lia.
      * destruct ((c =? 95) && has); [|discriminate].
        apply IH; [exact Hs|exact Hd|exact Hp0| |].
        -- intros Hb Hpt Hne. apply Hbig; auto. discriminate.
        -- intros Hb. specialize (Hsmall Hb). cbn [List.length] in Hsmall. lia.
Qed.

Lemma dec_parse_wf s d : dec_parse s = Some d -> dec_wf d.
Proof.
  unfold dec_parse. set (l := map code (chars s)).
  destruct l as [|c rest] eqn:El; [discriminate|].
  set (big := 18 <=? N.of_nat (List.length (c :: rest))).
  assert (Hsm : forall l' : list N, (List.length l' <= List.length (c :: rest))%nat -> big = false ->
                0 + N.of_nat (List.length l') <= 28).
  { intros l' Hl Hb. unfold big in Hb. apply N.leb_gt in Hb. lia. }
  assert (HB : 0 < B96) by (unfold B96; lia).
  destruct (c =? 45); [|destruct (c =? 43)]; intros H; eapply parse_loop_wf in H; eauto; try lia;
    try (intros _ Hpt; discriminate); try (intros Hb; apply Hsm; [cbn [List.length]; lia|exact Hb]).
Qed.

(* ---- products of non-zero operands are non-zero ---- *)
Lemma least_d_minimal fuel : forall v d0 d', d0 <= d' -> d' < least_d fuel v d0 -> B96 <= v / pow10 d'.
Proof.
  induction fuel as [|f IH]; intros v d0 d' Hle Hlt; cbn [least_d] in Hlt; [lia|].
  destruct (N.ltb_spec (v / pow10 d0) B96) as [Hok|Hbig]; [lia|].
  destruct (N.eq_dec d' d0) as [->|Hne]; [exact Hbig|]. apply (IH v (d0 + 1) d'); lia.
Qed.
Lemma rhe_ge v p : p <> 0 -> v / p <= rhe v p.
Proof. intros Hp. unfold rhe. cbv zeta. destruct (_ || _); lia. Qed.

Lemma rescale_nz v s m' s' : v <> 0 -> s <= 28 -> rescale v s = Some (m', s') -> m' <> 0.
Proof.
  intros Hv Hs. unfold rescale. replace (s - 28) with 0 by lia. set (d := least_d 64 v 0). cbv zeta.
  destruct (s <? d); [discriminate|].
  destruct (N.eqb_spec d 0) as [Hz|Hnz]; [intros H; injection H as <- <-; exact Hv|].
  assert (Hbig : 1 <= v / pow10 d).
  { assert (Hm : B96 <= v / pow10 (d - 1)) by (apply (least_d_minimal 64 v 0); unfold d in *; lia).
    unfold pow10 in *. replace d with ((d - 1) + 1) at 1 by lia. rewrite N.pow_add_r, <- N.div_div by (try apply pow10_nz; discriminate).
    change (10 ^ 1) with 10. unfold B96 in Hm.
    assert (H10 : 10 <= v / 10 ^ (d - 1)) by lia. apply N.div_le_lower_bound; lia. }
  pose proof (rhe_ge v (pow10 d) (pow10_nz d)) as Hge.
  destruct (N.ltb_spec (rhe v (pow10 d)) B96) as [Hfit|Hov].
  - intros Hx. injection Hx as <- <-. lia.
  - destruct (s - d =? 0); [discriminate|]. intros Hx. injection Hx as <- <-.
    pose proof (rhe_ge (rhe v (pow10 d)) 10) as Hr. unfold B96 in Hov.
    assert (H1 : 1 <= rhe v (pow10 d) / 10) by (apply N.div_le_lower_bound; lia). lia.
Qed.

Lemma dec_mul_nz a n r :
  d_scale a <= 28 -> d_mant a <> 0 -> n <> 0 -> dec_mul a (dec_of_N n) = Some r -> d_mant r <> 0.
Proof.
  intros Hs Ha Hn. unfold dec_mul, dec_of_N. cbn [d_mant d_scale d_neg]. rewrite N.add_0_r.
  destruct (N.eqb_spec (d_mant a) 0); [contradiction|]. destruct (N.eqb_spec n 0); [contradiction|]. cbn [orb].
  destruct ((d_mant a <? two32) && (n <? two32)).
  - destruct (N.ltb_spec 28 (d_scale a)) as [Hgt|Hle]; [lia|]. intros Hx. injection Hx as <-. cbn. nia.
  - destruct (rescale (d_mant a * n) (d_scale a)) as [[m' s']|] eqn:E; [|discriminate].
    intros Hx. injection Hx as <-. cbn. eapply rescale_nz; [| |exact E]; [nia|exact Hs].
Qed.

Lemma int_value_pos r q : dec_int_value r q -> d_mant r <> 0 -> 1 <= q.
Proof. intros (_ & _ & Hm) Hnz. destruct (N.eq_dec q 0) as [->|]; [rewrite N.mul_0_l in Hm; contradiction|lia]. Qed.

(* ---- well-formedness (scale <= 28, mantissa < 2^96) of products ---- *)
Lemma least_d_stop fuel : forall v d0, least_d fuel v d0 < d0 + N.of_nat fuel -> v / pow10 (least_d fuel v d0) < B96.
Proof.
  induction fuel as [|f IH]; intros v d0 Hlt; cbn [least_d] in *; [lia|].
  destruct (N.ltb_spec (v / pow10 d0) B96) as [Hok|Hbig]; [exact Hok|]. apply IH. lia.
Qed.
Lemma rhe_le v p : p <> 0 -> rhe v p <= v / p + 1.
Proof. intros Hp. unfold rhe. cbv zeta. destruct (_ || _); generalize (v / p); intros q; lia. Qed.
Lemma rhu_le v p : p <> 0 -> rhu v p <= v / p + 1.
Proof. intros Hp. unfold rhu. cbv zeta. destruct (_ <=? _); generalize (v / p); intros q; lia. Qed.

Lemma rescale_wf v s m' s' : s <= 56 -> rescale v s = Some (m', s') -> s' <= 28 /\ m' < B96.
Proof.
  intros Hs. unfold rescale. set (d := least_d 64 v (s - 28)). cbv zeta.
  pose proof (least_d_ge 64 v (s - 28)) as Hge. fold d in Hge.
  destruct (N.ltb_spec s d) as [Hgt|Hle]; [discriminate|].
  assert (Hfit : v / pow10 d < B96). { apply least_d_stop. fold d. change (N.of_nat 64) with 64. lia. }
  destruct (N.eqb_spec d 0) as [Hz|Hnz].
  - intros H. injection H as <- <-. rewrite Hz in Hfit. unfold pow10 in Hfit. cbn in Hfit. rewrite N.div_1_r in Hfit.
    split; [lia|exact Hfit].
  - pose proof (rhe_le v (pow10 d) (pow10_nz d)) as Hr.
    destruct (N.ltb_spec (rhe v (pow10 d)) B96) as [Hlt|Hov].
    + intros H. injection H as <- <-. split; [lia|exact Hlt].
    + destruct (s - d =? 0) eqn:E; [discriminate|]. intros H. injection H as <- <-. apply N.eqb_neq in E.
      split; [lia|]. pose proof (rhe_le (rhe v (pow10 d)) 10) as Hr2.
      assert (Hd : rhe v (pow10 d) / 10 <= B96 / 10) by (apply N.div_le_mono; [discriminate|lia]).
      assert (Hc : B96 / 10 = 7922816251426433759354395033) by reflexivity. rewrite Hc in Hd.
      unfold B96. assert (10 <> 0) by discriminate. specialize (Hr2 H). lia.
Qed.

Lemma dec_mul_wf a b r : dec_wf a -> dec_wf b -> dec_mul a b = Some r -> dec_wf r.
Proof.
  intros [Hsa Hma] [Hsb Hmb]. unfold dec_mul, dec_wf.
  destruct ((d_mant a =? 0) || (d_mant b =? 0)); [intros Hx; injection Hx as <-; cbn; unfold B96; lia|].
  destruct ((d_mant a <? two32) && (d_mant b <? two32)) eqn:Esm.
  - apply andb_prop in Esm as [E1 E2]. apply N.ltb_lt in E1, E2. unfold two32 in *.
    assert (Hv : d_mant a * d_mant b < 18446744073709551616) by nia.
    destruct (N.ltb_spec 28 (d_scale a + d_scale b)) as [Hgt|Hle].
    + destruct (47 <? d_scale a + d_scale b); intros Hx; injection Hx as <-; cbn; [unfold B96; lia|].
      pose proof (rhe_le (d_mant a * d_mant b) (pow10 (d_scale a + d_scale b - 28)) (pow10_nz _)).
      assert (d_mant a * d_mant b / pow10 (d_scale a + d_scale b - 28) <= d_mant a * d_mant b).
      { apply N.div_le_upper_bound; [apply pow10_nz|]. pose proof (pow10_pos (d_scale a + d_scale b - 28)). unfold pow10. nia. }
      unfold B96. lia.
    + intros Hx. injection Hx as <-. cbn. unfold B96. lia.
  - destruct (rescale (d_mant a * d_mant b) (d_scale a + d_scale b)) as [[m' s']|] eqn:E; [|discriminate].
    intros Hx. injection Hx as <-. cbn. eapply rescale_wf; [|exact E]. lia.
Qed.
Lemma dec_of_N_wf n : n < B96 -> dec_wf (dec_of_N n).
Proof. intros H. split; cbn; [lia|exact H]. Qed.
Lemma dec_from_u128_ok n d : dec_from_u128 n = Some d -> n < B96 /\ d = dec_of_N n.
Proof. unfold dec_from_u128. destruct (N.ltb_spec n B96) as [Hlt|Hge]; [|discriminate]. intros Hx. injection Hx as <-. auto. Qed.

Lemma round_to_u128_lt a q : dec_wf a -> dec_to_u128 (dec_round0 a) = Some q -> q < B96.
Proof.
  intros [Hs Hm]. unfold dec_round0, dec_to_u128.
  destruct (N.eqb_spec (d_scale a) 0) as [Hz|Hnz].
  - destruct (d_neg a); [discriminate|]. intros Hx. injection Hx as <-. rewrite Hz. unfold pow10. cbn. rewrite N.div_1_r. exact Hm.
  - destruct (d_mant a =? 0).
    + cbn. destruct (d_neg a); [discriminate|]. intros Hx. injection Hx as <-. cbn. unfold B96. lia.
    + cbn [d_neg d_mant d_scale]. destruct (if rhu _ _ =? 0 then false else d_neg a); [discriminate|].
      intros Hx. injection Hx as <-. change (pow10 0) with 1. rewrite N.div_1_r.
      pose proof (rhu_le (d_mant a) (pow10 (d_scale a)) (pow10_nz _)) as Hr.
      assert (Hd : d_mant a / pow10 (d_scale a) <= d_mant a / 10).
      { apply N.div_le_compat_l. split; [lia|]. unfold pow10. change 10 with (10 ^ 1) at 1.
        apply N.pow_le_mono_r; lia. }
      assert (Hd2 : d_mant a / 10 <= B96 / 10) by (apply N.div_le_mono; [discriminate|lia]).
      assert (Hc : B96 / 10 = 7922816251426433759354395033) by reflexivity. rewrite Hc in Hd2.
      unfold B96. lia.
Qed.

(* ---- when is a product exact ---- *)
(* whenever rescale keeps the value, the product is exact in the sense of mul_is_exact *)
Lemma exact_of_rescale a n m' s' :
  m' * 10 ^ (d_scale a - s') = d_mant a * n -> s' <= d_scale a ->
  mul_is_exact a (dec_of_N n) (mkdec (xorb (d_neg a) false) m' s') = true.
Proof.
  intros H Hle. unfold mul_is_exact, dec_of_N, pow10. cbn [d_mant d_scale]. rewrite N.add_0_r. apply N.eqb_eq.
  rewrite <- H. replace (d_scale a) with ((d_scale a - s') + s') at 1 by lia. rewrite N.pow_add_r. ring.
Qed.

(* a product whose integer mantissa product fits 96 bits is never rounded *)
Lemma dec_mul_small_exact a n r :
  d_scale a <= 28 -> d_mant a * n < B96 -> dec_mul a (dec_of_N n) = Some r -> mul_is_exact a (dec_of_N n) r = true.
Proof.
  intros Hs Hv. unfold dec_mul, dec_of_N. cbn [d_mant d_scale d_neg]. rewrite N.add_0_r.
  destruct (N.eqb_spec (d_mant a) 0) as [Hz|Hnz]; cbn [orb].
  { intros Hx. injection Hx as <-. unfold mul_is_exact, pow10. cbn. rewrite Hz. reflexivity. }
  destruct (N.eqb_spec n 0) as [Hz|Hnz2].
  { intros Hx. injection Hx as <-. unfold mul_is_exact, pow10. cbn. rewrite Hz. rewrite N.mul_0_r. reflexivity. }
  destruct ((d_mant a <? two32) && (n <? two32)).
  - destruct (N.ltb_spec 28 (d_scale a)) as [Hgt|Hle]; [lia|]. intros Hx. injection Hx as <-.
    unfold mul_is_exact, pow10. cbn [d_mant d_scale]. rewrite N.add_0_r. apply N.eqb_refl.
  - unfold rescale. replace (d_scale a - 28) with 0 by lia.
    change (least_d 64 (d_mant a * n) 0) with (if d_mant a * n / pow10 0 <? B96 then 0 else least_d 63 (d_mant a * n) (0 + 1)).
    change (pow10 0) with 1. rewrite N.div_1_r. destruct (N.ltb_spec (d_mant a * n) B96) as [_|Hge]; [|lia].
    cbv zeta. destruct (N.ltb_spec (d_scale a) 0) as [Hlt|_]; [lia|]. cbn [N.eqb].
    intros Hx. injection Hx as <-. unfold mul_is_exact, pow10. cbn [d_mant d_scale]. rewrite N.add_0_r. apply N.eqb_refl.
Qed.

(* an integral product of at least 2^96 overflows: the multiplication fails instead of rounding *)
Lemma least_d_result fuel : forall v d0, let d := least_d fuel v d0 in v / pow10 d < B96 \/ d = d0 + N.of_nat fuel.
Proof.
  induction fuel as [|f IH]; intros v d0; cbn [least_d]; [right; lia|].
  destruct (N.ltb_spec (v / pow10 d0) B96) as [Hok|Hbig]; [left; exact Hok|].
  destruct (IH v (d0 + 1)) as [H|H]; [left; exact H|right]. rewrite H. lia.
Qed.
Lemma dec_mul_int_overflow a n q :
  d_scale a <= 28 -> d_mant a * n = q * 10 ^ d_scale a -> B96 <= q -> dec_mul a (dec_of_N n) = None.
Proof.
  intros Hs Hprod Hq. unfold dec_mul, dec_of_N. cbn [d_mant d_scale d_neg]. rewrite N.add_0_r.
  pose proof (pow10_pos (d_scale a)) as Pp.
  assert (Hvbig : B96 <= d_mant a * n) by (rewrite Hprod; nia).
  destruct (N.eqb_spec (d_mant a) 0) as [Hz|Hnz]; [rewrite Hz in Hvbig; unfold B96 in Hvbig; lia|]. cbn [orb].
  destruct (N.eqb_spec n 0) as [Hz|Hnz2]; [rewrite Hz, N.mul_0_r in Hvbig; unfold B96 in Hvbig; lia|].
  destruct ((d_mant a <? two32) && (n <? two32)) eqn:Esm.
  { apply andb_prop in Esm as [E1 E2]. apply N.ltb_lt in E1, E2. unfold two32, B96 in *. nia. }
  unfold rescale. replace (d_scale a - 28) with 0 by lia. set (d := least_d 64 (d_mant a * n) 0). cbv zeta.
  destruct (N.ltb_spec (d_scale a) d) as [_|Hle]; [reflexivity|]. exfalso.
  destruct (least_d_result 64 (d_mant a * n) 0) as [Hfit|Hd].
  - fold d in Hfit. assert (Hge : q <= d_mant a * n / pow10 d).
    { rewrite Hprod. unfold pow10. replace (d_scale a) with ((d_scale a - d) + d) by lia. rewrite N.pow_add_r, N.mul_assoc.
      rewrite N.div_mul by apply pow10_nz. pose proof (pow10_pos (d_scale a - d)). nia. }
    lia.
  - fold d in Hd. change (N.of_nat 64) with 64 in Hd. lia.
Qed.

(* rounding half-even stays within half a unit *)
Lemma rhe_bounds_aux v p : p <> 0 -> 2 * p * rhe v p <= 2 * v + p /\ 2 * v <= 2 * p * rhe v p + p.
Proof.
  intros Hp. unfold rhe. cbv zeta.
  pose proof (N.div_mod v p Hp) as E. pose proof (N.mod_lt v p Hp) as L.
  set (q := v / p) in *. set (r := v mod p) in *.
  destruct (N.ltb_spec p (2 * r)); cbn [orb].
  - nia.
  - destruct ((2 * r =? p) && N.odd q) eqn:T.
    + apply andb_prop in T as [T _]. apply N.eqb_eq in T. nia.
    + nia.
Qed.
