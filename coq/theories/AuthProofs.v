(* Proofs for C05 (authorization). *)
From ATS Require Import Prelude Dec Uuid Semver Types Contract Tactics.

Definition step (fx : fixes) (e : env) (st : state) (sender : string) (funds : list coin) (m : emsg)
  : state * option resp :=
  match execute fx e st sender funds m with
  | Ok (st', r) => (st', Some r)
  | Refused _ => (st, None)
  end.

Lemma step_refused fx e st sender funds m t :
  execute fx e st sender funds m = Refused t -> step fx e st sender funds m = (st, None).
Proof. unfold step. intros ->. reflexivity. Qed.

Definition executor_op (m : emsg) : bool :=
  match m with
  | ExecuteMatch _ _ _ _ | ExpireAsk _ | ExpireBid _ | RejectAsk _ _ | RejectBid _ _ | ModifyContract _ => true
  | _ => false
  end.
Definition privileged (m : emsg) : bool :=
  match m with CreateAsk _ _ _ _ _ | CreateBid _ _ _ _ _ _ _ => false | _ => true end.

Lemma get_cfg_ok st c : get_cfg st = Ok c -> st_cfg st = Some c.
Proof. apply of_opt_ok. Qed.
Lemma load_ask_ok st k a : load_ask st k = Ok a -> lookup k (st_asks st) = Some a.
Proof. apply of_opt_ok. Qed.
Lemma load_bid_ok st k b : load_bid st k = Ok b -> lookup k (st_bids st) = Some (SlotV3 b).
Proof.
  unfold load_bid. destruct (lookup k (st_bids st)) as [[b'|b2]|]; try discriminate.
  intros H. injection H as ->. reflexivity.
Qed.

Lemma cancel_ask_owner fx e st sender funds id st' r :
  execute fx e st sender funds (CancelAsk id) = Ok (st', r) ->
  exists a, lookup id (st_asks st) = Some a /\ sender = a_owner a.
Proof.
  unfold execute. intros H. guard_inv H Hv. unfold cancel_ask in H.
  guard_inv H Hf. bind_inv H a Ha. guard_inv H Ho.
  exists a. split; [apply load_ask_ok; exact Ha|apply String.eqb_eq; exact Ho].
Qed.

Lemma reverse_bid_auth fx e st sender funds id act is_cancel csz st' r :
  reverse_bid fx e st sender funds id act is_cancel csz = Ok (st', r) ->
  exists c b, st_cfg st = Some c /\ lookup id (st_bids st) = Some (SlotV3 b) /\
    if is_cancel then sender = b_owner b else In sender (cf_executors c).
Proof.
  unfold reverse_bid. intros H. guard_inv H H1. guard_inv H H2. bind_inv H c Hc. bind_inv H b Hb.
  guard_inv H Ha. exists c, b. split; [apply get_cfg_ok; exact Hc|]. split; [apply load_bid_ok; exact Hb|].
  destruct is_cancel; [apply String.eqb_eq; exact Ha|apply mem_In; exact Ha].
Qed.

Lemma cancel_bid_owner fx e st sender funds id st' r :
  execute fx e st sender funds (CancelBid id) = Ok (st', r) ->
  exists b, lookup id (st_bids st) = Some (SlotV3 b) /\ sender = b_owner b.
Proof.
  unfold execute. intros H. guard_inv H Hv.
  apply reverse_bid_auth in H as (c & b & _ & Hb & Ho). eauto.
Qed.

Lemma reverse_ask_auth fx e st sender funds id act csz st' r :
  reverse_ask fx e st sender funds id act csz = Ok (st', r) ->
  exists c, st_cfg st = Some c /\ In sender (cf_executors c).
Proof.
  unfold reverse_ask. intros H. guard_inv H H1. guard_inv H H2. bind_inv H c Hc. guard_inv H Ha.
  exists c. split; [apply get_cfg_ok; exact Hc|apply mem_In; exact Ha].
Qed.

Lemma execute_match_auth fx e st sender funds aid bid price size st' r :
  execute_match fx e st sender funds aid bid price size = Ok (st', r) ->
  exists c, st_cfg st = Some c /\ In sender (cf_executors c).
Proof.
  unfold execute_match. intros H. bind_inv H c Hc. guard_inv H Ha.
  exists c. split; [apply get_cfg_ok; exact Hc|apply mem_In; exact Ha].
Qed.

Lemma modify_auth fx e st sender funds m st' r :
  modify_contract fx e st sender funds m = Ok (st', r) ->
  exists c, st_cfg st = Some c /\ In sender (cf_executors c).
Proof.
  unfold modify_contract. intros H. bind_inv H c Hc. guard_inv H Ha.
  exists c. split; [apply get_cfg_ok; exact Hc|apply mem_In; exact Ha].
Qed.

Lemma executor_ops fx e st sender funds m st' r :
  executor_op m = true ->
  execute fx e st sender funds m = Ok (st', r) ->
  exists c, st_cfg st = Some c /\ In sender (cf_executors c).
Proof.
  intros Hop H. unfold execute in H. guard_inv H Hv.
  destruct m; try discriminate Hop.
  - eapply execute_match_auth; eassumption.
  - eapply reverse_ask_auth; eassumption.
  - apply reverse_bid_auth in H as (c & b & Hc & _ & Hx). eauto.
  - eapply reverse_ask_auth; eassumption.
  - apply reverse_bid_auth in H as (c & b & Hc & _ & Hx). eauto.
  - eapply modify_auth; eassumption.
Qed.

Lemma approve_approver fx e st sender funds id base size st' r :
  execute fx e st sender funds (ApproveAsk id base size) = Ok (st', r) ->
  exists c, st_cfg st = Some c /\ In sender (cf_approvers c).
Proof.
  unfold execute. intros H. guard_inv H Hv. unfold approve_ask in H.
  bind_inv H c Hc. guard_inv H Ha.
  exists c. split; [apply get_cfg_ok; exact Hc|apply mem_In; exact Ha].
Qed.

Lemma role_separation fx e st sender funds m c :
  st_cfg st = Some c ->
  (executor_op m = true -> ~ In sender (cf_executors c)) ->
  (forall id base size, m = ApproveAsk id base size -> ~ In sender (cf_approvers c)) ->
  (forall id a, m = CancelAsk id -> lookup id (st_asks st) = Some a -> sender <> a_owner a) ->
  (forall id b, m = CancelBid id -> lookup id (st_bids st) = Some (SlotV3 b) -> sender <> b_owner b) ->
  privileged m = true ->
  step fx e st sender funds m = (st, None).
Proof.
  intros Hc Hex Hap Hca Hcb Hp. unfold step.
  destruct (execute fx e st sender funds m) as [[st' r]|t] eqn:E; [exfalso|reflexivity].
  destruct m; try discriminate Hp.
  - apply approve_approver in E as (c' & Hc' & Hin). rewrite Hc in Hc'. injection Hc' as <-.
    eapply Hap; [reflexivity|exact Hin].
  - apply cancel_ask_owner in E as (a & Ha & Ho). eapply Hca; [reflexivity|exact Ha|exact Ho].
  - apply cancel_bid_owner in E as (b & Hb & Ho). eapply Hcb; [reflexivity|exact Hb|exact Ho].
  - apply executor_ops in E as (c' & Hc' & Hin); [|reflexivity]. rewrite Hc in Hc'. injection Hc' as <-.
    apply Hex; [reflexivity|exact Hin].
  - apply executor_ops in E as (c' & Hc' & Hin); [|reflexivity]. rewrite Hc in Hc'. injection Hc' as <-.
    apply Hex; [reflexivity|exact Hin].
  - apply executor_ops in E as (c' & Hc' & Hin); [|reflexivity]. rewrite Hc in Hc'. injection Hc' as <-.
    apply Hex; [reflexivity|exact Hin].
  - apply executor_ops in E as (c' & Hc' & Hin); [|reflexivity]. rewrite Hc in Hc'. injection Hc' as <-.
    apply Hex; [reflexivity|exact Hin].
  - apply executor_ops in E as (c' & Hc' & Hin); [|reflexivity]. rewrite Hc in Hc'. injection Hc' as <-.
    apply Hex; [reflexivity|exact Hin].
  - apply executor_ops in E as (c' & Hc' & Hin); [|reflexivity]. rewrite Hc in Hc'. injection Hc' as <-.
    apply Hex; [reflexivity|exact Hin].
Qed.
