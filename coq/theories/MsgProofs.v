(* MsgProofs: shape of every emitted message against the marker table (C10) and response attributes (C17). *)
From ATS Require Import Prelude Dec DecFacts Uuid Semver Types Contract Tactics Spec Inv InvAsk InstProofs AskProofs
  BidFacts InvBid InvStep ExitProofs Ledger.
Ltac Zify.zify_post_hook ::= Z.div_mod_to_equations.

(* a bank send of one coin exactly when the denomination is not a restricted marker; a marker transfer with the
   contract as administrator exactly when it is, drawn from the contract (payouts) or, for the escrowing requests
   only, from the requesting sender into the contract *)
Definition escrowing (m : emsg) : bool :=
  match m with CreateAsk _ _ _ _ _ | CreateBid _ _ _ _ _ _ _ | ApproveAsk _ _ _ => true | _ => false end.
Definition msg_mech (e : env) (sender : string) (pull : bool) (m : msg) : Prop :=
  match m with
  | Bank _ c => is_restricted e (c_denom c) = false
  | Xfer from to c admin =>
    is_restricted e (c_denom c) = true /\ admin = e_self e /\
    (from = e_self e \/ (pull = true /\ from = sender /\ to = e_self e))
  end.

Lemma mech_pay e sender pull amt d to : msg_mech e sender pull (pay_msg e amt d to).
Proof. unfold pay_msg. destruct (is_restricted e d) eqn:E; cbn; auto. Qed.
Lemma mech_pull e sender amt d : Forall (msg_mech e sender true) (pull_msgs e amt d sender).
Proof. unfold pull_msgs. destruct (is_restricted e d) eqn:E; [|constructor]. constructor; [|constructor]. cbn. auto 6. Qed.
Lemma mech_ask_exit e sender pull a amt camt : Forall (msg_mech e sender pull) (ask_exit_msgs e a amt camt).
Proof. unfold ask_exit_msgs. destruct (a_class a); repeat constructor; apply mech_pay. Qed.

Lemma Forall_pays e sender pull ms :
  (forall m, In m ms -> exists amt x to, m = pay_msg e amt x to) -> Forall (msg_mech e sender pull) ms.
Proof. intros H. apply Forall_forall. intros m Hm. destruct (H m Hm) as (amt & x & to & ->). apply mech_pay. Qed.

Lemma match_msgs_are_pays e c a b size af bfee net imp_msgs m :
  (forall m, In m imp_msgs -> exists amt x to, m = pay_msg e amt x to) ->
  In m (m_ask_fee e c (c_denom (b_quote b)) af ++ m_bid_fee e c (c_denom (b_quote b)) bfee ++
        m_settle e a b size net ++ imp_msgs) -> exists amt x to, m = pay_msg e amt x to.
Proof.
  intros Himp Hin. rewrite !in_app_iff in Hin. destruct Hin as [Hin|[Hin|[Hin|Hin]]]; [| | |auto].
  - unfold m_ask_fee in Hin. destruct (af =? 0); [contradiction|]. destruct Hin as [<-|[]]. eauto.
  - unfold m_bid_fee in Hin. destruct bfee; [|contradiction]. destruct Hin as [<-|[]]. eauto.
  - unfold m_settle, m_net in Hin. destruct (a_class a); [| contradiction |]; rewrite ?in_app_iff in Hin; cbn in Hin;
      destruct (net =? 0); cbn in Hin; intuition (subst; eauto).
Qed.

Theorem messages_match_marker_type e st sender funds m st' r :
  execute FX e st sender funds m = Ok (st', r) -> Forall (msg_mech e sender (escrowing m)) (r_msgs r).
Proof.
  intros H. pose proof H as H0. unfold execute in H. guard_inv H Hv. destruct m; cbn [escrowing].
  - apply approve_ask_inv in H as (c & a & _ & _ & _ & _ & _ & _ & _ & _ & ->). apply mech_pull.
  - apply cancel_ask_inv in H as (a & _ & _ & _ & _ & ->). apply mech_ask_exit.
  - apply reverse_bid_inv in H as (c & b & rb & eff & p & tq & cq & back & b' & rb' & _ & _ & _ & _ & _ & _ & _ & _ & _ & _ & _ & _ & _ & _ & _ & _ & ->).
    cbn [r_msgs]. unfold bid_exit_msgs. destruct back as [x|]; [destruct (0 <? x)|]; repeat constructor; apply mech_pay.
  - apply create_ask_iff in H as (c & _ & _ & _ & -> & _). apply mech_pull.
  - apply create_bid_inv in H as (c & p & total & dq & rate & calc & tot & _ & _ & _ & _ & _ & _ & _ & _ & _ & _ & _ & _ & _ & _ & _ & _ & _ & ->).
    apply mech_pull.
  - apply execute_match_inv in H as (c & a & b & ap & bp & xp & rb & gross_d & gross & af & bfee & fill & b' & rb' & imp &
      _ & _ & _ & _ & _ & _ & _ & _ & _ & _ & _ & _ & _ & _ & _ & _ & _ & _ & _ & _ & _ & _ & _ & _ & _ & ->).
    cbn [r_msgs]. apply Forall_pays. intros m Hm. eapply match_msgs_are_pays; [|exact Hm].
    intros m' Hm'. destruct imp as [[[og refund] ofee]|]; [|contradiction]. unfold m_refund in Hm'.
    destruct (0 <? refund); [|contradiction]. destruct (fee_refund_of bfee ofee); cbn in Hm'; intuition (subst; eauto).
  - apply reverse_ask_inv in H as (c & a & eff & _ & _ & _ & _ & _ & _ & _ & _ & ->). apply mech_ask_exit.
  - apply reverse_bid_inv in H as (c & b & rb & eff & p & tq & cq & back & b' & rb' & _ & _ & _ & _ & _ & _ & _ & _ & _ & _ & _ & _ & _ & _ & _ & _ & ->).
    cbn [r_msgs]. unfold bid_exit_msgs. destruct back as [x|]; [destruct (0 <? x)|]; repeat constructor; apply mech_pay.
  - apply reverse_ask_inv in H as (c & a & eff & _ & _ & _ & _ & _ & _ & _ & _ & ->). apply mech_ask_exit.
  - apply reverse_bid_inv in H as (c & b & rb & eff & p & tq & cq & back & b' & rb' & _ & _ & _ & _ & _ & _ & _ & _ & _ & _ & _ & _ & _ & _ & _ & _ & ->).
    cbn [r_msgs]. unfold bid_exit_msgs. destruct back as [x|]; [destruct (0 <? x)|]; repeat constructor; apply mech_pay.
  - apply modify_contract_inv in H0 as (c & af & bf & _ & _ & _ & _ & _ & _ & _ & _ & _ & _ & _ & _ & _ & _ & ->). constructor.
Qed.

(* strictly positive amounts: a zero amount on a restricted marker aborts the request (panic), and every call site
   of a bank send passes a non-zero amount in states satisfying the invariant *)
Definition msg_amount (m : msg) : N := match m with Bank _ c => c_amt c | Xfer _ _ c _ => c_amt c end.
Lemma amount_pay e amt d to : msg_amount (pay_msg e amt d to) = amt.
Proof. unfold pay_msg. destruct (is_restricted e d); reflexivity. Qed.

Lemma calculate_fee_some_pos b g f : calculate_fee b g = Ok (Some f) -> 1 <= f.
Proof.
  unfold calculate_fee. destruct (b_fee b) as [x|]; [|discriminate]. intros H.
  bind_inv H rq Hrq. bind_inv H rest Hrest. bind_inv H keep Hk. bind_inv H rf Hrf. bind_inv H due Hdue.
  injection H as H. destruct (N.ltb_spec 0 due); [|discriminate]. injection H as <-. lia.
Qed.
Lemma pos_ask_exit e a amt camt :
  1 <= amt -> (match a_class a with Ready _ _ => 1 <= camt | _ => True end) ->
  Forall (fun m => 1 <= msg_amount m) (ask_exit_msgs e a amt camt).
Proof.
  intros H1 H2. unfold ask_exit_msgs. destruct (a_class a); repeat constructor; rewrite amount_pay; assumption.
Qed.
Lemma pos_pull e amt d from : 1 <= amt -> Forall (fun m => 1 <= msg_amount m) (pull_msgs e amt d from).
Proof. intros H. unfold pull_msgs. destruct (is_restricted e d); repeat constructor. exact H. Qed.

Theorem messages_strictly_positive e st sender funds m st' r :
  Inv st -> clean_exec st m -> execute FX e st sender funds m = Ok (st', r) ->
  Forall (fun x => 1 <= msg_amount x) (r_msgs r).
Proof.
  intros HI Hclean H. pose proof HI as [HA HB]. pose proof H as H0. unfold execute in H. guard_inv H Hv.
  destruct m; cbn [validate_exec] in Hv.
  - apply approve_ask_inv in H as (c & a & _ & _ & _ & _ & _ & _ & _ & _ & ->).
    repeat (apply andb_prop in Hv as [Hv ?]). apply pos_pull. apply N.leb_le. assumption.
  - apply cancel_ask_inv in H as (a & _ & Hl & _ & _ & ->). destruct (inv_cfg st HA) as (c & Hc & _).
    pose proof (inv_asks st HA c id a Hc Hl) as (_ & _ & Hs & _ & _ & _ & _ & Hr). apply pos_ask_exit; [exact Hs|].
    destruct (a_class a); auto. subst cb. exact Hs.
  - destruct (bid_reverse_settles e st sender funds (CancelBid id) id "cancel_bid" true None st' r HI Hclean eq_refl H0) as
      (c & b & p & eff & cq & fa & Hc & Hl & Hp & _ & _ & -> & _ & _ & Hdy & _ & -> & _).
    destruct (inv_bids st HB c id _ Hc Hl) as (b0 & Hb0 & Hok). injection Hb0 as <-.
    assert (1 <= cq).
    { destruct Hok as (_ & _ & _ & _ & Hab & _). destruct Hp as (_ & _ & Hm & _). pose proof (pow10_pos (d_scale p)).
      destruct (N.eq_dec cq 0) as [->|]; [|lia]. unfold unfilled in Hdy. nia. }
    cbn [r_msgs]. constructor; [rewrite amount_pay; assumption|]. destruct (N.ltb_spec 0 fa); repeat constructor. rewrite amount_pay. lia.
  - apply create_ask_iff in H as (c & _ & _ & _ & -> & _). repeat (apply andb_prop in Hv as [Hv ?]). apply pos_pull. apply N.leb_le. assumption.
  - apply create_bid_inv in H as (c & p & total & dq & rate & calc & tot & _ & _ & _ & _ & _ & _ & _ & _ & _ & _ & _ & _ & _ & _ & _ & _ & _ & ->).
    repeat (apply andb_prop in Hv as [Hv ?]). apply pos_pull.
    match goal with Hq : (1 <=? quote_size) = true |- _ => apply N.leb_le in Hq; lia end.
  - apply execute_match_inv in H as (c & a & b & ap & bp & xp & rb & gross_d & gross & af & bfee & fill & b' & rb' & imp &
      _ & _ & _ & _ & _ & _ & _ & _ & _ & _ & _ & _ & _ & _ & _ & _ & _ & _ & Hbf & _ & _ & _ & _ & _ & _ & ->).
    repeat (apply andb_prop in Hv as [Hv ?]). assert (Hs1 : 1 <= size) by (apply N.leb_le; assumption).
    cbn [r_msgs]. rewrite !Forall_app. repeat split.
    + unfold m_ask_fee. destruct (N.eqb_spec af 0); repeat constructor. rewrite amount_pay. lia.
    + unfold m_bid_fee. destruct bfee as [f|]; repeat constructor. rewrite amount_pay. eapply calculate_fee_some_pos; eauto.
    + unfold m_settle, m_net. destruct (a_class a); [|constructor|]; rewrite ?Forall_app; repeat split;
        try (destruct (N.eqb_spec (gross - af) 0)); repeat constructor; rewrite ?amount_pay; try lia.
    + destruct imp as [[[og refund] ofee]|]; [|constructor]. unfold m_refund.
      destruct (N.ltb_spec 0 refund); [|constructor]. constructor; [rewrite amount_pay; lia|].
      unfold fee_refund_of. destruct ofee as [o|]; [|constructor]. destruct (N.ltb_spec 0 (o - opt_amt bfee)); repeat constructor.
      rewrite amount_pay. lia.
  - apply reverse_ask_inv in H as (c & a & eff & _ & Hc & _ & Hl & -> & _ & _ & _ & ->).
    pose proof (inv_asks st HA c id a Hc Hl) as (_ & _ & Hs & _). apply pos_ask_exit; [exact Hs|]. destruct (a_class a); auto.
  - destruct (bid_reverse_settles e st sender funds (ExpireBid id) id "expire_bid" false None st' r HI Hclean eq_refl H0) as
      (c & b & p & eff & cq & fa & Hc & Hl & Hp & _ & _ & -> & _ & _ & Hdy & _ & -> & _).
    destruct (inv_bids st HB c id _ Hc Hl) as (b0 & Hb0 & Hok). injection Hb0 as <-.
    assert (1 <= cq).
    { destruct Hok as (_ & _ & _ & _ & Hab & _). destruct Hp as (_ & _ & Hm & _). pose proof (pow10_pos (d_scale p)).
      destruct (N.eq_dec cq 0) as [->|]; [|lia]. unfold unfilled in Hdy. nia. }
    cbn [r_msgs]. constructor; [rewrite amount_pay; assumption|]. destruct (N.ltb_spec 0 fa); repeat constructor. rewrite amount_pay. lia.
  - apply reverse_ask_inv in H as (c & a & eff & _ & Hc & _ & Hl & -> & _ & _ & _ & ->).
    pose proof (inv_asks st HA c id a Hc Hl) as (_ & _ & Hs & _).
    assert (He : 1 <= match size with Some s => s | None => a_size a end).
    { destruct size as [s|]; [|exact Hs]. apply andb_prop in Hv as [_ Hv]. cbn in Hv. apply N.leb_le. exact Hv. }
    apply pos_ask_exit; [exact He|]. destruct (a_class a); auto.
  - destruct (bid_reverse_settles e st sender funds (RejectBid id size) id "reject_bid" false size st' r HI Hclean eq_refl H0) as
      (c & b & p & eff & cq & fa & Hc & Hl & Hp & _ & _ & -> & Hsz & _ & Hdy & _ & -> & _).
    destruct (inv_bids st HB c id _ Hc Hl) as (b0 & Hb0 & Hok). injection Hb0 as <-.
    assert (1 <= cq).
    { destruct Hok as (_ & _ & _ & _ & Hab & _). destruct Hp as (_ & _ & Hm & _). pose proof (pow10_pos (d_scale p)).
      destruct (N.eq_dec cq 0) as [->|]; [|lia]. destruct size as [s|]; [destruct (Hsz s eq_refl); nia|unfold unfilled in Hdy; nia]. }
    cbn [r_msgs]. constructor; [rewrite amount_pay; assumption|]. destruct (N.ltb_spec 0 fa); repeat constructor. rewrite amount_pay. lia.
  - apply modify_contract_inv in H0 as (c & af & bf & _ & _ & _ & _ & _ & _ & _ & _ & _ & _ & _ & _ & _ & _ & ->). constructor.
Qed.
