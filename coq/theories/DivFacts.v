(* DivFacts: the quotient x / Q (0 <= x <= Q) computed by dec_div_int is x/Q rounded half-even to 28 decimals. *)
From ATS Require Import Prelude Dec DecFacts.
Ltac Zify.zify_post_hook ::= Z.div_mod_to_equations.

Definition E28 : N := 10000000000000000000000000000.     (* 10^28 *)
Lemma E28_pow : E28 = 10 ^ 28. Proof. reflexivity. Qed.
Lemma E28_lt_B96 : E28 < B96. Proof. reflexivity. Qed.

Lemma pow10_le_E28 k : k <= 28 -> 10 ^ k <= E28.
Proof. intros H. rewrite E28_pow. apply N.pow_le_mono_r; [discriminate|exact H]. Qed.

(* ---- find_scale when there is room ---- *)
Lemma find_scale_loop_stop fuel q x : q * pow10 x <= B96 - 1 -> find_scale_loop (S fuel) q x = x.
Proof.
  intros H. cbn [find_scale_loop]. destruct (N.ltb_spec (B96 - 1) (q * pow10 x)) as [Hlt|_]; [lia|]. rewrite andb_false_r. reflexivity.
Qed.
Lemma find_scale_room q sc :
  sc < 28 -> q <= 10 ^ sc -> let k := find_scale q sc in 1 <= k /\ sc + k <= 28 /\ q * 10 ^ k < B96.
Proof.
  intros Hsc Hq. unfold find_scale. set (x0 := if 19 <? sc then N.min 9 (28 - sc) else 9).
  assert (Hx : 1 <= x0 /\ sc + x0 <= 28).
  { unfold x0. destruct (N.ltb_spec 19 sc); lia. }
  assert (Hb : q * pow10 x0 <= B96 - 1).
  { unfold pow10. apply N.le_trans with (10 ^ sc * 10 ^ x0); [apply N.mul_le_mono_r; exact Hq|].
    rewrite <- N.pow_add_r. apply N.le_trans with E28; [apply pow10_le_E28; apply Hx|]. unfold E28, B96. lia. }
  change (find_scale_loop 10 q x0) with (find_scale_loop (S 9) q x0). rewrite (find_scale_loop_stop 9 q x0 Hb).
  cbv zeta. split; [apply Hx|]. split; [apply Hx|]. unfold pow10, B96 in *. lia.
Qed.

(* ---- the scaling loop ---- *)
Lemma div_loop_spec fuel : forall x Q q r sc,
  0 < Q -> Q < B96 -> x <= Q ->
  x * 10 ^ sc = q * Q + r -> r < Q -> sc <= 28 -> q <= 10 ^ sc -> (28 - sc < N.of_nat fuel) ->
  exists q' sc', div_loop fuel Q q r sc = Some (q', sc') /\ sc' <= 28 /\ q' * 10 ^ (28 - sc') = rhe (x * E28) Q /\ q' <= 10 ^ sc'.
Proof.
  induction fuel as [|f IH]; intros x Q q r sc HQ0 HQ Hx Hinv Hr Hsc Hq Hfuel; [lia|].
  cbn [div_loop]. destruct (N.eqb_spec r 0) as [Hr0|Hrnz].
  - (* exact *)
    exists q, sc. split; [reflexivity|]. split; [exact Hsc|]. split; [|exact Hq].
    subst r. rewrite N.add_0_r in Hinv. rewrite E28_pow.
    assert (Hv : x * 10 ^ 28 = (q * 10 ^ (28 - sc)) * Q).
    { replace 28 with (sc + (28 - sc)) at 1 by lia. rewrite N.pow_add_r, N.mul_assoc, Hinv. ring. }
    rewrite Hv. rewrite rhe_exact; [rewrite N.div_mul by lia; reflexivity|lia|apply N.mod_mul; lia].
  - destruct (N.eqb_spec sc 28) as [Hs28|Hsn].
    + (* final rounding at scale 28 *)
      cbn [N.eqb]. subst sc. change (10 ^ 28) with E28 in *.
      assert (Hdiv : x * E28 / Q = q) by (symmetry; apply N.div_unique with (r := r); [exact Hr|rewrite Hinv; ring]).
      assert (Hmod : (x * E28) mod Q = r) by (symmetry; apply N.mod_unique with (q := q); [exact Hr|rewrite Hinv; ring]).
      assert (Hq1 : q + 1 <= E28).
      { (* x < Q since the remainder is non-zero *)
        assert (x < Q) by (destruct (N.eq_dec x Q) as [->|]; [exfalso; assert (Q * E28 = q * Q + r) by lia; assert (r = (E28 - q) * Q) by nia; nia|lia]).
        nia. }
      unfold rhe. cbv zeta. rewrite Hdiv, Hmod.
      destruct ((Q <? 2 * r) || ((2 * r =? Q) && N.odd q)).
      * destruct (N.eqb_spec (q + 1) B96) as [Hb|_]; [pose proof E28_lt_B96; lia|].
        exists (q + 1), 28. rewrite N.sub_diag. cbn [N.pow]. rewrite N.mul_1_r. repeat split; try lia. exact Hq1.
      * exists q, 28. rewrite N.sub_diag. cbn [N.pow]. rewrite N.mul_1_r. repeat split; try lia. exact Hq.
    + (* one more scaling step *)
      assert (Hlt : sc < 28) by lia. destruct (find_scale_room q sc Hlt Hq) as (Hk1 & Hk28 & Hkb).
      set (k := find_scale q sc) in *.
      destruct (N.eqb_spec k 0) as [Hk0|_]; [lia|]. unfold pow10.
      destruct (N.leb_spec B96 (q * 10 ^ k)) as [Hov|_]; [lia|].
      set (rq := r * 10 ^ k / Q). set (r' := (r * 10 ^ k) mod Q).
      assert (Hrr : r * 10 ^ k = Q * rq + r') by (apply N.div_mod; lia).
      assert (Hr' : r' < Q) by (apply N.mod_lt; lia).
      assert (Hinv' : x * 10 ^ (sc + k) = (q * 10 ^ k + rq) * Q + r').
      { rewrite N.pow_add_r, N.mul_assoc, Hinv. nia. }
      assert (Hq' : q * 10 ^ k + rq <= 10 ^ (sc + k)).
      { assert (x * 10 ^ (sc + k) <= Q * 10 ^ (sc + k)) by (apply N.mul_le_mono_r; exact Hx). nia. }
      destruct (N.leb_spec B96 (q * 10 ^ k + rq)) as [Hov|_].
      { pose proof (pow10_le_E28 (sc + k) Hk28). pose proof E28_lt_B96. lia. }
      apply (IH x Q (q * 10 ^ k + rq) r' (sc + k)); auto; lia.
Qed.

(* ---- removing trailing zeros keeps the value ---- *)
Lemma unscale_step_value m s k mask : let '(m', s') := unscale_step m s k mask in s' <= s /\ m' * 10 ^ (s - s') = m.
Proof.
  unfold unscale_step. destruct ((N.land m mask =? 0) && (k <=? s) && (m mod pow10 k =? 0)) eqn:E.
  - apply andb_prop in E as [E Hmod]. apply andb_prop in E as [_ Hk]. apply N.leb_le in Hk. apply N.eqb_eq in Hmod.
    split; [lia|]. replace (s - (s - k)) with k by lia. unfold pow10 in *.
    pose proof (N.div_mod m (10 ^ k) (pow10_nz k)). lia.
  - split; [lia|]. rewrite N.sub_diag. cbn. lia.
Qed.
Lemma unscale8_value fuel : forall m s, let '(m', s') := unscale8 fuel m s in s' <= s /\ m' * 10 ^ (s - s') = m.
Proof.
  induction fuel as [|f IH]; intros m s; cbn [unscale8]; [split; [lia|rewrite N.sub_diag; cbn; lia]|].
  destruct ((N.land m 4294967295 =? 0) && (8 <=? s) && (m mod pow10 8 =? 0)) eqn:E.
  - apply andb_prop in E as [E Hmod]. apply andb_prop in E as [_ Hk]. apply N.leb_le in Hk. apply N.eqb_eq in Hmod.
    specialize (IH (m / pow10 8) (s - 8)). destruct (unscale8 f (m / pow10 8) (s - 8)) as [m' s']. destruct IH as [H1 H2].
    split; [lia|]. unfold pow10 in *. pose proof (N.div_mod m (10 ^ 8) (pow10_nz 8)) as Hd. rewrite Hmod, N.add_0_r in Hd.
    replace (s - s') with ((s - 8 - s') + 8) by lia. rewrite N.pow_add_r, N.mul_assoc, H2. lia.
  - split; [lia|]. rewrite N.sub_diag. cbn. lia.
Qed.
Lemma unscale_value m s : let '(m', s') := unscale m s in s' <= s /\ m' * 10 ^ (s - s') = m.
Proof.
  unfold unscale. pose proof (unscale8_value 4 m s) as H1. destruct (unscale8 4 m s) as [m1 s1]. destruct H1 as [L1 V1].
  pose proof (unscale_step_value m1 s1 4 15) as H2. destruct (unscale_step m1 s1 4 15) as [m2 s2]. destruct H2 as [L2 V2].
  pose proof (unscale_step_value m2 s2 2 3) as H3. destruct (unscale_step m2 s2 2 3) as [m3 s3]. destruct H3 as [L3 V3].
  pose proof (unscale_step_value m3 s3 1 1) as H4. destruct (unscale_step m3 s3 1 1) as [m4 s4]. destruct H4 as [L4 V4].
  split; [lia|]. rewrite <- V1, <- V2, <- V3, <- V4.
  replace (s - s4) with ((s3 - s4) + (s2 - s3) + (s1 - s2) + (s - s1)) by lia. rewrite !N.pow_add_r. ring.
Qed.

Lemma rhe_zero p : p <> 0 -> rhe 0 p = 0.
Proof. intros Hp. apply rhe_exact; [exact Hp|apply N.mod_0_l; exact Hp]. Qed.

(* ---- the ratio x / Q ---- *)
Definition R28 (x Q : N) : N := rhe (x * E28) Q.

Theorem dec_div_int_spec x Q :
  0 < Q -> Q < B96 -> x <= Q ->
  exists r, dec_div_int x Q = Some r /\ d_neg r = false /\ d_scale r <= 28 /\ d_mant r * 10 ^ (28 - d_scale r) = R28 x Q.
Proof.
  intros HQ0 HQ Hx. unfold dec_div_int, R28. destruct (N.eqb_spec Q 0) as [|_]; [lia|].
  destruct (N.eqb_spec x 0) as [->|Hxnz].
  { exists dec_zero. split; [reflexivity|]. split; [reflexivity|]. split; [cbn; lia|].
    rewrite N.mul_0_l, rhe_zero by lia. reflexivity. }
  pose proof (N.div_mod x Q ltac:(lia)) as Hd. pose proof (N.mod_lt x Q ltac:(lia)) as Hm.
  assert (Hq1 : x / Q <= 10 ^ 0). { cbn. apply N.div_le_upper_bound; lia. }
  assert (Hinv0 : x * 10 ^ 0 = x / Q * Q + x mod Q) by (rewrite N.pow_0_r, N.mul_1_r, (N.mul_comm (x / Q) Q); exact Hd).
  assert (Hfuel : 28 - 0 < N.of_nat 40) by (cbn; lia).
  destruct (div_loop_spec 40 x Q (x / Q) (x mod Q) 0 HQ0 HQ Hx Hinv0 Hm ltac:(lia) Hq1 Hfuel) as (q' & sc' & Hl & Hsc & Hv & Hq').
  rewrite Hl. destruct (N.eqb_spec (x mod Q) 0).
  - exists (mkdec false q' sc'). cbn. auto.
  - pose proof (unscale_value q' sc') as Hu. destruct (unscale q' sc') as [m s]. destruct Hu as [Hle Hval].
    exists (mkdec false m s). cbn [d_neg d_scale d_mant]. repeat split; try lia.
    rewrite <- Hv, <- Hval. replace (28 - s) with ((sc' - s) + (28 - sc')) by lia. rewrite N.pow_add_r. ring.
Qed.

Lemma rhe_mono v1 v2 p : p <> 0 -> v1 <= v2 -> rhe v1 p <= rhe v2 p.
Proof.
  intros Hp Hle. destruct (rhe_bounds_aux v1 p Hp) as [L1 U1]. destruct (rhe_bounds_aux v2 p Hp) as [L2 U2].
  (* 2p*rhe v1 <= 2 v1 + p <= 2 v2 + p ; 2 v2 <= 2p*rhe v2 + p *)
  destruct (N.le_gt_cases (rhe v1 p) (rhe v2 p)) as [H|H]; [exact H|exfalso].
  (* rhe v1 >= rhe v2 + 1 : 2p (rhe v2 + 1) <= 2 v1 + p <= 2 v2 + p <= 2p rhe v2 + 2p : equality throughout => tie cases *)
  assert (Hv : v1 = v2) by nia. subst v2. lia.
Qed.
