(* Evolve: how a surviving order may change under one execute request (C11 immutability / monotonicity). *)
From ATS Require Import Prelude Dec DecFacts Uuid Semver Types Contract Tactics Spec Inv Frame.
Ltac Zify.zify_post_hook ::= Z.div_mod_to_equations.

Definition class_evolves (c c' : aclass) : Prop :=
  match c, c' with
  | Basic, Basic => True
  | Pending, Pending => True
  | Pending, Ready _ _ => True
  | Ready ap cb, Ready ap' cb' => ap' = ap /\ c_denom cb' = c_denom cb
  | _, _ => False
  end.
Definition ask_evolves (a a' : ask) : Prop :=
  a_id a' = a_id a /\ a_owner a' = a_owner a /\ a_base a' = a_base a /\ a_quote a' = a_quote a /\
  a_price a' = a_price a /\ a_size a' <= a_size a /\ class_evolves (a_class a) (a_class a').
Definition bid_evolves (b b' : bid) : Prop :=
  b_id b' = b_id b /\ b_owner b' = b_owner b /\ b_price b' = b_price b /\ b_base b' = b_base b /\
  b_quote b' = b_quote b /\ b_fee b' = b_fee b /\
  b_acc_base b <= b_acc_base b' /\ b_acc_quote b <= b_acc_quote b' /\ b_acc_fee b <= b_acc_fee b'.

Lemma class_evolves_refl c : class_evolves c c.
Proof. destruct c; cbn; auto. Qed.
Lemma ask_evolves_refl a : ask_evolves a a.
Proof. unfold ask_evolves. repeat split; auto using class_evolves_refl; lia. Qed.
Lemma bid_evolves_refl b : bid_evolves b b.
Proof. unfold bid_evolves. repeat split; auto; lia. Qed.
Lemma ask_evolves_after a size' : size' <= a_size a -> ask_evolves a (ask_after a size').
Proof.
  intros H. unfold ask_evolves, ask_after. cbn. repeat split; auto. destruct (a_class a); cbn; auto.
Qed.
Lemma accumulate_evolves b x y z b' : accumulate b x y z = Ok b' -> bid_evolves b b'.
Proof.
  unfold accumulate. intros H. bind_inv H ab Hab. bind_inv H af Haf. bind_inv H aq Haq. injection H as <-.
  apply checked_add_ok in Hab as [-> _]. apply checked_add_ok in Haq as [-> _].
  unfold bid_evolves. cbn. repeat split; auto; try lia.
  destruct z; [apply checked_add_ok in Haf as [-> _]; lia|injection Haf as <-; lia].
Qed.
Lemma bid_evolves_trans a b c : bid_evolves a b -> bid_evolves b c -> bid_evolves a c.
Proof. unfold bid_evolves. intros H1 H2. repeat split; try congruence; try lia; destruct H1 as (?&?&?&?&?&?&?&?&?), H2 as (?&?&?&?&?&?&?&?&?); try congruence; lia. Qed.

Lemma lookup_upd {V} k k' (v : V) (m : list (string * V)) (b : bool) x :
  lookup k (if b then remove k' m else insert k' v m) = Some x ->
  (k = k' /\ b = false /\ x = v) \/ (k <> k' /\ lookup k m = Some x).
Proof.
  destruct b.
  - rewrite lookup_remove. destruct (String.eqb_spec k k'); [discriminate|auto].
  - rewrite lookup_insert. destruct (String.eqb_spec k k'); [intros H; injection H as <-; auto|auto].
Qed.

Theorem execute_evolves e st sender funds m st' r :
  keys_ok st -> execute FX e st sender funds m = Ok (st', r) ->
  (forall k a a', lookup k (st_asks st) = Some a -> lookup k (st_asks st') = Some a' -> ask_evolves a a') /\
  (forall k b b', lookup k (st_bids st) = Some (SlotV3 b) -> lookup k (st_bids st') = Some (SlotV3 b') -> bid_evolves b b').
Proof.
  intros HK H. pose proof H as H0. unfold execute in H. guard_inv H Hv.
  assert (Same : forall st2, st_asks st2 = st_asks st -> forall k a a', lookup k (st_asks st) = Some a -> lookup k (st_asks st2) = Some a' -> ask_evolves a a').
  { intros st2 -> k a a' H1 H2. rewrite H1 in H2. injection H2 as <-. apply ask_evolves_refl. }
  assert (SameB : forall st2, st_bids st2 = st_bids st -> forall k b b', lookup k (st_bids st) = Some (SlotV3 b) -> lookup k (st_bids st2) = Some (SlotV3 b') -> bid_evolves b b').
  { intros st2 -> k b b' H1 H2. rewrite H1 in H2. injection H2 as <-. apply bid_evolves_refl. }
  destruct m.
  - apply approve_ask_inv in H as (c & a & Hc & _ & _ & Hl & Hcl & _ & _ & -> & _). split; [|apply SameB; reflexivity].
    cbn [st_asks set_asks st_bids set_bids]. intros k a0 a' H1 H2. rewrite lookup_insert in H2. destruct (String.eqb_spec k id) as [->|].
    + injection H2 as <-. rewrite Hl in H1. injection H1 as <-. unfold ask_evolves, approved. cbn. rewrite Hcl. cbn.
      repeat split; auto; lia.
    + rewrite H1 in H2. injection H2 as <-. apply ask_evolves_refl.
  - apply cancel_ask_inv in H as (a & _ & Hl & _ & -> & _). split; [|apply SameB; reflexivity].
    cbn [st_asks set_asks st_bids set_bids]. intros k a0 a' H1 H2. rewrite lookup_remove in H2. destruct (String.eqb k (a_id a)); [discriminate|].
    rewrite H1 in H2. injection H2 as <-. apply ask_evolves_refl.
  - apply reverse_bid_inv in H as (c & b & rb & eff & p & tq & cq & back & b' & rb' & _ & _ & Hl & _ & _ & _ & _ & _ & _ & _ & _ & _ & _ & Hacc & _ & -> & _).
    split; [apply Same; reflexivity|]. cbn [st_asks set_asks st_bids set_bids]. intros k b0 b1 H1 H2. apply lookup_upd in H2 as [(-> & _ & Hx)|(Hne & H2)].
    + injection Hx as ->. assert (b_id b = id) by (apply HK; exact Hl). subst id. rewrite Hl in H1. injection H1 as <-.
      eapply accumulate_evolves; eauto.
    + rewrite H1 in H2. injection H2 as <-. apply bid_evolves_refl.
  - apply create_ask_iff in H as (c & Hc & (_ & _ & _ & _ & _ & _ & Hnone) & -> & _). split; [|apply SameB; reflexivity].
    cbn [st_asks set_asks st_bids set_bids]. intros k a0 a' H1 H2. rewrite lookup_insert in H2. destruct (String.eqb_spec k id) as [->|]; [congruence|].
    rewrite H1 in H2. injection H2 as <-. apply ask_evolves_refl.
  - apply create_bid_inv in H as (c & p & total & dq & rate & calc & tot & _ & _ & _ & _ & _ & _ & _ & _ & _ & _ & _ & _ & _ & _ & _ & Hnone & -> & _).
    split; [apply Same; reflexivity|]. cbn [st_asks set_asks st_bids set_bids]. intros k b0 b1 H1 H2. rewrite lookup_insert in H2.
    destruct (String.eqb_spec k id) as [->|]; [congruence|]. rewrite H1 in H2. injection H2 as <-. apply bid_evolves_refl.
  - apply execute_match_inv in H as (c & a & b & ap & bp & xp & rb & gross_d & gross & af & bfee & fill & b' & rb' & imp &
      _ & _ & _ & Hla & Hlb & _ & _ & _ & _ & _ & _ & Hsz & _ & _ & _ & _ & _ & _ & _ & _ & _ & Hfill & Himp & _ & -> & _).
    split; cbn [st_asks set_asks st_bids set_bids].
    + intros k a0 a' H1 H2. apply lookup_upd in H2 as [(-> & _ & ->)|(Hne & H2)].
      * rewrite Hla in H1. injection H1 as <-. apply ask_evolves_after. lia.
      * rewrite H1 in H2. injection H2 as <-. apply ask_evolves_refl.
    + intros k b0 b1 H1 H2. apply lookup_upd in H2 as [(-> & _ & Hx)|(Hne & H2)].
      * injection Hx as ->. rewrite Hlb in H1. injection H1 as <-.
        apply accumulate_evolves in Hfill. unfold improve_spec in Himp. destruct (dec_ltb xp bp).
        -- destruct Himp as (og_d & diff & og & refund & ofee & _ & _ & _ & _ & _ & _ & _ & Hacc & _).
           apply accumulate_evolves in Hacc. eapply bid_evolves_trans; eauto.
        -- destruct Himp as [-> _]. exact Hfill.
      * rewrite H1 in H2. injection H2 as <-. apply bid_evolves_refl.
  - apply reverse_ask_inv in H as (c & a & eff & _ & _ & _ & Hl & _ & _ & Hle & -> & _). split; [|apply SameB; reflexivity].
    cbn [st_asks set_asks st_bids set_bids]. intros k a0 a' H1 H2. apply lookup_upd in H2 as [(-> & _ & ->)|(Hne & H2)].
    + assert (a_id a = id) by (apply HK; exact Hl). subst id. rewrite Hl in H1. injection H1 as <-. apply ask_evolves_after. lia.
    + rewrite H1 in H2. injection H2 as <-. apply ask_evolves_refl.
  - apply reverse_bid_inv in H as (c & b & rb & eff & p & tq & cq & back & b' & rb' & _ & _ & Hl & _ & _ & _ & _ & _ & _ & _ & _ & _ & _ & Hacc & _ & -> & _).
    split; [apply Same; reflexivity|]. cbn [st_asks set_asks st_bids set_bids]. intros k b0 b1 H1 H2. apply lookup_upd in H2 as [(-> & _ & Hx)|(Hne & H2)].
    + injection Hx as ->. assert (b_id b = id) by (apply HK; exact Hl). subst id. rewrite Hl in H1. injection H1 as <-.
      eapply accumulate_evolves; eauto.
    + rewrite H1 in H2. injection H2 as <-. apply bid_evolves_refl.
  - apply reverse_ask_inv in H as (c & a & eff & _ & _ & _ & Hl & _ & _ & Hle & -> & _). split; [|apply SameB; reflexivity].
    cbn [st_asks set_asks st_bids set_bids]. intros k a0 a' H1 H2. apply lookup_upd in H2 as [(-> & _ & ->)|(Hne & H2)].
    + assert (a_id a = id) by (apply HK; exact Hl). subst id. rewrite Hl in H1. injection H1 as <-. apply ask_evolves_after. lia.
    + rewrite H1 in H2. injection H2 as <-. apply ask_evolves_refl.
  - apply reverse_bid_inv in H as (c & b & rb & eff & p & tq & cq & back & b' & rb' & _ & _ & Hl & _ & _ & _ & _ & _ & _ & _ & _ & _ & _ & Hacc & _ & -> & _).
    split; [apply Same; reflexivity|]. cbn [st_asks set_asks st_bids set_bids]. intros k b0 b1 H1 H2. apply lookup_upd in H2 as [(-> & _ & Hx)|(Hne & H2)].
    + injection Hx as ->. assert (b_id b = id) by (apply HK; exact Hl). subst id. rewrite Hl in H1. injection H1 as <-.
      eapply accumulate_evolves; eauto.
    + rewrite H1 in H2. injection H2 as <-. apply bid_evolves_refl.
  - apply modify_contract_inv in H0 as (c & af & bf & Hc & _ & _ & _ & _ & _ & _ & _ & _ & _ & _ & _ & _ & -> & _).
    split; [apply Same; reflexivity|apply SameB; reflexivity].
Qed.
