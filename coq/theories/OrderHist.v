(* OrderHist: the order-by-order ledger over histories that interleave execute requests with migrations. *)
From ATS Require Import Prelude Dec DecFacts Uuid Semver Types Contract Tactics Spec ExactFacts Inv InvAsk InstProofs AskProofs
  BidFacts InvBid InvStep ExitProofs Frame Ledger OrderLedger MigrateProofs MigrateInv Hist.
Ltac Zify.zify_post_hook ::= Z.div_mod_to_equations.

Fixpoint hask_ledger (st : state) (hs : list hevent) (k d : string) : N * N :=
  match hs with
  | [] => (0, 0)
  | h :: rest =>
    let io := hask_ledger (hstep st h) rest k d in
    match h with
    | HExec ev =>
      match execute FX (ev_env ev) st (ev_sender ev) (ev_funds ev) (ev_msg ev) with
      | Ok (_, r) => (ask_in (ev_env ev) (ev_funds ev) (ev_msg ev) r k d + fst io, ask_out (ev_env ev) st (ev_msg ev) r k d + snd io)
      | Refused _ => io
      end
    | HMigrate _ _ => io
    end
  end.
Fixpoint hbid_ledger (st : state) (hs : list hevent) (k d : string) : N * N :=
  match hs with
  | [] => (0, 0)
  | h :: rest =>
    let io := hbid_ledger (hstep st h) rest k d in
    match h with
    | HExec ev =>
      match execute FX (ev_env ev) st (ev_sender ev) (ev_funds ev) (ev_msg ev) with
      | Ok (_, r) => (bid_in (ev_env ev) (ev_funds ev) (ev_msg ev) r k d + fst io, bid_out (ev_env ev) st (ev_msg ev) r k d + snd io)
      | Refused _ => io
      end
    | HMigrate _ _ => io
    end
  end.

Lemma owed_at_same st st' k d :
  st_asks st' = st_asks st -> st_bids st' = st_bids st ->
  ask_owed_at st' k d = ask_owed_at st k d /\ bid_owed_at st' k d = bid_owed_at st k d.
Proof. unfold ask_owed_at, bid_owed_at. intros -> ->. split; reflexivity. Qed.

Theorem horder_ledger_balances hs : forall st k d,
  Inv st -> hclean st hs ->
  fst (hask_ledger st hs k d) + ask_owed_at st k d = snd (hask_ledger st hs k d) + ask_owed_at (hrun st hs) k d /\
  fst (hbid_ledger st hs k d) + bid_owed_at st k d = snd (hbid_ledger st hs k d) + bid_owed_at (hrun st hs) k d.
Proof.
  induction hs as [|h hs IH]; intros st k d HI Hc; [split; reflexivity|].
  change (hrun st (h :: hs)) with (hrun (hstep st h) hs). destruct Hc as [Hc1 Hc2]. cbn [hask_ledger hbid_ledger].
  destruct h as [ev|e m]; cbn [hstep] in *.
  - destruct Hc1 as [Hc1 Hs]. unfold run_event in *.
    destruct (execute FX (ev_env ev) st (ev_sender ev) (ev_funds ev) (ev_msg ev)) as [[st' r]|t] eqn:E.
    + destruct (order_step _ _ _ _ _ _ _ HI Hc1 Hs E k d) as [SA SB].
      pose proof (Inv_step _ _ _ _ _ _ _ HI Hc1 E) as HI'. destruct (IH st' k d HI' Hc2) as [IA IB]. cbn [fst snd]. split; lia.
    + apply IH; auto.
  - destruct (migrate e st m) as [[st' r]|t] eqn:E; [|apply IH; auto].
    destruct (migrate_from_inv e st m st' r HI E) as (Ha & Hb & _ & HI'). destruct (IH st' k d (HI' Hc1) Hc2) as [IA IB].
    destruct (owed_at_same st st' k d Ha Hb) as [EA EB]. rewrite EA in IA. rewrite EB in IB. split; assumption.
Qed.

Theorem order_by_order_with_migrations e m st0 r0 hs k d :
  env_version_ok e -> instantiate e empty_state m = Ok (st0, r0) -> hclean st0 hs ->
  fst (hask_ledger st0 hs k d) = snd (hask_ledger st0 hs k d) + ask_owed_at (hrun st0 hs) k d /\
  fst (hbid_ledger st0 hs k d) = snd (hbid_ledger st0 hs k d) + bid_owed_at (hrun st0 hs) k d.
Proof.
  intros He Hi Hc. pose proof (Inv_init e m st0 r0 He Hi) as HI.
  destruct (horder_ledger_balances hs st0 k d HI Hc) as [A B].
  destruct (owed_at_init e m st0 r0 k d Hi) as [ZA ZB]. rewrite ZA in A. rewrite ZB in B. split; lia.
Qed.
