(* Frame: what an execute request leaves untouched (C11, C12). *)
From ATS Require Import Prelude Dec DecFacts Uuid Semver Types Contract Tactics Spec Inv.

Definition keys_ok (st : state) : Prop :=
  (forall k a, lookup k (st_asks st) = Some a -> a_id a = k) /\
  (forall k b, lookup k (st_bids st) = Some (SlotV3 b) -> b_id b = k).

Definition named_asks (m : emsg) : list string :=
  match m with
  | ApproveAsk id _ _ | CancelAsk id | CreateAsk id _ _ _ _ | ExpireAsk id | RejectAsk id _ => [id]
  | ExecuteMatch a _ _ _ => [a]
  | _ => []
  end.
Definition named_bids (m : emsg) : list string :=
  match m with
  | CancelBid id | CreateBid id _ _ _ _ _ _ | ExpireBid id | RejectBid id _ => [id]
  | ExecuteMatch _ b _ _ => [b]
  | _ => []
  end.
Definition is_modify (m : emsg) : bool := match m with ModifyContract _ => true | _ => false end.

Record framed (st st' : state) (m : emsg) : Prop := mkframed {
  fr_ver : st_ver st' = st_ver st;
  fr_cfg : is_modify m = false -> st_cfg st' = st_cfg st;
  fr_market : option_map market (st_cfg st') = option_map market (st_cfg st);
  fr_asks : forall k, ~ In k (named_asks m) -> lookup k (st_asks st') = lookup k (st_asks st);
  fr_bids : forall k, ~ In k (named_bids m) -> lookup k (st_bids st') = lookup k (st_bids st);
  fr_keys : keys_ok st' }.

Lemma lookup_upd_ne {V} k k' (v : V) (m : list (string * V)) (b : bool) :
  k <> k' -> lookup k (if b then remove k' m else insert k' v m) = lookup k m.
Proof. intros H. destruct b; [apply lookup_remove_ne|apply lookup_insert_ne]; exact H. Qed.

Lemma keys_ok_asks st m :
  keys_ok st -> (forall k a, lookup k m = Some a -> a_id a = k) -> keys_ok (set_asks st m).
Proof. intros [H1 H2] H. split; cbn; auto. Qed.
Lemma keys_ok_bids st m :
  keys_ok st -> (forall k b, lookup k m = Some (SlotV3 b) -> b_id b = k) -> keys_ok (set_bids st m).
Proof. intros [H1 H2] H. split; cbn; auto. Qed.

Lemma keys_upd_ask st k' a' (b : bool) :
  keys_ok st -> a_id a' = k' ->
  forall k a, lookup k (if b then remove k' (st_asks st) else insert k' a' (st_asks st)) = Some a -> a_id a = k.
Proof.
  intros [H1 _] Hid k a. destruct b.
  - rewrite lookup_remove. destruct (String.eqb k k'); [discriminate|]. apply H1.
  - rewrite lookup_insert. destruct (String.eqb_spec k k') as [->|]; [intros H; injection H as <-; exact Hid|apply H1].
Qed.
Lemma keys_upd_bid st k' b' (bb : bool) :
  keys_ok st -> b_id b' = k' ->
  forall k b, lookup k (if bb then remove k' (st_bids st) else insert k' (SlotV3 b') (st_bids st)) = Some (SlotV3 b) -> b_id b = k.
Proof.
  intros [_ H2] Hid k b. destruct bb.
  - rewrite lookup_remove. destruct (String.eqb k k'); [discriminate|]. apply H2.
  - rewrite lookup_insert. destruct (String.eqb_spec k k') as [->|]; [intros H; injection H as <-; exact Hid|apply H2].
Qed.

Lemma accumulate_id b x y z b' : accumulate b x y z = Ok b' -> b_id b' = b_id b.
Proof.
  unfold accumulate. intros H. bind_inv H ab Hab. bind_inv H af Haf. bind_inv H aq Haq. injection H as <-. reflexivity.
Qed.

Theorem execute_framed e st sender funds m st' r :
  keys_ok st -> execute FX e st sender funds m = Ok (st', r) -> framed st st' m.
Proof.
  intros HK H. pose proof H as H0. unfold execute in H. guard_inv H Hv. destruct m.
  - (* approve *)
    apply approve_ask_inv in H as (c & a & Hc & _ & _ & Hl & _ & _ & _ & -> & _).
    constructor; cbn; auto.
    + intros k Hk. apply lookup_insert_ne. intros ->. apply Hk. auto.
    + apply keys_ok_asks; [exact HK|]. apply (keys_upd_ask st id _ false HK). cbn. apply HK. exact Hl.
  - (* cancel ask *)
    apply cancel_ask_inv in H as (a & _ & Hl & _ & -> & _). assert (Hid : a_id a = id) by (apply HK; exact Hl).
    rewrite Hid. constructor; cbn; auto.
    + intros k Hk. apply lookup_remove_ne. intros ->. apply Hk. auto.
    + apply keys_ok_asks; [exact HK|]. apply (keys_upd_ask st id a true HK Hid).
  - (* cancel bid *)
    apply reverse_bid_inv in H as (c & b & rb & eff & p & tq & cq & back & b' & rb' & _ & _ & Hl & _ & _ & _ & _ & _ & _ & _ & _ & _ & _ & Hacc & _ & -> & _).
    assert (Hid : b_id b = id) by (apply HK; exact Hl). rewrite Hid. constructor; cbn; auto.
    + intros k Hk. apply lookup_upd_ne. intros ->. apply Hk. auto.
    + apply keys_ok_bids; [exact HK|]. apply (keys_upd_bid st id b' _ HK). apply accumulate_id in Hacc. congruence.
  - (* create ask *)
    apply create_ask_iff in H as (c & Hc & _ & -> & _). constructor; cbn; auto.
    + intros k Hk. apply lookup_insert_ne. intros ->. apply Hk. auto.
    + apply keys_ok_asks; [exact HK|]. apply (keys_upd_ask st id _ false HK). reflexivity.
  - (* create bid *)
    apply create_bid_inv in H as (c & p & total & dq & rate & calc & tot & _ & _ & _ & _ & _ & _ & _ & _ & _ & _ & _ & _ & _ & _ & _ & _ & -> & _).
    constructor; cbn; auto.
    + intros k Hk. apply lookup_insert_ne. intros ->. apply Hk. auto.
    + apply keys_ok_bids; [exact HK|]. apply (keys_upd_bid st id _ false HK). reflexivity.
  - (* match *)
    apply execute_match_inv in H as (c & a & b & ap & bp & xp & rb & gross_d & gross & af & bfee & fill & b' & rb' & imp &
      _ & _ & _ & Hla & Hlb & _ & _ & _ & _ & _ & _ & _ & _ & _ & _ & _ & _ & _ & _ & _ & _ & Hfill & Himp & _ & -> & _).
    assert (Hida : a_id a = ask_id) by (apply HK; exact Hla). assert (Hidb : b_id b = bid_id) by (apply HK; exact Hlb).
    assert (Hidb' : b_id b' = bid_id).
    { apply accumulate_id in Hfill. unfold improve_spec in Himp. destruct (dec_ltb xp bp).
      - destruct Himp as (og_d & diff & og & refund & ofee & _ & _ & _ & _ & _ & _ & _ & Hacc & _).
        apply accumulate_id in Hacc. congruence.
      - destruct Himp as [-> _]. congruence. }
    constructor; cbn; auto.
    + intros k Hk. apply lookup_upd_ne. intros ->. apply Hk. auto.
    + intros k Hk. apply lookup_upd_ne. intros ->. apply Hk. auto.
    + split; cbn.
      * apply (keys_upd_ask st ask_id _ _ HK). cbn. exact Hida.
      * apply (keys_upd_bid st bid_id _ _ HK). exact Hidb'.
  - (* expire ask *)
    apply reverse_ask_inv in H as (c & a & eff & _ & _ & _ & Hl & _ & _ & _ & -> & _).
    assert (Hid : a_id a = id) by (apply HK; exact Hl). rewrite Hid. constructor; cbn; auto.
    + intros k Hk. apply lookup_upd_ne. intros ->. apply Hk. auto.
    + apply keys_ok_asks; [exact HK|]. apply (keys_upd_ask st id _ _ HK). cbn. exact Hid.
  - (* expire bid *)
    apply reverse_bid_inv in H as (c & b & rb & eff & p & tq & cq & back & b' & rb' & _ & _ & Hl & _ & _ & _ & _ & _ & _ & _ & _ & _ & _ & Hacc & _ & -> & _).
    assert (Hid : b_id b = id) by (apply HK; exact Hl). rewrite Hid. constructor; cbn; auto.
    + intros k Hk. apply lookup_upd_ne. intros ->. apply Hk. auto.
    + apply keys_ok_bids; [exact HK|]. apply (keys_upd_bid st id b' _ HK). apply accumulate_id in Hacc. congruence.
  - (* reject ask *)
    apply reverse_ask_inv in H as (c & a & eff & _ & _ & _ & Hl & _ & _ & _ & -> & _).
    assert (Hid : a_id a = id) by (apply HK; exact Hl). rewrite Hid. constructor; cbn; auto.
    + intros k Hk. apply lookup_upd_ne. intros ->. apply Hk. auto.
    + apply keys_ok_asks; [exact HK|]. apply (keys_upd_ask st id _ _ HK). cbn. exact Hid.
  - (* reject bid *)
    apply reverse_bid_inv in H as (c & b & rb & eff & p & tq & cq & back & b' & rb' & _ & _ & Hl & _ & _ & _ & _ & _ & _ & _ & _ & _ & _ & Hacc & _ & -> & _).
    assert (Hid : b_id b = id) by (apply HK; exact Hl). rewrite Hid. constructor; cbn; auto.
    + intros k Hk. apply lookup_upd_ne. intros ->. apply Hk. auto.
    + apply keys_ok_bids; [exact HK|]. apply (keys_upd_bid st id b' _ HK). apply accumulate_id in Hacc. congruence.
  - (* modify *)
    apply modify_contract_inv in H0 as (c & af & bf & Hc & _ & _ & _ & _ & _ & _ & _ & _ & _ & _ & _ & _ & -> & _).
    constructor; cbn; auto.
    + discriminate.
    + rewrite Hc. reflexivity.
Qed.

Lemma InvAB_keys_ok st : InvA st -> InvB st -> keys_ok st.
Proof.
  intros HA HB. destruct (inv_cfg st HA) as (c & Hc & _). split.
  - intros k a Hl. apply (inv_asks st HA c k a Hc Hl).
  - intros k b Hl. destruct (inv_bids st HB c k _ Hc Hl) as (b0 & Hb0 & Hok). injection Hb0 as <-. apply Hok.
Qed.
