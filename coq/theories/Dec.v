(* Dec: executable model of the rust_decimal 1.29.0 operations the contract uses.
   Representation-level ports (mantissa < 2^96, scale 0..28, sign): from_str, checked_mul,
   checked_div (scale-0 operands), round_dp_with_strategy(0, MidpointAwayFromZero), Display.
   Value-level models: cmp/eq, fract-is-zero, to_u128, checked_sub.
   Definitions only; facts are in DecFacts.v.  Differentially tested against the crate on every run. *)
From ATS Require Import Prelude.

Record dec := mkdec { d_neg : bool; d_mant : N; d_scale : N }.

Definition B96 : N := 79228162514264337593543950336.   (* 2^96 *)
Definition pow10 (d : N) : N := 10 ^ d.

Definition dec_zero : dec := mkdec false 0 0.
Definition dec_of_N (n : N) : dec := mkdec false n 0.
(* Decimal::from(u128) / from_u128().unwrap(): panics at >= 2^96 *)
Definition dec_from_u128 (n : N) : option dec := if n <? B96 then Some (dec_of_N n) else None.

Definition dec_is_zero (a : dec) : bool := d_mant a =? 0.
Definition dec_is_neg (a : dec) : bool := d_neg a.       (* is_sign_negative: the flag, also for -0 *)

(* round half even of v / p *)
Definition rhe (v p : N) : N :=
  let q := v / p in let r := v mod p in
  if (p <? 2 * r) || ((2 * r =? p) && N.odd q) then q + 1 else q.
(* round half up (away from zero for non-negative) of v / p *)
Definition rhu (v p : N) : N :=
  let q := v / p in let r := v mod p in if p <=? 2 * r then q + 1 else q.

Fixpoint least_d (fuel : nat) (v d : N) : N :=
  match fuel with
  | O => d
  | S f => if v / pow10 d <? B96 then d else least_d f v (d + 1)
  end.

(* Buf24::rescale, spec form: least d >= max(0, s-28) with v / 10^d < 2^96, one half-even rounding,
   re-round on carry; None = overflow *)
Definition rescale (v s : N) : option (N * N) :=
  let d := least_d 64 v (s - 28) in
  if s <? d then None else
  if d =? 0 then Some (v, s) else
  let m := rhe v (pow10 d) in
  let sc := s - d in
  if m <? B96 then Some (m, sc) else
  if sc =? 0 then None else Some (rhe m 10, sc - 1).

Definition two32 : N := 4294967296.

Definition dec_mul (a b : dec) : option dec :=
  let m1 := d_mant a in let m2 := d_mant b in
  if (m1 =? 0) || (m2 =? 0) then Some dec_zero else
  let neg := xorb (d_neg a) (d_neg b) in
  let s := d_scale a + d_scale b in
  if (m1 <? two32) && (m2 <? two32) then
    let v := m1 * m2 in
    if 28 <? s then
      if 47 <? s then Some dec_zero
      else Some (mkdec neg (rhe v (pow10 (s - 28))) 28)
    else Some (mkdec neg v s)
  else
    match rescale (m1 * m2) s with
    | None => None
    | Some (m, sc) => Some (mkdec neg m sc)
    end.

(* ---- division of two scale-0, non-negative integers (the only use in the contract) ---- *)
Fixpoint find_scale_loop (fuel : nat) (q x : N) : N :=
  match fuel with
  | O => x
  | S f => if (0 <? x) && (B96 - 1 <? q * pow10 x) then find_scale_loop f q (x - 1) else x
  end.
Definition find_scale (q scale : N) : N :=
  let x := if 19 <? scale then N.min 9 (28 - scale) else 9 in
  find_scale_loop 10 q x.

Definition unscale_step (m scale k lowmask : N) : N * N :=
  if (N.land m lowmask =? 0) && (k <=? scale) && (m mod pow10 k =? 0)
  then (m / pow10 k, scale - k) else (m, scale).
Fixpoint unscale8 (fuel : nat) (m scale : N) : N * N :=
  match fuel with
  | O => (m, scale)
  | S f =>
    if (N.land m 4294967295 =? 0) && (8 <=? scale) && (m mod pow10 8 =? 0)
    then unscale8 f (m / pow10 8) (scale - 8) else (m, scale)
  end.
Definition unscale (m scale : N) : N * N :=
  let '(m, scale) := unscale8 4 m scale in
  let '(m, scale) := unscale_step m scale 4 15 in
  let '(m, scale) := unscale_step m scale 2 3 in
  unscale_step m scale 1 1.

(* loop state: quotient, remainder, scale.  result: Some (q, scale) or None (overflow) *)
Fixpoint div_loop (fuel : nat) (m2 q r scale : N) : option (N * N) :=
  match fuel with
  | O => None
  | S f =>
    if r =? 0 then Some (q, scale) else
    let k := if scale =? 28 then 0 else find_scale q scale in
    if k =? 0 then
      (* final half-even rounding on the remainder *)
      if (m2 <? 2 * r) || ((2 * r =? m2) && N.odd q) then
        let q1 := q + 1 in
        if q1 =? B96 then
          if scale =? 0 then None else
          let q2 := B96 / 10 in let rem := B96 mod 10 in
          Some ((if 5 <=? rem then q2 + 1 else q2), scale - 1)
        else Some (q1, scale)
      else Some (q, scale)
    else
      let q' := q * pow10 k in
      if B96 <=? q' then None else
      let scale' := scale + k in
      let rq := (r * pow10 k) / m2 in
      let r' := (r * pow10 k) mod m2 in
      let q'' := q' + rq in
      if B96 <=? q'' then
        if scale' =? 0 then None else
        let q3 := q'' / 10 in let rem := q'' mod 10 in
        Some ((if (5 <? rem) || ((rem =? 5) && (negb (r' =? 0) || N.odd q3)) then q3 + 1 else q3),
              scale' - 1)
      else div_loop f m2 q'' r' scale'
  end.

Definition dec_div_int (x y : N) : option dec :=
  if y =? 0 then None else
  if x =? 0 then Some dec_zero else
  let q := x / y in let r := x mod y in
  match div_loop 40 y q r 0 with
  | None => None
  | Some (q', sc) =>
    if r =? 0 then Some (mkdec false q' sc)
    else let '(m, s) := unscale q' sc in Some (mkdec false m s)
  end.

(* round_dp_with_strategy(0, MidpointAwayFromZero) *)
Definition dec_round0 (a : dec) : dec :=
  if d_scale a =? 0 then a else
  if d_mant a =? 0 then mkdec (d_neg a) 0 0 else
  let q := rhu (d_mant a) (pow10 (d_scale a)) in
  mkdec (if q =? 0 then false else d_neg a) q 0.

(* to_u128: None for a negative sign flag, otherwise the truncated integer part *)
Definition dec_to_u128 (a : dec) : option N :=
  if d_neg a then None else Some (d_mant a / pow10 (d_scale a)).

(* fract() != 0 *)
Definition dec_has_fract (a : dec) : bool := negb (d_mant a mod pow10 (d_scale a) =? 0).

(* numeric comparison (cmp / eq / ne / lt): by value, -0 = 0 *)
Definition dec_cmp (a b : dec) : comparison :=
  let va := d_mant a * pow10 (d_scale b) in
  let vb := d_mant b * pow10 (d_scale a) in
  let na := d_neg a && negb (d_mant a =? 0) in
  let nb := d_neg b && negb (d_mant b =? 0) in
  match na, nb with
  | false, false => va ?= vb
  | true, true => vb ?= va
  | true, false => Lt
  | false, true => Gt
  end.
Definition dec_eqb (a b : dec) : bool := match dec_cmp a b with Eq => true | _ => false end.
Definition dec_ltb (a b : dec) : bool := match dec_cmp a b with Lt => true | _ => false end.

(* checked_sub, value level, for a >= b >= 0 both integer-valued (its only use): result as an integer
   at scale 0; None when the model's precondition fails (negative result / operands not integral) *)
Definition dec_sub_int (a b : dec) : option dec :=
  if d_neg a || d_neg b || dec_has_fract a || dec_has_fract b then None else
  let ia := d_mant a / pow10 (d_scale a) in
  let ib := d_mant b / pow10 (d_scale b) in
  if ia <? ib then None else Some (dec_of_N (ia - ib)).

(* ---- from_str (str.rs parse_str_radix_10, rounding variant) ---- *)
Definition is_digit (c : N) : bool := (48 <=? c) && (c <=? 57).

Definition parse_round (neg point : bool) (data nxt scale : N) : option dec :=
  let dig := if is_digit nxt then Some (nxt - 48)
             else if nxt =? 95 then Some 0
             else if (nxt =? 46) && point then Some 0 else None in
  match dig with
  | None => None
  | Some dg =>
    if 5 <=? dg then
      let data1 := data + 1 in
      if B96 <=? data1 then
        if scale =? 0 then None
        else let d2 := (data1 + 4) / 10 in Some (mkdec (neg && negb (d2 =? 0)) d2 (scale - 1))
      else Some (mkdec (neg && negb (data1 =? 0)) data1 scale)
    else Some (mkdec (neg && negb (data =? 0)) data scale)
  end.

Fixpoint parse_loop (big neg : bool) (l : list N) (has point : bool) (data scale : N) : option dec :=
  match l with
  | [] => if has then Some (mkdec (neg && negb (data =? 0)) data scale) else None
  | c :: rest =>
    if is_digit c then
      let nd := data * 10 + (c - 48) in
      if B96 <=? nd then
        if point then parse_round neg point data c scale else None
      else
        let scale' := if point then scale + 1 else scale in
        match rest with
        | nxt :: _ =>
          if point && big && (28 <=? scale') then parse_round neg point nd nxt scale'
          else parse_loop big neg rest true point nd scale'
        | [] => parse_loop big neg rest true point nd scale'
        end
    else if (c =? 46) && negb point then parse_loop big neg rest has true data scale
    else if (c =? 95) && has then parse_loop big neg rest has point data scale
    else None
  end.

Definition dec_parse (s : string) : option dec :=
  let l := map code (chars s) in
  match l with
  | [] => None
  | c :: rest =>
    let big := 18 <=? N.of_nat (List.length l) in
    if c =? 45 then parse_loop big true rest false false 0 0
    else if c =? 43 then parse_loop big false rest false false 0 0
    else parse_loop big false l false false 0 0
  end.

(* ---- Display ---- *)
Fixpoint zeros (n : nat) : string := match n with O => "" | S k => String "0" (zeros k) end.
Definition dec_to_string (a : dec) : string :=
  let digits := if d_mant a =? 0 then "" else string_of_N (d_mant a) in
  let sc := N.to_nat (d_scale a) in
  let len := String.length digits in
  let padded := String.append (zeros (sc - len)) digits in
  let plen := String.length padded in
  let whole := substring 0 (plen - sc) padded in
  let frac := substring (plen - sc) sc padded in
  let body :=
    match sc with
    | O => if str_empty whole then "0" else whole
    | _ => String.append (if str_empty whole then "0" else whole) (String "." frac)
    end in
  if d_neg a then String "-" body else body.

(* exactness of a product (ghost, used only to state the known classes): the result carries the
   exact value of a*b *)
Definition mul_is_exact (a b r : dec) : bool :=
  d_mant r * pow10 (d_scale a + d_scale b) =? d_mant a * d_mant b * pow10 (d_scale r).
