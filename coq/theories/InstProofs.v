(* Proofs for C13 (instantiation) and C16 (queries). *)
From ATS Require Import Prelude Dec Uuid Semver Types Contract Tactics.
From Coq Require Import Btauto.
Ltac Zify.zify_post_hook ::= Z.div_mod_to_equations.

Definition is_some {A} (o : option A) : bool := match o with Some _ => true | None => false end.

(* a fee given as a rate and an account together: both empty = no fee, otherwise parseable rate and valid address *)
Definition fee_pair_coherent (e : env) (account rate : option string) : bool :=
  match account, rate with
  | Some a, Some r => (str_empty a && str_empty r) || (is_some (dec_parse r) && e_addr_ok e a)
  | None, None => true
  | _, _ => false
  end.
Definition fee_of_pair (account rate : option string) : option feeinfo :=
  match account, rate with
  | Some a, Some r => if str_empty a && str_empty r then None else Some (mkfee a r)
  | _, _ => None
  end.

Definition coherent (e : env) (m : instmsg) : bool :=
  negb (str_empty (i_name m)) && negb (str_empty (i_base m)) && negb (list_empty (i_quotes m))
  && negb (list_empty (i_executors m)) && (i_precision m <=? 18) && (1 <=? i_increment m)
  && (i_increment m mod 10 ^ i_precision m =? 0)
  && fee_pair_coherent e (i_afa m) (i_afr m) && fee_pair_coherent e (i_bfa m) (i_bfr m)
  && forallb (e_addr_ok e) (i_approvers m) && forallb (e_addr_ok e) (i_executors m).

Definition inst_cfg (m : instmsg) : cfg :=
  mkcfg (i_name m) "" (i_base m) (i_conv m) (i_quotes m) (i_approvers m) (i_executors m)
        (fee_of_pair (i_afa m) (i_afr m)) (fee_of_pair (i_bfa m) (i_bfr m))
        (i_aattrs m) (i_battrs m) (i_precision m) (i_increment m).

Lemma fee_pair_spec e a r :
  match fee_pair e None a r with
  | Ok f => fee_pair_coherent e a r = true /\ f = fee_of_pair a r
            \/ (match a, r with Some _, Some _ => False | None, None => False | _, _ => True end /\ f = None)
  | Refused _ => fee_pair_coherent e a r = false
  end.
Proof.
  unfold fee_pair, fee_pair_coherent, fee_of_pair.
  destruct a as [a|], r as [r|]; cbn; auto.
  destruct (str_empty a && str_empty r) eqn:E; cbn; [left; auto|].
  destruct (dec_parse r) as [d|]; cbn; [|reflexivity].
  destruct (e_addr_ok e a); cbn; [left; auto|reflexivity].
Qed.

Lemma is_ok_guard {A} b t (k : res A) : is_ok (bind (guard b t) (fun _ => k)) = b && is_ok k.
Proof. destruct b; reflexivity. Qed.
Lemma is_ok_bind_const {A B} (r : res A) (k : A -> res B) c :
  (forall x, is_ok (k x) = c) -> is_ok (bind r k) = is_ok r && c.
Proof. intros H. destruct r; cbn; [apply H|reflexivity]. Qed.
Lemma fee_pair_is_ok e cur a r :
  is_ok (fee_pair e cur a r) =
  match a, r with
  | Some a, Some r => (str_empty a && str_empty r) || (is_some (dec_parse r) && e_addr_ok e a)
  | _, _ => true
  end.
Proof.
  unfold fee_pair. destruct a as [a|], r as [r|]; try reflexivity.
  destruct (str_empty a && str_empty r); [reflexivity|]. cbn [orb].
  destruct (dec_parse r); cbn; [|reflexivity]. destruct (e_addr_ok e a); reflexivity.
Qed.

Lemma instantiate_iff e st m : is_ok (instantiate e st m) = coherent e m.
Proof.
  unfold instantiate, coherent.
  rewrite !is_ok_guard.
  erewrite is_ok_bind_const; cycle 1.
  { intros af. erewrite is_ok_bind_const; cycle 1.
    { intros bf. rewrite is_ok_guard. cbn [is_ok]. reflexivity. }
    reflexivity. }
  rewrite !fee_pair_is_ok.
  unfold validate_inst, addrs_ok, fee_pair_coherent, opt_pair_ok.
  destruct (i_afa m), (i_afr m), (i_bfa m), (i_bfr m); btauto.
Qed.

Lemma instantiate_stored e st m st' r :
  instantiate e st m = Ok (st', r) ->
  st' = mkstate (Some (inst_cfg m)) (Some (e_crate_name e, e_pkg_version e)) (st_asks st) (st_bids st)
  /\ r = mkresp [] [("action", "init")].
Proof.
  unfold instantiate. intros H. guard_inv H Hv. guard_inv H H1. guard_inv H H2.
  bind_inv H af Haf. bind_inv H bf Hbf. guard_inv H Hinc.
  injection H as <- <-.
  assert (Hp : opt_pair_ok (i_afr m) (i_afa m) = true /\ opt_pair_ok (i_bfr m) (i_bfa m) = true).
  { unfold validate_inst in Hv. repeat (apply andb_prop in Hv as [Hv ?]). auto. }
  destruct Hp as [Hpa Hpb].
  pose proof (fee_pair_spec e (i_afa m) (i_afr m)) as Ha. rewrite Haf in Ha.
  pose proof (fee_pair_spec e (i_bfa m) (i_bfr m)) as Hb. rewrite Hbf in Hb.
  unfold inst_cfg. split; [|reflexivity]. f_equal. f_equal. f_equal.
  - destruct Ha as [[_ ->]|[Hx ->]]; [reflexivity|]. unfold opt_pair_ok in Hpa.
    destruct (i_afa m), (i_afr m); try contradiction; discriminate.
  - destruct Hb as [[_ ->]|[Hx ->]]; [reflexivity|]. unfold opt_pair_ok in Hpb.
    destruct (i_bfa m), (i_bfr m); try contradiction; discriminate.
Qed.

(* ---- integrality: admissible price x admissible size is a whole number (pure number theory) ----
   A price m/10^s is within precision p when m*10^p is a multiple of 10^s. *)
Lemma integral_total m s p inc size :
  inc mod 10 ^ p = 0 -> size mod inc = 0 -> inc <> 0 ->
  (m * 10 ^ p) mod 10 ^ s = 0 ->
  (m * size) mod 10 ^ s = 0.
Proof.
  intros Hinc Hsize Hnz Hprice.
  assert (H10p : 10 ^ p <> 0) by (apply N.pow_nonzero; discriminate).
  assert (H10s : 10 ^ s <> 0) by (apply N.pow_nonzero; discriminate).
  apply N.mod_divide in Hinc; [|exact H10p]. apply N.mod_divide in Hsize; [|exact Hnz].
  apply N.mod_divide in Hprice; [|exact H10s]. apply N.mod_divide; [exact H10s|].
  destruct Hinc as [a Ha]. destruct Hsize as [b Hb]. destruct Hprice as [c Hc].
  exists (c * a * b). subst size inc.
  replace (m * (b * (a * 10 ^ p))) with ((m * 10 ^ p) * (a * b)) by ring.
  rewrite Hc. ring.
Qed.

(* ---- queries ---- *)
Lemma query_get_ask st id a :
  query st (GetAsk id) = Ok (QAsk a) <-> uuid_valid id = true /\ lookup id (st_asks st) = Some a.
Proof.
  unfold query, validate_query, load_ask. split.
  - intros H. guard_inv H Hv. bind_inv H a' Ha. injection H as <-. split; [exact Hv|apply of_opt_ok in Ha; exact Ha].
  - intros [-> ->]. reflexivity.
Qed.
Lemma query_get_bid st id b :
  query st (GetBid id) = Ok (QBid b) <-> uuid_valid id = true /\ lookup id (st_bids st) = Some (SlotV3 b).
Proof.
  unfold query, validate_query, load_bid. split.
  - intros H. guard_inv H Hv. bind_inv H b' Hb. injection H as <-. split; [exact Hv|].
    destruct (lookup id (st_bids st)) as [[x|x]|]; try discriminate. injection Hb as ->. reflexivity.
  - intros [-> ->]. reflexivity.
Qed.
Lemma query_ask_absent st id :
  lookup id (st_asks st) = None -> is_ok (query st (GetAsk id)) = false.
Proof. unfold query, load_ask. intros ->. destruct (guard _ _); reflexivity. Qed.
Lemma query_bid_absent st id :
  (forall b, lookup id (st_bids st) <> Some (SlotV3 b)) -> is_ok (query st (GetBid id)) = false.
Proof.
  unfold query, load_bid. intros H. destruct (guard _ _); [|reflexivity]. cbn [bind].
  destruct (lookup id (st_bids st)) as [[b|b]|]; try reflexivity. exfalso. eapply H. reflexivity.
Qed.
Lemma query_cfg st : query st GetContractInfo = match st_cfg st with Some c => Ok (QCfg c) | None => Refused 1 end.
Proof. unfold query, get_cfg. cbn. destruct (st_cfg st); reflexivity. Qed.
Lemma query_ver st :
  query st GetVersionInfo = match st_ver st with Some (d, v) => Ok (QVer d v) | None => Refused 64 end.
Proof. reflexivity. Qed.
