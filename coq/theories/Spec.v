(* Spec: characterising (inversion) lemmas for the contract functions with all repairs applied.
   Each is proved once by walking the guard chain; property proofs use these and never unfold the functions. *)
From ATS Require Import Prelude Dec Uuid Semver Types Contract Tactics.
Ltac Zify.zify_post_hook ::= Z.div_mod_to_equations.

Notation FX := all_fixes.

(* ---------------------------------------------------------------- transfers *)
Definition pay_msg (e : env) (amt : N) (d to : string) : msg :=
  if is_restricted e d then Xfer (e_self e) to (mkcoin amt d) (e_self e) else Bank to (mkcoin amt d).
Definition pull_msg (e : env) (amt : N) (d from : string) : msg := Xfer from (e_self e) (mkcoin amt d) (e_self e).

Lemma add_transfer_ok e r amt d to m :
  add_transfer e r amt d to = Ok m -> r = is_restricted e d ->
  m = pay_msg e amt d to /\ (is_restricted e d = true -> amt <> 0).
Proof.
  unfold add_transfer, pay_msg. intros H ->. destruct (is_restricted e d).
  - destruct (N.eqb_spec amt 0); [discriminate|]. injection H as <-. auto.
  - injection H as <-. split; [reflexivity|discriminate].
Qed.
Lemma pay_ok e amt d to m :
  pay e amt d to = Ok m -> m = pay_msg e amt d to /\ (is_restricted e d = true -> amt <> 0).
Proof. unfold pay. intros H. eapply add_transfer_ok; [exact H|reflexivity]. Qed.
Lemma pay_live e amt d to : amt <> 0 -> pay e amt d to = Ok (pay_msg e amt d to).
Proof.
  unfold pay, add_transfer, pay_msg. intros H. destruct (is_restricted e d); [|reflexivity].
  destruct (N.eqb_spec amt 0); [contradiction|reflexivity].
Qed.
Lemma pay_live_at e amt d to : amt <> 0 -> add_transfer e (is_restricted e d) amt d to = Ok (pay_msg e amt d to).
Proof. exact (pay_live e amt d to). Qed.
Lemma pull_in_ok e amt d from m : pull_in e amt d from = Ok m -> m = pull_msg e amt d from /\ amt <> 0.
Proof.
  unfold pull_in, pull_msg. destruct (N.eqb_spec amt 0); [discriminate|]. intros H. injection H as <-. auto.
Qed.

Lemma get_cfg_ok st c : get_cfg st = Ok c -> st_cfg st = Some c.
Proof. apply of_opt_ok. Qed.
Lemma load_ask_ok st k a : load_ask st k = Ok a -> lookup k (st_asks st) = Some a.
Proof. apply of_opt_ok. Qed.
Lemma load_bid_ok st k b : load_bid st k = Ok b -> lookup k (st_bids st) = Some (SlotV3 b).
Proof.
  unfold load_bid. destruct (lookup k (st_bids st)) as [[b'|b2]|]; try discriminate.
  intros H. injection H as ->. reflexivity.
Qed.
Lemma list_empty_nil {A} (l : list A) : list_empty l = true -> l = [].
Proof. destruct l; [reflexivity|discriminate]. Qed.
Lemma checked_sub_ok a b t c : checked_sub a b t = Ok c -> b <= a /\ c = a - b.
Proof. unfold checked_sub. destruct (N.leb_spec b a) as [Hle|Hgt]; [|discriminate]. intros H. injection H as <-. auto. Qed.
Lemma checked_add_ok a b c : checked_add a b = Ok c -> c = a + b /\ a + b <= U128MAX.
Proof. unfold checked_add. destruct (N.leb_spec (a + b) U128MAX) as [Hle|Hgt]; [|discriminate]. intros H. injection H as <-. auto. Qed.

(* ---------------------------------------------------------------- cancel_ask *)
Definition ask_exit_msgs (e : env) (a : ask) (amt : N) (camt : N) : list msg :=
  pay_msg e amt (a_base a) (a_owner a) ::
  match a_class a with Ready ap cb => [pay_msg e camt (c_denom cb) ap] | _ => [] end.

Lemma cancel_ask_inv e st sender funds id st' r :
  cancel_ask e st sender funds id = Ok (st', r) ->
  exists a, funds = [] /\ lookup id (st_asks st) = Some a /\ sender = a_owner a /\
    st' = set_asks st (remove (a_id a) (st_asks st)) /\
    r = mkresp (ask_exit_msgs e a (a_size a) (match a_class a with Ready _ cb => c_amt cb | _ => 0 end))
               [("action", "cancel_ask"); ("id", a_id a)].
Proof.
  unfold cancel_ask. intros H. guard_inv H Hf. bind_inv H a Ha. guard_inv H Ho. bind_inv H m1 H1.
  apply pay_ok in H1 as [-> _]. apply load_ask_ok in Ha. apply String.eqb_eq in Ho. apply list_empty_nil in Hf.
  exists a. unfold ask_exit_msgs.
  destruct (a_class a) as [| |ap cb]; cbn [bind] in H.
  - injection H as <- <-. auto.
  - injection H as <- <-. auto.
  - bind_inv H ms Hms. bind_inv Hms m2 H2. apply pay_ok in H2 as [-> _]. injection Hms as <-.
    injection H as <- <-. auto.
Qed.

(* ---------------------------------------------------------------- reverse_ask *)
Definition ask_after (a : ask) (size' : N) : ask :=
  mkask (a_id a) (a_owner a)
        (match a_class a with Ready ap cb => Ready ap (mkcoin size' (c_denom cb)) | x => x end)
        (a_base a) (a_quote a) (a_price a) size'.
Definition reverse_attrs (action id : string) (eff : N) (open : bool) : list (string * string) :=
  [("action", action); ("id", id); ("reverse_size", show_N eff); ("order_open", bool_str open)].

Lemma reverse_ask_inv e st sender funds id action csz st' r :
  reverse_ask FX e st sender funds id action csz = Ok (st', r) ->
  exists c a eff,
    funds = [] /\ st_cfg st = Some c /\ In sender (cf_executors c) /\ lookup id (st_asks st) = Some a /\
    eff = match csz with None => a_size a | Some s => s end /\
    (forall s, csz = Some s -> s mod cf_increment c = 0) /\
    eff <= a_size a /\
    st' = set_asks st (if a_size a - eff =? 0 then remove (a_id a) (st_asks st)
                       else insert (a_id a) (ask_after a (a_size a - eff)) (st_asks st)) /\
    r = mkresp (ask_exit_msgs e a eff eff) (reverse_attrs action id eff (negb (a_size a - eff =? 0))).
Proof.
  unfold reverse_ask. intros H. guard_inv H Hid. guard_inv H Hf. bind_inv H c Hc. guard_inv H Hex.
  bind_inv H a Ha. guard_inv H Hlot. bind_inv H size' Hs. bind_inv H m1 H1.
  apply pay_ok in H1 as [-> _]. apply load_ask_ok in Ha. apply get_cfg_ok in Hc. apply mem_In in Hex.
  apply list_empty_nil in Hf. apply checked_sub_ok in Hs as [Hle ->].
  exists c, a, (match csz with None => a_size a | Some s => s end).
  assert (Hl : forall s, csz = Some s -> s mod cf_increment c = 0).
  { intros s ->. unfold lot_ok in Hlot. cbn in Hlot. apply N.eqb_eq. exact Hlot. }
  unfold ask_exit_msgs, ask_after. cbn [fix_reject_converted all_fixes] in H.
  destruct (a_class a) as [| |ap cb]; cbn [bind] in H.
  - injection H as <- <-. destruct (a_size a - _ =? 0); cbn [negb]; repeat split; auto.
  - injection H as <- <-. destruct (a_size a - _ =? 0); cbn [negb]; repeat split; auto.
  - bind_inv H ms Hms. bind_inv Hms m2 H2. apply pay_ok in H2 as [-> _]. injection Hms as <-.
    injection H as <- <-.
    destruct (a_size a - _ =? 0); cbn [negb]; repeat split; auto.
Qed.

(* ---------------------------------------------------------------- reverse_bid *)
Definition fee_back (b : bid) (cq : N) (back : option N) : Prop :=
  match b_fee b with
  | None => back = None
  | Some f => exists rq keep rf,
      remaining_quote b = Ok rq /\ cq <= rq /\ fee_for_rest b (c_amt f) (rq - cq) = Ok keep /\
      remaining_fee b = Ok rf /\ keep <= rf /\ back = Some (rf - keep)
  end.
Definition bid_exit_msgs (e : env) (b : bid) (cq : N) (back : option N) : list msg :=
  pay_msg e cq (c_denom (b_quote b)) (b_owner b) ::
  match back with
  | Some x => if 0 <? x then [pay_msg e x (c_denom (b_quote b)) (b_owner b)] else []
  | None => []
  end.

Lemma reverse_bid_inv e st sender funds id action is_cancel csz st' r :
  reverse_bid FX e st sender funds id action is_cancel csz = Ok (st', r) ->
  exists c b rb eff p tq cq back b' rb',
    funds = [] /\ st_cfg st = Some c /\ lookup id (st_bids st) = Some (SlotV3 b) /\
    (if is_cancel then sender = b_owner b else In sender (cf_executors c)) /\
    remaining_base b = Ok rb /\ eff = match csz with None => rb | Some s => s end /\
    (forall s, csz = Some s -> s mod cf_increment c = 0) /\ eff <= rb /\
    dec_parse (b_price b) = Some p /\ mul_size p eff = Ok tq /\ dec_has_fract tq = false /\
    dec_to_u128 tq = Some cq /\ fee_back b cq back /\
    accumulate b eff cq back = Ok b' /\ remaining_base b' = Ok rb' /\
    st' = set_bids st (if rb' =? 0 then remove (b_id b) (st_bids st)
                       else insert (b_id b) (SlotV3 b') (st_bids st)) /\
    r = mkresp (bid_exit_msgs e b cq back) (reverse_attrs action id eff (negb (rb' =? 0))).
Proof.
  unfold reverse_bid. intros H. guard_inv H Hid. guard_inv H Hf. bind_inv H c Hc. bind_inv H b Hb.
  guard_inv H Hau. bind_inv H rb Hrb. guard_inv H Hlot. guard_inv H Hle. bind_inv H p Hp.
  bind_inv H tq Htq. guard_inv H Hfr. bind_inv H cq Hcq. bind_inv H cf Hcf. bind_inv H b' Hb'.
  bind_inv H m1 H1. bind_inv H ms Hms. bind_inv H rb' Hrb'.
  apply pay_ok in H1 as [-> _]. apply get_cfg_ok in Hc. apply load_bid_ok in Hb.
  apply list_empty_nil in Hf. apply of_opt_ok in Hp. apply of_opt_ok in Hcq. apply N.leb_le in Hle.
  apply negb_true_iff in Hfr.
  exists c, b, rb, (match csz with None => rb | Some s => s end), p, tq, cq, cf, b', rb'.
  assert (Hau' : if is_cancel then sender = b_owner b else In sender (cf_executors c)).
  { destruct is_cancel; [apply String.eqb_eq; exact Hau|apply mem_In; exact Hau]. }
  assert (Hl : forall s, csz = Some s -> s mod cf_increment c = 0).
  { intros s ->. unfold lot_ok in Hlot. cbn in Hlot. apply N.eqb_eq. exact Hlot. }
  assert (Hfb : fee_back b cq cf).
  { unfold fee_back. destruct (b_fee b) as [f|].
    - bind_inv Hcf rq Hrq. bind_inv Hcf rest Hrest. bind_inv Hcf keep Hkeep. bind_inv Hcf rf Hrf.
      bind_inv Hcf back Hback. injection Hcf as <-.
      apply checked_sub_ok in Hrest as [Hle1 ->]. apply checked_sub_ok in Hback as [Hle2 ->].
      exists rq, keep, rf. auto 10.
    - injection Hcf as <-. reflexivity. }
  assert (Hm : ms = bid_exit_msgs e b cq cf).
  { unfold bid_exit_msgs. destruct cf as [back|].
    - destruct (0 <? back).
      + bind_inv Hms m2 H2. apply pay_ok in H2 as [-> _]. injection Hms as <-. reflexivity.
      + injection Hms as <-. reflexivity.
    - injection Hms as <-. reflexivity. }
  subst ms. injection H as <- <-.
  destruct (rb' =? 0); cbn [negb]; repeat split; auto.
Qed.

(* ---------------------------------------------------------------- execute_match *)
Definition ask_fee_spec (c : cfg) (gross_d : dec) (af : N) : Prop :=
  match cf_ask_fee c with
  | Some fi => exists r, dec_parse (f_rate fi) = Some r /\ rate_fee r gross_d = Ok af
  | None => af = 0
  end.
Definition fee_acct (f : option feeinfo) : string := match f with Some fi => f_account fi | None => "" end.
Definition m_ask_fee (e : env) (c : cfg) (qd : string) (af : N) : list msg :=
  if af =? 0 then [] else [pay_msg e af qd (fee_acct (cf_ask_fee c))].
Definition m_bid_fee (e : env) (c : cfg) (qd : string) (bfee : option N) : list msg :=
  match bfee with Some f => [pay_msg e f qd (fee_acct (cf_bid_fee c))] | None => [] end.
Definition m_net (e : env) (qd to : string) (net : N) : list msg :=
  if net =? 0 then [] else [pay_msg e net qd to].
Definition m_settle (e : env) (a : ask) (b : bid) (size net : N) : list msg :=
  let qd := c_denom (b_quote b) in
  match a_class a with
  | Basic => m_net e qd (a_owner a) net ++ [pay_msg e size (a_base a) (b_owner b)]
  | Ready apr cb => [pay_msg e size (c_denom cb) (b_owner b); pay_msg e size (a_base a) apr] ++ m_net e qd apr net
  | Pending => []
  end.
Definition fee_refund_of (bfee ofee : option N) : option N :=
  match ofee with
  | Some o => if 0 <? o - opt_amt bfee then Some (o - opt_amt bfee) else None
  | None => None
  end.
Definition m_refund (e : env) (b : bid) (refund : N) (frefund : option N) : list msg :=
  let qd := c_denom (b_quote b) in
  if 0 <? refund then
    pay_msg e refund qd (b_owner b) :: match frefund with Some fr => [pay_msg e fr qd (b_owner b)] | None => [] end
  else [].
(* the price-improvement part: Some (og, refund, ofee) when executed below the bid's limit *)
Definition improve_spec (b : bid) (bp xp : dec) (size : N) (gross_d : dec) (bfee : option N) (fill b' : bid)
           (imp : option (N * N * option N)) : Prop :=
  if dec_ltb xp bp then
    exists og_d diff og refund ofee,
      mul_size bp size = Ok og_d /\ dec_has_fract og_d = false /\ dec_sub_int og_d gross_d = Some diff /\
      dec_to_u128 diff = Some refund /\ dec_to_u128 og_d = Some og /\ calculate_fee b og = Ok ofee /\
      (forall o, ofee = Some o -> opt_amt bfee <= o) /\
      accumulate fill 0 refund (fee_refund_of bfee ofee) = Ok b' /\ imp = Some (og, refund, ofee)
  else b' = fill /\ imp = None.
Definition match_attrs (ask_id bid_id : string) (a : ask) (b : bid) (xp : dec) (size af : N) (bfee : option N)
  : list (string * string) :=
  [("action", "execute"); ("ask_id", ask_id); ("bid_id", bid_id); ("base", c_denom (b_base b));
   ("quote", a_quote a); ("price", dec_to_string xp); ("size", show_N size); ("ask_fee", show_N af);
   ("bid_fee", show_N (opt_amt bfee))].

Lemma add_transfer_ok' e amt d to m :
  add_transfer e (is_restricted e d) amt d to = Ok m -> m = pay_msg e amt d to.
Proof. intros H. eapply add_transfer_ok in H as [-> _]; reflexivity. Qed.

Lemma execute_match_inv e st sender funds ask_id bid_id price size st' r :
  execute_match FX e st sender funds ask_id bid_id price size = Ok (st', r) ->
  exists c a b ap bp xp rb gross_d gross af bfee fill b' rb' imp,
    st_cfg st = Some c /\ In sender (cf_executors c) /\ funds = [] /\
    lookup ask_id (st_asks st) = Some a /\ lookup bid_id (st_bids st) = Some (SlotV3 b) /\
    a_quote a = c_denom (b_quote b) /\
    dec_parse (a_price a) = Some ap /\ dec_parse (b_price b) = Some bp /\ dec_parse price = Some xp /\
    price_rule ap bp xp = true /\ remaining_base b = Ok rb /\ size <= a_size a /\ size <= rb /\
    mul_size xp size = Ok gross_d /\ dec_has_fract gross_d = false /\ dec_to_u128 gross_d = Some gross /\
    ask_fee_spec c gross_d af /\ af <= gross /\
    calculate_fee b gross = Ok bfee /\ (bfee <> None -> cf_bid_fee c <> None) /\
    a_class a <> Pending /\
    accumulate b size gross bfee = Ok fill /\
    improve_spec b bp xp size gross_d bfee fill b' imp /\
    remaining_base b' = Ok rb' /\
    st' = mkstate (st_cfg st) (st_ver st)
            (if a_size a - size =? 0 then remove ask_id (st_asks st)
             else insert ask_id (ask_after a (a_size a - size)) (st_asks st))
            (if rb' =? 0 then remove bid_id (st_bids st) else insert bid_id (SlotV3 b') (st_bids st)) /\
    r = mkresp (m_ask_fee e c (c_denom (b_quote b)) af ++ m_bid_fee e c (c_denom (b_quote b)) bfee ++
                m_settle e a b size (gross - af) ++
                match imp with Some (_, refund, ofee) => m_refund e b refund (fee_refund_of bfee ofee) | None => [] end)
               (match_attrs ask_id bid_id a b xp size af bfee).
Proof.
  unfold execute_match. intros H. bind_inv H c Hc. guard_inv H Hex. guard_inv H Hf. bind_inv H a Ha.
  bind_inv H b Hb. guard_inv H Hq. bind_inv H ap Hap. bind_inv H bp Hbp. bind_inv H xp Hxp.
  guard_inv H Hpr. bind_inv H rb Hrb. guard_inv H Hsz. bind_inv H gross_d Hg. guard_inv H Hfr.
  bind_inv H gross Hgr. bind_inv H af Haf. bind_inv H maf Hmaf. bind_inv H net Hnet.
  bind_inv H bfee Hbfee. bind_inv H mbf Hmbf. bind_inv H mset Hmset. bind_inv H fill Hfill.
  bind_inv H rr Hrr. destruct rr as [b' mref]. bind_inv H rb' Hrb'. injection H as <- <-.
  apply get_cfg_ok in Hc. apply mem_In in Hex. apply list_empty_nil in Hf. apply load_ask_ok in Ha.
  apply load_bid_ok in Hb. apply String.eqb_eq in Hq. apply of_opt_ok in Hap, Hbp, Hxp, Hgr.
  apply andb_prop in Hsz as [Hs1 Hs2]. apply N.leb_le in Hs1, Hs2. apply negb_true_iff in Hfr.
  apply checked_sub_ok in Hnet as [Hafle ->].
  set (qd := c_denom (b_quote b)) in *.
  assert (Hafs : ask_fee_spec c gross_d af /\ maf = m_ask_fee e c qd af).
  { unfold ask_fee_spec, m_ask_fee. destruct (cf_ask_fee c) as [fi|].
    - bind_inv Haf rt Hrt. apply of_opt_ok in Hrt. split; [eauto|]. cbn [fee_acct].
      destruct (af =? 0); [injection Hmaf as <-; reflexivity|].
      bind_inv Hmaf m Hm. apply add_transfer_ok' in Hm as ->. injection Hmaf as <-. reflexivity.
    - injection Haf as <-. injection Hmaf as <-. auto. }
  destruct Hafs as [Hafs ->].
  assert (Hbf : (bfee <> None -> cf_bid_fee c <> None) /\ mbf = m_bid_fee e c qd bfee).
  { unfold m_bid_fee. destruct bfee as [f|].
    - destruct (cf_bid_fee c) as [fi|]; [|discriminate].
      bind_inv Hmbf m Hm. apply add_transfer_ok' in Hm as ->. injection Hmbf as <-. split; [discriminate|reflexivity].
    - injection Hmbf as <-. split; [congruence|reflexivity]. }
  destruct Hbf as [Hbfa ->].
  assert (Hset : a_class a <> Pending /\ mset = m_settle e a b size (gross - af)).
  { unfold m_settle, m_net, skip_zero in *. cbn [fix_zero_net fix_conv_marker all_fixes andb] in Hmset. fold qd.
    destruct (a_class a) as [| |apr cb].
    - bind_inv Hmset mn Hmn. bind_inv Hmset mb Hmb. apply add_transfer_ok' in Hmb as ->. injection Hmset as <-.
      split; [discriminate|]. destruct (gross - af =? 0); [injection Hmn as <-; reflexivity|].
      bind_inv Hmn m Hm. apply add_transfer_ok' in Hm as ->. injection Hmn as <-. reflexivity.
    - discriminate.
    - bind_inv Hmset m1 H1. bind_inv Hmset m2 H2. bind_inv Hmset mn Hmn.
      apply add_transfer_ok' in H1 as ->. apply add_transfer_ok' in H2 as ->. injection Hmset as <-.
      split; [discriminate|]. destruct (gross - af =? 0); [injection Hmn as <-; reflexivity|].
      bind_inv Hmn m Hm. apply add_transfer_ok' in Hm as ->. injection Hmn as <-. reflexivity. }
  destruct Hset as [Hnp ->].
  assert (Himp : exists imp, improve_spec b bp xp size gross_d bfee fill b' imp /\
            mref = match imp with Some (_, refund, ofee) => m_refund e b refund (fee_refund_of bfee ofee) | None => [] end).
  { unfold improve_spec. destruct (dec_ltb xp bp).
    - bind_inv Hrr og_d Hog. guard_inv Hrr Hofr. bind_inv Hrr diff Hdiff. bind_inv Hrr refund Href.
      bind_inv Hrr og Hogu. bind_inv Hrr ofee Hofee. bind_inv Hrr frefund Hfre. bind_inv Hrr mr Hmr.
      bind_inv Hrr b'' Hb''. injection Hrr as <- <-.
      apply negb_true_iff in Hofr. apply of_opt_ok in Hdiff, Href, Hogu.
      assert (Hfr2 : (forall o, ofee = Some o -> opt_amt bfee <= o) /\ frefund = fee_refund_of bfee ofee).
      { unfold fee_refund_of. cbn [fix_zero_fee_refund all_fixes] in Hfre.
        destruct bfee as [act|], ofee as [o|]; cbn [opt_amt].
        - bind_inv Hfre d Hd. apply checked_sub_ok in Hd as [Hle ->]. injection Hfre as <-.
          split; [intros o' Ho'; injection Ho' as <-; exact Hle|reflexivity].
        - injection Hfre as <-. split; [discriminate|reflexivity].
        - injection Hfre as <-. rewrite N.sub_0_r.
          unfold calculate_fee in Hofee. destruct (b_fee b) as [f|]; [|discriminate].
          bind_inv Hofee rq Hrq. bind_inv Hofee rest Hrest. bind_inv Hofee keep Hkeep. bind_inv Hofee rf Hrf.
          bind_inv Hofee due Hdue. injection Hofee as Ho. destruct (0 <? due) eqn:Hpos; [|discriminate].
          injection Ho as <-. rewrite Hpos. split; [intros; lia|reflexivity].
        - injection Hfre as <-. split; [discriminate|reflexivity]. }
      destruct Hfr2 as [Hle ->].
      exists (Some (og, refund, ofee)). split.
      + exists og_d, diff, og, refund, ofee. auto 12.
      + unfold m_refund. fold qd. destruct (0 <? refund); [|injection Hmr as <-; reflexivity].
        bind_inv Hmr m1 H1. apply add_transfer_ok' in H1 as ->.
        destruct (fee_refund_of bfee ofee) as [fr|].
        * bind_inv Hmr m2 H2. apply add_transfer_ok' in H2 as ->. injection Hmr as <-. reflexivity.
        * injection Hmr as <-. reflexivity.
    - injection Hrr as <- <-. exists None. auto. }
  destruct Himp as (imp & Himp & ->).
  exists c, a, b, ap, bp, xp, rb, gross_d, gross, af, bfee, fill, b', rb', imp.
  unfold ask_after. repeat split; auto.
Qed.

(* ---------------------------------------------------------------- approve_ask *)
Definition funds_rule (e : env) (funds : list coin) (amt : N) (d : string) : Prop :=
  if is_restricted e d then funds = [] else funds = [mkcoin amt d].
Lemma coin_eqb_eq a b : coin_eqb a b = true -> a = b.
Proof.
  unfold coin_eqb. intros H. apply andb_prop in H as [H1 H2]. apply N.eqb_eq in H1. apply String.eqb_eq in H2.
  destruct a, b; cbn in *; subst; reflexivity.
Qed.
Lemma coins_eqb_eq a b : coins_eqb a b = true -> a = b.
Proof.
  revert b. induction a as [|x a IH]; intros [|y b] H; cbn in H; try discriminate; [reflexivity|].
  apply andb_prop in H as [H1 H2]. apply coin_eqb_eq in H1. apply IH in H2. subst. reflexivity.
Qed.
Lemma coins_eqb_refl a : coins_eqb a a = true.
Proof.
  induction a as [|x a IH]; [reflexivity|]. cbn. rewrite IH. unfold coin_eqb.
  rewrite N.eqb_refl, String.eqb_refl. reflexivity.
Qed.
Lemma funds_ok_rule e funds amt d : funds_ok (is_restricted e d) funds amt d = true <-> funds_rule e funds amt d.
Proof.
  unfold funds_ok, funds_rule. destruct (is_restricted e d).
  - split; [apply list_empty_nil|intros ->; reflexivity].
  - split; [apply coins_eqb_eq|intros ->; apply coins_eqb_refl].
Qed.
Definition pull_msgs (e : env) (amt : N) (d from : string) : list msg :=
  if is_restricted e d then [pull_msg e amt d from] else [].
Lemma pull_msgs_ok e amt d from ms :
  (if is_restricted e d then do m <- pull_in e amt d from; Ok [m] else Ok []) = Ok ms ->
  ms = pull_msgs e amt d from.
Proof.
  unfold pull_msgs. destruct (is_restricted e d).
  - intros H. bind_inv H m Hm. apply pull_in_ok in Hm as [-> _]. injection H as <-. reflexivity.
  - intros H. injection H as <-. reflexivity.
Qed.

Definition approve_attrs (a : ask) : list (string * string) :=
  [("action", "approve_ask"); ("id", a_id a); ("class", class_json (a_class a)); ("quote", a_quote a);
   ("price", a_price a); ("size", show_N (a_size a))].
Definition approved (a : ask) (sender base : string) : ask :=
  mkask (a_id a) (a_owner a) (Ready sender (mkcoin (a_size a) base)) (a_base a) (a_quote a) (a_price a) (a_size a).

Lemma approve_ask_inv e st sender funds id base size st' r :
  approve_ask e st sender funds id base size = Ok (st', r) ->
  exists c a,
    st_cfg st = Some c /\ In sender (cf_approvers c) /\ funds_rule e funds size base /\
    lookup id (st_asks st) = Some a /\ a_class a = Pending /\ size = a_size a /\ base = cf_base c /\
    st' = set_asks st (insert id (approved a sender base) (st_asks st)) /\
    r = mkresp (pull_msgs e size base sender) (approve_attrs (approved a sender base)).
Proof.
  unfold approve_ask. intros H. bind_inv H c Hc. guard_inv H Hap. guard_inv H Hfu. bind_inv H a Ha.
  guard_inv H Hcl. guard_inv H Hsz. bind_inv H ms Hms. injection H as <- <-.
  apply get_cfg_ok in Hc. apply mem_In in Hap. apply funds_ok_rule in Hfu. apply load_ask_ok in Ha.
  apply andb_prop in Hsz as [Hs Hb]. apply N.eqb_eq in Hs. apply String.eqb_eq in Hb.
  apply pull_msgs_ok in Hms. subst ms size.
  exists c, a. unfold approved, approve_attrs. cbn [a_id a_class a_quote a_price a_size].
  destruct (a_class a); try discriminate. repeat split; auto.
Qed.

(* ---------------------------------------------------------------- create_ask *)
Definition new_ask (c : cfg) (sender id base quote price : string) (size : N) : ask :=
  mkask id sender (if String.eqb base (cf_base c) then Basic else Pending) base quote price size.
Definition create_ask_attrs (c : cfg) (a : ask) : list (string * string) :=
  [("action", "create_ask"); ("id", a_id a); ("class", class_json (a_class a)); ("target_base", cf_base c);
   ("base", a_base a); ("quote", a_quote a); ("price", a_price a); ("size", show_N (a_size a))].
Definition ask_admissible (e : env) (c : cfg) (st : state) (sender : string) (funds : list coin)
           (id base quote price : string) (size : N) : Prop :=
  (base = cf_base c \/ In base (cf_conv c)) /\ funds_rule e funds size base /\ In quote (cf_quotes c) /\
  size mod cf_increment c = 0 /\ (exists p, valid_price price (cf_precision c) = Ok p) /\
  has_attrs e (cf_ask_attrs c) sender = true /\ lookup id (st_asks st) = None.

Lemma create_ask_iff e st sender funds id base quote price size st' r :
  create_ask e st sender funds id base quote price size = Ok (st', r) <->
  exists c, st_cfg st = Some c /\ ask_admissible e c st sender funds id base quote price size /\
    st' = set_asks st (insert id (new_ask c sender id base quote price size) (st_asks st)) /\
    r = mkresp (pull_msgs e size base sender) (create_ask_attrs c (new_ask c sender id base quote price size)) /\
    (is_restricted e base = true -> size <> 0).
Proof.
  unfold create_ask, ask_admissible. split.
  - intros H. bind_inv H c Hc. guard_inv H Hb. guard_inv H Hfu. guard_inv H Hq. guard_inv H Hlot.
    bind_inv H p Hp. guard_inv H Hat. guard_inv H Hdup. bind_inv H ms Hms. injection H as <- <-.
    apply get_cfg_ok in Hc. apply funds_ok_rule in Hfu. apply mem_In in Hq. apply N.eqb_eq in Hlot.
    assert (Hnz : is_restricted e base = true -> size <> 0).
    { intros Hr. rewrite Hr in Hms. bind_inv Hms m Hm. apply pull_in_ok in Hm as [_ Hm]. exact Hm. }
    apply pull_msgs_ok in Hms. subst ms.
    exists c. split; [exact Hc|]. split; [|unfold new_ask, create_ask_attrs; cbn; auto].
    split. { apply orb_prop in Hb as [Hb|Hb]; [left; apply String.eqb_eq; exact Hb|right; apply mem_In; exact Hb]. }
    repeat split; eauto. destruct (lookup id (st_asks st)); [discriminate|reflexivity].
  - intros (c & Hc & (Hb & Hfu & Hq & Hlot & (p & Hp) & Hat & Hdup) & -> & -> & Hnz).
    unfold get_cfg. rewrite Hc. cbn [of_opt bind].
    assert (Hb' : String.eqb base (cf_base c) || mem base (cf_conv c) = true).
    { destruct Hb as [->|Hb]; [rewrite String.eqb_refl; reflexivity|apply mem_In in Hb; rewrite Hb; apply orb_true_r]. }
    rewrite Hb'. cbn [guard bind]. apply funds_ok_rule in Hfu. rewrite Hfu. cbn [guard bind].
    apply mem_In in Hq. rewrite Hq. cbn [guard bind]. apply N.eqb_eq in Hlot. rewrite Hlot. cbn [guard bind].
    rewrite Hp. cbn [bind]. rewrite Hat. cbn [guard bind]. rewrite Hdup. cbn [guard bind].
    unfold pull_msgs, new_ask, create_ask_attrs. cbn [a_id a_class a_base a_quote a_price a_size].
    destruct (is_restricted e base) eqn:Hr; [|reflexivity].
    unfold pull_in. destruct (N.eqb_spec size 0) as [Hz|_]; [exfalso; apply Hnz; auto|]. reflexivity.
Qed.

(* ---------------------------------------------------------------- create_bid *)
Definition fee_amt (fee : option coin) : N := match fee with Some f => c_amt f | None => 0 end.
Definition new_bid (sender id base : string) (fee : option coin) (price quote : string) (qsize size : N) : bid :=
  mkbid (mkcoin size base) 0 0 0 fee id sender price (mkcoin qsize quote).
Definition create_bid_attrs (b : bid) : list (string * string) :=
  [("action", "create_bid"); ("base", c_denom (b_base b)); ("id", b_id b);
   ("fee", match b_fee b with Some f => coin_debug f | None => "None" end);
   ("price", b_price b); ("quote", c_denom (b_quote b)); ("quote_size", show_N (c_amt (b_quote b)));
   ("size", show_N (c_amt (b_base b)))].
Definition bid_rate (c : cfg) : option dec :=
  match cf_bid_fee c with Some f => dec_parse (f_rate f) | None => Some dec_zero end.

Lemma create_bid_inv e st sender funds id base fee price quote qsize size st' r :
  create_bid e st sender funds id base fee price quote qsize size = Ok (st', r) ->
  exists c p total dq rate calc tot,
    st_cfg st = Some c /\ valid_price price (cf_precision c) = Ok p /\ size mod cf_increment c = 0 /\
    mul_size p size = Ok total /\ dec_has_fract total = false /\
    dec_from_u128 qsize = Some dq /\ dec_eqb total dq = true /\
    bid_rate c = Some rate /\ rate_fee rate total = Ok calc /\
    (match fee with Some f => c_amt f = calc /\ c_denom f = quote | None => calc = 0 end) /\
    In quote (cf_quotes c) /\ base = cf_base c /\ has_attrs e (cf_bid_attrs c) sender = true /\
    dec_to_u128 total = Some tot /\ funds_rule e funds (tot + fee_amt fee) quote /\
    lookup id (st_bids st) = None /\
    st' = set_bids st (insert id (SlotV3 (new_bid sender id base fee price quote qsize size)) (st_bids st)) /\
    r = mkresp (pull_msgs e (qsize + fee_amt fee) quote sender)
               (create_bid_attrs (new_bid sender id base fee price quote qsize size)).
Proof.
  unfold create_bid. intros H. bind_inv H c Hc. bind_inv H p Hp. guard_inv H Hlot. bind_inv H total Ht.
  guard_inv H Hfr. bind_inv H dq Hdq. guard_inv H Heq. bind_inv H rate Hrate. bind_inv H calc Hcalc.
  bind_inv H uu Hfee. guard_inv H Hq. guard_inv H Hb. guard_inv H Hat. bind_inv H tot Htot.
  bind_inv H due Hdue. guard_inv H Hfu. guard_inv H Hdup. bind_inv H pulled Hpl. bind_inv H ms Hms.
  injection H as <- <-.
  apply get_cfg_ok in Hc. apply N.eqb_eq in Hlot. apply negb_true_iff in Hfr. apply of_opt_ok in Hdq, Htot.
  apply mem_In in Hq. apply String.eqb_eq in Hb. apply checked_add_ok in Hdue as [-> _].
  apply checked_add_ok in Hpl as [-> _]. apply funds_ok_rule in Hfu. apply pull_msgs_ok in Hms. subst ms.
  exists c, p, total, dq, rate, calc, tot.
  assert (Hr : bid_rate c = Some rate).
  { unfold bid_rate. destruct (cf_bid_fee c) as [f|]; [apply of_opt_ok in Hrate; exact Hrate|].
    injection Hrate as <-. reflexivity. }
  assert (Hf : match fee with Some f => c_amt f = calc /\ c_denom f = quote | None => calc = 0 end).
  { destruct fee as [f|]; apply guard_ok in Hfee.
    - apply andb_prop in Hfee as [H1 H2]. apply N.eqb_eq in H1. apply String.eqb_eq in H2. auto.
    - apply N.eqb_eq in Hfee. exact Hfee. }
  assert (Hd : lookup id (st_bids st) = None) by (destruct (lookup id (st_bids st)); [discriminate|reflexivity]).
  unfold fee_amt, new_bid, create_bid_attrs. cbn [b_base b_id b_fee b_price b_quote c_denom c_amt].
  repeat split; auto.
Qed.

(* ---------------------------------------------------------------- modify_contract *)
Definition market (c : cfg) := (cf_name c, cf_bind c, cf_base c, cf_conv c, cf_quotes c, cf_precision c, cf_increment c).
Definition same_rate (cur : option feeinfo) (rate : string) : Prop :=
  exists f a b, cur = Some f /\ dec_parse (f_rate f) = Some a /\ dec_parse rate = Some b /\ dec_eqb a b = true.

Lemma modify_contract_inv e st sender funds m st' r :
  execute FX e st sender funds (ModifyContract m) = Ok (st', r) ->
  exists c af bf,
    st_cfg st = Some c /\ In sender (cf_executors c) /\ funds = [] /\
    (st_asks st <> [] -> m_aattrs m = None /\ forall rate, m_afr m = Some rate -> same_rate (cf_ask_fee c) rate) /\
    (st_bids st <> [] -> m_battrs m = None /\ forall rate, m_bfr m = Some rate -> same_rate (cf_bid_fee c) rate) /\
    (st_asks st <> [] \/ st_bids st <> [] -> forall l, m_approvers m = Some l -> incl (cf_approvers c) l) /\
    modify_version_ok st = true /\
    (forall l, m_approvers m = Some l -> l <> [] /\ forallb (e_addr_ok e) l = true) /\
    (forall l, m_executors m = Some l -> l <> [] /\ forallb (e_addr_ok e) l = true) /\
    opt_pair_ok (m_afr m) (m_afa m) = true /\ opt_pair_ok (m_bfr m) (m_bfa m) = true /\
    fee_pair e (cf_ask_fee c) (m_afa m) (m_afr m) = Ok af /\
    fee_pair e (cf_bid_fee c) (m_bfa m) (m_bfr m) = Ok bf /\
    st' = set_cfg st (mkcfg (cf_name c) (cf_bind c) (cf_base c) (cf_conv c) (cf_quotes c)
                 (opt_list (cf_approvers c) (m_approvers m)) (opt_list (cf_executors c) (m_executors m))
                 af bf (opt_list (cf_ask_attrs c) (m_aattrs m)) (opt_list (cf_bid_attrs c) (m_battrs m))
                 (cf_precision c) (cf_increment c)) /\
    r = mkresp [] [("action", "modify_contract")].
Proof.
  unfold execute. intros H. guard_inv H Hval. unfold modify_contract in H.
  bind_inv H c Hc. guard_inv H Hex. guard_inv H Hfu. guard_inv H Ha1. guard_inv H Ha2.
  guard_inv H Hb1. guard_inv H Hb2. guard_inv H Hap. guard_inv H Hver. guard_inv H Hv1. guard_inv H Hv2.
  bind_inv H af Haf. bind_inv H bf Hbf. injection H as <- <-.
  apply get_cfg_ok in Hc. apply mem_In in Hex. cbn [fix_modify_funds all_fixes] in Hfu. apply list_empty_nil in Hfu.
  cbn [validate_exec] in Hval. apply andb_prop in Hval as [Hval Hp2]. apply andb_prop in Hval as [Hval Hp1].
  apply andb_prop in Hval as [Hn1 Hn2].
  exists c, af, bf.
  assert (Hside : forall (bk : bool) cur rate acct attrs,
            check_attrs_frozen bk attrs = true -> check_fee_rate bk cur rate acct = true -> bk = true ->
            attrs = None /\ forall rt, rate = Some rt -> same_rate cur rt).
  { intros bk cur rate acct attrs Hx Hy ->. cbn in Hx, Hy. split; [destruct attrs; [discriminate|reflexivity]|].
    intros rt ->. destruct cur as [f|]; [|discriminate].
    destruct (dec_parse (f_rate f)) as [a|] eqn:E1; [|discriminate].
    destruct (dec_parse rt) as [b|] eqn:E2; [|discriminate]. exists f, a, b. auto. }
  assert (Hne : forall {A} (l : list A), l <> [] -> negb (list_empty l) = true) by (intros A [|x l] Hl; [congruence|reflexivity]).
  assert (Hnn : forall l : option (list string), opt_nonempty l = true -> opt_addrs_ok e l = true ->
                forall l0, l = Some l0 -> l0 <> [] /\ forallb (e_addr_ok e) l0 = true).
  { intros l Hx Hy l0 ->. cbn in Hx, Hy. split; [destruct l0; [discriminate|congruence]|exact Hy]. }
  assert (G1 : st_asks st <> [] -> m_aattrs m = None /\ forall rate, m_afr m = Some rate -> same_rate (cf_ask_fee c) rate).
  { intros Hx. eapply Hside; eauto. }
  assert (G2 : st_bids st <> [] -> m_battrs m = None /\ forall rate, m_bfr m = Some rate -> same_rate (cf_bid_fee c) rate).
  { intros Hx. eapply Hside; eauto. }
  assert (G3 : st_asks st <> [] \/ st_bids st <> [] -> forall l, m_approvers m = Some l -> incl (cf_approvers c) l).
  { intros Hor l Hl. rewrite Hl in Hap.
    assert (Hb : negb (list_empty (st_asks st)) || negb (list_empty (st_bids st)) = true).
    { destruct Hor as [Hx|Hx]; apply Hne in Hx; rewrite Hx; [reflexivity|apply orb_true_r]. }
    rewrite Hb in Hap. intros x Hx. unfold subset in Hap. rewrite forallb_forall in Hap.
    apply mem_In. apply Hap. exact Hx. }
  split; [exact Hc|]. split; [exact Hex|]. split; [exact Hfu|]. split; [exact G1|]. split; [exact G2|].
  split; [exact G3|]. split; [exact Hver|]. split; [eapply Hnn; eauto|]. split; [eapply Hnn; eauto|].
  split; [exact Hp1|]. split; [exact Hp2|]. split; [exact Haf|]. split; [exact Hbf|]. split; reflexivity.
Qed.
