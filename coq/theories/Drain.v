(* Drain: nothing is ever stuck.  From every state satisfying the invariant (hence from every state reachable by a
   clean history) the owners can take everything out: cancelling each open order, in book order, is accepted step by
   step and leaves both books empty. *)
From ATS Require Import Prelude Dec DecFacts Uuid Semver Types Contract Tactics Spec Inv InvAsk InstProofs AskProofs
  BidFacts InvBid InvStep ExitProofs Ledger.

Definition slot_owner (s : bslot) : string := match s with SlotV3 b => b_owner b | SlotV2 o => b2_owner o end.
Definition ask_cancels (e : env) (l : list (string * ask)) : list event :=
  map (fun ka => mkev e (a_owner (snd ka)) [] (CancelAsk (fst ka))) l.
Definition bid_cancels (e : env) (l : list (string * bslot)) : list event :=
  map (fun kb => mkev e (slot_owner (snd kb)) [] (CancelBid (fst kb))) l.

Lemma remove_absent {V} k (m : list (string * V)) : ~ In k (map fst m) -> remove k m = m.
Proof.
  induction m as [|[k' v] r IH]; intros H; [reflexivity|]. cbn [remove map fst In] in *.
  destruct (String.eqb_spec k k') as [->|_]; [exfalso; apply H; left; reflexivity|].
  rewrite IH; [reflexivity|]. intros Hx. apply H. right. exact Hx.
Qed.
Lemma remove_head {V} k (v : V) r : keys_nodup ((k, v) :: r) -> remove k ((k, v) :: r) = r.
Proof.
  unfold keys_nodup. cbn [map fst remove]. intros H. rewrite String.eqb_refl. apply remove_absent.
  inversion H. assumption.
Qed.

Lemma run_cons st ev evs : run st (ev :: evs) = run (run_event st ev) evs.
Proof. reflexivity. Qed.

Lemma drain_asks e : forall l st, Inv st -> st_asks st = l ->
  st_asks (run st (ask_cancels e l)) = [] /\ st_bids (run st (ask_cancels e l)) = st_bids st /\ Inv (run st (ask_cancels e l)).
Proof.
  induction l as [|[k a] r IH]; intros st HI Hl.
  - cbn. auto.
  - pose proof HI as [HA HB]. destruct (inv_cfg _ HA) as (c & Hc & _).
    assert (Hlk : lookup k (st_asks st) = Some a) by (rewrite Hl; cbn [lookup]; rewrite String.eqb_refl; reflexivity).
    pose proof (inv_asks _ HA c k a Hc Hlk) as Hok.
    pose proof (cancel_ask_live e st c k a Hc Hlk Hok) as Hex.
    assert (Hrm : remove k (st_asks st) = r) by (rewrite Hl; apply remove_head; rewrite <- Hl; apply (inv_nd_asks _ HA)).
    rewrite Hrm in Hex.
    cbn [ask_cancels map fst snd]. rewrite run_cons.
    assert (Hstep : run_event st (mkev e (a_owner a) [] (CancelAsk k)) = set_asks st r).
    { unfold run_event. cbn [ev_env ev_sender ev_funds ev_msg]. rewrite Hex. reflexivity. }
    rewrite Hstep.
    assert (HI1 : Inv (set_asks st r)) by (eapply (Inv_step e st (a_owner a) [] (CancelAsk k)); [exact HI|exact I|exact Hex]).
    destruct (IH (set_asks st r) HI1 eq_refl) as (H1 & H2 & H3). fold (ask_cancels e r).
    split; [exact H1|]. split; [rewrite H2; reflexivity|exact H3].
Qed.

Lemma drain_bids e : forall l st, Inv st -> st_bids st = l ->
  st_bids (run st (bid_cancels e l)) = [] /\ st_asks (run st (bid_cancels e l)) = st_asks st /\ Inv (run st (bid_cancels e l)).
Proof.
  induction l as [|[k s] r IH]; intros st HI Hl.
  - cbn. auto.
  - pose proof HI as [HA HB]. destruct (inv_cfg _ HA) as (c & Hc & _).
    assert (Hlk : lookup k (st_bids st) = Some s) by (rewrite Hl; cbn [lookup]; rewrite String.eqb_refl; reflexivity).
    destruct (inv_bids _ HB c k s Hc Hlk) as (b & -> & Hok).
    pose proof (cancel_bid_live e st c k b Hc Hlk Hok) as Hex.
    assert (Hrm : remove k (st_bids st) = r) by (rewrite Hl; apply remove_head; rewrite <- Hl; apply (inv_nd_bids _ HB)).
    rewrite Hrm in Hex.
    cbn [bid_cancels map fst snd slot_owner]. rewrite run_cons.
    assert (Hstep : run_event st (mkev e (b_owner b) [] (CancelBid k)) = set_bids st r).
    { unfold run_event. cbn [ev_env ev_sender ev_funds ev_msg]. rewrite Hex. reflexivity. }
    rewrite Hstep.
    assert (HI1 : Inv (set_bids st r)) by (eapply (Inv_step e st (b_owner b) [] (CancelBid k)); [exact HI|exact I|exact Hex]).
    destruct (IH (set_bids st r) HI1 eq_refl) as (H1 & H2 & H3). fold (bid_cancels e r).
    split; [exact H1|]. split; [rewrite H2; reflexivity|exact H3].
Qed.

Theorem book_can_be_emptied e st :
  Inv st ->
  let st' := run st (ask_cancels e (st_asks st) ++ bid_cancels e (st_bids st)) in
  st_asks st' = [] /\ st_bids st' = [] /\ Inv st'.
Proof.
  intros HI. cbv zeta. unfold run. rewrite fold_left_app. fold (run st (ask_cancels e (st_asks st))).
  destruct (drain_asks e (st_asks st) st HI eq_refl) as (Ha & Hb & HI1).
  set (st1 := run st (ask_cancels e (st_asks st))) in *.
  fold (run st1 (bid_cancels e (st_bids st))). rewrite <- Hb.
  destruct (drain_bids e (st_bids st1) st1 HI1 eq_refl) as (Hb' & Ha' & HI2).
  split; [rewrite Ha'; exact Ha|]. split; [exact Hb'|exact HI2].
Qed.

(* ---------------------------------------------------------------- and what comes out is exactly what was owed *)
Definition is_cancel (m : emsg) : Prop := match m with CancelAsk _ | CancelBid _ => True | _ => False end.
Lemma clean_run_cancels evs : Forall (fun ev => is_cancel (ev_msg ev)) evs -> forall st, clean_run st evs.
Proof.
  induction 1 as [|ev evs Hc _ IH]; intros st; [exact I|]. cbn [clean_run]. split; [|apply IH].
  destruct (ev_msg ev); try contradiction; exact I.
Qed.
Lemma drain_is_cancels e la lb : Forall (fun ev => is_cancel (ev_msg ev)) (ask_cancels e la ++ bid_cancels e lb).
Proof.
  apply Forall_app. split; unfold ask_cancels, bid_cancels; apply Forall_forall; intros ev Hin;
    apply in_map_iff in Hin as (x & <- & _); exact I.
Qed.

Theorem everything_owed_is_paid_out e st d :
  Inv st ->
  let drain := ask_cancels e (st_asks st) ++ bid_cancels e (st_bids st) in
  never_self drain ->
  fst (ledger st drain d) + owed st d = snd (ledger st drain d).
Proof.
  intros HI drain Hns.
  pose proof (ledger_balances drain st d HI (clean_run_cancels _ (drain_is_cancels e _ _) st) Hns) as Hb.
  destruct (book_can_be_emptied e st HI) as (Ha & Hbb & _). fold drain in Ha, Hbb.
  assert (Hz : owed (run st drain) d = 0) by (unfold owed; rewrite Ha, Hbb; reflexivity).
  rewrite Hz, N.add_0_r in Hb. exact Hb.
Qed.
