(* AdmitProofs: admission of asks and bids (C07) and response attributes (C17). *)
From ATS Require Import Prelude Dec DecFacts Uuid Semver Types Contract Tactics Spec Inv InvAsk InstProofs AskProofs
  BidFacts InvBid InvStep ExitProofs Ledger.
Ltac Zify.zify_post_hook ::= Z.div_mod_to_equations.

Definition ask_wellformed (id base quote price : string) (size : N) : Prop :=
  uuid_canonical id = true /\ base <> "" /\ quote <> "" /\ price <> "" /\ 1 <= size.

Lemma str_nonempty s : negb (str_empty s) = true <-> s <> "".
Proof. destruct s; cbn; split; congruence. Qed.

Lemma str_nonempty_true s : s <> "" -> negb (str_empty s) = true.
Proof. apply str_nonempty. Qed.

Theorem create_ask_admission e st sender funds id base quote price size st' r :
  execute FX e st sender funds (CreateAsk id base quote price size) = Ok (st', r) <->
  ask_wellformed id base quote price size /\
  exists c, st_cfg st = Some c /\ ask_admissible e c st sender funds id base quote price size /\
    st' = set_asks st (insert id (new_ask c sender id base quote price size) (st_asks st)) /\
    r = mkresp (pull_msgs e size base sender) (create_ask_attrs c (new_ask c sender id base quote price size)).
Proof.
  unfold execute, ask_wellformed. cbn [validate_exec]. split.
  - intros H. guard_inv H Hv. apply andb_prop in Hv as [Hv Hs]. apply andb_prop in Hv as [Hv Hp].
    apply andb_prop in Hv as [Hv Hq]. apply andb_prop in Hv as [Hv Hb].
    apply create_ask_iff in H as (c & Hc & Hadm & -> & -> & _).
    split.
    + split; [exact Hv|]. split; [apply str_nonempty; exact Hb|]. split; [apply str_nonempty; exact Hq|].
      split; [apply str_nonempty; exact Hp|apply N.leb_le; exact Hs].
    + exists c. auto.
  - intros ((Hid & Hb & Hq & Hp & Hs) & c & Hc & Hadm & -> & ->).
    rewrite Hid. apply str_nonempty in Hb, Hq, Hp. rewrite Hb, Hq, Hp. apply N.leb_le in Hs. rewrite Hs. cbn [andb guard bind].
    apply create_ask_iff. exists c. split; [exact Hc|]. split; [exact Hadm|]. split; [reflexivity|]. split; [reflexivity|].
    intros _. apply N.leb_le in Hs. lia.
Qed.

(* a bid is recorded only if ... (exact terms, invariant state, outside K_inexact) *)
Theorem create_bid_admission_only_if e st sender funds id base fee price quote qsize size st' r :
  InvA st ->
  execute FX e st sender funds (CreateBid id base fee price quote qsize size) = Ok (st', r) ->
  exists c p rate total calc,
    uuid_canonical id = true /\ 1 <= qsize /\ 1 <= size /\
    st_cfg st = Some c /\ price_of price p /\ valid_price price (cf_precision c) = Ok p /\
    size mod cf_increment c = 0 /\
    qsize * 10 ^ d_scale p = d_mant p * size /\                          (* price*size is the whole number quote_size *)
    bid_rate c = Some rate /\ mul_size p size = Ok total /\ rate_fee rate total = Ok calc /\
    (match fee with Some f => c_amt f = calc /\ c_denom f = quote | None => calc = 0 end) /\
    In quote (cf_quotes c) /\ base = cf_base c /\ has_attrs e (cf_bid_attrs c) sender = true /\
    funds_rule e funds (qsize + fee_amt fee) quote /\                    (* exactly one coin, or a pull with no funds *)
    lookup id (st_bids st) = None /\
    st' = set_bids st (insert id (SlotV3 (new_bid sender id base fee price quote qsize size)) (st_bids st)) /\
    r = mkresp (pull_msgs e (qsize + fee_amt fee) quote sender)
               (create_bid_attrs (new_bid sender id base fee price quote qsize size)).
Proof.
  intros HA H. unfold execute in H. guard_inv H Hv. cbn [validate_exec] in Hv.
  repeat (apply andb_prop in Hv as [Hv ?]).
  apply create_bid_inv in H as (c & p & total & dq & rate & calc & tot & Hc & Hp & Hlot & Hm & Hfr & Hdq & Heq & Hrate & Hcalc &
    Hfee & Hqin & Hbase & Hat & Htot & Hfu & Hnone & -> & ->).
  apply dec_from_u128_ok in Hdq as [Hq96 ->].
  assert (Hq1 : 1 <= qsize) by (apply N.leb_le; assumption). assert (Hqnz : qsize <> 0) by lia.
  assert (Htq : tot = qsize) by exact (int_eq_of_dec_eqb total qsize tot Hfr Htot Hqnz Heq). subst tot.
  assert (HQ : qsize * 10 ^ d_scale p = d_mant p * size).
  { eapply (mul_size_units p size total qsize Hm); [eapply create_bid_exact; eauto|exact Hfr|exact Htot]. }
  exists c, p, rate, total, calc.
  repeat match goal with |- _ /\ _ => split end; auto; try (apply N.leb_le; assumption).
  eapply valid_price_of; eauto.
Qed.

(* ---------------------------------------------------------------- attributes (C17) *)
Definition escrow_create (m : emsg) : bool :=
  match m with CreateAsk _ _ _ _ _ | CreateBid _ _ _ _ _ _ _ => true | _ => false end.

Definition asks_under_own_id (st : state) : Prop := forall k a, lookup k (st_asks st) = Some a -> a_id a = k.

Definition action_name (m : emsg) : string :=
  match m with
  | ApproveAsk _ _ _ => "approve_ask" | CancelAsk _ => "cancel_ask" | CancelBid _ => "cancel_bid"
  | CreateAsk _ _ _ _ _ => "create_ask" | CreateBid _ _ _ _ _ _ _ => "create_bid"
  | ExecuteMatch _ _ _ _ => "execute" | ExpireAsk _ => "expire_ask" | ExpireBid _ => "expire_bid"
  | RejectAsk _ _ => "reject_ask" | RejectBid _ _ => "reject_bid" | ModifyContract _ => "modify_contract"
  end.

Theorem action_attribute e st sender funds m st' r :
  execute FX e st sender funds m = Ok (st', r) -> hd_error (r_attrs r) = Some ("action", action_name m).
Proof.
  intros H. pose proof H as H0. unfold execute in H. guard_inv H Hv. destruct m; cbn [action_name].
  - apply approve_ask_inv in H as (c & a & _ & _ & _ & _ & _ & _ & _ & _ & ->). reflexivity.
  - apply cancel_ask_inv in H as (a & _ & _ & _ & _ & ->). reflexivity.
  - apply reverse_bid_inv in H as (c & b & rb & eff & p & tq & cq & back & b' & rb' & _ & _ & _ & _ & _ & _ & _ & _ & _ & _ & _ & _ & _ & _ & _ & _ & ->). reflexivity.
  - apply create_ask_iff in H as (c & _ & _ & _ & -> & _). reflexivity.
  - apply create_bid_inv in H as (c & p & total & dq & rate & calc & tot & _ & _ & _ & _ & _ & _ & _ & _ & _ & _ & _ & _ & _ & _ & _ & _ & _ & ->). reflexivity.
  - apply execute_match_inv in H as (c & a & b & ap & bp & xp & rb & gross_d & gross & af & bfee & fill & b' & rb' & imp &
      _ & _ & _ & _ & _ & _ & _ & _ & _ & _ & _ & _ & _ & _ & _ & _ & _ & _ & _ & _ & _ & _ & _ & _ & _ & ->). reflexivity.
  - apply reverse_ask_inv in H as (c & a & eff & _ & _ & _ & _ & _ & _ & _ & _ & ->). reflexivity.
  - apply reverse_bid_inv in H as (c & b & rb & eff & p & tq & cq & back & b' & rb' & _ & _ & _ & _ & _ & _ & _ & _ & _ & _ & _ & _ & _ & _ & _ & _ & ->). reflexivity.
  - apply reverse_ask_inv in H as (c & a & eff & _ & _ & _ & _ & _ & _ & _ & _ & ->). reflexivity.
  - apply reverse_bid_inv in H as (c & b & rb & eff & p & tq & cq & back & b' & rb' & _ & _ & _ & _ & _ & _ & _ & _ & _ & _ & _ & _ & _ & _ & _ & _ & ->). reflexivity.
  - apply modify_contract_inv in H0 as (c & af & bf & _ & _ & _ & _ & _ & _ & _ & _ & _ & _ & _ & _ & _ & _ & ->). reflexivity.
Qed.

(* expire / reject of an ask: reported id, reversed size = the size returned, order_open <-> still on the book *)
Theorem reverse_ask_attributes e st sender funds id action csz st' r :
  asks_under_own_id st -> reverse_ask FX e st sender funds id action csz = Ok (st', r) ->
  exists a eff,
    lookup id (st_asks st) = Some a /\ eff <= a_size a /\
    r_attrs r = [("action", action); ("id", id); ("reverse_size", show_N eff);
                 ("order_open", bool_str (negb (a_size a - eff =? 0)))] /\
    outflow e (a_base a) (r_msgs r) >= eff /\
    ((a_size a - eff =? 0) = true <-> lookup id (st_asks st') = None) /\
    (forall a', lookup id (st_asks st') = Some a' -> a_size a' = a_size a - eff).
Proof.
  intros HK H. apply reverse_ask_inv in H as (c & a & eff & _ & _ & _ & Hl & _ & _ & Hle & -> & ->).
  assert (Hid : a_id a = id) by (apply HK; exact Hl). rewrite Hid.
  exists a, eff. split; [exact Hl|]. split; [exact Hle|]. split; [reflexivity|]. split.
  - cbn [r_msgs]. rewrite out_ask_exit. unfold ind at 1. rewrite String.eqb_refl. lia.
  - cbn [st_asks set_asks]. destruct (a_size a - eff =? 0) eqn:E.
    + rewrite lookup_remove_eq. split; [split; auto|discriminate].
    + rewrite lookup_insert_eq. split; [split; discriminate|]. intros a' Ha. injection Ha as <-. reflexivity.
Qed.
