(* Inv: the state invariant (DESIGN section 5) and its boolean-free Prop form. Definitions + map lemmas. *)
From ATS Require Import Prelude Dec DecFacts Uuid Semver Types Contract Tactics Spec ExactFacts.
Ltac Zify.zify_post_hook ::= Z.div_mod_to_equations.

(* a parsed price usable by the contract: positive, scale <= 28 *)
Definition price_of (s : string) (p : dec) : Prop :=
  dec_parse s = Some p /\ d_neg p = false /\ d_mant p <> 0 /\ d_scale p <= 28.

Definition ask_ok (c : cfg) (k : string) (a : ask) : Prop :=
  a_id a = k /\ uuid_valid k = true /\ 1 <= a_size a /\
  (a_class a = Basic <-> a_base a = cf_base c) /\
  (a_base a = cf_base c \/ In (a_base a) (cf_conv c)) /\
  In (a_quote a) (cf_quotes c) /\ (exists p, price_of (a_price a) p) /\
  match a_class a with Ready _ cb => cb = mkcoin (a_size a) (cf_base c) | _ => True end.

Definition unfilled (b : bid) : N := c_amt (b_base b) - b_acc_base b.
Definition unspent (b : bid) : N := c_amt (b_quote b) - b_acc_quote b.
Definition held (b : bid) : N := match b_fee b with Some f => c_amt f - b_acc_fee b | None => 0 end.

Definition bid_ok (c : cfg) (k : string) (b : bid) : Prop :=
  b_id b = k /\ uuid_valid k = true /\
  c_denom (b_base b) = cf_base c /\ In (c_denom (b_quote b)) (cf_quotes c) /\
  b_acc_base b < c_amt (b_base b) /\ b_acc_quote b <= c_amt (b_quote b) /\
  c_amt (b_base b) < B96 /\ c_amt (b_quote b) < B96 /\
  (exists p, price_of (b_price b) p /\
     c_amt (b_quote b) * 10 ^ d_scale p = d_mant p * c_amt (b_base b) /\
     unspent b * 10 ^ d_scale p = d_mant p * unfilled b) /\
  match b_fee b with
  | None => b_acc_fee b = 0
  | Some f => c_denom f = c_denom (b_quote b) /\ b_acc_fee b <= c_amt f /\ c_amt f < B96 /\
              fee_for_rest b (c_amt f) (unspent b) = Ok (held b)
  end.

Definition cfg_ok (c : cfg) : Prop :=
  cf_precision c <= 18 /\ 1 <= cf_increment c /\ cf_increment c mod 10 ^ cf_precision c = 0 /\
  cf_executors c <> [] /\ cf_base c <> "" /\ cf_quotes c <> [].

Definition keys_nodup {V} (m : list (string * V)) : Prop := NoDup (map fst m).

(* ask side + configuration + version; bid side *)
Record InvA (st : state) : Prop := mkInvA {
  inv_cfg : exists c, st_cfg st = Some c /\ cfg_ok c;
  inv_ver : exists d v ver, st_ver st = Some (d, v) /\ version_parse v = Some ver /\ req_lt_0_16_2 ver = false;
  inv_asks : forall c k a, st_cfg st = Some c -> lookup k (st_asks st) = Some a -> ask_ok c k a;
  inv_nd_asks : keys_nodup (st_asks st) }.
Record InvB (st : state) : Prop := mkInvB {
  inv_bids : forall c k s, st_cfg st = Some c -> lookup k (st_bids st) = Some s ->
                           exists b, s = SlotV3 b /\ bid_ok c k b;
  inv_nd_bids : keys_nodup (st_bids st);
  (* every bid's price has at most `precision` decimals (value level) *)
  inv_prec : forall c k b p, st_cfg st = Some c -> lookup k (st_bids st) = Some (SlotV3 b) ->
                             dec_parse (b_price b) = Some p -> within_precision p (cf_precision c) }.
Definition Inv (st : state) : Prop := InvA st /\ InvB st.

(* ---------------------------------------------------------------- map lemmas *)
Section MapFacts.
  Context {V : Type}.
  Implicit Types m : list (string * V).

  Lemma in_remove k k' v m : In (k', v) (remove k m) -> In (k', v) m /\ k' <> k.
  Proof.
    induction m as [|[k0 v0] r IH]; cbn; [contradiction|].
    destruct (String.eqb_spec k k0) as [->|Hne].
    - intros H. apply IH in H as [H1 H2]. auto.
    - cbn. intros [H|H]; [injection H as -> ->; auto|]. apply IH in H as [H1 H2]. auto.
  Qed.
  Lemma remove_keys_subset k m x : In x (map fst (remove k m)) -> In x (map fst m) /\ x <> k.
  Proof.
    rewrite !in_map_iff. intros ([k' v] & <- & Hin). apply in_remove in Hin as [H1 H2]. cbn.
    split; [exists (k', v); auto|exact H2].
  Qed.
  Lemma nodup_remove k m : keys_nodup m -> keys_nodup (remove k m).
  Proof.
    unfold keys_nodup. induction m as [|[k0 v0] r IH]; cbn; [auto|]. intros H. inversion H as [|? ? Hn Hr]; subst.
    destruct (String.eqb_spec k k0); [auto|]. cbn. constructor; [|auto].
    intros Hin. apply remove_keys_subset in Hin as [Hin _]. contradiction.
  Qed.
  Lemma nodup_insert k v m : keys_nodup m -> keys_nodup (insert k v m).
  Proof.
    intros H. unfold insert, keys_nodup. cbn. constructor.
    - intros Hin. apply remove_keys_subset in Hin as [_ Hne]. congruence.
    - apply nodup_remove. exact H.
  Qed.
  Lemma remove_absent k m : lookup k m = None -> remove k m = m.
  Proof.
    induction m as [|[k0 v0] r IH]; cbn; [reflexivity|].
    destruct (String.eqb_spec k k0); [discriminate|]. intros H. rewrite IH; auto.
  Qed.
  Lemma lookup_in k v m : lookup k m = Some v -> In (k, v) m.
  Proof.
    induction m as [|[k0 v0] r IH]; cbn; [discriminate|].
    destruct (String.eqb_spec k k0) as [->|Hne]; [intros H; injection H as ->; auto|auto].
  Qed.
  Lemma lookup_none_notin k m : lookup k m = None -> ~ In k (map fst m).
  Proof.
    induction m as [|[k0 v0] r IH]; cbn; [auto|].
    destruct (String.eqb_spec k k0) as [->|Hne]; [discriminate|]. intros H [Hx|Hx]; [congruence|]. apply IH in H. auto.
  Qed.

  (* sums over a book *)
  Variable f : V -> N.
  Definition sum_book m : N := fold_right (fun kv acc => f (snd kv) + acc) 0 m.
  Lemma sum_remove k v m : keys_nodup m -> lookup k m = Some v -> sum_book (remove k m) + f v = sum_book m.
  Proof.
    unfold keys_nodup. induction m as [|[k0 v0] r IH]; cbn; [discriminate|]. intros Hnd.
    inversion Hnd as [|? ? Hn Hr]; subst.
    destruct (String.eqb_spec k k0) as [->|Hne].
    - intros H. injection H as ->. rewrite remove_absent; [fold (sum_book r); apply N.add_comm|].
      destruct (lookup k0 r) eqn:E; [|reflexivity]. apply lookup_in in E. exfalso. apply Hn.
      apply in_map_iff. exists (k0, v0). auto.
    - intros H. cbn. specialize (IH Hr H). fold (sum_book (remove k r)). fold (sum_book r). fold (sum_book r) in IH. lia.
  Qed.
  Lemma sum_remove_absent k m : lookup k m = None -> sum_book (remove k m) = sum_book m.
  Proof. intros H. rewrite remove_absent; auto. Qed.
  Lemma sum_insert_new k v m : lookup k m = None -> sum_book (insert k v m) = f v + sum_book m.
  Proof. intros H. unfold insert. cbn. fold (sum_book (remove k m)). rewrite sum_remove_absent; auto. Qed.
  Lemma sum_insert_upd k v v0 m : keys_nodup m -> lookup k m = Some v0 ->
    sum_book (insert k v m) + f v0 = f v + sum_book m.
  Proof.
    intros Hnd H. unfold insert. cbn. fold (sum_book (remove k m)).
    pose proof (sum_remove k v0 m Hnd H) as E. rewrite <- E. lia.
  Qed.
End MapFacts.
