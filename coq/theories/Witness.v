(* Witness: a concrete history that meets every hypothesis the property theorems carry (accepted instantiation with a
   coherent environment, clean_run, never_self) and reaches a non-trivial state: an approved convertible ask and a
   fee-bearing bid, both partly filled at an improved price and still open.  Non-vacuity of the theorems of Props/. *)
From ATS Require Import Prelude Dec DecFacts Uuid Semver Types Contract Tactics Spec Inv InvAsk InstProofs AskProofs
  BidFacts DivFacts ProRata InvBid InvStep ExitProofs Ledger.

Definition w_env : env := mkenv (fun d => if String.eqb d "q" then MRestricted else MNone) (fun _ => [])
                                (fun s => negb (str_empty s)) "self" "1.0.0" "ats_smart_contract".
Definition wA : string := "a0000000-0000-4000-8000-000000000001".
Definition wB : string := "b0000000-0000-4000-8000-000000000001".
Definition w_inst : instmsg :=
  mkinst "ats" "base" ["cv"] ["q"] ["appr"] ["exec"] (Some "0.01") (Some "feea") (Some "0.1") (Some "feeb") [] [] 1 10.
Definition w_hist : list event :=
  [mkev w_env "seller" [mkcoin 100 "cv"] (CreateAsk wA "cv" "q" "2" 100);
   mkev w_env "appr" [mkcoin 100 "base"] (ApproveAsk wA "base" 100);
   mkev w_env "buyer" [] (CreateBid wB "base" (Some (mkcoin 25 "q")) "2.5" "q" 250 100);
   mkev w_env "exec" [] (ExecuteMatch wA wB "2" 30);
   mkev w_env "exec" [] (RejectBid wB (Some 10));
   mkev w_env "exec" [] (RejectAsk wA (Some 20))].
Definition w_st0 : state := match instantiate w_env empty_state w_inst with Ok (st, _) => st | Refused _ => empty_state end.

Lemma w_inst_ok : exists r0, instantiate w_env empty_state w_inst = Ok (w_st0, r0).
Proof. eexists. vm_compute. reflexivity. Qed.
Lemma w_env_ok : env_version_ok w_env.
Proof.
  unfold env_version_ok. destruct (version_parse (e_pkg_version w_env)) as [v|] eqn:E; [|vm_compute in E; discriminate].
  exists v. split; [reflexivity|]. vm_compute in E. injection E as <-. vm_compute. reflexivity.
Qed.
Lemma w_never_self : never_self w_hist.
Proof. repeat constructor; cbn; discriminate. Qed.

(* every step is accepted *)
Lemma w_all_accepted :
  forallb (fun n => is_ok (execute FX w_env (run w_st0 (firstn n w_hist)) (ev_sender (nth n w_hist (mkev w_env "" [] (CancelAsk ""))))
                                   (ev_funds (nth n w_hist (mkev w_env "" [] (CancelAsk ""))))
                                   (ev_msg (nth n w_hist (mkev w_env "" [] (CancelAsk ""))))))
          (seq 0 (List.length w_hist)) = true.
Proof. vm_compute. reflexivity. Qed.

Lemma w_clean : clean_run w_st0 w_hist.
Proof.
  cbn [clean_run w_hist ev_msg clean_exec]. split; [exact I|]. split; [exact I|]. split; [exact I|].
  split; [|split; [exact I|split; [exact I|exact I]]].
  apply clean_match_intro. intros b bp xp Hl Hb Hx.
  vm_compute in Hl. injection Hl as <-. vm_compute in Hb. injection Hb as <-. vm_compute in Hx. injection Hx as <-.
  split; vm_compute; reflexivity.
Qed.

(* the state reached: both orders open, partly consumed; the bid still holds part of its fee *)
Lemma w_final :
  match lookup wA (st_asks (run w_st0 w_hist)), lookup wB (st_bids (run w_st0 w_hist)) with
  | Some a, Some (SlotV3 b) => (a_size a, unfilled b, unspent b, held b)
  | _, _ => (0, 0, 0, 0)
  end = (50, 60, 150, 15).
Proof. vm_compute. reflexivity. Qed.

Theorem witness :
  env_version_ok w_env /\ (exists r0, instantiate w_env empty_state w_inst = Ok (w_st0, r0)) /\
  clean_run w_st0 w_hist /\ never_self w_hist /\ Inv (run w_st0 w_hist) /\
  st_asks (run w_st0 w_hist) <> [] /\ st_bids (run w_st0 w_hist) <> [].
Proof.
  split; [exact w_env_ok|]. split; [exact w_inst_ok|]. split; [exact w_clean|]. split; [exact w_never_self|].
  split.
  - destruct w_inst_ok as [r0 Hi]. exact (Inv_reachable w_env w_inst w_st0 r0 w_hist w_env_ok Hi w_clean).
  - split; vm_compute; discriminate.
Qed.
