(* Numeral: the meaning of the decimal strings the contract stores.  For a plain numeral
     [+|-] d1 ... dn [ . e1 ... ek ]      (k <= 28, the digits read as one integer below 2^96)
   dec_parse returns exactly (sign, d1...dn e1...ek, k): mantissa = the digits read as an integer, scale = the number
   of decimals.  So `price_of s p` (Inv.v) says p *is* the number written in s, and every theorem stated on
   mantissa/scale pairs (price * size = quote, fee = rate * total, ...) is a statement about those numbers. *)
From ATS Require Import Prelude Dec DecFacts.
Ltac Zify.zify_post_hook ::= Z.div_mod_to_equations.

Fixpoint digits_val (l : list N) (acc : N) : N :=
  match l with [] => acc | c :: r => digits_val r (acc * 10 + (c - 48)) end.
Definition all_digits (l : list N) : bool := forallb is_digit l.

Lemma digits_val_ge l : forall acc, acc <= digits_val l acc.
Proof. induction l as [|c r IH]; intros acc; cbn [digits_val]; [lia|]. specialize (IH (acc * 10 + (c - 48))). lia. Qed.
Lemma digits_val_app l1 l2 acc : digits_val (l1 ++ l2) acc = digits_val l2 (digits_val l1 acc).
Proof. revert acc. induction l1 as [|c r IH]; intros acc; cbn [digits_val app]; [reflexivity|apply IH]. Qed.

Definition result (neg : bool) (v sc : N) : dec := mkdec (neg && negb (v =? 0)) v sc.

(* the decimals: after the point, at most 28 of them in all *)
Lemma parse_frac big neg : forall ds has data scale,
  all_digits ds = true -> (has = true \/ ds <> []) -> scale + N.of_nat (List.length ds) <= 28 ->
  digits_val ds data < B96 ->
  parse_loop big neg ds has true data scale = Some (result neg (digits_val ds data) (scale + N.of_nat (List.length ds))).
Proof.
  induction ds as [|c r IH]; intros has data scale Hd Hhas Hsc Hv.
  - destruct Hhas as [->|Hx]; [|contradiction]. cbn [parse_loop digits_val List.length]. rewrite N.add_0_r. reflexivity.
  - cbn [all_digits forallb] in Hd. apply andb_prop in Hd as [Hc Hr]. cbn [digits_val] in Hv |- *.
    cbn [parse_loop]. rewrite Hc.
    pose proof (digits_val_ge r (data * 10 + (c - 48))) as Hge.
    destruct (N.leb_spec B96 (data * 10 + (c - 48))) as [Hbig|_]; [lia|].
    cbn [andb]. replace (scale + N.of_nat (List.length (c :: r))) with (scale + 1 + N.of_nat (List.length r))
      in * by (cbn [List.length]; lia).
    destruct r as [|n r'].
    + apply (IH true); auto. 
    + assert (H28 : (28 <=? scale + 1) = false).
      { apply N.leb_gt. cbn [List.length] in Hsc. lia. }
      rewrite H28, Bool.andb_false_r. apply (IH true); auto.
Qed.

(* the whole part, then either the end or the point *)
Lemma parse_whole big neg : forall ws has data rest,
  all_digits ws = true -> digits_val ws data < B96 ->
  (match rest with [] => True | c :: _ => is_digit c = false end) ->
  parse_loop big neg (ws ++ rest) has false data 0 =
  parse_loop big neg rest (has || negb (list_empty ws)) false (digits_val ws data) 0.
Proof.
  induction ws as [|c r IH]; intros has data rest Hd Hv Hrest.
  - cbn [app digits_val list_empty negb]. rewrite Bool.orb_false_r. reflexivity.
  - cbn [all_digits forallb] in Hd. apply andb_prop in Hd as [Hc Hr]. cbn [digits_val] in Hv |- *.
    cbn [app parse_loop]. rewrite Hc.
    pose proof (digits_val_ge r (data * 10 + (c - 48))) as Hge.
    destruct (N.leb_spec B96 (data * 10 + (c - 48))) as [Hbig|_]; [lia|].
    cbn [andb list_empty negb]. rewrite Bool.orb_true_r.
    assert (E : parse_loop big neg (r ++ rest) true false (data * 10 + (c - 48)) 0 =
                parse_loop big neg rest true false (digits_val r (data * 10 + (c - 48))) 0).
    { rewrite (IH true) by assumption. reflexivity. }
    destruct (r ++ rest) eqn:Er; exact E.
Qed.

Definition dot : N := 46.

(* a numeral without a point *)
Theorem parse_integer big neg ws :
  all_digits ws = true -> ws <> [] -> digits_val ws 0 < B96 ->
  parse_loop big neg ws false false 0 0 = Some (result neg (digits_val ws 0) 0).
Proof.
  intros Hd Hne Hv. rewrite <- (app_nil_r ws) at 1. rewrite parse_whole; [|assumption|assumption|exact I].
  destruct ws; [contradiction|]. reflexivity.
Qed.

(* a numeral with a point: digits on at least one side *)
Theorem parse_decimal big neg ws fs :
  all_digits ws = true -> all_digits fs = true -> (ws <> [] \/ fs <> []) -> N.of_nat (List.length fs) <= 28 ->
  digits_val (ws ++ fs) 0 < B96 ->
  parse_loop big neg (ws ++ dot :: fs) false false 0 0 =
  Some (result neg (digits_val (ws ++ fs) 0) (N.of_nat (List.length fs))).
Proof.
  intros Hw Hf Hne Hk Hv. rewrite digits_val_app in Hv |- *.
  pose proof (digits_val_ge fs (digits_val ws 0)) as Hge.
  rewrite parse_whole; [|exact Hw|lia|reflexivity].
  cbn [parse_loop]. change (is_digit dot) with false. cbn [N.eqb dot andb negb Pos.eqb].
  rewrite <- (N.add_0_l (N.of_nat (List.length fs))). apply parse_frac; [exact Hf| |lia|exact Hv].
  destruct ws; cbn [list_empty negb orb]; [right; destruct Hne; [contradiction|assumption]|left; reflexivity].
Qed.

(* the entry point: optional sign, then one of the two forms.  `codes s` are the character codes of s. *)
Definition codes (s : string) : list N := map code (chars s).
Definition sign_split (l : list N) : bool * list N :=
  match l with
  | c :: r => if c =? 45 then (true, r) else if c =? 43 then (false, r) else (false, l)
  | [] => (false, [])
  end.

Theorem dec_parse_numeral s ws fs (pointed : bool) :
  let '(neg, body) := sign_split (codes s) in
  body = (if pointed then ws ++ dot :: fs else ws) ->
  all_digits ws = true -> all_digits fs = true ->
  (if pointed then ws <> [] \/ fs <> [] else ws <> [] /\ fs = []) ->
  N.of_nat (List.length fs) <= 28 -> digits_val (ws ++ fs) 0 < B96 ->
  dec_parse s = Some (result neg (digits_val (ws ++ fs) 0) (N.of_nat (List.length fs))).
Proof.
  unfold dec_parse, sign_split, codes. destruct (map code (chars s)) as [|c r] eqn:El.
  { intros Hb. destruct pointed; [destruct ws; discriminate|]. intros _ _ [Hne _]. subst ws. contradiction. }
  set (big := 18 <=? N.of_nat (List.length (c :: r))).
  assert (Hgo : forall neg body, body = (if pointed then ws ++ dot :: fs else ws) ->
            all_digits ws = true -> all_digits fs = true ->
            (if pointed then ws <> [] \/ fs <> [] else ws <> [] /\ fs = []) ->
            N.of_nat (List.length fs) <= 28 -> digits_val (ws ++ fs) 0 < B96 ->
            parse_loop big neg body false false 0 0 = Some (result neg (digits_val (ws ++ fs) 0) (N.of_nat (List.length fs)))).
  { intros neg body -> Hw Hf Hne Hk Hv. destruct pointed.
    - apply parse_decimal; assumption.
    - destruct Hne as [Hne ->]. rewrite app_nil_r in *. apply parse_integer; assumption. }
  destruct (c =? 45); [apply Hgo|]. destruct (c =? 43); apply Hgo.
Qed.

Example numeral_2_50 : dec_parse "2.50" = Some (mkdec false 250 2). Proof. reflexivity. Qed.
Example numeral_minus : dec_parse "-0.01" = Some (mkdec true 1 2). Proof. reflexivity. Qed.
Example numeral_lead_point : dec_parse ".5" = Some (mkdec false 5 1). Proof. reflexivity. Qed.
