(* AdmitLive: the converse of bid admission (C07): every create-bid request meeting the conditions is accepted. *)
From ATS Require Import Prelude Dec DecFacts Uuid Semver Types Contract Tactics Spec Inv InvAsk InstProofs AskProofs
  BidFacts InvBid InvStep ExitProofs Ledger AdmitProofs MatchLive.
Ltac Zify.zify_post_hook ::= Z.div_mod_to_equations.

Lemma dec_eqb_int t n :
  dec_has_fract t = false -> dec_to_u128 t = Some n -> dec_eqb t (dec_of_N n) = true.
Proof.
  intros Hfr Hu. apply to_u128_value in Hu as [-> Hneg]. pose proof (no_fract_int_value t Hfr) as (_ & _ & Hm).
  unfold dec_eqb, dec_cmp, dec_of_N. cbn [d_neg d_mant d_scale]. rewrite Hneg. cbn [andb].
  change (pow10 0) with 1. rewrite N.mul_1_r. rewrite Hm at 1. rewrite N.compare_refl. reflexivity.
Qed.

Theorem create_bid_if e st c sender funds id fee price quote qsize size p rate :
  st_cfg st = Some c -> cfg_ok c ->
  uuid_canonical id = true -> quote <> "" -> price <> "" -> 1 <= qsize -> 1 <= size ->
  valid_price price (cf_precision c) = Ok p ->                       (* parses, positive, within the precision *)
  size mod cf_increment c = 0 ->
  size < B96 -> qsize < B96 ->                                       (* outside K_capacity *)
  qsize * 10 ^ d_scale p = d_mant p * size ->                        (* price*size is the whole number quote_size *)
  bid_rate c = Some rate ->
  (forall total, mul_size p size = Ok total ->                       (* the fee at the configured rate is computable and is the one sent *)
     exists calc, rate_fee rate total = Ok calc /\
       match fee with Some f => c_amt f = calc /\ c_denom f = quote | None => calc = 0 end) ->
  In quote (cf_quotes c) -> has_attrs e (cf_bid_attrs c) sender = true ->
  qsize + fee_amt fee <= U128MAX ->
  funds_rule e funds (qsize + fee_amt fee) quote ->
  lookup id (st_bids st) = None ->
  execute FX e st sender funds (CreateBid id (cf_base c) fee price quote qsize size) =
  Ok (set_bids st (insert id (SlotV3 (new_bid sender id (cf_base c) fee price quote qsize size)) (st_bids st)),
      mkresp (pull_msgs e (qsize + fee_amt fee) quote sender)
             (create_bid_attrs (new_bid sender id (cf_base c) fee price quote qsize size))).
Proof.
  intros Hc Hcok Hid Hqne Hpne Hq1 Hs1 Hp Hlot Hs96 Hq96 HQ Hrate Hfeeh Hqin Hat Hov Hfu Hnone.
  pose proof (valid_price_of _ _ _ Hp) as (Hparse & Hneg & Hmnz & Hsc).
  destruct (mul_size_live p size qsize Hsc Hneg Hs96 Hq96) as (total & Hm & Hfr & Hu); [symmetry; exact HQ|].
  destruct (Hfeeh total Hm) as (calc & Hcalc & Hfm).
  unfold execute. cbn [validate_exec]. rewrite Hid.
  assert (Hbne : negb (str_empty (cf_base c)) = true).
  { destruct Hcok as (_ & _ & _ & _ & Hne & _). destruct (cf_base c); [congruence|reflexivity]. }
  rewrite Hbne. apply str_nonempty_true in Hqne, Hpne. rewrite Hqne, Hpne.
  assert (Hq1b : (1 <=? qsize) = true) by (apply N.leb_le; exact Hq1).
  assert (Hs1b : (1 <=? size) = true) by (apply N.leb_le; exact Hs1). rewrite Hq1b, Hs1b. cbn [andb guard bind].
  unfold create_bid, get_cfg. rewrite Hc. cbn [of_opt bind]. rewrite Hp. cbn [bind].
  apply N.eqb_eq in Hlot. rewrite Hlot. cbn [guard bind]. rewrite Hm. cbn [bind]. rewrite Hfr. cbn [negb guard bind].
  unfold dec_of_u128, dec_from_u128. destruct (N.ltb_spec qsize B96); [|lia]. cbn [of_opt bind].
  rewrite (dec_eqb_int total qsize Hfr Hu). cbn [guard bind].
  assert (Hr : match cf_bid_fee c with Some f => of_opt (dec_parse (f_rate f)) 30 | None => Ok dec_zero end = Ok rate).
  { unfold bid_rate in Hrate. destruct (cf_bid_fee c); [rewrite Hrate; reflexivity|injection Hrate as <-; reflexivity]. }
  rewrite Hr. cbn [bind]. rewrite Hcalc. cbn [bind].
  assert (Hg : match fee with
               | Some f => guard ((c_amt f =? calc) && String.eqb (c_denom f) quote) 46
               | None => guard (calc =? 0) 46
               end = Ok tt).
  { destruct fee as [f|]; [destruct Hfm as [-> ->]; rewrite N.eqb_refl, String.eqb_refl|subst calc]; reflexivity. }
  rewrite Hg. cbn [bind]. apply mem_In in Hqin. rewrite Hqin. cbn [guard bind]. rewrite String.eqb_refl. cbn [guard bind].
  rewrite Hat. cbn [guard bind]. rewrite Hu. cbn [of_opt bind].
  assert (Hovb : (qsize + fee_amt fee <=? U128MAX) = true) by (apply N.leb_le; exact Hov).
  change (match fee with Some f => c_amt f | None => 0 end) with (fee_amt fee).
  unfold checked_add. rewrite Hovb. cbn [bind]. apply funds_ok_rule in Hfu. rewrite Hfu. cbn [guard bind]. rewrite Hnone. cbn [guard bind].
  unfold pull_msgs. destruct (is_restricted e quote); [|reflexivity].
  unfold pull_in. destruct (N.eqb_spec (qsize + fee_amt fee) 0); [lia|]. reflexivity.
Qed.
