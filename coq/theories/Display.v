(* Display: the decimal printer is a right inverse of the parser.  For every decimal with a mantissa below 2^96 and at
   most 28 decimals, parsing what Display prints gives the same number back (sign, mantissa and scale; "-0" prints as
   a negative numeral and reads back as 0).  So a `price` attribute (C17) *is* the execution price, as a number. *)
From Coq Require Import Decimal DecimalPos DecimalN DecimalString.
From ATS Require Import Prelude Dec DecFacts Numeral.
Ltac Zify.zify_post_hook ::= Z.div_mod_to_equations.

(* ---------------------------------------------------------------- strings as lists of character codes *)
Lemma codes_cons c s : codes (String c s) = code c :: codes s.
Proof. reflexivity. Qed.
Lemma codes_append a b : codes (String.append a b) = codes a ++ codes b.
Proof. induction a as [|c a IH]; [reflexivity|]. cbn [String.append]. rewrite !codes_cons, IH. reflexivity. Qed.
Lemma codes_length s : String.length s = List.length (codes s).
Proof. induction s as [|c s IH]; [reflexivity|]. rewrite codes_cons. cbn [String.length List.length]. rewrite IH. reflexivity. Qed.
Lemma codes_substring : forall n m s, codes (substring n m s) = firstn m (skipn n (codes s)).
Proof.
  induction n as [|n IHn].
  - induction m as [|m IHm]; intros s.
    + destruct s; reflexivity.
    + destruct s as [|c s]; [reflexivity|]. cbn [substring]. rewrite !codes_cons. cbn [skipn firstn].
      rewrite IHm. reflexivity.
  - intros m s. destruct s as [|c s].
    + cbn [substring]. destruct m; reflexivity.
    + cbn [substring]. rewrite codes_cons. cbn [skipn]. apply IHn.
Qed.
Lemma codes_zeros n : codes (zeros n) = repeat 48 n.
Proof. induction n as [|n IH]; [reflexivity|]. cbn [zeros repeat]. rewrite codes_cons, IH. reflexivity. Qed.

(* ---------------------------------------------------------------- the digits of string_of_N *)
Fixpoint uint_val (u : uint) (acc : N) : N :=
  match u with
  | Nil => acc
  | D0 u => uint_val u (acc * 10 + 0) | D1 u => uint_val u (acc * 10 + 1) | D2 u => uint_val u (acc * 10 + 2)
  | D3 u => uint_val u (acc * 10 + 3) | D4 u => uint_val u (acc * 10 + 4) | D5 u => uint_val u (acc * 10 + 5)
  | D6 u => uint_val u (acc * 10 + 6) | D7 u => uint_val u (acc * 10 + 7) | D8 u => uint_val u (acc * 10 + 8)
  | D9 u => uint_val u (acc * 10 + 9)
  end.

Lemma codes_uint u : forall acc,
  digits_val (codes (NilEmpty.string_of_uint u)) acc = uint_val u acc /\
  all_digits (codes (NilEmpty.string_of_uint u)) = true.
Proof.
  induction u as [|u IH|u IH|u IH|u IH|u IH|u IH|u IH|u IH|u IH|u IH]; intros acc;
    [split; reflexivity|..];
    cbn [NilEmpty.string_of_uint]; rewrite codes_cons; cbn [digits_val all_digits forallb uint_val];
    (split; [refine (proj1 (IH _))|exact (proj2 (IH acc))]).
Qed.

Lemma uint_val_spec u : forall acc, uint_val u acc = acc * 10 ^ Unsigned.usize u + Unsigned.of_lu (Decimal.rev u).
Proof.
  induction u as [|u IH|u IH|u IH|u IH|u IH|u IH|u IH|u IH|u IH|u IH]; intros acc;
    [cbn; lia|..];
    cbn [uint_val Unsigned.usize]; rewrite IH; rewrite N.pow_succ_r';
    change (Decimal.rev ?x) with (revapp x Nil) at 2; cbn [revapp];
    match goal with |- context [Unsigned.of_lu (revapp u (?f Nil))] => rewrite (Unsigned.of_lu_revapp u (f Nil)) end;
    cbn [Unsigned.of_lu]; ring.
Qed.

Lemma string_of_N_digits n :
  digits_val (codes (string_of_N n)) 0 = n /\ all_digits (codes (string_of_N n)) = true.
Proof.
  unfold string_of_N. destruct (codes_uint (N.to_uint n) 0) as [Hv Hd]. split; [|exact Hd].
  rewrite Hv, uint_val_spec, N.mul_0_l, N.add_0_l, <- Unsigned.of_uint_alt.
  change (Pos.of_uint (N.to_uint n)) with (N.of_uint (N.to_uint n)). apply DecimalN.Unsigned.of_to.
Qed.

(* leading zeros do not change the value *)
Lemma digits_val_zeros k l : digits_val (repeat 48 k ++ l) 0 = digits_val l 0.
Proof. induction k as [|k IH]; [reflexivity|]. cbn [repeat app digits_val]. exact IH. Qed.
Lemma all_digits_app l1 l2 : all_digits (l1 ++ l2) = all_digits l1 && all_digits l2.
Proof. unfold all_digits. apply forallb_app. Qed.
Lemma all_digits_zeros k : all_digits (repeat 48 k) = true.
Proof. induction k as [|k IH]; [reflexivity|]. cbn [repeat all_digits forallb]. exact IH. Qed.
Lemma all_digits_firstn n l : all_digits l = true -> all_digits (firstn n l) = true.
Proof.
  revert l. induction n as [|n IH]; intros l H; [reflexivity|]. destruct l as [|c l]; [reflexivity|].
  cbn [firstn all_digits forallb] in *. apply andb_prop in H as [H1 H2]. rewrite H1. apply IH. exact H2.
Qed.
Lemma all_digits_skipn n l : all_digits l = true -> all_digits (skipn n l) = true.
Proof.
  revert l. induction n as [|n IH]; intros l H; [exact H|]. destruct l as [|c l]; [reflexivity|].
  cbn [skipn all_digits forallb] in *. apply andb_prop in H as [_ H2]. apply IH. exact H2.
Qed.

(* ---------------------------------------------------------------- parsing a signed numeral given by its parts *)
Lemma str_empty_codes s : str_empty s = list_empty (codes s).
Proof. destruct s; reflexivity. Qed.

Lemma dec_parse_signed (neg : bool) body ws fs (pointed : bool) :
  codes body = (if pointed then ws ++ dot :: fs else ws) ->
  all_digits ws = true -> all_digits fs = true -> ws <> [] -> (pointed = false -> fs = []) ->
  N.of_nat (List.length fs) <= 28 -> digits_val (ws ++ fs) 0 < B96 ->
  dec_parse (if neg then String "-" body else body) =
  Some (result neg (digits_val (ws ++ fs) 0) (N.of_nat (List.length fs))).
Proof.
  intros Hb Hw Hf Hne Hp Hk Hv.
  pose proof (dec_parse_numeral (if neg then String "-" body else body) ws fs pointed) as H.
  assert (Hcond : if pointed then ws <> [] \/ fs <> [] else ws <> [] /\ fs = []).
  { destruct pointed; [left; exact Hne|split; [exact Hne|apply Hp; reflexivity]]. }
  destruct neg.
  - rewrite codes_cons in H. change (code "-") with 45 in H. cbn [sign_split N.eqb Pos.eqb] in H.
    apply H; assumption.
  - destruct ws as [|c ws']; [contradiction|].
    assert (Hc : is_digit c = true) by (cbn [all_digits forallb] in Hw; apply andb_prop in Hw as [? _]; assumption).
    unfold is_digit in Hc. apply andb_prop in Hc as [H1 H2]. apply N.leb_le in H1, H2.
    assert (Hcodes : codes body = c :: (if pointed then ws' ++ dot :: fs else ws')) by (rewrite Hb; destruct pointed; reflexivity).
    rewrite Hcodes in H. cbn [sign_split] in H.
    destruct (N.eqb_spec c 45) as [|_]; [lia|]. destruct (N.eqb_spec c 43) as [|_]; [lia|].
    apply H; try assumption. destruct pointed; reflexivity.
Qed.

(* ---------------------------------------------------------------- Display, then parse *)
Theorem display_parse a :
  d_mant a < B96 -> d_scale a <= 28 ->
  dec_parse (dec_to_string a) = Some (mkdec (d_neg a && negb (d_mant a =? 0)) (d_mant a) (d_scale a)).
Proof.
  intros Hm Hs. unfold dec_to_string.
  set (digits := if d_mant a =? 0 then ""%string else string_of_N (d_mant a)).
  set (sc := N.to_nat (d_scale a)).
  set (padded := String.append (zeros (sc - String.length digits)) digits).
  set (plen := String.length padded).
  set (whole := substring 0 (plen - sc) padded). set (frac := substring (plen - sc) sc padded).
  (* the lists *)
  assert (HD : digits_val (codes digits) 0 = d_mant a /\ all_digits (codes digits) = true).
  { unfold digits. destruct (N.eqb_spec (d_mant a) 0) as [->|_]; [split; reflexivity|apply string_of_N_digits]. }
  destruct HD as [HDv HDd].
  assert (HP : codes padded = repeat 48 (sc - String.length digits) ++ codes digits).
  { unfold padded. rewrite codes_append, codes_zeros. reflexivity. }
  assert (Hplen : plen = (sc - String.length digits + String.length digits)%nat).
  { unfold plen. rewrite codes_length, HP, app_length, repeat_length, <- codes_length. reflexivity. }
  assert (Hge : (sc <= plen)%nat) by lia.
  assert (HW : codes whole = firstn (plen - sc) (codes padded)) by (unfold whole; rewrite codes_substring; reflexivity).
  assert (HF : codes frac = skipn (plen - sc) (codes padded)).
  { unfold frac. rewrite codes_substring. apply firstn_all2. rewrite skipn_length, <- codes_length. fold plen. lia. }
  assert (HFl : List.length (codes frac) = sc).
  { rewrite HF, skipn_length, <- codes_length. fold plen. lia. }
  assert (HWF : codes whole ++ codes frac = codes padded) by (rewrite HW, HF; apply firstn_skipn).
  assert (HPd : all_digits (codes padded) = true) by (rewrite HP, all_digits_app, all_digits_zeros, HDd; reflexivity).
  assert (HPv : digits_val (codes padded) 0 = d_mant a) by (rewrite HP, digits_val_zeros; exact HDv).
  set (ws := if list_empty (codes whole) then [48] else codes whole).
  assert (Hws : ws <> []) by (unfold ws; destruct (codes whole); discriminate).
  assert (Hwsd : all_digits ws = true).
  { unfold ws. destruct (codes whole) eqn:E; [reflexivity|]. cbn [list_empty]. rewrite HW. apply all_digits_firstn. exact HPd. }
  assert (Hfd : all_digits (codes frac) = true) by (rewrite HF; apply all_digits_skipn; exact HPd).
  assert (Hval : digits_val (ws ++ codes frac) 0 = d_mant a).
  { unfold ws. destruct (codes whole) eqn:E; cbn [list_empty].
    - cbn [app digits_val]. rewrite <- HPv, <- HWF. reflexivity.
    - rewrite HWF. exact HPv. }
  assert (Hwscodes : codes (if str_empty whole then "0"%string else whole) = ws).
  { unfold ws. rewrite str_empty_codes. destruct (codes whole) eqn:E; cbn [list_empty]; [reflexivity|exact E]. }
  assert (Hsc : N.of_nat sc = d_scale a) by (unfold sc; apply N2Nat.id).
  set (body := match sc with O => _ | S _ => _ end).
  assert (Hgoal : dec_parse (if d_neg a then String "-" body else body) =
                  Some (result (d_neg a) (digits_val (ws ++ codes frac) 0) (N.of_nat (List.length (codes frac))))).
  { destruct sc as [|k] eqn:Esc.
    - apply (dec_parse_signed (d_neg a) body ws (codes frac) false);
        [unfold body; exact Hwscodes|exact Hwsd|exact Hfd|exact Hws| | |rewrite Hval; exact Hm].
      + intros _. destruct (codes frac); [reflexivity|discriminate].
      + rewrite HFl. cbn. lia.
    - apply (dec_parse_signed (d_neg a) body ws (codes frac) true);
        [|exact Hwsd|exact Hfd|exact Hws|intros Hx; discriminate| |rewrite Hval; exact Hm].
      + unfold body. rewrite codes_append, codes_cons, Hwscodes. reflexivity.
      + rewrite HFl, Hsc. exact Hs. }
  rewrite Hval, HFl, Hsc in Hgoal. unfold result in Hgoal. destruct (d_neg a); exact Hgoal.
Qed.

Example display_parse_example :
  dec_to_string (mkdec false 250 2) = "2.50"%string /\ dec_to_string (mkdec true 5 3) = "-0.005"%string.
Proof. split; reflexivity. Qed.
