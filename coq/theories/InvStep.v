(* InvStep: the full invariant is preserved by every accepted execute request outside the known classes,
   hence holds in every state reachable by a clean history. *)
From ATS Require Import Prelude Dec DecFacts Uuid Semver Types Contract Tactics Spec Inv InvAsk InstProofs AskProofs
  BidFacts InvBid.
Ltac Zify.zify_post_hook ::= Z.div_mod_to_equations.

(* side condition of a step outside the known classes: only a match has one (its size need not be a lot multiple):
   the products it forms are exact (class K_inexact excluded by name) and the fee due grows with the amount spent.
   Creating, rejecting, cancelling, expiring, approving and configuring need no side condition: lot-multiple
   products are always exact (ExactFacts.lot_product_exact). *)
Definition clean_exec (st : state) (m : emsg) : Prop :=
  match m with
  | ExecuteMatch _ bid_id price size => clean_match st bid_id price size
  | _ => True
  end.

Lemma InvB_asks_only st st' : st_cfg st' = st_cfg st -> st_bids st' = st_bids st -> InvB st -> InvB st'.
Proof. intros Hc Hb [H1 H2 H3]. constructor; rewrite ?Hc, ?Hb; auto. Qed.

Theorem Inv_step e st sender funds m st' r :
  Inv st -> clean_exec st m -> execute FX e st sender funds m = Ok (st', r) -> Inv st'.
Proof.
  intros [HA HB] Hclean H. split; [eapply InvA_step; eauto|].
  pose proof H as H0. unfold execute in H. guard_inv H Hv. destruct m; cbn [validate_exec clean_exec] in *.
  - apply approve_ask_inv in H as (c & a & _ & _ & _ & _ & _ & _ & _ & -> & _). apply InvB_set_asks. exact HB.
  - apply cancel_ask_inv in H as (a & _ & _ & _ & -> & _). apply InvB_set_asks. exact HB.
  - eapply InvB_reverse_bid; eauto.
  - apply create_ask_iff in H as (c & _ & _ & -> & _). apply InvB_set_asks. exact HB.
  - repeat (apply andb_prop in Hv as [Hv ?]). eapply InvB_create_bid; eauto; apply N.leb_le; assumption.
  - repeat (apply andb_prop in Hv as [Hv ?]). eapply InvB_execute_match; eauto. apply N.leb_le. assumption.
  - apply reverse_ask_inv in H as (c & a & eff & _ & _ & _ & _ & _ & _ & _ & -> & _). apply InvB_set_asks. exact HB.
  - eapply InvB_reverse_bid; eauto.
  - apply reverse_ask_inv in H as (c & a & eff & _ & _ & _ & _ & _ & _ & _ & -> & _). apply InvB_set_asks. exact HB.
  - eapply InvB_reverse_bid; eauto.
  - apply Inv_modify in H0 as [_ HBB]. auto.
Qed.

(* histories in which every accepted step is clean *)
Fixpoint clean_run (st : state) (evs : list event) : Prop :=
  match evs with
  | [] => True
  | ev :: rest => clean_exec st (ev_msg ev) /\ clean_run (run_event st ev) rest
  end.

Lemma Inv_run evs : forall st, Inv st -> clean_run st evs -> Inv (run st evs).
Proof.
  induction evs as [|ev evs IH]; intros st HI Hc; [exact HI|].
  change (run st (ev :: evs)) with (run (run_event st ev) evs). destruct Hc as [Hc1 Hc2].
  apply IH; [|exact Hc2]. unfold run_event.
  destruct (execute FX (ev_env ev) st (ev_sender ev) (ev_funds ev) (ev_msg ev)) as [[st' r]|t] eqn:E; [|exact HI].
  eapply Inv_step; eauto.
Qed.

Lemma Inv_init e m st0 r : env_version_ok e -> instantiate e empty_state m = Ok (st0, r) -> Inv st0.
Proof.
  intros He H. split; [eapply InvA_init; eauto|]. apply instantiate_stored in H as [-> _].
  constructor; cbn; [intros c k s _ Hx; discriminate|constructor|intros c k b p _ Hx; discriminate].
Qed.

Theorem Inv_reachable e m st0 r evs :
  env_version_ok e -> instantiate e empty_state m = Ok (st0, r) -> clean_run st0 evs -> Inv (run st0 evs).
Proof. intros He H Hc. apply Inv_run; [eapply Inv_init; eauto|exact Hc]. Qed.

(* ---------------------------------------------------------------- exits of bids are always possible *)
Lemma checked_sub_same a t : checked_sub a a t = Ok 0.
Proof. unfold checked_sub. rewrite N.leb_refl, N.sub_diag. reflexivity. Qed.
Lemma checked_sub_zero a t : checked_sub a 0 t = Ok a.
Proof. unfold checked_sub. destruct (N.leb_spec 0 a); [rewrite N.sub_0_r; reflexivity|lia]. Qed.

Definition bid_exit_all (e : env) (b : bid) : list msg :=
  pay_msg e (unspent b) (c_denom (b_quote b)) (b_owner b) ::
  (if 0 <? held b then [pay_msg e (held b) (c_denom (b_quote b)) (b_owner b)] else []).

Lemma bid_full_exit e st c id b sender action (is_cancel : bool) :
  st_cfg st = Some c -> lookup id (st_bids st) = Some (SlotV3 b) -> bid_ok c id b ->
  (if is_cancel then sender = b_owner b else In sender (cf_executors c)) ->
  reverse_bid FX e st sender [] id action is_cancel None =
  Ok (set_bids st (remove id (st_bids st)),
      mkresp (bid_exit_all e b) (reverse_attrs action id (unfilled b) false)).
Proof.
  intros Hc Hl Hok Hauth. pose proof Hok as (Hid & Hu & Hbd & Hqd & Hab & Haq & Hb96 & Hq96 & (p & Hp & HQ & HU) & Hfee).
  pose proof Hp as (Hparse & Hneg & Hmnz & Hsc).
  unfold reverse_bid.
  assert (Hne : negb (str_empty id) = true) by (destruct id; [cbn in Hu; discriminate|reflexivity]).
  rewrite Hne. cbn [list_empty guard bind]. unfold get_cfg. rewrite Hc. cbn [of_opt bind].
  unfold load_bid. rewrite Hl. cbn [bind].
  assert (Hau : (if is_cancel then String.eqb sender (b_owner b) else mem sender (cf_executors c)) = true).
  { destruct is_cancel; [subst sender; apply String.eqb_refl|apply mem_In; exact Hauth]. }
  rewrite Hau. cbn [guard bind].
  assert (Hrb : remaining_base b = Ok (unfilled b)).
  { unfold remaining_base, checked_sub, unfilled. destruct (N.leb_spec (b_acc_base b) (c_amt (b_base b))); [reflexivity|lia]. }
  rewrite Hrb. cbn [bind]. unfold lot_ok. cbn [fix_exit_lot all_fixes guard bind]. rewrite N.leb_refl. cbn [guard bind].
  rewrite Hparse. cbn [of_opt bind].
  assert (Hlt : unfilled b < B96) by (unfold unfilled; lia).
  assert (Hlq : unspent b < B96) by (unfold unspent; lia).
  destruct (mul_size_live p (unfilled b) (unspent b) Hsc Hneg Hlt Hlq) as (t & Ht & Hfr & Htu); [symmetry; exact HU|].
  rewrite Ht. cbn [bind]. rewrite Hfr. cbn [negb guard bind]. rewrite Htu. cbn [of_opt bind].
  pose proof (pow10_pos (d_scale p)) as Ppos.
  assert (Hunf : 1 <= unfilled b) by (unfold unfilled; lia).
  assert (Husp : 1 <= unspent b).
  { destruct (N.eq_dec (unspent b) 0) as [Hz|]; [|lia]. rewrite Hz in HU. nia. }
  assert (Hqnz : c_amt (b_quote b) <> 0) by (unfold unspent in Husp; lia).
  assert (Hrq : remaining_quote b = Ok (unspent b)).
  { unfold remaining_quote, checked_sub, unspent. destruct (N.leb_spec (b_acc_quote b) (c_amt (b_quote b))); [reflexivity|lia]. }
  assert (Hacc : forall back, opt_amt back = held b ->
            accumulate b (unfilled b) (unspent b) back =
            Ok (mkbid (b_base b) (c_amt (b_base b)) (c_amt (b_quote b)) (b_acc_fee b + held b) (b_fee b) (b_id b)
                      (b_owner b) (b_price b) (b_quote b))).
  { intros back Hb. unfold accumulate, checked_add, unfilled, unspent.
    replace (b_acc_base b + (c_amt (b_base b) - b_acc_base b)) with (c_amt (b_base b)) by lia.
    replace (b_acc_quote b + (c_amt (b_quote b) - b_acc_quote b)) with (c_amt (b_quote b)) by lia.
    assert (HU1 : c_amt (b_base b) <=? U128MAX = true) by (apply N.leb_le; unfold B96, U128MAX in *; lia).
    assert (HU2 : c_amt (b_quote b) <=? U128MAX = true) by (apply N.leb_le; unfold B96, U128MAX in *; lia).
    rewrite HU1. cbn [bind].
    destruct back as [x|]; cbn [opt_amt] in Hb.
    - subst x. assert (HU3 : b_acc_fee b + held b <=? U128MAX = true).
      { apply N.leb_le. unfold held in *. destruct (b_fee b) as [f|]; [destruct Hfee as (_ & ? & ? & _)|]; unfold B96, U128MAX in *; lia. }
      rewrite HU3. cbn [bind]. rewrite HU2. cbn [bind]. reflexivity.
    - cbn [bind]. rewrite HU2. cbn [bind]. rewrite <- Hb, N.add_0_r. reflexivity. }
  assert (Hrb' : forall bb, b_base bb = b_base b -> b_acc_base bb = c_amt (b_base b) -> remaining_base bb = Ok 0).
  { intros bb H1 H2. unfold remaining_base, checked_sub. rewrite H1, H2, N.leb_refl, N.sub_diag. reflexivity. }
  unfold bid_exit_all, reverse_attrs.
  destruct (b_fee b) as [f|] eqn:Ef.
  - destruct Hfee as (Hfd & Hfa & Hf96 & HF).
    rewrite Hrq. cbn [bind]. rewrite checked_sub_same. cbn [bind].
    rewrite (fee_for_rest_zero b (c_amt f) Hqnz Hq96 Hf96). cbn [bind].
    assert (Hrf : remaining_fee b = Ok (held b)).
    { unfold remaining_fee, held, checked_sub. rewrite Ef. destruct (N.leb_spec (b_acc_fee b) (c_amt f)); [reflexivity|lia]. }
    rewrite Hrf. cbn [bind]. rewrite checked_sub_zero. cbn [bind].
    rewrite (Hacc (Some (held b)) eq_refl). cbn [bind]. unfold pay. rewrite pay_live_at by lia. cbn [bind].
    destruct (0 <? held b) eqn:Eh.
    + rewrite pay_live_at by (apply N.ltb_lt in Eh; lia). cbn [bind].
      rewrite Hrb' by reflexivity. cbn [bind N.eqb negb]. rewrite Hid. reflexivity.
    + cbn [bind]. rewrite Hrb' by reflexivity. cbn [bind N.eqb negb]. rewrite Hid. reflexivity.
  - cbn [bind]. assert (Hh : held b = 0) by (unfold held; rewrite Ef; reflexivity).
    rewrite (Hacc None (eq_sym Hh)). cbn [bind]. unfold pay. rewrite pay_live_at by lia. cbn [bind].
    rewrite Hrb' by reflexivity. cbn [bind N.eqb negb]. rewrite Hh. cbn [N.ltb]. rewrite Hid. reflexivity.
Qed.
