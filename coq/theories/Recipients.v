(* Recipients: what an accepted match delivers to each account (C02: "each party receives exactly its due, nobody else
   anything").  [received d x ms] is the amount of denomination d that the messages ms deliver to account x. *)
From ATS Require Import Prelude Dec DecFacts Uuid Semver Types Contract Tactics Spec Inv InvAsk InstProofs AskProofs
  BidFacts InvBid InvStep ExitProofs Ledger.
Ltac Zify.zify_post_hook ::= Z.div_mod_to_equations.

Definition sel (x y : string) (n : N) : N := if String.eqb y x then n else 0.      (* n when account y is x *)
Definition to_amt (d x : string) (m : msg) : N :=
  match m with
  | Bank to c => sel x to (ind d (c_denom c) (c_amt c))
  | Xfer _ to c _ => sel x to (ind d (c_denom c) (c_amt c))
  end.
Definition received (d x : string) (ms : list msg) : N := fold_right (fun m acc => to_amt d x m + acc) 0 ms.
Definition seller_side (a : ask) : string := match a_class a with Ready apr _ => apr | _ => a_owner a end.

Lemma received_app d x a b : received d x (a ++ b) = received d x a + received d x b.
Proof. induction a as [|m a IH]; cbn; [reflexivity|]. fold (received d x (a ++ b)). fold (received d x a). rewrite IH. lia. Qed.
Lemma sel_add x y a b : sel x y (a + b) = sel x y a + sel x y b.
Proof. unfold sel. destruct (String.eqb y x); lia. Qed.
Lemma sel_0 x y : sel x y 0 = 0.
Proof. unfold sel. destruct (String.eqb y x); reflexivity. Qed.
Lemma ind_0 d x : ind d x 0 = 0.
Proof. unfold ind. destruct (String.eqb d x); reflexivity. Qed.
Lemma recv_pay e d x amt dn to : to_amt d x (pay_msg e amt dn to) = sel x to (ind d dn amt).
Proof. unfold pay_msg. destruct (is_restricted e dn); reflexivity. Qed.
Lemma recv_pay1 e d x amt dn to : received d x [pay_msg e amt dn to] = sel x to (ind d dn amt).
Proof. cbn. rewrite recv_pay. lia. Qed.

Lemma recv_m_ask_fee e d x c qd af : received d x (m_ask_fee e c qd af) = sel x (fee_acct (cf_ask_fee c)) (ind d qd af).
Proof. unfold m_ask_fee. destruct (N.eqb_spec af 0) as [->|]; [cbn; rewrite ind_0, sel_0; reflexivity|apply recv_pay1]. Qed.
Lemma recv_m_bid_fee e d x c qd bf : received d x (m_bid_fee e c qd bf) = sel x (fee_acct (cf_bid_fee c)) (ind d qd (opt_amt bf)).
Proof. unfold m_bid_fee. destruct bf; [apply recv_pay1|cbn; rewrite ind_0, sel_0; reflexivity]. Qed.
Lemma recv_m_net e d x qd to net : received d x (m_net e qd to net) = sel x to (ind d qd net).
Proof. unfold m_net. destruct (N.eqb_spec net 0) as [->|]; [cbn; rewrite ind_0, sel_0; reflexivity|apply recv_pay1]. Qed.
Lemma recv_m_settle e d x a b size net :
  a_class a <> Pending ->
  received d x (m_settle e a b size net) =
  sel x (b_owner b) (ind d (match a_class a with Ready _ cb => c_denom cb | _ => a_base a end) size) +
  sel x (seller_side a) (ind d (c_denom (b_quote b)) net + match a_class a with Ready _ _ => ind d (a_base a) size | _ => 0 end).
Proof.
  intros Hnp. unfold m_settle, seller_side. destruct (a_class a) as [| |apr cb]; [|contradiction|].
  - rewrite received_app, recv_m_net, recv_pay1. rewrite N.add_0_r. lia.
  - rewrite received_app, recv_m_net. cbn [received fold_right]. rewrite !recv_pay, sel_add. lia.
Qed.
Lemma recv_m_refund e d x b refund fr :
  0 < refund -> received d x (m_refund e b refund fr) = sel x (b_owner b) (ind d (c_denom (b_quote b)) (refund + opt_amt fr)).
Proof.
  intros H. unfold m_refund. apply N.ltb_lt in H. rewrite H. rewrite ind_add, sel_add.
  destruct fr; cbn [received fold_right opt_amt]; rewrite ?recv_pay; [lia|]. rewrite ind_0, sel_0. lia.
Qed.

(* What an accepted match delivers, account by account and denomination by denomination:
     the bid's owner:      [size] of the contract's base denomination, and -- below the bid's limit -- the refund
                           (bid price - price) * size with the refunded share [fr] of the escrowed fee;
     the selling side:     price * size - ask fee in the quote denomination (the ask's owner for a plain ask; for an
                           approved convertible ask the approver, who also receives [size] of the convertible denomination);
     the ask-fee account:  the ask fee;      the bid-fee account:  the bid's fee for this fill [bf];
     and NOBODY ELSE ANYTHING: the right-hand side is zero for every other account.
   gross = price * size and dy = bid price * size exactly; bf + fr is the part of the escrowed fee the fill releases. *)
Theorem match_recipients e st sender funds ask_id bid_id price size st' r :
  InvA st -> InvB st -> 1 <= size -> clean_match st bid_id price size ->
  execute_match FX e st sender funds ask_id bid_id price size = Ok (st', r) ->
  exists c a b bp xp gross af dy bf fr,
    st_cfg st = Some c /\ lookup ask_id (st_asks st) = Some a /\ lookup bid_id (st_bids st) = Some (SlotV3 b) /\
    price_of (b_price b) bp /\ dec_parse price = Some xp /\
    gross * 10 ^ d_scale xp = d_mant xp * size /\ dy * 10 ^ d_scale bp = d_mant bp * size /\
    gross <= dy /\ af <= gross /\ ask_fee_spec_exists c xp size af /\ fee_cond b dy (bf + fr) /\
    forall x d,
      received d x (r_msgs r) =
        sel x (b_owner b) (ind d (cf_base c) size + ind d (c_denom (b_quote b)) ((dy - gross) + fr)) +
        sel x (seller_side a) (ind d (c_denom (b_quote b)) (gross - af) +
                               match a_class a with Ready _ _ => ind d (a_base a) size | _ => 0 end) +
        sel x (fee_acct (cf_ask_fee c)) (ind d (c_denom (b_quote b)) af) +
        sel x (fee_acct (cf_bid_fee c)) (ind d (c_denom (b_quote b)) bf).
Proof.
  intros HA HB Hs1 Hclean H.
  destruct (match_settles_full e st sender funds ask_id bid_id price size st' r HA HB Hs1 Hclean H) as
    (c & a & b & bp & xp & gross & af & dy & fa & bfee & frefund & Hc & _ & _ & Hla & Hlb & Hbp & Hxp & _ & _ & _ & Hnp & Hg & Hdy &
     Hgle & Hafle & Hafs & Hfc & _ & _ & _ & Hmsgs & Hfa & _ & Hnone).
  pose proof (inv_asks st HA c ask_id a Hc Hla) as (_ & _ & _ & Hcls & _ & _ & _ & Hr).
  exists c, a, b, bp, xp, gross, af, dy, (opt_amt bfee), (opt_amt frefund).
  repeat (split; [assumption|]). split; [rewrite Hfa; exact Hfc|].
  intros x d. rewrite Hmsgs, !received_app, recv_m_ask_fee, recv_m_bid_fee, (recv_m_settle e d x a b size (gross - af) Hnp).
  assert (Hbase : match a_class a with Ready _ cb => c_denom cb | _ => a_base a end = cf_base c).
  { destruct (a_class a) as [| |apr cb]; [apply Hcls; reflexivity|contradiction|subst cb; reflexivity]. }
  rewrite Hbase.
  destruct (N.ltb_spec gross dy) as [Hlt|Hge].
  - rewrite recv_m_refund by lia. rewrite !sel_add. lia.
  - assert (dy = gross) by lia. subst dy. rewrite (Hnone eq_refl). cbn [received fold_right opt_amt].
    rewrite N.sub_diag, N.add_0_r, ind_0, !sel_add, sel_0. lia.
Qed.

(* ---------------------------------------------------------------- exits: who is paid what (C04) *)
Lemma recv_ask_exit e d x a amt camt :
  received d x (ask_exit_msgs e a amt camt) =
  sel x (a_owner a) (ind d (a_base a) amt) +
  match a_class a with Ready ap cb => sel x ap (ind d (c_denom cb) camt) | _ => 0 end.
Proof.
  unfold ask_exit_msgs. destruct (a_class a) as [| |ap cb]; cbn [received fold_right]; rewrite ?recv_pay; lia.
Qed.

(* cancel / expire / reject of an ask by the effective size c: the owner receives c of the denomination the ask sells, the
   approver of an approved ask c of the contract's base, nobody else anything *)
Theorem ask_exit_recipients e st sender funds m st' r :
  InvA st -> (exists id, m = CancelAsk id \/ m = ExpireAsk id \/ exists s, m = RejectAsk id s) ->
  execute FX e st sender funds m = Ok (st', r) ->
  exists c a eff id,
    st_cfg st = Some c /\ lookup id (st_asks st) = Some a /\ eff <= a_size a /\
    (forall id', m = CancelAsk id' -> eff = a_size a) /\
    forall x d,
      received d x (r_msgs r) =
        sel x (a_owner a) (ind d (a_base a) eff) +
        match a_class a with Ready ap _ => sel x ap (ind d (cf_base c) eff) | _ => 0 end.
Proof.
  intros HA (id & Hm) H. unfold execute in H. guard_inv H Hv. destruct (inv_cfg st HA) as (c & Hc & _).
  destruct Hm as [->|[->|(s & ->)]]; cbn [validate_exec] in *.
  - apply cancel_ask_inv in H as (a & _ & Hl & _ & _ & ->).
    pose proof (inv_asks st HA c id a Hc Hl) as (_ & _ & _ & _ & _ & _ & _ & Hr).
    exists c, a, (a_size a), id. split; [exact Hc|]. split; [exact Hl|]. split; [lia|]. split; [reflexivity|]. intros x d. cbn [r_msgs]. rewrite recv_ask_exit.
    destruct (a_class a) as [| |ap cb]; try reflexivity. subst cb. reflexivity.
  - apply reverse_ask_inv in H as (c' & a & eff & _ & Hc' & _ & Hl & _ & _ & Hle & _ & ->).
    rewrite Hc in Hc'. injection Hc' as <-.
    pose proof (inv_asks st HA c id a Hc Hl) as (_ & _ & _ & _ & _ & _ & _ & Hr).
    exists c, a, eff, id. split; [exact Hc|]. split; [exact Hl|]. split; [exact Hle|]. split; [intros id' Hx; discriminate Hx|]. intros x d. cbn [r_msgs]. rewrite recv_ask_exit.
    destruct (a_class a) as [| |ap cb]; try reflexivity. subst cb. reflexivity.
  - apply reverse_ask_inv in H as (c' & a & eff & _ & Hc' & _ & Hl & _ & _ & Hle & _ & ->).
    rewrite Hc in Hc'. injection Hc' as <-.
    pose proof (inv_asks st HA c id a Hc Hl) as (_ & _ & _ & _ & _ & _ & _ & Hr).
    exists c, a, eff, id. split; [exact Hc|]. split; [exact Hl|]. split; [exact Hle|]. split; [intros id' Hx; discriminate Hx|]. intros x d. cbn [r_msgs]. rewrite recv_ask_exit.
    destruct (a_class a) as [| |ap cb]; try reflexivity. subst cb. reflexivity.
Qed.

(* cancel / expire / reject of a bid by the effective size c: the owner receives cq = price * c of quote and the part fa of
   the escrowed fee no longer needed, nobody else anything *)
Theorem bid_exit_recipients e st sender funds m id action is_cancel csz st' r :
  Inv st -> clean_exec st m -> bid_reverse_of m = Some (id, action, is_cancel, csz) ->
  execute FX e st sender funds m = Ok (st', r) ->
  exists b p eff cq fa,
    lookup id (st_bids st) = Some (SlotV3 b) /\ price_of (b_price b) p /\
    eff = match csz with None => unfilled b | Some s => s end /\
    cq * 10 ^ d_scale p = d_mant p * eff /\ fee_cond b cq fa /\
    forall x d, received d x (r_msgs r) = sel x (b_owner b) (ind d (c_denom (b_quote b)) (cq + fa)).
Proof.
  intros HI Hclean Hm H.
  destruct (bid_reverse_settles e st sender funds m id action is_cancel csz st' r HI Hclean Hm H) as
    (c & b & p & eff & cq & fa & _ & Hl & Hp & _ & _ & Heff & _ & _ & Hdy & Hfa & -> & _).
  exists b, p, eff, cq, fa. split; [exact Hl|]. split; [exact Hp|]. split; [exact Heff|]. split; [exact Hdy|]. split; [exact Hfa|].
  intros x d. cbn [r_msgs]. rewrite ind_add, sel_add.
  destruct (N.ltb_spec 0 fa); cbn [received fold_right]; rewrite ?recv_pay; [lia|].
  assert (fa = 0) by lia. subst fa. rewrite ind_0, sel_0. lia.
Qed.
