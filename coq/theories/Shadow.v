(* Shadow: an off-chain record of which orders are open, their remaining sizes and their approval state, kept in
   step with the response attributes ALONE, never diverges from the on-chain book (C17). *)
From Coq Require Import DecimalString DecimalN.
From ATS Require Import Prelude Dec DecFacts Uuid Semver Types Contract Tactics Spec Inv InvAsk InstProofs AskProofs
  BidFacts InvBid InvStep ExitProofs Ledger AdmitProofs Frame.
Ltac Zify.zify_post_hook ::= Z.div_mod_to_equations.

(* ---- reading numbers back from attributes ---- *)
Definition parse_N (s : string) : option N := option_map N.of_uint (NilEmpty.uint_of_string s).
Lemma parse_show n : parse_N (show_N n) = Some n.
Proof.
  unfold show_N, parse_N. destruct (N.eqb_spec n 0) as [->|Hn]; [reflexivity|].
  unfold string_of_N. rewrite NilEmpty.usu. cbn. rewrite DecimalN.Unsigned.of_to. reflexivity.
Qed.

(* ---- the abstraction of the book ---- *)
Inductive appr := SBasic | SPending | SReady.
Record shadow := mksh { sh_asks : list (string * (N * appr)); sh_bids : list (string * N) }.
Definition appr_of (c : aclass) : appr := match c with Basic => SBasic | Pending => SPending | Ready _ _ => SReady end.
Definition abs_ask (a : ask) : N * appr := (a_size a, appr_of (a_class a)).
Definition abs_slot (s : bslot) : N := match s with SlotV3 b => unfilled b | SlotV2 _ => 0 end.
Definition mapv {A B} (f : A -> B) (m : list (string * A)) : list (string * B) := map (fun kv => (fst kv, f (snd kv))) m.
Definition abs (st : state) : shadow := mksh (mapv abs_ask (st_asks st)) (mapv abs_slot (st_bids st)).

Lemma mapv_remove {A B} (f : A -> B) k m : mapv f (remove k m) = remove k (mapv f m).
Proof. unfold mapv. induction m as [|[k0 v] m IH]; cbn; [reflexivity|]. destruct (String.eqb k k0); cbn; [exact IH|f_equal; exact IH]. Qed.
Lemma mapv_insert {A B} (f : A -> B) k v m : mapv f (insert k v m) = insert k (f v) (mapv f m).
Proof. unfold insert. rewrite <- mapv_remove. reflexivity. Qed.
Lemma lookup_mapv {A B} (f : A -> B) k m : lookup k (mapv f m) = option_map f (lookup k m).
Proof. unfold mapv. induction m as [|[k0 v] m IH]; cbn; [reflexivity|]. destruct (String.eqb k k0); [reflexivity|exact IH]. Qed.

(* ---- the consumer: one step from the attribute list alone ---- *)
Definition class_of_json (s : string) : appr :=
  if String.eqb s (class_json Basic) then SBasic else if String.eqb s (class_json Pending) then SPending else SReady.
Definition attr (k : string) (attrs : list (string * string)) : option string := lookup k attrs.
Definition attr_N (k : string) (attrs : list (string * string)) : option N :=
  match attr k attrs with Some s => parse_N s | None => None end.

(* shrink an entry by `delta`; it disappears when nothing remains *)
Definition shrink_ask (id : string) (delta : N) (m : list (string * (N * appr))) : list (string * (N * appr)) :=
  match lookup id m with
  | Some (sz, ap) => if sz - delta =? 0 then remove id m else insert id (sz - delta, ap) m
  | None => m
  end.
Definition shrink_bid (id : string) (delta : N) (m : list (string * N)) : list (string * N) :=
  match lookup id m with
  | Some sz => if sz - delta =? 0 then remove id m else insert id (sz - delta) m
  | None => m
  end.
(* reversal: trust the order_open flag *)
Definition reverse_ask_sh (id : string) (delta : N) (open : string) (m : list (string * (N * appr))) :=
  match lookup id m with
  | Some (sz, ap) => if String.eqb open "true" then insert id (sz - delta, ap) m else remove id m
  | None => m
  end.
Definition reverse_bid_sh (id : string) (delta : N) (open : string) (m : list (string * N)) :=
  match lookup id m with
  | Some sz => if String.eqb open "true" then insert id (sz - delta) m else remove id m
  | None => m
  end.

Definition shadow_step (attrs : list (string * string)) (sh : shadow) : shadow :=
  match attr "action" attrs with
  | Some act =>
    if String.eqb act "create_ask" then
      match attr "id" attrs, attr_N "size" attrs, attr "class" attrs with
      | Some id, Some n, Some cl => mksh (insert id (n, class_of_json cl) (sh_asks sh)) (sh_bids sh)
      | _, _, _ => sh
      end
    else if String.eqb act "create_bid" then
      match attr "id" attrs, attr_N "size" attrs with
      | Some id, Some n => mksh (sh_asks sh) (insert id n (sh_bids sh))
      | _, _ => sh
      end
    else if String.eqb act "approve_ask" then
      match attr "id" attrs with
      | Some id => match lookup id (sh_asks sh) with
                   | Some (sz, _) => mksh (insert id (sz, SReady) (sh_asks sh)) (sh_bids sh)
                   | None => sh
                   end
      | None => sh
      end
    else if String.eqb act "cancel_ask" then
      match attr "id" attrs with Some id => mksh (remove id (sh_asks sh)) (sh_bids sh) | None => sh end
    else if String.eqb act "expire_ask" || String.eqb act "reject_ask" then
      match attr "id" attrs, attr_N "reverse_size" attrs, attr "order_open" attrs with
      | Some id, Some n, Some o => mksh (reverse_ask_sh id n o (sh_asks sh)) (sh_bids sh)
      | _, _, _ => sh
      end
    else if String.eqb act "cancel_bid" || String.eqb act "expire_bid" || String.eqb act "reject_bid" then
      match attr "id" attrs, attr_N "reverse_size" attrs, attr "order_open" attrs with
      | Some id, Some n, Some o => mksh (sh_asks sh) (reverse_bid_sh id n o (sh_bids sh))
      | _, _, _ => sh
      end
    else if String.eqb act "execute" then
      match attr "ask_id" attrs, attr "bid_id" attrs, attr_N "size" attrs with
      | Some aid, Some bid, Some n => mksh (shrink_ask aid n (sh_asks sh)) (shrink_bid bid n (sh_bids sh))
      | _, _, _ => sh
      end
    else sh
  | None => sh
  end.

Lemma class_of_json_ok c : class_of_json (class_json c) = appr_of c.
Proof.
  destruct c as [| |ap cb]; cbn; [reflexivity|reflexivity|].
  unfold class_of_json. cbn. reflexivity.
Qed.

Lemma unfilled_accumulate b x y z b' : accumulate b x y z = Ok b' -> unfilled b' = unfilled b - x.
Proof. intros H. apply accumulate_eq in H. subst b'. unfold unfilled. cbn. lia. Qed.

(* ---------------------------------------------------------------- refinement *)
Lemma abs_set_asks st m : abs (set_asks st m) = mksh (mapv abs_ask m) (sh_bids (abs st)).
Proof. reflexivity. Qed.
Lemma abs_set_bids st m : abs (set_bids st m) = mksh (sh_asks (abs st)) (mapv abs_slot m).
Proof. reflexivity. Qed.

Arguments insert : simpl never.
Arguments remove : simpl never.
Arguments mapv : simpl never.

(* what the consumer computes on each attribute list the contract emits *)
Lemma step_reverse_ask act id eff o sh :
  act = "expire_ask" \/ act = "reject_ask" ->
  shadow_step (reverse_attrs act id eff o) sh = mksh (reverse_ask_sh id eff (bool_str o) (sh_asks sh)) (sh_bids sh).
Proof. intros [-> | ->]; unfold shadow_step, reverse_attrs, attr_N, attr; cbn; rewrite parse_show; reflexivity. Qed.
Lemma step_reverse_bid act id eff o sh :
  act = "cancel_bid" \/ act = "expire_bid" \/ act = "reject_bid" ->
  shadow_step (reverse_attrs act id eff o) sh = mksh (sh_asks sh) (reverse_bid_sh id eff (bool_str o) (sh_bids sh)).
Proof. intros [-> | [-> | ->]]; unfold shadow_step, reverse_attrs, attr_N, attr; cbn; rewrite parse_show; reflexivity. Qed.
Lemma step_cancel_ask id sh :
  shadow_step [("action", "cancel_ask"); ("id", id)] sh = mksh (remove id (sh_asks sh)) (sh_bids sh).
Proof. reflexivity. Qed.
Lemma step_create_ask c a sh :
  shadow_step (create_ask_attrs c a) sh = mksh (insert (a_id a) (abs_ask a) (sh_asks sh)) (sh_bids sh).
Proof.
  unfold shadow_step, create_ask_attrs, attr_N, attr. cbn. rewrite parse_show, class_of_json_ok. reflexivity.
Qed.
Lemma step_create_bid b sh :
  shadow_step (create_bid_attrs b) sh = mksh (sh_asks sh) (insert (b_id b) (c_amt (b_base b)) (sh_bids sh)).
Proof. unfold shadow_step, create_bid_attrs, attr_N, attr. cbn. rewrite parse_show. reflexivity. Qed.
Lemma step_approve a sh :
  shadow_step (approve_attrs a) sh =
  match lookup (a_id a) (sh_asks sh) with
  | Some (sz, _) => mksh (insert (a_id a) (sz, SReady) (sh_asks sh)) (sh_bids sh)
  | None => sh
  end.
Proof. reflexivity. Qed.
Lemma step_match ask_id bid_id a b xp size af bfee sh :
  shadow_step (match_attrs ask_id bid_id a b xp size af bfee) sh =
  mksh (shrink_ask ask_id size (sh_asks sh)) (shrink_bid bid_id size (sh_bids sh)).
Proof. unfold shadow_step, match_attrs, attr_N, attr. cbn. rewrite parse_show. reflexivity. Qed.

Lemma bool_str_true o : String.eqb (bool_str o) "true" = o.
Proof. destruct o; reflexivity. Qed.

Lemma reverse_ask_shadow e st sender funds id action csz st' r :
  (action = "expire_ask" \/ action = "reject_ask") -> keys_ok st ->
  reverse_ask FX e st sender funds id action csz = Ok (st', r) -> shadow_step (r_attrs r) (abs st) = abs st'.
Proof.
  intros Hact HK H. apply reverse_ask_inv in H as (c & a & eff & _ & _ & _ & Hl & _ & _ & Hle & -> & ->).
  assert (Hid : a_id a = id) by (apply HK; exact Hl). rewrite Hid.
  cbn [r_attrs]. rewrite (step_reverse_ask action id eff _ (abs st) Hact). rewrite abs_set_asks.
  unfold reverse_ask_sh. cbn [abs sh_asks sh_bids]. rewrite lookup_mapv, Hl. cbn [option_map abs_ask].
  rewrite bool_str_true. destruct (a_size a - eff =? 0); cbn [negb].
  - rewrite mapv_remove. reflexivity.
  - rewrite mapv_insert. unfold abs_ask, ask_after. cbn [a_size a_class]. destruct (a_class a); reflexivity.
Qed.

Lemma reverse_bid_shadow e st sender funds id action is_cancel csz st' r :
  (action = "cancel_bid" \/ action = "expire_bid" \/ action = "reject_bid") -> keys_ok st ->
  reverse_bid FX e st sender funds id action is_cancel csz = Ok (st', r) -> shadow_step (r_attrs r) (abs st) = abs st'.
Proof.
  intros Hact HK H.
  apply reverse_bid_inv in H as (c & b & rb & eff & p & tq & cq & back & b' & rb' & _ & _ & Hl & _ & Hrb & _ & _ & _ & _ & _ & _ & _ & _ &
    Hacc & Hrb' & -> & ->).
  assert (Hid : b_id b = id) by (apply HK; exact Hl). rewrite Hid.
  apply remaining_base_ok in Hrb as [-> _]. apply remaining_base_ok in Hrb' as [-> _].
  pose proof (unfilled_accumulate _ _ _ _ _ Hacc) as Hu.
  cbn [r_attrs]. rewrite (step_reverse_bid action id eff _ (abs st) Hact). rewrite abs_set_bids.
  unfold reverse_bid_sh. cbn [abs sh_asks sh_bids]. rewrite lookup_mapv, Hl. cbn [option_map abs_slot].
  rewrite bool_str_true. destruct (unfilled b' =? 0); cbn [negb].
  - rewrite mapv_remove. reflexivity.
  - rewrite mapv_insert. cbn [abs_slot]. rewrite Hu. reflexivity.
Qed.

Theorem shadow_refines e st sender funds m st' r :
  keys_ok st -> execute FX e st sender funds m = Ok (st', r) -> shadow_step (r_attrs r) (abs st) = abs st'.
Proof.
  intros HK H. pose proof H as H0. unfold execute in H. guard_inv H Hv. destruct m.
  - (* approve *)
    apply approve_ask_inv in H as (c & a & _ & _ & _ & Hl & Hcl & _ & _ & -> & ->).
    assert (Hid : a_id a = id) by (apply HK; exact Hl).
    cbn [r_attrs]. rewrite step_approve. cbn [approved a_id]. rewrite Hid. rewrite abs_set_asks.
    cbn [abs sh_asks sh_bids]. rewrite lookup_mapv, Hl. cbn [option_map abs_ask]. rewrite mapv_insert. reflexivity.
  - (* cancel ask *)
    apply cancel_ask_inv in H as (a & _ & Hl & _ & -> & ->). cbn [r_attrs]. rewrite step_cancel_ask, abs_set_asks.
    cbn [abs sh_asks sh_bids]. rewrite mapv_remove. reflexivity.
  - eapply reverse_bid_shadow; [left; reflexivity|exact HK|exact H].
  - (* create ask *)
    apply create_ask_iff in H as (c & _ & _ & -> & -> & _). cbn [r_attrs]. rewrite step_create_ask, abs_set_asks.
    cbn [abs sh_asks sh_bids new_ask a_id]. rewrite mapv_insert. reflexivity.
  - (* create bid *)
    apply create_bid_inv in H as (c & p & total & dq & rate & calc & tot & _ & _ & _ & _ & _ & _ & _ & _ & _ & _ & _ & _ & _ & _ & _ & _ & -> & ->).
    cbn [r_attrs]. rewrite step_create_bid, abs_set_bids. cbn [abs sh_asks sh_bids new_bid b_id b_base c_amt].
    rewrite mapv_insert. cbn [abs_slot]. unfold unfilled. cbn. rewrite N.sub_0_r. reflexivity.
  - (* match *)
    apply execute_match_inv in H as (c & a & b & ap & bp & xp & rb & gross_d & gross & af & bfee & fill & b' & rb' & imp &
      _ & _ & _ & Hla & Hlb & _ & _ & _ & _ & _ & Hrb & _ & _ & _ & _ & _ & _ & _ & _ & _ & _ & Hfill & Himp & Hrb' & -> & ->).
    apply remaining_base_ok in Hrb' as [-> _].
    assert (Hu : unfilled b' = unfilled b - size).
    { pose proof (unfilled_accumulate _ _ _ _ _ Hfill) as Hf. unfold improve_spec in Himp. destruct (dec_ltb xp bp).
      - destruct Himp as (og_d & diff & og & refund & ofee & _ & _ & _ & _ & _ & _ & _ & Hacc & _).
        pose proof (unfilled_accumulate _ _ _ _ _ Hacc) as Ha. lia.
      - destruct Himp as [-> _]. exact Hf. }
    cbn [r_attrs]. rewrite step_match.
    unfold shrink_ask, shrink_bid. cbn [abs sh_asks sh_bids]. rewrite !lookup_mapv, Hla, Hlb. cbn [option_map abs_ask abs_slot].
    rewrite <- Hu. unfold abs. cbn [st_asks st_bids]. f_equal.
    + destruct (a_size a - size =? 0); [rewrite mapv_remove; reflexivity|].
      rewrite mapv_insert. unfold abs_ask, ask_after. cbn [a_size a_class]. destruct (a_class a); reflexivity.
    + destruct (unfilled b' =? 0); [rewrite mapv_remove; reflexivity|]. rewrite mapv_insert. reflexivity.
  - eapply reverse_ask_shadow; [left; reflexivity|exact HK|exact H].
  - eapply reverse_bid_shadow; [right; left; reflexivity|exact HK|exact H].
  - eapply reverse_ask_shadow; [right; reflexivity|exact HK|exact H].
  - eapply reverse_bid_shadow; [right; right; reflexivity|exact HK|exact H].
  - (* modify *)
    apply modify_contract_inv in H0 as (c & af & bf & _ & _ & _ & _ & _ & _ & _ & _ & _ & _ & _ & _ & _ & -> & ->). reflexivity.
Qed.

(* over whole histories: replaying the attributes of the accepted steps from the empty shadow reproduces the book *)
Fixpoint shadow_run (st : state) (evs : list event) (sh : shadow) : shadow :=
  match evs with
  | [] => sh
  | ev :: rest =>
    match execute FX (ev_env ev) st (ev_sender ev) (ev_funds ev) (ev_msg ev) with
    | Ok (st', r) => shadow_run st' rest (shadow_step (r_attrs r) sh)
    | Refused _ => shadow_run st rest sh
    end
  end.
Theorem shadow_never_diverges evs : forall st, keys_ok st -> shadow_run st evs (abs st) = abs (run st evs).
Proof.
  induction evs as [|ev evs IH]; intros st HK; [reflexivity|].
  change (run st (ev :: evs)) with (run (run_event st ev) evs). cbn [shadow_run]. unfold run_event.
  destruct (execute FX (ev_env ev) st (ev_sender ev) (ev_funds ev) (ev_msg ev)) as [[st' r]|t] eqn:E; [|apply IH; exact HK].
  rewrite (shadow_refines _ _ _ _ _ _ _ HK E). apply IH. eapply fr_keys. eapply execute_framed; eauto.
Qed.
