(* Ledger: flows of a response, what the open orders are owed, and per-step conservation (C01). *)
From ATS Require Import Prelude Dec DecFacts Uuid Semver Types Contract Tactics Spec Inv InvAsk InstProofs AskProofs
  BidFacts InvBid InvStep ExitProofs.
Ltac Zify.zify_post_hook ::= Z.div_mod_to_equations.

Definition ind (d x : string) (n : N) : N := if String.eqb d x then n else 0.

(* a message drawn from the contract is a payout; a marker transfer drawn from somebody else is an escrow pull-in *)
Definition out_amt (e : env) (d : string) (m : msg) : N :=
  match m with
  | Bank _ c => ind d (c_denom c) (c_amt c)
  | Xfer from _ c _ => if String.eqb from (e_self e) then ind d (c_denom c) (c_amt c) else 0
  end.
Definition in_amt (e : env) (d : string) (m : msg) : N :=
  match m with
  | Bank _ _ => 0
  | Xfer from _ c _ => if String.eqb from (e_self e) then 0 else ind d (c_denom c) (c_amt c)
  end.
Definition outflow (e : env) (d : string) (ms : list msg) : N := fold_right (fun m acc => out_amt e d m + acc) 0 ms.
Definition inflow (e : env) (d : string) (ms : list msg) : N := fold_right (fun m acc => in_amt e d m + acc) 0 ms.
Definition funds_in (d : string) (funds : list coin) : N := fold_right (fun c acc => ind d (c_denom c) (c_amt c) + acc) 0 funds.

Definition ask_owed (d : string) (a : ask) : N :=
  ind d (a_base a) (a_size a) + match a_class a with Ready _ cb => ind d (c_denom cb) (c_amt cb) | _ => 0 end.
Definition bid_owed (d : string) (s : bslot) : N :=
  match s with SlotV3 b => ind d (c_denom (b_quote b)) (unspent b + held b) | SlotV2 _ => 0 end.
Definition owed (st : state) (d : string) : N := sum_book (ask_owed d) (st_asks st) + sum_book (bid_owed d) (st_bids st).

Lemma outflow_app e d a b : outflow e d (a ++ b) = outflow e d a + outflow e d b.
Proof. induction a as [|m a IH]; cbn; [reflexivity|]. fold (outflow e d (a ++ b)). fold (outflow e d a). rewrite IH. lia. Qed.
Lemma inflow_app e d a b : inflow e d (a ++ b) = inflow e d a + inflow e d b.
Proof. induction a as [|m a IH]; cbn; [reflexivity|]. fold (inflow e d (a ++ b)). fold (inflow e d a). rewrite IH. lia. Qed.
Lemma out_pay e d amt x to : out_amt e d (pay_msg e amt x to) = ind d x amt.
Proof. unfold pay_msg. destruct (is_restricted e x); cbn; [rewrite String.eqb_refl|]; reflexivity. Qed.
Lemma in_pay e d amt x to : in_amt e d (pay_msg e amt x to) = 0.
Proof. unfold pay_msg. destruct (is_restricted e x); cbn; [rewrite String.eqb_refl|]; reflexivity. Qed.
Lemma in_pull e d amt x from : from <> e_self e -> inflow e d (pull_msgs e amt x from) = if is_restricted e x then ind d x amt else 0.
Proof.
  intros H. unfold pull_msgs. destruct (is_restricted e x); cbn; [|reflexivity].
  destruct (String.eqb_spec from (e_self e)); [contradiction|lia].
Qed.
Lemma out_pull e d amt x from : from <> e_self e -> outflow e d (pull_msgs e amt x from) = 0.
Proof.
  intros H. unfold pull_msgs. destruct (is_restricted e x); cbn; [|reflexivity].
  destruct (String.eqb_spec from (e_self e)); [contradiction|reflexivity].
Qed.
Lemma funds_rule_in e d funds amt x :
  funds_rule e funds amt x -> funds_in d funds = if is_restricted e x then 0 else ind d x amt.
Proof. unfold funds_rule. destruct (is_restricted e x); intros ->; cbn; [reflexivity|lia]. Qed.
Lemma inflow_pays e d ms : (forall m, In m ms -> exists amt x to, m = pay_msg e amt x to) -> inflow e d ms = 0.
Proof.
  induction ms as [|m ms IH]; intros H; cbn; [reflexivity|]. fold (inflow e d ms).
  destruct (H m (or_introl eq_refl)) as (amt & x & to & ->). rewrite in_pay, IH; [reflexivity|]. intros m' Hm'. apply H. right. exact Hm'.
Qed.

Lemma out_ask_exit e d a amt camt :
  outflow e d (ask_exit_msgs e a amt camt) =
  ind d (a_base a) amt + match a_class a with Ready _ cb => ind d (c_denom cb) camt | _ => 0 end.
Proof. unfold ask_exit_msgs. destruct (a_class a); cbn; rewrite ?out_pay; lia. Qed.
Lemma in_ask_exit e d a amt camt : inflow e d (ask_exit_msgs e a amt camt) = 0.
Proof. unfold ask_exit_msgs. destruct (a_class a); cbn; rewrite ?in_pay; reflexivity. Qed.

Lemma ind_add d x a b : ind d x (a + b) = ind d x a + ind d x b.
Proof. unfold ind. destruct (String.eqb d x); lia. Qed.
Lemma ind_sub d x a b : b <= a -> ind d x (a - b) + ind d x b = ind d x a.
Proof. intros H. unfold ind. destruct (String.eqb d x); lia. Qed.

(* ---------------------------------------------------------------- conservation, per request kind *)
(* in + owed before = out + owed after, for every denomination *)
Definition conserves (e : env) (st : state) (funds : list coin) (st' : state) (r : resp) : Prop :=
  forall d, funds_in d funds + inflow e d (r_msgs r) + owed st d = outflow e d (r_msgs r) + owed st' d.

Lemma owed_set_asks st m d : owed (set_asks st m) d = sum_book (ask_owed d) m + sum_book (bid_owed d) (st_bids st).
Proof. reflexivity. Qed.
Lemma owed_set_bids st m d : owed (set_bids st m) d = sum_book (ask_owed d) (st_asks st) + sum_book (bid_owed d) m.
Proof. reflexivity. Qed.

Lemma cancel_ask_conserves e st sender funds id st' r :
  InvA st -> execute FX e st sender funds (CancelAsk id) = Ok (st', r) -> conserves e st funds st' r.
Proof.
  intros HA H. unfold execute in H. guard_inv H Hv. apply cancel_ask_inv in H as (a & -> & Hl & _ & -> & ->).
  destruct (inv_cfg st HA) as (c & Hc & _). assert (Hid : a_id a = id) by apply (inv_asks st HA c id a Hc Hl).
  intros d. rewrite owed_set_asks. unfold owed. cbn [r_msgs]. change (funds_in d []) with 0. rewrite in_ask_exit, out_ask_exit, Hid.
  pose proof (sum_remove (ask_owed d) id a (st_asks st) (inv_nd_asks st HA) Hl) as E. unfold ask_owed at 2 in E.
  destruct (a_class a); lia.
Qed.

Lemma ask_owed_after d a s' :
  ask_owed d (ask_after a s') = ind d (a_base a) s' + match a_class a with Ready _ cb => ind d (c_denom cb) s' | _ => 0 end.
Proof. unfold ask_owed, ask_after. cbn. destruct (a_class a); reflexivity. Qed.

Lemma reverse_ask_conserves e st sender funds id action csz st' r :
  InvA st -> reverse_ask FX e st sender funds id action csz = Ok (st', r) -> conserves e st funds st' r.
Proof.
  intros HA H. apply reverse_ask_inv in H as (c & a & eff & -> & Hc & _ & Hl & _ & _ & Hle & -> & ->).
  pose proof (inv_asks st HA c id a Hc Hl) as (Hid & _ & _ & _ & _ & _ & _ & Hr).
  intros d. rewrite owed_set_asks. unfold owed. cbn [r_msgs]. change (funds_in d []) with 0. rewrite in_ask_exit, out_ask_exit, Hid.
  destruct (N.eqb_spec (a_size a - eff) 0) as [Hz|Hnz].
  - assert (eff = a_size a) by lia. subst eff.
    pose proof (sum_remove (ask_owed d) id a (st_asks st) (inv_nd_asks st HA) Hl) as E. unfold ask_owed at 2 in E.
    destruct (a_class a) as [| |ap cb]; try lia. subst cb. cbn [c_amt c_denom] in *. lia.
  - pose proof (sum_insert_upd (ask_owed d) id (ask_after a (a_size a - eff)) a (st_asks st) (inv_nd_asks st HA) Hl) as E.
    rewrite ask_owed_after in E. unfold ask_owed at 2 in E.
    pose proof (ind_sub d (a_base a) (a_size a) eff Hle) as E1.
    destruct (a_class a) as [| |ap cb]; try lia. subst cb. cbn [c_amt c_denom] in *.
    pose proof (ind_sub d (cf_base c) (a_size a) eff Hle) as E2. lia.
Qed.

Lemma ask_owed_new d c sender id base quote price size :
  ask_owed d (new_ask c sender id base quote price size) = ind d base size.
Proof. unfold ask_owed, new_ask. cbn. destruct (String.eqb base (cf_base c)); lia. Qed.
Lemma ask_owed_approved d a sender base :
  a_class a = Pending -> ask_owed d (approved a sender base) = ask_owed d a + ind d base (a_size a).
Proof. intros H. unfold ask_owed, approved. cbn. rewrite H. lia. Qed.

Lemma create_ask_conserves e st sender funds id base quote price size st' r :
  sender <> e_self e -> create_ask e st sender funds id base quote price size = Ok (st', r) -> conserves e st funds st' r.
Proof.
  intros Hs H. apply create_ask_iff in H as (c & Hc & (_ & Hfu & _ & _ & _ & _ & Hnone) & -> & -> & _).
  intros d. rewrite owed_set_asks. unfold owed. cbn [r_msgs]. rewrite (in_pull e d _ _ _ Hs), (out_pull e d _ _ _ Hs).
  rewrite (funds_rule_in e d _ _ _ Hfu). rewrite (sum_insert_new (ask_owed d) id _ _ Hnone).
  rewrite ask_owed_new. destruct (is_restricted e base); lia.
Qed.

Lemma approve_conserves e st sender funds id base size st' r :
  InvA st -> sender <> e_self e -> approve_ask e st sender funds id base size = Ok (st', r) -> conserves e st funds st' r.
Proof.
  intros HA Hs H. apply approve_ask_inv in H as (c & a & Hc & _ & Hfu & Hl & Hcl & -> & -> & -> & ->).
  intros d. rewrite owed_set_asks. unfold owed. cbn [r_msgs]. rewrite (in_pull e d _ _ _ Hs), (out_pull e d _ _ _ Hs).
  rewrite (funds_rule_in e d _ _ _ Hfu).
  pose proof (sum_insert_upd (ask_owed d) id (approved a sender (cf_base c)) a (st_asks st) (inv_nd_asks st HA) Hl) as E.
  rewrite (ask_owed_approved d a sender (cf_base c) Hcl) in E.
  destruct (is_restricted e (cf_base c)); lia.
Qed.

(* ---------------------------------------------------------------- bids *)
Lemma held_new_bid sender id base fee price quote qsize size :
  held (new_bid sender id base fee price quote qsize size) = fee_amt fee.
Proof. unfold held, new_bid, fee_amt. cbn. destruct fee; [apply N.sub_0_r|reflexivity]. Qed.

Lemma bid_owed_new d sender id base fee price quote qsize size :
  bid_owed d (SlotV3 (new_bid sender id base fee price quote qsize size)) = ind d quote (qsize + fee_amt fee).
Proof. unfold bid_owed. rewrite held_new_bid. unfold unspent, new_bid. cbn. rewrite N.sub_0_r. reflexivity. Qed.

Lemma create_bid_conserves e st sender funds id base fee price quote qsize size st' r :
  sender <> e_self e -> 1 <= qsize ->
  create_bid e st sender funds id base fee price quote qsize size = Ok (st', r) -> conserves e st funds st' r.
Proof.
  intros Hs Hq1 H.
  apply create_bid_inv in H as (c & p & total & dq & rate & calc & tot & Hc & Hp & _ & Hm & Hfr & Hdq & Heq & _ & _ &
    _ & _ & _ & _ & Htot & Hfu & Hnone & -> & ->).
  apply dec_from_u128_ok in Hdq as [Hq96 ->]. assert (Hqnz : qsize <> 0) by lia.
  assert (Htq : tot = qsize) by exact (int_eq_of_dec_eqb total qsize tot Hfr Htot Hqnz Heq). subst tot.
  intros d. rewrite owed_set_bids. unfold owed. cbn [r_msgs]. rewrite (in_pull e d _ _ _ Hs), (out_pull e d _ _ _ Hs).
  rewrite (funds_rule_in e d _ _ _ Hfu). rewrite (sum_insert_new (bid_owed d) id _ _ Hnone).
  rewrite bid_owed_new. destruct (is_restricted e quote); lia.
Qed.

(* consuming (dx, dy, fa) from a bid releases exactly dy + fa of its quote denomination *)
Lemma bid_consume_owed c k b p dx dy fa d :
  bid_ok c k b -> price_of (b_price b) p -> dx <= unfilled b -> dy * 10 ^ d_scale p = d_mant p * dx ->
  (match b_fee b with
   | None => fa = 0
   | Some f => exists keep, fee_for_rest b (c_amt f) (unspent b - dy) = Ok keep /\ keep <= held b /\ fa = held b - keep
   end) ->
  (if unfilled b - dx =? 0 then 0
   else bid_owed d (SlotV3 (mkbid (b_base b) (b_acc_base b + dx) (b_acc_quote b + dy) (b_acc_fee b + fa) (b_fee b)
                                  (b_id b) (b_owner b) (b_price b) (b_quote b))))
  + ind d (c_denom (b_quote b)) (dy + fa) = bid_owed d (SlotV3 b).
Proof.
  intros (Hid & Hu & Hbd & Hqd & Hab & Haq & Hb96 & Hq96 & (p0 & Hp0 & HQ & HU) & Hfee) Hp Hdx Hdy Hfa.
  pose proof (price_of_fun _ _ _ Hp Hp0) as Hpe. subst p0. pose proof (pow10_pos (d_scale p)) as Ppos.
  assert (Hdyle : dy <= unspent b).
  { assert (dy * 10 ^ d_scale p <= unspent b * 10 ^ d_scale p) by (rewrite Hdy, HU; apply N.mul_le_mono_l; lia).
    apply N.mul_le_mono_pos_r in H; [exact H|exact Ppos]. }
  assert (Hqnz : c_amt (b_quote b) <> 0).
  { destruct Hp as (_ & _ & Hm & _). intros Hz. rewrite Hz in HQ. unfold unfilled in *. nia. }
  unfold bid_owed.
  destruct (N.eqb_spec (unfilled b - dx) 0) as [Hz|Hnz].
  - assert (dx = unfilled b) by lia. subst dx.
    assert (dy = unspent b).
    { assert (Hx : dy * 10 ^ d_scale p = unspent b * 10 ^ d_scale p) by (rewrite Hdy, HU; reflexivity).
      apply N.mul_cancel_r in Hx; [exact Hx|lia]. }
    subst dy. assert (fa = held b).
    { destruct (b_fee b) as [f|] eqn:Ef.
      - destruct Hfee as (_ & _ & Hf96 & _). destruct Hfa as (keep & Hk & _ & ->).
        rewrite N.sub_diag in Hk. rewrite (fee_for_rest_zero b (c_amt f) Hqnz Hq96 Hf96) in Hk. injection Hk as <-. lia.
      - subst fa. unfold held. rewrite Ef. reflexivity. }
    subst fa. lia.
  - unfold unspent at 1, held at 1. cbn [b_quote b_acc_quote b_fee b_acc_fee].
    assert (Hfale : fa <= held b) by (destruct (b_fee b); [destruct Hfa as (keep & _ & _ & ->); lia|subst fa; lia]).
    unfold unspent, held in *. rewrite <- ind_add. f_equal.
    destruct (b_fee b) as [f|]; [destruct Hfee as (_ & Hfa2 & _)|]; lia.
Qed.

Lemma reverse_bid_conserves e st sender funds m id action is_cancel csz st' r :
  Inv st -> clean_exec st m -> bid_reverse_of m = Some (id, action, is_cancel, csz) ->
  execute FX e st sender funds m = Ok (st', r) -> conserves e st funds st' r.
Proof.
  intros HI Hclean Hm H. pose proof HI as [HA HB].
  destruct (bid_reverse_settles e st sender funds m id action is_cancel csz st' r HI Hclean Hm H) as
    (c & b & p & eff & cq & fa & Hc & Hl & Hp & -> & _ & _ & _ & Hle & Hdy & Hfa & -> & ->).
  destruct (inv_bids st HB c id _ Hc Hl) as (b0 & Hb0 & Hok). injection Hb0 as <-.
  intros d. rewrite owed_set_bids. unfold owed. cbn [r_msgs]. change (funds_in d []) with 0.
  pose proof (bid_consume_owed c id b p eff cq fa d Hok Hp Hle Hdy Hfa) as E.
  assert (Hout : outflow e d (pay_msg e cq (c_denom (b_quote b)) (b_owner b) ::
                  (if 0 <? fa then [pay_msg e fa (c_denom (b_quote b)) (b_owner b)] else [])) = ind d (c_denom (b_quote b)) (cq + fa)).
  { rewrite ind_add. destruct (N.ltb_spec 0 fa); cbn; rewrite ?out_pay; [lia|]. assert (fa = 0) by lia. subst fa. unfold ind. destruct (String.eqb _ _); lia. }
  assert (Hin : inflow e d (pay_msg e cq (c_denom (b_quote b)) (b_owner b) ::
                  (if 0 <? fa then [pay_msg e fa (c_denom (b_quote b)) (b_owner b)] else [])) = 0).
  { destruct (0 <? fa); cbn; rewrite ?in_pay; reflexivity. }
  rewrite Hout, Hin.
  destruct (N.eqb_spec (unfilled b - eff) 0) as [Hz|Hnz].
  - pose proof (sum_remove (bid_owed d) id _ (st_bids st) (inv_nd_bids st HB) Hl) as E2. lia.
  - pose proof (sum_insert_upd (bid_owed d) id (SlotV3 (mkbid (b_base b) (b_acc_base b + eff) (b_acc_quote b + cq) (b_acc_fee b + fa)
                  (b_fee b) (b_id b) (b_owner b) (b_price b) (b_quote b))) _ (st_bids st) (inv_nd_bids st HB) Hl) as E2. lia.
Qed.

(* ---------------------------------------------------------------- match settlement in exact terms (C02) *)
Lemma out_m_net e d qd to net : outflow e d (m_net e qd to net) = ind d qd net.
Proof. unfold m_net. destruct (N.eqb_spec net 0) as [->|]; cbn; rewrite ?out_pay; [unfold ind; destruct (String.eqb _ _); reflexivity|lia]. Qed.
Lemma out_m_ask_fee e d c qd af : outflow e d (m_ask_fee e c qd af) = ind d qd af.
Proof. unfold m_ask_fee. destruct (N.eqb_spec af 0) as [->|]; cbn; rewrite ?out_pay; [unfold ind; destruct (String.eqb _ _); reflexivity|lia]. Qed.
Lemma out_m_bid_fee e d c qd bf : outflow e d (m_bid_fee e c qd bf) = ind d qd (opt_amt bf).
Proof. unfold m_bid_fee. destruct bf; cbn; rewrite ?out_pay; [lia|unfold ind; destruct (String.eqb _ _); reflexivity]. Qed.
Lemma out_m_settle e d a b size net :
  a_class a <> Pending ->
  outflow e d (m_settle e a b size net) =
  ind d (c_denom (b_quote b)) net + ind d (a_base a) size + match a_class a with Ready _ cb => ind d (c_denom cb) size | _ => 0 end.
Proof.
  intros Hnp. unfold m_settle. destruct (a_class a) as [| |apr cb]; [|contradiction|].
  - rewrite outflow_app, out_m_net. cbn. rewrite out_pay. lia.
  - rewrite outflow_app, out_m_net. cbn. rewrite !out_pay. lia.
Qed.
Lemma out_m_refund e d b refund fr :
  0 < refund -> outflow e d (m_refund e b refund fr) = ind d (c_denom (b_quote b)) (refund + opt_amt fr).
Proof.
  intros H. unfold m_refund. apply N.ltb_lt in H. rewrite H. rewrite ind_add. destruct fr; cbn; rewrite ?out_pay; [lia|].
  unfold ind. destruct (String.eqb _ _); lia.
Qed.
Lemma all_pay_inflow e d c a b size af bfee net imp_msgs :
  (forall m, In m imp_msgs -> exists amt x to, m = pay_msg e amt x to) ->
  inflow e d (m_ask_fee e c (c_denom (b_quote b)) af ++ m_bid_fee e c (c_denom (b_quote b)) bfee ++
              m_settle e a b size net ++ imp_msgs) = 0.
Proof.
  intros Himp. apply inflow_pays. intros m Hin. rewrite !in_app_iff in Hin.
  destruct Hin as [Hin|[Hin|[Hin|Hin]]]; [| | |auto].
  - unfold m_ask_fee in Hin. destruct (af =? 0); [contradiction|]. destruct Hin as [<-|[]]. eauto.
  - unfold m_bid_fee in Hin. destruct bfee; [|contradiction]. destruct Hin as [<-|[]]. eauto.
  - unfold m_settle, m_net in Hin. destruct (a_class a); [| contradiction |]; rewrite ?in_app_iff in Hin; cbn in Hin;
      destruct (net =? 0); cbn in Hin; intuition (subst; eauto).
Qed.

(* the ask fee is the configured rate times the executed total, rounded half away from zero (model arithmetic) *)
Definition ask_fee_spec_exists (c : cfg) (xp : dec) (size af : N) : Prop :=
  exists gross_d, mul_size xp size = Ok gross_d /\ ask_fee_spec c gross_d af.

Definition fee_cond (b : bid) (dy fa : N) : Prop :=
  match b_fee b with
  | None => fa = 0
  | Some f => exists keep, fee_for_rest b (c_amt f) (unspent b - dy) = Ok keep /\ keep <= held b /\ fa = held b - keep
  end.

Lemma match_settles_full e st sender funds ask_id bid_id price size st' r :
  InvA st -> InvB st -> 1 <= size -> clean_match st bid_id price size ->
  execute_match FX e st sender funds ask_id bid_id price size = Ok (st', r) ->
  exists c a b bp xp gross af dy fa bfee frefund,
    st_cfg st = Some c /\ In sender (cf_executors c) /\ funds = [] /\
    lookup ask_id (st_asks st) = Some a /\ lookup bid_id (st_bids st) = Some (SlotV3 b) /\
    price_of (b_price b) bp /\ dec_parse price = Some xp /\ positive_dec xp /\
    size <= a_size a /\ size <= unfilled b /\ a_class a <> Pending /\
    gross * 10 ^ d_scale xp = d_mant xp * size /\          (* gross = execution price * size, exactly *)
    dy * 10 ^ d_scale bp = d_mant bp * size /\             (* dy = bid price * size: quote consumed from the bid *)
    gross <= dy /\ af <= gross /\ ask_fee_spec_exists c xp size af /\ fee_cond b dy fa /\
    (forall d, inflow e d (r_msgs r) = 0) /\
    (forall d, outflow e d (r_msgs r) =
               ind d (c_denom (b_quote b)) (dy + fa) + ind d (a_base a) size +
               match a_class a with Ready _ cb => ind d (c_denom cb) size | _ => 0 end) /\
    st' = mkstate (st_cfg st) (st_ver st)
            (if a_size a - size =? 0 then remove ask_id (st_asks st)
             else insert ask_id (ask_after a (a_size a - size)) (st_asks st))
            (if unfilled b - size =? 0 then remove bid_id (st_bids st)
             else insert bid_id (SlotV3 (mkbid (b_base b) (b_acc_base b + size) (b_acc_quote b + dy) (b_acc_fee b + fa)
                                               (b_fee b) (b_id b) (b_owner b) (b_price b) (b_quote b))) (st_bids st)) /\
    (* the complete message list, in the amounts above: ask fee, bid fee, settlement, and -- below the bid's limit -- the
       refund of (bid price - price) * size with the share of the fee no longer needed *)
    r_msgs r = m_ask_fee e c (c_denom (b_quote b)) af ++ m_bid_fee e c (c_denom (b_quote b)) bfee ++
               m_settle e a b size (gross - af) ++
               (if gross <? dy then m_refund e b (dy - gross) frefund else []) /\
    opt_amt bfee + opt_amt frefund = fa /\ (bfee <> None -> cf_bid_fee c <> None) /\
    ((gross <? dy) = false -> frefund = None).
Proof.
  intros HA HB Hs1 Hclean H.
  apply execute_match_inv in H as (c & a & b & ap & bp & xp & rb & gross_d & gross & af & bfee & fill & b' & rb' & imp &
    Hc & Hex & Hf & Hla & Hlb & _ & Hap & Hbp & Hxp & Hrule & Hrb & Hsza & Hszb & Hm & Hfr & Hgr & Hafs & Hafle & Hbfee & Hbfcfg & Hnp &
    Hfill & Himp & Hrb' & -> & ->).
  destruct (inv_bids st HB c bid_id _ Hc Hlb) as (b0 & Hb0 & Hok). injection Hb0 as <-.
  pose proof (inv_asks st HA c ask_id a Hc Hla) as (_ & _ & _ & _ & _ & _ & (ap0 & Hap0) & _).
  assert (ap0 = ap) by (destruct Hap0 as [Hx _]; congruence). subst ap0.
  pose proof Hok as (Hidb & _ & _ & _ & _ & _ & _ & _ & (p0 & Hp0 & HQ & HU) & Hfee).
  assert (Hpp : p0 = bp) by (destruct Hp0 as [Hx _]; congruence). subst p0.
  destruct (Hclean b bp xp Hlb Hbp Hxp) as (Hex1 & Hex2). pose proof (bid_ok_fee_mono _ _ _ Hok) as Hmono.
  assert (Pbp : positive_dec bp) by (destruct Hp0 as (_ & ? & ? & _); split; assumption).
  assert (Pap : positive_dec ap) by (destruct Hap0 as (_ & ? & ? & _); split; assumption).
  apply remaining_base_ok in Hrb as [-> Hab]. apply accumulate_eq in Hfill.
  pose proof (Hex1 _ Hm) as Hexg.
  assert (Hg : gross * 10 ^ d_scale xp = d_mant xp * size) by (eapply mul_size_units; eauto).
  pose proof (calculate_fee_inv _ _ _ Hbfee) as Hcf.
  set (qd := c_denom (b_quote b)) in *.
  unfold improve_spec in Himp. destruct (dec_ltb xp bp) eqn:Elt.
  - (* executed below the bid's limit *)
    destruct Himp as (og_d & diff & og & refund & ofee & Hmo & Hfro & Hdiff & Hrefund & Hog & Hofee & Hle & Hacc & ->).
    pose proof (Hex2 eq_refl _ Hmo) as Hexo.
    assert (Ho : og * 10 ^ d_scale bp = d_mant bp * size) by (eapply mul_size_units; eauto).
    destruct (sub_int_value _ _ _ _ _ _ Hdiff Hrefund Hog Hgr) as [Hgle ->].
    apply accumulate_eq in Hacc. pose proof (calculate_fee_inv _ _ _ Hofee) as Hcfo.
    pose proof (Hmono gross og bfee ofee Hbfee Hofee Hgle) as Hmon.
    (* the execution price is the ask's: positive, and strictly below the bid's *)
    assert (Pxp : positive_dec xp).
    { unfold price_rule in Hrule. rewrite (dec_cmp_pos ap bp Pap Pbp) in Hrule.
      destruct (d_mant ap * pow10 (d_scale bp) ?= d_mant bp * pow10 (d_scale ap)); [| |discriminate].
      - apply (dec_eqb_pos xp ap Pap) in Hrule as [Hx _]. exact Hx.
      - apply orb_prop in Hrule as [Hr|Hr]; [apply (dec_eqb_pos xp ap Pap) in Hr as [Hx _]|apply (dec_eqb_pos xp bp Pbp) in Hr as [Hx _]]; exact Hx. }
    assert (Hlt : gross < og).
    { unfold dec_ltb in Elt. rewrite (dec_cmp_pos xp bp Pxp Pbp) in Elt. unfold pow10 in Elt.
      destruct (d_mant xp * 10 ^ d_scale bp ?= d_mant bp * 10 ^ d_scale xp) eqn:E; try discriminate.
      apply N.compare_lt_iff in E. pose proof (pow10_pos (d_scale xp)) as Px. pose proof (pow10_pos (d_scale bp)) as Pb.
      assert (Hx : gross * (10 ^ d_scale xp * 10 ^ d_scale bp) < og * (10 ^ d_scale xp * 10 ^ d_scale bp)).
      { replace (gross * (10 ^ d_scale xp * 10 ^ d_scale bp)) with ((gross * 10 ^ d_scale xp) * 10 ^ d_scale bp) by ring.
        replace (og * (10 ^ d_scale xp * 10 ^ d_scale bp)) with ((og * 10 ^ d_scale bp) * 10 ^ d_scale xp) by ring.
        rewrite Hg, Ho. replace (d_mant xp * size * 10 ^ d_scale bp) with ((d_mant xp * 10 ^ d_scale bp) * size) by ring.
        replace (d_mant bp * size * 10 ^ d_scale xp) with ((d_mant bp * 10 ^ d_scale xp) * size) by ring.
        apply N.mul_lt_mono_pos_r; [lia|exact E]. }
      apply N.mul_lt_mono_pos_r in Hx; [exact Hx|nia]. }
    set (fa := opt_amt bfee + opt_amt (fee_refund_of bfee ofee)).
    assert (Hfc : fee_cond b og fa).
    { unfold fee_cond, fa. destruct (b_fee b) as [f|] eqn:Ef.
      - destruct Hcf as (keep & _ & _ & Hkle & Hb1). destruct Hcfo as (keepo & Hole & Hko & Hkole & Hb2).
        exists keepo. split; [exact Hko|]. split; [exact Hkole|].
        unfold fee_refund_of. destruct ofee as [o|]; cbn [opt_amt] in *.
        + specialize (Hle o eq_refl). destruct (0 <? o - opt_amt bfee) eqn:E; cbn [opt_amt]; [lia|apply N.ltb_ge in E; lia].
        + lia.
      - subst bfee. subst ofee. reflexivity. }
    exists c, a, b, bp, xp, gross, af, og, fa, bfee, (fee_refund_of bfee ofee).
    split; [exact Hc|]. split; [exact Hex|]. split; [exact Hf|]. split; [exact Hla|]. split; [exact Hlb|]. split; [exact Hp0|].
    split; [exact Hxp|]. split; [exact Pxp|]. split; [exact Hsza|]. split; [exact Hszb|]. split; [exact Hnp|].
    split; [exact Hg|]. split; [exact Ho|]. split; [lia|]. split; [exact Hafle|]. split; [exists gross_d; auto|]. split; [exact Hfc|].
    split.
    { intros d. cbn [r_msgs]. apply all_pay_inflow. intros m Hin. unfold m_refund in Hin.
      destruct (0 <? og - gross); [|contradiction]. destruct (fee_refund_of bfee ofee); cbn in Hin; intuition (subst; eauto). }
    split.
    { intros d. cbn [r_msgs]. rewrite !outflow_app, out_m_ask_fee, out_m_bid_fee, (out_m_settle e d a b size (gross - af) Hnp).
      rewrite out_m_refund by lia. fold qd. unfold fa.
      pose proof (ind_sub d qd gross af Hafle) as E1. rewrite !ind_add.
      assert (E2 : ind d qd og = ind d qd gross + ind d qd (og - gross)).
      { rewrite <- ind_add. f_equal. lia. }
      lia. }
    split.
    { f_equal. apply remaining_base_ok in Hrb' as [-> _]. rewrite Hacc, Hfill. unfold unfilled, fa. cbn.
      replace (c_amt (b_base b) - (b_acc_base b + size + 0)) with (c_amt (b_base b) - b_acc_base b - size) by lia.
      destruct (c_amt (b_base b) - b_acc_base b - size =? 0); [reflexivity|]. do 3 f_equal; lia. }
    split.
    { cbn [r_msgs]. apply N.ltb_lt in Hlt. rewrite Hlt. reflexivity. }
    split; [reflexivity|]. split; [exact Hbfcfg|]. intros Hx. apply N.ltb_lt in Hlt. congruence.
  - (* executed at the bid's limit *)
    destruct Himp as [-> ->].
    destruct (not_improved_is_bid_price ap bp xp Pap Pbp Hrule Elt) as [Pxp Hcross]. unfold pow10 in Hcross.
    assert (Ho : gross * 10 ^ d_scale bp = d_mant bp * size).
    { assert (Hx : gross * 10 ^ d_scale bp * 10 ^ d_scale xp = d_mant bp * size * 10 ^ d_scale xp).
      { replace (gross * 10 ^ d_scale bp * 10 ^ d_scale xp) with ((gross * 10 ^ d_scale xp) * 10 ^ d_scale bp) by ring.
        rewrite Hg. replace (d_mant xp * size * 10 ^ d_scale bp) with ((d_mant xp * 10 ^ d_scale bp) * size) by ring.
        rewrite Hcross. ring. }
      apply N.mul_cancel_r in Hx; [exact Hx|apply pow10_nz]. }
    assert (Hfc : fee_cond b gross (opt_amt bfee)).
    { unfold fee_cond. destruct (b_fee b) as [f|] eqn:Ef.
      - destruct Hcf as (keep & _ & Hk & Hkle & Hb1). exists keep. auto.
      - subst bfee. reflexivity. }
    exists c, a, b, bp, xp, gross, af, gross, (opt_amt bfee), bfee, (@None N).
    split; [exact Hc|]. split; [exact Hex|]. split; [exact Hf|]. split; [exact Hla|]. split; [exact Hlb|]. split; [exact Hp0|].
    split; [exact Hxp|]. split; [exact Pxp|]. split; [exact Hsza|]. split; [exact Hszb|]. split; [exact Hnp|].
    split; [exact Hg|]. split; [exact Ho|]. split; [lia|]. split; [exact Hafle|]. split; [exists gross_d; auto|]. split; [exact Hfc|].
    split.
    { intros d. cbn [r_msgs]. apply all_pay_inflow. intros m []. }
    split.
    { intros d. cbn [r_msgs]. rewrite !outflow_app, out_m_ask_fee, out_m_bid_fee, (out_m_settle e d a b size (gross - af) Hnp).
      fold qd. cbn [outflow fold_right]. pose proof (ind_sub d qd gross af Hafle) as E1. rewrite !ind_add. lia. }
    split.
    { f_equal. apply remaining_base_ok in Hrb' as [-> _]. rewrite Hfill. unfold unfilled. cbn.
      replace (c_amt (b_base b) - (b_acc_base b + size)) with (c_amt (b_base b) - b_acc_base b - size) by lia.
      reflexivity. }
    split.
    { cbn [r_msgs]. rewrite N.ltb_irrefl. reflexivity. }
    split; [cbn [opt_amt]; lia|]. split; [exact Hbfcfg|]. reflexivity.
Qed.

Lemma match_settles e st sender funds ask_id bid_id price size st' r :
  InvA st -> InvB st -> 1 <= size -> clean_match st bid_id price size ->
  execute_match FX e st sender funds ask_id bid_id price size = Ok (st', r) ->
  exists c a b bp xp gross af dy fa,
    st_cfg st = Some c /\ In sender (cf_executors c) /\ funds = [] /\
    lookup ask_id (st_asks st) = Some a /\ lookup bid_id (st_bids st) = Some (SlotV3 b) /\
    price_of (b_price b) bp /\ dec_parse price = Some xp /\ positive_dec xp /\
    size <= a_size a /\ size <= unfilled b /\ a_class a <> Pending /\
    gross * 10 ^ d_scale xp = d_mant xp * size /\          (* gross = execution price * size, exactly *)
    dy * 10 ^ d_scale bp = d_mant bp * size /\             (* dy = bid price * size: quote consumed from the bid *)
    gross <= dy /\ af <= gross /\ ask_fee_spec_exists c xp size af /\ fee_cond b dy fa /\
    (forall d, inflow e d (r_msgs r) = 0) /\
    (forall d, outflow e d (r_msgs r) =
               ind d (c_denom (b_quote b)) (dy + fa) + ind d (a_base a) size +
               match a_class a with Ready _ cb => ind d (c_denom cb) size | _ => 0 end) /\
    st' = mkstate (st_cfg st) (st_ver st)
            (if a_size a - size =? 0 then remove ask_id (st_asks st)
             else insert ask_id (ask_after a (a_size a - size)) (st_asks st))
            (if unfilled b - size =? 0 then remove bid_id (st_bids st)
             else insert bid_id (SlotV3 (mkbid (b_base b) (b_acc_base b + size) (b_acc_quote b + dy) (b_acc_fee b + fa)
                                               (b_fee b) (b_id b) (b_owner b) (b_price b) (b_quote b))) (st_bids st)).
Proof.
  intros HA HB Hs1 Hclean H.
  destruct (match_settles_full e st sender funds ask_id bid_id price size st' r HA HB Hs1 Hclean H) as
    (c & a & b & bp & xp & gross & af & dy & fa & bfee & frefund & H1 & H2 & H3 & H4 & H5 & H6 & H7 & H8 & H9 & H10 & H11 & H12 &
     H13 & H14 & H15 & H16 & H17 & H18 & H19 & H20 & _).
  exists c, a, b, bp, xp, gross, af, dy, fa. repeat (split; [assumption|]). assumption.
Qed.

Lemma match_conserves e st sender funds ask_id bid_id price size st' r :
  InvA st -> InvB st -> 1 <= size -> clean_match st bid_id price size ->
  execute_match FX e st sender funds ask_id bid_id price size = Ok (st', r) -> conserves e st funds st' r.
Proof.
  intros HA HB Hs1 Hclean H.
  destruct (match_settles e st sender funds ask_id bid_id price size st' r HA HB Hs1 Hclean H) as
    (c & a & b & bp & xp & gross & af & dy & fa & Hc & _ & -> & Hla & Hlb & Hbp & _ & _ & Hsza & Hszb & Hnp & _ & Hdy & _ & _ & _ &
     Hfc & Hin & Hout & ->).
  destruct (inv_bids st HB c bid_id _ Hc Hlb) as (b0 & Hb0 & Hok). injection Hb0 as <-.
  pose proof (inv_asks st HA c ask_id a Hc Hla) as (_ & _ & _ & _ & _ & _ & _ & Hr).
  intros d. rewrite Hin, Hout. unfold owed. cbn [st_asks st_bids]. change (funds_in d []) with 0.
  pose proof (bid_consume_owed c bid_id b bp size dy fa d Hok Hbp Hszb Hdy Hfc) as EB.
  assert (EA : (if a_size a - size =? 0 then sum_book (ask_owed d) (remove ask_id (st_asks st))
                else sum_book (ask_owed d) (insert ask_id (ask_after a (a_size a - size)) (st_asks st)))
               + (ind d (a_base a) size + match a_class a with Ready _ cb => ind d (c_denom cb) size | _ => 0 end)
               = sum_book (ask_owed d) (st_asks st)).
  { destruct (N.eqb_spec (a_size a - size) 0) as [Hz|Hnz].
    - assert (size = a_size a) by lia. subst size.
      pose proof (sum_remove (ask_owed d) ask_id a (st_asks st) (inv_nd_asks st HA) Hla) as E. unfold ask_owed at 2 in E.
      destruct (a_class a) as [| |ap cb]; try lia. subst cb. cbn [c_amt c_denom] in *. lia.
    - pose proof (sum_insert_upd (ask_owed d) ask_id (ask_after a (a_size a - size)) a (st_asks st) (inv_nd_asks st HA) Hla) as E.
      rewrite ask_owed_after in E. unfold ask_owed at 2 in E.
      pose proof (ind_sub d (a_base a) (a_size a) size Hsza) as E1.
      destruct (a_class a) as [| |ap cb]; try lia. subst cb. cbn [c_amt c_denom] in *.
      pose proof (ind_sub d (cf_base c) (a_size a) size Hsza) as E2. lia. }
  assert (EBs : (if unfilled b - size =? 0 then sum_book (bid_owed d) (remove bid_id (st_bids st))
                 else sum_book (bid_owed d) (insert bid_id (SlotV3 (mkbid (b_base b) (b_acc_base b + size) (b_acc_quote b + dy)
                        (b_acc_fee b + fa) (b_fee b) (b_id b) (b_owner b) (b_price b) (b_quote b))) (st_bids st)))
                + ind d (c_denom (b_quote b)) (dy + fa) = sum_book (bid_owed d) (st_bids st)).
  { destruct (N.eqb_spec (unfilled b - size) 0) as [Hz|Hnz].
    - pose proof (sum_remove (bid_owed d) bid_id _ (st_bids st) (inv_nd_bids st HB) Hlb) as E2. lia.
    - pose proof (sum_insert_upd (bid_owed d) bid_id (SlotV3 (mkbid (b_base b) (b_acc_base b + size) (b_acc_quote b + dy)
                    (b_acc_fee b + fa) (b_fee b) (b_id b) (b_owner b) (b_price b) (b_quote b))) _ (st_bids st) (inv_nd_bids st HB) Hlb) as E2. lia. }
  destruct (a_size a - size =? 0), (unfilled b - size =? 0); lia.
Qed.

(* ---------------------------------------------------------------- every accepted request conserves (C01) *)
Theorem execute_conserves e st sender funds m st' r :
  Inv st -> clean_exec st m -> sender <> e_self e ->
  execute FX e st sender funds m = Ok (st', r) -> conserves e st funds st' r.
Proof.
  intros HI Hclean Hs H. pose proof HI as [HA HB]. pose proof H as H0. unfold execute in H. guard_inv H Hv.
  destruct m; cbn [validate_exec clean_exec] in *.
  - eapply approve_conserves; eauto.
  - eapply cancel_ask_conserves; eauto.
  - eapply (reverse_bid_conserves e st sender funds (CancelBid id)); eauto. reflexivity.
  - eapply create_ask_conserves; eauto.
  - repeat (apply andb_prop in Hv as [Hv ?]). eapply create_bid_conserves; eauto. apply N.leb_le. assumption.
  - repeat (apply andb_prop in Hv as [Hv ?]). eapply match_conserves; eauto. apply N.leb_le. assumption.
  - eapply reverse_ask_conserves; eauto.
  - eapply (reverse_bid_conserves e st sender funds (ExpireBid id)); eauto. reflexivity.
  - eapply reverse_ask_conserves; eauto.
  - eapply (reverse_bid_conserves e st sender funds (RejectBid id size)); eauto. reflexivity.
  - apply modify_contract_inv in H0 as (c & af & bf & _ & _ & -> & _ & _ & _ & _ & _ & _ & _ & _ & _ & _ & -> & ->).
    intros d. reflexivity.
Qed.

(* ---------------------------------------------------------------- histories: holdings = owed *)
(* everything escrowed into the contract / everything it paid out, per denomination, over the accepted steps *)
Fixpoint ledger (st : state) (evs : list event) (d : string) : N * N :=
  match evs with
  | [] => (0, 0)
  | ev :: rest =>
    let io := ledger (run_event st ev) rest d in
    match execute FX (ev_env ev) st (ev_sender ev) (ev_funds ev) (ev_msg ev) with
    | Ok (_, r) => (funds_in d (ev_funds ev) + inflow (ev_env ev) d (r_msgs r) + fst io,
                    outflow (ev_env ev) d (r_msgs r) + snd io)
    | Refused _ => io
    end
  end.
Definition never_self (evs : list event) : Prop := Forall (fun ev => ev_sender ev <> e_self (ev_env ev)) evs.

Theorem ledger_balances evs : forall st d,
  Inv st -> clean_run st evs -> never_self evs ->
  fst (ledger st evs d) + owed st d = snd (ledger st evs d) + owed (run st evs) d.
Proof.
  induction evs as [|ev evs IH]; intros st d HI Hc Hns; [reflexivity|].
  change (run st (ev :: evs)) with (run (run_event st ev) evs). destruct Hc as [Hc1 Hc2].
  inversion Hns as [|? ? Hs Hns']; subst. cbn [ledger]. unfold run_event in *.
  destruct (execute FX (ev_env ev) st (ev_sender ev) (ev_funds ev) (ev_msg ev)) as [[st' r]|t] eqn:E.
  - pose proof (execute_conserves _ _ _ _ _ _ _ HI Hc1 Hs E d) as Hcons.
    pose proof (Inv_step _ _ _ _ _ _ _ HI Hc1 E) as HI'. specialize (IH st' d HI' Hc2 Hns'). cbn [fst snd]. lia.
  - apply IH; auto.
Qed.

Lemma owed_init e m st0 r d : instantiate e empty_state m = Ok (st0, r) -> owed st0 d = 0.
Proof. intros H. apply instantiate_stored in H as [-> _]. reflexivity. Qed.
