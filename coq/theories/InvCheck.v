(* InvCheck: the state invariant as a boolean function, proved equivalent to [Inv].  Extracted with the model runner, it is
   evaluated on every state the IMPLEMENTATION dumps (follow mode), so that the hypothesis "Inv st" of the theorems is
   checked -- not assumed -- on the states real histories reach. *)
From ATS Require Import Prelude Dec DecFacts Uuid Semver Types Contract Tactics Spec ExactFacts Inv.
Ltac Zify.zify_post_hook ::= Z.div_mod_to_equations.

Definition price_b (s : string) : bool :=
  match dec_parse s with
  | Some p => negb (d_neg p) && negb (d_mant p =? 0) && (d_scale p <=? 28)
  | None => false
  end.
Lemma price_b_spec s : price_b s = true <-> exists p, price_of s p.
Proof.
  unfold price_b, price_of. split.
  - destruct (dec_parse s) as [p|]; [|discriminate]. intros H. apply andb_prop in H as [H H3]. apply andb_prop in H as [H1 H2].
    exists p. repeat split.
    + destruct (d_neg p); [discriminate|reflexivity].
    + intros Hz. rewrite Hz in H2. discriminate.
    + apply N.leb_le. exact H3.
  - intros (p & -> & Hn & Hm & Hs). rewrite Hn. cbn [negb andb].
    destruct (N.eqb_spec (d_mant p) 0); [contradiction|]. cbn [negb andb]. apply N.leb_le. exact Hs.
Qed.

Definition coin_eqb (a b : coin) : bool := (c_amt a =? c_amt b) && String.eqb (c_denom a) (c_denom b).
Lemma coin_eqb_spec a b : coin_eqb a b = true <-> a = b.
Proof.
  unfold coin_eqb. destruct a as [x d], b as [y d']. cbn. split.
  - intros H. apply andb_prop in H as [H1 H2]. apply N.eqb_eq in H1. apply String.eqb_eq in H2. congruence.
  - intros H. injection H as -> ->. rewrite N.eqb_refl, String.eqb_refl. reflexivity.
Qed.

Definition is_basic (c : aclass) : bool := match c with Basic => true | _ => false end.
Definition ask_b (c : cfg) (k : string) (a : ask) : bool :=
  String.eqb (a_id a) k && uuid_valid k && (1 <=? a_size a) &&
  Bool.eqb (is_basic (a_class a)) (String.eqb (a_base a) (cf_base c)) &&
  (String.eqb (a_base a) (cf_base c) || mem (a_base a) (cf_conv c)) &&
  mem (a_quote a) (cf_quotes c) && price_b (a_price a) &&
  match a_class a with Ready _ cb => coin_eqb cb (mkcoin (a_size a) (cf_base c)) | _ => true end.

Lemma ask_b_spec c k a : ask_b c k a = true <-> ask_ok c k a.
Proof.
  unfold ask_b, ask_ok. rewrite !andb_true_iff, String.eqb_eq, N.leb_le, orb_true_iff, String.eqb_eq, !mem_In, price_b_spec.
  rewrite Bool.eqb_true_iff.
  assert (Hcl : (is_basic (a_class a) = (a_base a =? cf_base c)%string) <-> (a_class a = Basic <-> a_base a = cf_base c)).
  { destruct (String.eqb_spec (a_base a) (cf_base c)) as [He|Hne]; destruct (a_class a); cbn; split; intros H;
      try reflexivity; try discriminate; try (split; intros; congruence); try (split; intros Hx; [discriminate Hx|contradiction]).
    - destruct H as [_ H]. specialize (H He). discriminate.
    - destruct H as [_ H]. specialize (H He). discriminate.
    - destruct H as [H _]. specialize (H eq_refl). contradiction. }
  rewrite Hcl.
  assert (Hr : match a_class a with Ready _ cb => coin_eqb cb (mkcoin (a_size a) (cf_base c)) | _ => true end = true <->
               match a_class a with Ready _ cb => cb = mkcoin (a_size a) (cf_base c) | _ => True end).
  { destruct (a_class a); try (split; auto; fail). apply coin_eqb_spec. }
  rewrite Hr. tauto.
Qed.

Definition fee_b (b : bid) : bool :=
  match b_fee b with
  | None => b_acc_fee b =? 0
  | Some f => String.eqb (c_denom f) (c_denom (b_quote b)) && (b_acc_fee b <=? c_amt f) && (c_amt f <? B96) &&
              match fee_for_rest b (c_amt f) (unspent b) with Ok h => h =? held b | Refused _ => false end
  end.
Definition hdr_b (c : cfg) (k : string) (b : bid) : bool :=
  String.eqb (b_id b) k && uuid_valid k &&
  String.eqb (c_denom (b_base b)) (cf_base c) && mem (c_denom (b_quote b)) (cf_quotes c) &&
  (b_acc_base b <? c_amt (b_base b)) && (b_acc_quote b <=? c_amt (b_quote b)) &&
  (c_amt (b_base b) <? B96) && (c_amt (b_quote b) <? B96).
Definition pricepart_b (c : cfg) (b : bid) : bool :=
  match dec_parse (b_price b) with
  | Some p => negb (d_neg p) && negb (d_mant p =? 0) && (d_scale p <=? 28) &&
              (c_amt (b_quote b) * 10 ^ d_scale p =? d_mant p * c_amt (b_base b)) &&
              (unspent b * 10 ^ d_scale p =? d_mant p * unfilled b) &&
              ((d_mant p * 10 ^ cf_precision c) mod 10 ^ d_scale p =? 0)
  | None => false
  end.
Definition bid_b (c : cfg) (k : string) (b : bid) : bool := hdr_b c k b && pricepart_b c b && fee_b b.

Lemma fee_b_spec b :
  fee_b b = true <->
  match b_fee b with
  | None => b_acc_fee b = 0
  | Some f => c_denom f = c_denom (b_quote b) /\ b_acc_fee b <= c_amt f /\ c_amt f < B96 /\
              fee_for_rest b (c_amt f) (unspent b) = Ok (held b)
  end.
Proof.
  unfold fee_b. destruct (b_fee b) as [f|]; [|apply N.eqb_eq].
  rewrite !andb_true_iff, String.eqb_eq, N.leb_le, N.ltb_lt.
  destruct (fee_for_rest b (c_amt f) (unspent b)) as [h|t].
  - rewrite N.eqb_eq. split; intros (H1 & H2); repeat split; try tauto.
    + destruct H1 as ((? & ?) & ?). subst h. reflexivity.
    + destruct H2 as (_ & _ & H). injection H as ->. reflexivity.
  - split; [intros (_ & H); discriminate|intros (_ & _ & _ & H); discriminate].
Qed.

Lemma hdr_b_spec c k b :
  hdr_b c k b = true <->
  (b_id b = k /\ uuid_valid k = true /\ c_denom (b_base b) = cf_base c /\ In (c_denom (b_quote b)) (cf_quotes c) /\
   b_acc_base b < c_amt (b_base b) /\ b_acc_quote b <= c_amt (b_quote b) /\ c_amt (b_base b) < B96 /\ c_amt (b_quote b) < B96).
Proof. unfold hdr_b. rewrite !andb_true_iff, !String.eqb_eq, mem_In, !N.ltb_lt, N.leb_le. tauto. Qed.

Lemma pricepart_b_spec c b :
  pricepart_b c b = true <->
  (exists p, price_of (b_price b) p /\
     c_amt (b_quote b) * 10 ^ d_scale p = d_mant p * c_amt (b_base b) /\
     unspent b * 10 ^ d_scale p = d_mant p * unfilled b) /\
  (forall p, dec_parse (b_price b) = Some p -> within_precision p (cf_precision c)).
Proof.
  unfold pricepart_b, within_precision, price_of. destruct (dec_parse (b_price b)) as [p|] eqn:Ep.
  - split.
    + intros H. apply andb_prop in H as [H HP]. apply andb_prop in H as [H HU]. apply andb_prop in H as [H HQ].
      apply andb_prop in H as [H Hs]. apply andb_prop in H as [Hn Hm].
      apply N.eqb_eq in HP. apply N.eqb_eq in HU. apply N.eqb_eq in HQ. apply N.leb_le in Hs.
      split.
      * exists p. repeat split; try assumption.
        -- destruct (d_neg p); [discriminate|reflexivity].
        -- intros Hz. rewrite Hz in Hm. discriminate.
      * intros p' Hp'. injection Hp' as <-. exact HP.
    + intros [(p' & (Hp' & Hn & Hm & Hs) & HQ & HU) HP]. injection Hp' as <-. specialize (HP p eq_refl).
      rewrite Hn. cbn [negb andb]. destruct (N.eqb_spec (d_mant p) 0); [contradiction|]. cbn [negb andb].
      apply N.leb_le in Hs. rewrite Hs. cbn [andb]. apply N.eqb_eq in HQ. rewrite HQ. cbn [andb].
      apply N.eqb_eq in HU. rewrite HU. cbn [andb]. apply N.eqb_eq. exact HP.
  - split; [discriminate|]. intros [(p' & (Hp' & _) & _) _]. discriminate.
Qed.

Lemma bid_b_spec c k b :
  bid_b c k b = true <->
  bid_ok c k b /\ (forall p, dec_parse (b_price b) = Some p -> within_precision p (cf_precision c)).
Proof.
  unfold bid_b, bid_ok. rewrite !andb_true_iff, hdr_b_spec, pricepart_b_spec, fee_b_spec. tauto.
Qed.

Fixpoint nodup_b (l : list string) : bool :=
  match l with [] => true | x :: r => negb (mem x r) && nodup_b r end.
Lemma nodup_b_spec l : nodup_b l = true <-> NoDup l.
Proof.
  induction l as [|x r IH]; cbn [nodup_b]; [split; [constructor|reflexivity]|].
  rewrite andb_true_iff, IH, negb_true_iff. split.
  - intros [Hm Hn]. constructor; [|exact Hn]. intros Hin. apply mem_In in Hin. congruence.
  - intros H. inversion H as [|? ? Hni Hnd]; subst. split; [|exact Hnd].
    destruct (mem x r) eqn:E; [apply mem_In in E; contradiction|reflexivity].
Qed.

Definition cfg_b (c : cfg) : bool :=
  (cf_precision c <=? 18) && (1 <=? cf_increment c) && (cf_increment c mod 10 ^ cf_precision c =? 0) &&
  negb (list_empty (cf_executors c)) && negb (str_empty (cf_base c)) && negb (list_empty (cf_quotes c)).
Lemma list_empty_spec {A} (l : list A) : list_empty l = true <-> l = [].
Proof. destruct l; cbn; split; intros; congruence. Qed.
Lemma str_empty_spec s : str_empty s = true <-> s = ""%string.
Proof. destruct s; cbn; split; intros; congruence. Qed.
Lemma cfg_b_spec c : cfg_b c = true <-> cfg_ok c.
Proof.
  unfold cfg_b, cfg_ok. rewrite !andb_true_iff, !N.leb_le, N.eqb_eq, !negb_true_iff.
  assert (H1 : list_empty (cf_executors c) = false <-> cf_executors c <> []).
  { pose proof (list_empty_spec (cf_executors c)). destruct (list_empty (cf_executors c)); intuition congruence. }
  assert (H2 : str_empty (cf_base c) = false <-> cf_base c <> ""%string).
  { pose proof (str_empty_spec (cf_base c)). destruct (str_empty (cf_base c)); intuition congruence. }
  assert (H3 : list_empty (cf_quotes c) = false <-> cf_quotes c <> []).
  { pose proof (list_empty_spec (cf_quotes c)). destruct (list_empty (cf_quotes c)); intuition congruence. }
  rewrite H1, H2, H3. tauto.
Qed.

Definition ver_b (st : state) : bool :=
  match st_ver st with
  | Some (_, v) => match version_parse v with Some ver => negb (req_lt_0_16_2 ver) | None => false end
  | None => false
  end.

Definition inv_check (st : state) : bool :=
  match st_cfg st with
  | None => false
  | Some c =>
    cfg_b c && ver_b st &&
    forallb (fun ka => ask_b c (fst ka) (snd ka)) (st_asks st) && nodup_b (map fst (st_asks st)) &&
    forallb (fun ks => match snd ks with SlotV3 b => bid_b c (fst ks) b | SlotV2 _ => false end) (st_bids st) &&
    nodup_b (map fst (st_bids st))
  end.

Lemma in_lookup {V} k (v : V) m : keys_nodup m -> In (k, v) m -> lookup k m = Some v.
Proof.
  unfold keys_nodup. induction m as [|[k0 v0] r IH]; cbn; [contradiction|]. intros Hnd Hin.
  inversion Hnd as [|? ? Hni Hnd']; subst.
  destruct (String.eqb_spec k k0) as [->|Hne].
  - destruct Hin as [Hx|Hx]; [injection Hx as ->; reflexivity|]. exfalso. apply Hni. apply in_map_iff. exists (k0, v). auto.
  - destruct Hin as [Hx|Hx]; [congruence|]. apply IH; assumption.
Qed.

Theorem inv_check_sound st : inv_check st = true -> Inv st.
Proof.
  unfold inv_check. destruct (st_cfg st) as [c|] eqn:Ec; [|discriminate]. intros H.
  apply andb_prop in H as [H Hnb]. apply andb_prop in H as [H Hbids]. apply andb_prop in H as [H Hna].
  apply andb_prop in H as [H Hasks]. apply andb_prop in H as [Hc Hv].
  apply cfg_b_spec in Hc. apply nodup_b_spec in Hna. apply nodup_b_spec in Hnb.
  rewrite forallb_forall in Hasks. rewrite forallb_forall in Hbids.
  split.
  - constructor.
    + exists c. split; [exact Ec|exact Hc].
    + unfold ver_b in Hv. destruct (st_ver st) as [[d v]|]; [|discriminate]. destruct (version_parse v) as [ver|] eqn:Ep; [|discriminate].
      exists d, v, ver. repeat split; auto. destruct (req_lt_0_16_2 ver); [discriminate|reflexivity].
    + intros c0 k a Hc0 Hl. rewrite Ec in Hc0. injection Hc0 as <-. apply lookup_in in Hl. apply (Hasks (k, a)) in Hl. apply ask_b_spec. exact Hl.
    + exact Hna.
  - constructor.
    + intros c0 k s Hc0 Hl. rewrite Ec in Hc0. injection Hc0 as <-. apply lookup_in in Hl. apply (Hbids (k, s)) in Hl. cbn [fst snd] in Hl.
      destruct s as [b|o]; [|discriminate]. exists b. split; [reflexivity|]. apply bid_b_spec in Hl. tauto.
    + exact Hnb.
    + intros c0 k b p Hc0 Hl Hp. rewrite Ec in Hc0. injection Hc0 as <-. apply lookup_in in Hl. apply (Hbids (k, SlotV3 b)) in Hl. cbn [fst snd] in Hl.
      apply bid_b_spec in Hl. destruct Hl as [_ HP]. exact (HP p Hp).
Qed.

Theorem inv_check_complete st : Inv st -> inv_check st = true.
Proof.
  intros [[(c & Ec & Hc) (d & v & ver & Ev & Ep & Hlt) Hasks Hna] [Hbids Hnb Hprec]].
  unfold inv_check. rewrite Ec.
  rewrite !andb_true_iff. repeat split.
  - apply cfg_b_spec. exact Hc.
  - unfold ver_b. rewrite Ev, Ep, Hlt. reflexivity.
  - apply forallb_forall. intros [k a] Hin. cbn [fst snd]. apply ask_b_spec. apply (Hasks c k a Ec). apply in_lookup; assumption.
  - apply nodup_b_spec. exact Hna.
  - apply forallb_forall. intros [k s] Hin. cbn [fst snd]. pose proof (in_lookup k s _ Hnb Hin) as Hl.
    destruct (Hbids c k s Ec Hl) as (b & -> & Hok). apply bid_b_spec. split; [exact Hok|]. intros p Hp. exact (Hprec c k b p Ec Hl Hp).
  - apply nodup_b_spec. exact Hnb.
Qed.

Theorem inv_check_iff st : inv_check st = true <-> Inv st.
Proof. split; [apply inv_check_sound|apply inv_check_complete]. Qed.
