(* ExitProofs: execute-level statements about cancel / expire / reject (C04, C06). *)
From ATS Require Import Prelude Dec DecFacts Uuid Semver Types Contract Tactics Spec Inv InvAsk InstProofs AskProofs
  BidFacts InvBid InvStep.
Ltac Zify.zify_post_hook ::= Z.div_mod_to_equations.

Lemma cancel_bid_live e st c id b :
  st_cfg st = Some c -> lookup id (st_bids st) = Some (SlotV3 b) -> bid_ok c id b ->
  execute FX e st (b_owner b) [] (CancelBid id) =
  Ok (set_bids st (remove id (st_bids st)), mkresp (bid_exit_all e b) (reverse_attrs "cancel_bid" id (unfilled b) false)).
Proof.
  intros Hc Hl Hok. unfold execute. cbn [validate_exec]. pose proof Hok as (Hid & Hu & Hrest). rewrite Hu. cbn [guard bind].
  eapply bid_full_exit; eauto.
Qed.
Lemma expire_bid_live e st c id b ex :
  st_cfg st = Some c -> In ex (cf_executors c) -> lookup id (st_bids st) = Some (SlotV3 b) -> bid_ok c id b ->
  execute FX e st ex [] (ExpireBid id) =
  Ok (set_bids st (remove id (st_bids st)), mkresp (bid_exit_all e b) (reverse_attrs "expire_bid" id (unfilled b) false)).
Proof.
  intros Hc Hex Hl Hok. unfold execute. cbn [validate_exec]. pose proof Hok as (Hid & Hu & Hrest). rewrite Hu. cbn [guard bind].
  eapply bid_full_exit; eauto.
Qed.

(* what an accepted bid reversal settles, in exact terms *)
Definition bid_reverse_of (m : emsg) : option (string * string * bool * option N) :=
  match m with
  | CancelBid id => Some (id, "cancel_bid", true, None)
  | ExpireBid id => Some (id, "expire_bid", false, None)
  | RejectBid id s => Some (id, "reject_bid", false, s)
  | _ => None
  end.

Lemma bid_reverse_settles e st sender funds m id action is_cancel csz st' r :
  Inv st -> clean_exec st m -> bid_reverse_of m = Some (id, action, is_cancel, csz) ->
  execute FX e st sender funds m = Ok (st', r) ->
  exists c b p eff cq fa,
    st_cfg st = Some c /\ lookup id (st_bids st) = Some (SlotV3 b) /\ price_of (b_price b) p /\ funds = [] /\
    (if is_cancel then sender = b_owner b else In sender (cf_executors c)) /\
    eff = match csz with None => unfilled b | Some s => s end /\
    (forall s, csz = Some s -> 1 <= s /\ s mod cf_increment c = 0) /\ eff <= unfilled b /\
    cq * 10 ^ d_scale p = d_mant p * eff /\                      (* cq = price * eff, exactly *)
    (match b_fee b with
     | None => fa = 0
     | Some f => exists keep, fee_for_rest b (c_amt f) (unspent b - cq) = Ok keep /\ keep <= held b /\ fa = held b - keep
     end) /\
    r = mkresp (pay_msg e cq (c_denom (b_quote b)) (b_owner b) ::
                (if 0 <? fa then [pay_msg e fa (c_denom (b_quote b)) (b_owner b)] else []))
               (reverse_attrs action id eff (negb (unfilled b - eff =? 0))) /\
    st' = set_bids st (if unfilled b - eff =? 0 then remove id (st_bids st)
                       else insert id (SlotV3 (mkbid (b_base b) (b_acc_base b + eff) (b_acc_quote b + cq) (b_acc_fee b + fa)
                                                      (b_fee b) (b_id b) (b_owner b) (b_price b) (b_quote b))) (st_bids st)).
Proof.
  intros [HA HB] Hclean Hm H. unfold execute in H. guard_inv H Hv.
  assert (Hrev : reverse_bid FX e st sender funds id action is_cancel csz = Ok (st', r)).
  { destruct m; try discriminate Hm; injection Hm as <- <- <- <-; exact H. }
  assert (Hsz : forall s, csz = Some s -> 1 <= s).
  { intros s Hs. subst csz. destruct m; try discriminate Hm; injection Hm as _ _ _ Hs; try discriminate Hs.
    subst size. cbn in Hv. apply andb_prop in Hv as [_ Hv]. cbn in Hv. apply N.leb_le. exact Hv. }
  clear H. apply reverse_bid_inv in Hrev as (c & b & rb & eff & p & tq & cq & back & b' & rb' & Hf & Hc & Hl & Hau & Hrb & Heff & Hlot &
    Hle & Hp & Hmul & Hfr & Hcq & Hfb & Hacc & Hrb' & -> & ->).
  destruct (inv_bids st HB c id _ Hc Hl) as (b0 & Hb0 & Hok). injection Hb0 as <-.
  pose proof Hok as (Hid & _ & _ & _ & _ & _ & _ & _ & (p0 & Hp0 & HQ & HU) & Hfee).
  assert (Hpp : p0 = p) by (destruct Hp0 as [Hx _]; congruence). subst p0.
  apply remaining_base_ok in Hrb as [-> Hab]. apply accumulate_eq in Hacc.
  assert (Hdy : cq * 10 ^ d_scale p = d_mant p * eff).
  { destruct csz as [s|].
    - subst eff. eapply mul_size_units; eauto. eapply lot_exact_at; eauto.
    - subst eff. rewrite (full_exit_quote c id b p tq cq Hok Hp0 Hmul Hfr Hcq). exact HU. }
  assert (Hrbv : rb' = unfilled b - eff).
  { apply remaining_base_ok in Hrb' as [Hr _]. rewrite Hacc in Hr. unfold unfilled in *. cbn in Hr. lia. }
  exists c, b, p, eff, cq, (opt_amt back). rewrite Hrbv, Hid.
  split; [exact Hc|]. split; [exact Hl|]. split; [exact Hp0|]. split; [exact Hf|]. split; [exact Hau|]. split; [exact Heff|].
  split; [intros s Hs; split; [apply Hsz; exact Hs|apply Hlot; exact Hs]|]. split; [exact Hle|]. split; [exact Hdy|].
  unfold fee_back in Hfb. split.
  - destruct (b_fee b) as [f|] eqn:Ef; [|rewrite Hfb; reflexivity].
    destruct Hfb as (rq & keep & rf & Hrq & Hcle & Hk & Hrf & Hkle & ->).
    apply remaining_quote_ok in Hrq as [-> _]. apply (remaining_fee_some b f rf Ef) in Hrf as [-> _].
    exists keep. cbn [opt_amt]. auto.
  - split.
    + unfold bid_exit_msgs. destruct back as [x|]; reflexivity.
    + rewrite Hacc. rewrite ?Hid. reflexivity.
Qed.
