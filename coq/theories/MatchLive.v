(* MatchLive: the converse of C03 -- an executor's request meeting the eligibility conditions, with the configured
   fees payable, is carried out. *)
From ATS Require Import Prelude Dec DecFacts Uuid Semver Types Contract Tactics Spec Inv InvAsk InstProofs AskProofs
  BidFacts InvBid InvStep ExitProofs Ledger MsgProofs MatchProofs AdmitProofs.
Ltac Zify.zify_post_hook ::= Z.div_mod_to_equations.

(* "the configured fees are payable": the fee computations of this match succeed -- the ask fee is computable and
   does not exceed the proceeds, the pro-rata bid fee is computable (the fee to keep does not exceed the fee held)
   and has an account to go to, and at an improved price the fee share of the refund is computable and consistent *)
Record fees_payable (c : cfg) (b : bid) (xp : dec) (size gross og : N) (improved : bool) : Prop := mkfp {
  fp_ask : forall gross_d, mul_size xp size = Ok gross_d ->
           exists af, af <= gross /\
             match cf_ask_fee c with
             | Some fi => exists r, dec_parse (f_rate fi) = Some r /\ rate_fee r gross_d = Ok af
             | None => af = 0
             end;
  fp_bid : exists bfee, calculate_fee b gross = Ok bfee /\ (bfee <> None -> cf_bid_fee c <> None) /\
           (improved = true -> exists ofee, calculate_fee b og = Ok ofee /\ opt_amt bfee <= opt_amt ofee) }.

Lemma accumulate_live b x y z :
  b_acc_base b + x <= U128MAX -> b_acc_quote b + y <= U128MAX -> b_acc_fee b + opt_amt z <= U128MAX ->
  accumulate b x y z = Ok (mkbid (b_base b) (b_acc_base b + x) (b_acc_quote b + y) (b_acc_fee b + opt_amt z) (b_fee b)
                                 (b_id b) (b_owner b) (b_price b) (b_quote b)).
Proof.
  intros H1 H2 H3. unfold accumulate, checked_add. apply N.leb_le in H1, H2. rewrite H1. cbn [bind].
  destruct z as [f|]; cbn [opt_amt] in *.
  - apply N.leb_le in H3. rewrite H3. cbn [bind]. rewrite H2. reflexivity.
  - cbn [bind]. rewrite H2. cbn [bind]. rewrite N.add_0_r. reflexivity.
Qed.

Theorem match_if e st c a b ap bp xp sender ask_id bid_id price size gross og :
  Inv st -> st_cfg st = Some c -> In sender (cf_executors c) ->
  uuid_canonical ask_id = true -> uuid_canonical bid_id = true -> price <> "" -> 1 <= size ->
  lookup ask_id (st_asks st) = Some a -> lookup bid_id (st_bids st) = Some (SlotV3 b) ->
  a_quote a = c_denom (b_quote b) -> a_class a <> Pending ->
  dec_parse (a_price a) = Some ap -> dec_parse (b_price b) = Some bp -> dec_parse price = Some xp ->
  price_rule ap bp xp = true ->
  size <= a_size a -> size <= unfilled b ->
  gross * 10 ^ d_scale xp = d_mant xp * size ->            (* size * execution price is the whole number gross *)
  og * 10 ^ d_scale bp = d_mant bp * size ->               (* size * bid price is the whole number og *)
  fees_payable c b xp size gross og (dec_ltb xp bp) ->
  is_ok (execute FX e st sender [] (ExecuteMatch ask_id bid_id price size)) = true.
Proof.
  intros [HA HB] Hc Hex Hcida Hcidb Hpne Hs1 Hla Hlb Hq Hnp Hap Hbp Hxp Hrule Hsza Hszb Hg Ho [Hfa Hfb].
  destruct (inv_bids st HB c bid_id _ Hc Hlb) as (b0 & Hb0 & Hok). injection Hb0 as <-.
  pose proof (inv_asks st HA c ask_id a Hc Hla) as (_ & _ & _ & _ & _ & _ & (ap0 & Hap0) & _).
  assert (ap0 = ap) by (destruct Hap0 as [Hx _]; congruence). subst ap0.
  pose proof Hok as (Hidb & _ & _ & _ & Hab & Haq & Hb96 & Hq96 & (p0 & Hp0 & HQ & HU) & Hfee).
  assert (p0 = bp) by (destruct Hp0 as [Hx _]; congruence). subst p0.
  assert (Pbp : positive_dec bp) by (destruct Hp0 as (_ & ? & ? & _); split; assumption).
  assert (Pap : positive_dec ap) by (destruct Hap0 as (_ & ? & ? & _); split; assumption).
  destruct (price_rule_ge_ask ap bp xp Pap Pbp Hrule) as (Pxp & Hge & Hone).
  pose proof (dec_parse_wf _ _ Hxp) as [Hsx _]. pose proof (pow10_pos (d_scale bp)) as Pb. pose proof (pow10_pos (d_scale xp)) as Px.
  (* og <= unspent, gross <= og *)
  assert (Hog_le : og <= unspent b).
  { assert (Hx : og * 10 ^ d_scale bp <= unspent b * 10 ^ d_scale bp) by (rewrite Ho, HU; apply N.mul_le_mono_l; exact Hszb).
    apply N.mul_le_mono_pos_r in Hx; [exact Hx|exact Pb]. }
  assert (Hxle : d_mant xp * pow10 (d_scale bp) <= d_mant bp * pow10 (d_scale xp)).
  { destruct Hone as [H1|H1].
    - apply (dec_eqb_pos xp ap Pap) in H1 as [_ H1].
      unfold price_rule in Hrule. rewrite (dec_cmp_pos ap bp Pap Pbp) in Hrule. unfold pow10 in *.
      pose proof (pow10_pos (d_scale ap)) as Pa.
      assert (Hab' : d_mant ap * 10 ^ d_scale bp <= d_mant bp * 10 ^ d_scale ap).
      { destruct (d_mant ap * 10 ^ d_scale bp ?= d_mant bp * 10 ^ d_scale ap) eqn:E; [| |discriminate].
        - apply N.compare_eq in E. rewrite E. apply N.le_refl.
        - apply N.compare_lt_iff in E. apply N.lt_le_incl. exact E. }
      assert (Hy : d_mant xp * 10 ^ d_scale bp * 10 ^ d_scale ap <= d_mant bp * 10 ^ d_scale xp * 10 ^ d_scale ap).
      { replace (d_mant xp * 10 ^ d_scale bp * 10 ^ d_scale ap) with ((d_mant xp * 10 ^ d_scale ap) * 10 ^ d_scale bp) by ring.
        rewrite H1. replace (d_mant ap * 10 ^ d_scale xp * 10 ^ d_scale bp) with ((d_mant ap * 10 ^ d_scale bp) * 10 ^ d_scale xp) by ring.
        replace (d_mant bp * 10 ^ d_scale xp * 10 ^ d_scale ap) with ((d_mant bp * 10 ^ d_scale ap) * 10 ^ d_scale xp) by ring.
        apply N.mul_le_mono_r. exact Hab'. }
      apply N.mul_le_mono_pos_r in Hy; [exact Hy|exact Pa].
    - apply (dec_eqb_pos xp bp Pbp) in H1 as [_ H1]. rewrite H1. apply N.le_refl. }
  assert (Hgle : gross <= og).
  { unfold pow10 in *.
    assert (Hy : gross * (10 ^ d_scale xp * 10 ^ d_scale bp) <= og * (10 ^ d_scale xp * 10 ^ d_scale bp)).
    { replace (gross * (10 ^ d_scale xp * 10 ^ d_scale bp)) with ((gross * 10 ^ d_scale xp) * 10 ^ d_scale bp) by ring.
      replace (og * (10 ^ d_scale xp * 10 ^ d_scale bp)) with ((og * 10 ^ d_scale bp) * 10 ^ d_scale xp) by ring.
      rewrite Hg, Ho. replace (d_mant xp * size * 10 ^ d_scale bp) with ((d_mant xp * 10 ^ d_scale bp) * size) by ring.
      replace (d_mant bp * size * 10 ^ d_scale xp) with ((d_mant bp * 10 ^ d_scale xp) * size) by ring.
      apply N.mul_le_mono_r. exact Hxle. }
    apply N.mul_le_mono_pos_r in Hy; [exact Hy|nia]. }
  assert (Hsz96 : size < B96) by (unfold unfilled in Hszb; lia).
  assert (Hg96 : gross < B96) by (unfold unspent in Hog_le; lia).
  assert (Ho96 : og < B96) by (unfold unspent in Hog_le; lia).
  destruct Pxp as [Hnx Hmx].
  destruct (mul_size_live xp size gross Hsx Hnx Hsz96 Hg96) as (gross_d & Hmg & Hfrg & Hug); [symmetry; exact Hg|].
  destruct (Hfa gross_d Hmg) as (af & Hafle & Hafs).
  destruct Hfb as (bfee & Hbfee & Hbfacct & Himp).
  (* run the function *)
  unfold execute. cbn [validate_exec]. rewrite Hcida, Hcidb. apply str_nonempty_true in Hpne. rewrite Hpne.
  assert (Hs1b : (1 <=? size) = true) by (apply N.leb_le; exact Hs1). rewrite Hs1b. cbn [andb guard bind].
  unfold execute_match, get_cfg. rewrite Hc. cbn [of_opt bind]. apply mem_In in Hex. rewrite Hex. cbn [guard bind list_empty].
  unfold load_ask, load_bid. rewrite Hla, Hlb. cbn [of_opt bind]. rewrite Hq, String.eqb_refl. cbn [guard bind].
  rewrite Hap, Hbp, Hxp. cbn [of_opt bind]. rewrite Hrule. cbn [guard bind].
  assert (Hrb : remaining_base b = Ok (unfilled b)).
  { unfold remaining_base, checked_sub, unfilled. destruct (N.leb_spec (b_acc_base b) (c_amt (b_base b))); [reflexivity|lia]. }
  rewrite Hrb. cbn [bind]. apply N.leb_le in Hsza, Hszb. rewrite Hsza, Hszb. cbn [andb guard bind]. apply N.leb_le in Hsza, Hszb.
  rewrite Hmg. cbn [bind]. rewrite Hfrg. cbn [negb guard bind]. rewrite Hug. cbn [of_opt bind].
  (* stage 1: ask fee *)
  set (qd := c_denom (b_quote b)) in *.
  assert (S1 : match cf_ask_fee c with
               | Some fi => do r <- of_opt (dec_parse (f_rate fi)) 30; rate_fee r gross_d
               | None => Ok 0
               end = Ok af).
  { destruct (cf_ask_fee c) as [fi|]; [destruct Hafs as (r & Hr & Hrf); rewrite Hr; cbn [of_opt bind]; exact Hrf|subst af; reflexivity]. }
  rewrite S1. cbn [bind].
  assert (S2 : exists l, match cf_ask_fee c with
               | Some fi => if af =? 0 then Ok [] else do m <- add_transfer e (is_restricted e qd) af qd (f_account fi); Ok [m]
               | None => Ok []
               end = Ok l).
  { destruct (cf_ask_fee c) as [fi|]; [|eauto]. destruct (N.eqb_spec af 0); [eauto|]. rewrite pay_live_at by assumption. cbn [bind]. eauto. }
  destruct S2 as (l2 & S2). rewrite S2. cbn [bind].
  assert (S3 : checked_sub gross af 52 = Ok (gross - af)).
  { unfold checked_sub. destruct (N.leb_spec af gross); [reflexivity|lia]. }
  rewrite S3. cbn [bind]. rewrite Hbfee. cbn [bind].
  assert (S5 : exists l, match bfee with
               | Some f => match cf_bid_fee c with
                           | Some fi => do m <- add_transfer e (is_restricted e qd) f qd (f_account fi); Ok [m]
                           | None => Refused 53
                           end
               | None => Ok []
               end = Ok l).
  { destruct bfee as [f|]; [|eauto]. assert (Hne : cf_bid_fee c <> None) by (apply Hbfacct; discriminate).
    destruct (cf_bid_fee c) as [fi|]; [|contradiction]. pose proof (calculate_fee_some_pos _ _ _ Hbfee).
    rewrite pay_live_at by lia. cbn [bind]. eauto. }
  destruct S5 as (l5 & S5). rewrite S5. cbn [bind].
  assert (S6 : exists l, match a_class a with
      | Basic =>
        do m_net <- (if skip_zero FX (gross - af) then Ok [] else do m <- add_transfer e (is_restricted e qd) (gross - af) qd (a_owner a); Ok [m]);
        do m_base <- add_transfer e (is_restricted e (a_base a)) size (a_base a) (b_owner b);
        Ok (m_net ++ [m_base])
      | Ready apr cb =>
        do m_b <- add_transfer e (if fix_conv_marker FX then is_restricted e (c_denom cb) else is_restricted e (a_base a))
                               size (c_denom cb) (b_owner b);
        do m_c <- add_transfer e (is_restricted e (a_base a)) size (a_base a) apr;
        do m_net <- (if skip_zero FX (gross - af) then Ok [] else do m <- add_transfer e (is_restricted e qd) (gross - af) qd apr; Ok [m]);
        Ok ([m_b; m_c] ++ m_net)
      | Pending => Refused 54
      end = Ok l).
  { assert (Hsnz : size <> 0) by lia. unfold skip_zero. cbn [fix_zero_net fix_conv_marker all_fixes andb].
    destruct (a_class a) as [| |apr cb]; [|contradiction|].
    - destruct (N.eqb_spec (gross - af) 0); cbn [bind]; rewrite ?pay_live_at by assumption; cbn [bind]; rewrite ?pay_live_at by assumption; cbn [bind]; eauto.
    - rewrite !pay_live_at by assumption. cbn [bind].
      destruct (N.eqb_spec (gross - af) 0); cbn [bind]; rewrite ?pay_live_at by assumption; cbn [bind]; eauto. }
  destruct S6 as (l6 & S6). rewrite S6. cbn [bind].
  (* stage 7: the fill *)
  pose proof (calculate_fee_inv _ _ _ Hbfee) as Hcf.
  assert (Hheld : held b <= U128MAX /\ b_acc_fee b + held b <= U128MAX).
  { unfold held. destruct (b_fee b) as [f|]; [destruct Hfee as (_ & ? & ? & _)|]; unfold B96, U128MAX in *; lia. }
  assert (Hbf_le : opt_amt bfee <= held b).
  { destruct (b_fee b) as [f|] eqn:Ef; [destruct Hcf as (keep & _ & _ & ? & ->); lia|subst bfee; cbn; lia]. }
  assert (Hub : forall x, x <= c_amt (b_base b) -> x <= U128MAX) by (intros; unfold B96, U128MAX in *; lia).
  assert (Huq : forall x, x <= c_amt (b_quote b) -> x <= U128MAX) by (intros; unfold B96, U128MAX in *; lia).
  rewrite (accumulate_live b size gross bfee); [|apply Hub; unfold unfilled in *; lia|apply Huq; unfold unspent in *; lia|lia].
  cbn [bind].
  set (fill := mkbid _ _ _ _ _ _ _ _ _).
  destruct (dec_ltb xp bp) eqn:Elt.
  - (* improved price *)
    destruct (Himp eq_refl) as (ofee & Hofee & Hmon).
    destruct Pbp as [Hnb Hmb]. pose proof (dec_parse_wf _ _ Hbp) as [Hsb _].
    destruct (mul_size_live bp size og Hsb Hnb Hsz96 Ho96) as (og_d & Hmo & Hfro & Huo); [symmetry; exact Ho|].
    rewrite Hmo. cbn [bind]. rewrite Hfro. cbn [negb guard bind].
    pose proof (to_u128_value _ _ Huo) as [Hov Hon]. pose proof (to_u128_value _ _ Hug) as [Hgv Hgn].
    assert (Hsub : dec_sub_int og_d gross_d = Some (dec_of_N (og - gross))).
    { unfold dec_sub_int. rewrite Hon, Hgn, Hfro, Hfrg. cbn [orb]. rewrite <- Hov, <- Hgv.
      destruct (N.ltb_spec og gross); [lia|reflexivity]. }
    rewrite Hsub. cbn [of_opt bind]. unfold dec_to_u128 at 1. cbn [dec_of_N d_neg d_mant d_scale]. change (pow10 0) with 1.
    rewrite N.div_1_r. cbn [of_opt bind]. rewrite Huo. cbn [of_opt bind]. rewrite Hofee. cbn [bind].
    pose proof (calculate_fee_inv _ _ _ Hofee) as Hcfo.
    assert (Hof_le : opt_amt ofee <= held b).
    { destruct (b_fee b) as [f|] eqn:Ef; [destruct Hcfo as (keep & _ & _ & ? & ->); lia|subst ofee; cbn; lia]. }
    assert (S8 : exists fr, match bfee, ofee with
                  | Some act, Some o => do d <- checked_sub o act 55; Ok (if 0 <? d then Some d else None)
                  | None, Some o => if fix_zero_fee_refund FX then Ok (Some o) else Ok None
                  | _, None => Ok None
                  end = Ok fr /\ opt_amt bfee + opt_amt fr <= held b /\ (forall x, fr = Some x -> x <> 0)).
    { destruct bfee as [act|], ofee as [o|]; cbn [opt_amt fix_zero_fee_refund all_fixes] in *.
      - unfold checked_sub. destruct (N.leb_spec act o); [|lia]. cbn [bind]. eexists. split; [reflexivity|].
        destruct (N.ltb_spec 0 (o - act)); cbn [opt_amt]; split; try lia; intros x Hx; try discriminate; injection Hx as <-; lia.
      - eexists. split; [reflexivity|]. cbn. split; [lia|discriminate].
      - eexists. split; [reflexivity|]. cbn. split; [lia|]. intros x Hx. injection Hx as <-.
        pose proof (calculate_fee_some_pos _ _ _ Hofee). lia.
      - eexists. split; [reflexivity|]. cbn. split; [lia|discriminate]. }
    destruct S8 as (fr & S8 & Hfrle & Hfrnz). rewrite S8. cbn [bind].
    assert (S9 : exists l, (if 0 <? og - gross then
                     do m1 <- add_transfer e (is_restricted e qd) (og - gross) qd (b_owner b);
                     match fr with
                     | Some x => do m2 <- add_transfer e (is_restricted e qd) x qd (b_owner b); Ok [m1; m2]
                     | None => Ok [m1]
                     end
                   else Ok []) = Ok l).
    { destruct (N.ltb_spec 0 (og - gross)); [|eauto]. rewrite pay_live_at by lia. cbn [bind].
      destruct fr as [x|]; [|eauto]. rewrite pay_live_at by (apply Hfrnz; reflexivity). cbn [bind]. eauto. }
    destruct S9 as (l9 & S9). rewrite S9. cbn [bind].
    rewrite (accumulate_live fill 0 (og - gross) fr); unfold fill; cbn [b_acc_base b_acc_quote b_acc_fee].
    + cbn [bind]. unfold remaining_base, checked_sub. cbn [b_base b_acc_base].
      destruct (N.leb_spec (b_acc_base b + size + 0) (c_amt (b_base b))); [reflexivity|unfold unfilled in *; lia].
    + apply Hub. unfold unfilled in *. lia.
    + apply Huq. unfold unspent in *. lia.
    + lia.
  - cbn [bind]. unfold remaining_base, checked_sub. unfold fill. cbn [b_base b_acc_base].
    destruct (N.leb_spec (b_acc_base b + size) (c_amt (b_base b))); [reflexivity|unfold unfilled in *; lia].
Qed.
