(* Types: the data the contract stores, receives and emits.  Definitions only. *)
From ATS Require Import Prelude Dec.

(* ---------------------------------------------------------------- chain environment (oracles) *)
Inductive mkind := MRestricted | MOther | MNone.
Record env := mkenv {
  e_marker : string -> mkind;          (* marker module: type of the marker behind a denomination *)
  e_attrs : string -> list string;     (* attribute module: attribute names held by an account *)
  e_addr_ok : string -> bool;          (* Api::addr_validate *)
  e_self : string;                     (* env.contract.address *)
  e_pkg_version : string;              (* CARGO_PKG_VERSION *)
  e_crate_name : string                (* CARGO_CRATE_NAME *)
}.
Definition is_restricted (e : env) (d : string) : bool :=
  match e_marker e d with MRestricted => true | _ => false end.

(* ---------------------------------------------------------------- stored records *)
Record coin := mkcoin { c_amt : N; c_denom : string }.

Inductive aclass := Basic | Pending | Ready (approver : string) (cb : coin).
Record ask := mkask {
  a_id : string; a_owner : string; a_class : aclass; a_base : string; a_quote : string;
  a_price : string; a_size : N }.

Record bid := mkbid {
  b_base : coin; b_acc_base : N; b_acc_quote : N; b_acc_fee : N; b_fee : option coin;
  b_id : string; b_owner : string; b_price : string; b_quote : coin }.

(* legacy event log (amounts only; denominations/price/block info of events are never read) *)
Inductive action :=
| AFill (base quote : N) (fee : option N)
| ARefund (quote : N) (fee : option N)
| AReject (base quote : N) (fee : option N).
Record bid2 := mkbid2 {
  b2_base : coin; b2_events : list action; b2_fee : option coin;
  b2_id : string; b2_owner : string; b2_price : string; b2_quote : coin }.
Inductive bslot := SlotV3 (b : bid) | SlotV2 (b : bid2).

Record feeinfo := mkfee { f_account : string; f_rate : string }.
Record cfg := mkcfg {
  cf_name : string; cf_bind : string; cf_base : string;
  cf_conv : list string; cf_quotes : list string;
  cf_approvers : list string; cf_executors : list string;
  cf_ask_fee : option feeinfo; cf_bid_fee : option feeinfo;
  cf_ask_attrs : list string; cf_bid_attrs : list string;
  cf_precision : N; cf_increment : N }.

Record state := mkstate {
  st_cfg : option cfg;
  st_ver : option (string * string);           (* (definition, version) *)
  st_asks : list (string * ask);
  st_bids : list (string * bslot) }.
Definition empty_state : state := mkstate None None [] [].

(* ---------------------------------------------------------------- requests *)
Record modmsg := mkmod {
  m_approvers : option (list string); m_executors : option (list string);
  m_afr : option string; m_afa : option string; m_bfr : option string; m_bfa : option string;
  m_aattrs : option (list string); m_battrs : option (list string) }.

Inductive emsg :=
| ApproveAsk (id base : string) (size : N)
| CancelAsk (id : string)
| CancelBid (id : string)
| CreateAsk (id base quote price : string) (size : N)
| CreateBid (id base : string) (fee : option coin) (price quote : string) (quote_size size : N)
| ExecuteMatch (ask_id bid_id price : string) (size : N)
| ExpireAsk (id : string)
| ExpireBid (id : string)
| RejectAsk (id : string) (size : option N)
| RejectBid (id : string) (size : option N)
| ModifyContract (m : modmsg).

Record instmsg := mkinst {
  i_name : string; i_base : string; i_conv : list string; i_quotes : list string;
  i_approvers : list string; i_executors : list string;
  i_afr : option string; i_afa : option string; i_bfr : option string; i_bfa : option string;
  i_aattrs : list string; i_battrs : list string; i_precision : N; i_increment : N }.

Record migmsg := mkmig {
  g_approvers : option (list string);
  g_afr : option string; g_afa : option string; g_bfr : option string; g_bfa : option string;
  g_aattrs : option (list string); g_battrs : option (list string) }.

Inductive qmsg := GetAsk (id : string) | GetBid (id : string) | GetContractInfo | GetVersionInfo.
Inductive qres := QAsk (a : ask) | QBid (b : bid) | QCfg (c : cfg) | QVer (definition version : string).

(* ---------------------------------------------------------------- responses *)
Inductive msg :=
| Bank (to : string) (c : coin)
| Xfer (from to : string) (c : coin) (admin : string).
Record resp := mkresp { r_msgs : list msg; r_attrs : list (string * string) }.

(* ---------------------------------------------------------------- repair flags (DESIGN 3.3, 7) *)
Record fixes := mkfixes {
  fix_reject_converted : bool;   (* F1 *)
  fix_zero_fee_refund : bool;    (* F2 *)
  fix_exit_lot : bool;           (* F3 *)
  fix_conv_marker : bool;        (* F4 *)
  fix_zero_net : bool;           (* F5 *)
  fix_modify_funds : bool }.     (* F6 *)
Definition all_fixes : fixes := mkfixes true true true true true true.
Definition no_fixes : fixes := mkfixes false false false false false false.

Definition U128MAX : N := 340282366920938463463374607431768211455.

Definition coin_eqb (a b : coin) : bool := (c_amt a =? c_amt b) && String.eqb (c_denom a) (c_denom b).
Fixpoint coins_eqb (a b : list coin) : bool :=
  match a, b with
  | [], [] => true
  | x :: a', y :: b' => coin_eqb x y && coins_eqb a' b'
  | _, _ => false
  end.
