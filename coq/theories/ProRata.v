(* ProRata: the fee kept in escrow for the unspent part of a bid, fee_for_rest b fee x, characterised as a closed
   function of the 28-digit ratio R28 x Q and the fee, and proved monotone in x.
     fee_for_rest b fee x = Ok (Hc (R28 x Q * fee))
   where Hc V = round-half-up to a unit of the 96-bit rounding G of V * 10^-28. *)
From ATS Require Import Prelude Dec DecFacts DivFacts Uuid Semver Types Contract Tactics Spec.
Ltac Zify.zify_post_hook ::= Z.div_mod_to_equations.

(* ---------------------------------------------------------------- scale invariance and monotonicity of roundings *)
Lemma rhe_scale v p c : p <> 0 -> c <> 0 -> rhe (v * c) (p * c) = rhe v p.
Proof.
  intros Hp Hc. unfold rhe. cbv zeta. rewrite N.div_mul_cancel_r, N.mul_mod_distr_r by assumption.
  set (q := v / p). set (r := v mod p).
  assert (E1 : (p * c <? 2 * (r * c)) = (p <? 2 * r)).
  { destruct (N.ltb_spec p (2 * r)); destruct (N.ltb_spec (p * c) (2 * (r * c))); try reflexivity; nia. }
  assert (E2 : (2 * (r * c) =? p * c) = (2 * r =? p)).
  { destruct (N.eqb_spec (2 * r) p); destruct (N.eqb_spec (2 * (r * c)) (p * c)); try reflexivity; nia. }
  rewrite E1, E2. reflexivity.
Qed.
Lemma rhu_scale v p c : p <> 0 -> c <> 0 -> rhu (v * c) (p * c) = rhu v p.
Proof.
  intros Hp Hc. unfold rhu. cbv zeta. rewrite N.div_mul_cancel_r, N.mul_mod_distr_r by assumption.
  set (q := v / p). set (r := v mod p).
  assert (E1 : (p * c <=? 2 * (r * c)) = (p <=? 2 * r)).
  { destruct (N.leb_spec p (2 * r)); destruct (N.leb_spec (p * c) (2 * (r * c))); try reflexivity; nia. }
  rewrite E1. reflexivity.
Qed.
Lemma rhu_bounds_aux v p : p <> 0 -> 2 * p * rhu v p <= 2 * v + p /\ 2 * v < 2 * p * rhu v p + p.
Proof.
  intros Hp. unfold rhu. cbv zeta.
  pose proof (N.div_mod v p Hp) as E. pose proof (N.mod_lt v p Hp) as L.
  set (q := v / p) in *. set (r := v mod p) in *.
  destruct (N.leb_spec p (2 * r)); nia.
Qed.
Lemma rhu_mono v1 v2 p : p <> 0 -> v1 <= v2 -> rhu v1 p <= rhu v2 p.
Proof.
  intros Hp Hle. destruct (rhu_bounds_aux v1 p Hp) as [L1 U1]. destruct (rhu_bounds_aux v2 p Hp) as [L2 U2].
  destruct (N.le_gt_cases (rhu v1 p) (rhu v2 p)) as [H|H]; [exact H|exfalso]. nia.
Qed.

(* ---------------------------------------------------------------- the 96-bit rounding of a 28-digit value *)
Definition C96 : N := 7922816251426433759354395034.        (* 2^96 / 10 rounded half even *)
Lemma C96_rhe : rhe B96 10 = C96. Proof. reflexivity. Qed.
Lemma C96_ge : B96 <= C96 * 10. Proof. discriminate. Qed.
Lemma C96_lt : C96 < B96. Proof. reflexivity. Qed.

Definition Dof (V : N) : N := least_d 64 V 0.
Definition G (V : N) : N :=
  let D := Dof V in
  if D =? 0 then V else
  let m := rhe V (10 ^ D) in
  if m <? B96 then m * 10 ^ D else rhe m 10 * 10 ^ (D + 1).
Definition Hc (V : N) : N := rhu (G V) E28.

Definition fits (V : N) : Prop := V <= (B96 - 1) * E28.

Lemma fits_div V : fits V -> V / 10 ^ 28 < B96.
Proof.
  intros H. unfold fits in H. rewrite <- E28_pow. apply N.div_lt_upper_bound; [discriminate|].
  unfold B96, E28 in *. lia.
Qed.
Lemma Dof_le V : fits V -> Dof V <= 28.
Proof. intros H. apply least_d_le; [lia|]. apply fits_div. exact H. Qed.
Lemma Dof_fits V : fits V -> V / 10 ^ Dof V < B96.
Proof. intros H. apply (least_d_fits 64 V 0 28); [lia|cbn; lia|apply fits_div; exact H]. Qed.
Lemma Dof_minimal V d : d < Dof V -> B96 <= V / 10 ^ d.
Proof. intros H. apply (least_d_minimal 64 V 0 d); [lia|exact H]. Qed.
Lemma Dof_unique V d : d <= 28 -> V / 10 ^ d < B96 -> (forall d', d' < d -> B96 <= V / 10 ^ d') -> Dof V = d.
Proof.
  intros Hd Hf Hm. assert (H1 : Dof V <= d) by (apply least_d_le; [lia|exact Hf]).
  destruct (N.eq_dec (Dof V) d) as [|Hne]; [assumption|exfalso].
  assert (Hlt : Dof V < d) by lia. specialize (Hm _ Hlt).
  assert (V / 10 ^ Dof V < B96) by (apply (least_d_fits 64 V 0 d); [lia|cbn; lia|exact Hf]).
  lia.
Qed.
Lemma Dof_mono V1 V2 : V1 <= V2 -> fits V2 -> Dof V1 <= Dof V2.
Proof.
  intros Hle Hf. apply least_d_le; [lia|]. eapply N.le_lt_trans; [|apply Dof_fits; exact Hf].
  apply N.div_le_mono; [apply pow10_nz|exact Hle].
Qed.

(* bounds of G in terms of the grid exponent *)
Lemma rhe_le_B96 V D : V / 10 ^ D < B96 -> rhe V (10 ^ D) <= B96.
Proof. intros H. pose proof (rhe_le V (10 ^ D) (pow10_nz D)). lia. Qed.

Lemma G_upper V : fits V -> G V <= C96 * 10 ^ (Dof V + 1).
Proof.
  intros Hf. unfold G. cbv zeta. pose proof (Dof_fits V Hf) as Hd. pose proof C96_ge as HC.
  rewrite N.pow_add_r, N.pow_1_r.
  destruct (N.eqb_spec (Dof V) 0) as [Hz|Hnz].
  - rewrite Hz in *. rewrite N.pow_0_r in *. rewrite N.div_1_r in Hd. lia.
  - pose proof (rhe_le_B96 V _ Hd) as Hm. pose proof (pow10_pos (Dof V)) as Hp.
    destruct (N.ltb_spec (rhe V (10 ^ Dof V)) B96) as [Hlt|Hge].
    + nia.
    + assert (E : rhe V (10 ^ Dof V) = B96) by lia. rewrite E, C96_rhe. lia.
Qed.
Lemma G_lower V : fits V -> 1 <= Dof V -> C96 * 10 ^ Dof V <= G V.
Proof.
  intros Hf H1. unfold G. cbv zeta. destruct (N.eqb_spec (Dof V) 0) as [Hz|_]; [lia|].
  assert (Hmin : B96 <= V / 10 ^ (Dof V - 1)) by (apply Dof_minimal; lia).
  assert (HV : B96 * 10 ^ (Dof V - 1) <= V).
  { pose proof (N.div_mod V (10 ^ (Dof V - 1)) (pow10_nz _)) as E. nia. }
  assert (HC : C96 <= rhe V (10 ^ Dof V)).
  { rewrite <- C96_rhe. replace (10 ^ Dof V) with (10 * 10 ^ (Dof V - 1)).
    2:{ rewrite <- (N.pow_1_r 10) at 1. rewrite <- N.pow_add_r. f_equal. lia. }
    rewrite <- (rhe_scale B96 10 (10 ^ (Dof V - 1))) by (try discriminate; apply pow10_nz).
    apply rhe_mono; [|exact HV]. pose proof (pow10_nz (Dof V - 1)). lia. }
  pose proof (pow10_pos (Dof V)) as Hp.
  destruct (N.ltb_spec (rhe V (10 ^ Dof V)) B96) as [Hlt|Hge].
  - nia.
  - pose proof (rhe_le_B96 V _ (Dof_fits V Hf)) as Hm. assert (E : rhe V (10 ^ Dof V) = B96) by lia.
    rewrite E, C96_rhe, N.pow_add_r, N.pow_1_r. nia.
Qed.

Lemma G_mono V1 V2 : V1 <= V2 -> fits V2 -> G V1 <= G V2.
Proof.
  intros Hle Hf2. assert (Hf1 : fits V1) by (unfold fits in *; lia).
  pose proof (Dof_mono V1 V2 Hle Hf2) as HD.
  destruct (N.eq_dec (Dof V1) (Dof V2)) as [E|Hne].
  - unfold G. cbv zeta. rewrite E. destruct (N.eqb_spec (Dof V2) 0) as [_|Hnz]; [exact Hle|].
    pose proof (rhe_mono V1 V2 (10 ^ Dof V2) (pow10_nz _) Hle) as Hm.
    pose proof (rhe_le_B96 V2 _ (Dof_fits V2 Hf2)) as Hb2.
    pose proof (pow10_pos (Dof V2)) as Hp.
    destruct (N.ltb_spec (rhe V2 (10 ^ Dof V2)) B96) as [H2|H2].
    + destruct (N.ltb_spec (rhe V1 (10 ^ Dof V2)) B96) as [H1|H1]; [nia|lia].
    + assert (E2 : rhe V2 (10 ^ Dof V2) = B96) by lia. rewrite E2, C96_rhe.
      destruct (N.ltb_spec (rhe V1 (10 ^ Dof V2)) B96) as [H1|H1].
      * rewrite N.pow_add_r, N.pow_1_r. pose proof C96_ge. nia.
      * assert (E1 : rhe V1 (10 ^ Dof V2) = B96) by lia. rewrite E1, C96_rhe. lia.
  - assert (Hlt : Dof V1 + 1 <= Dof V2) by lia.
    eapply N.le_trans; [apply G_upper; exact Hf1|]. eapply N.le_trans; [|apply G_lower; [exact Hf2|lia]].
    apply N.mul_le_mono_l. apply N.pow_le_mono_r; [discriminate|exact Hlt].
Qed.

Lemma Hc_mono V1 V2 : V1 <= V2 -> fits V2 -> Hc V1 <= Hc V2.
Proof. intros Hle Hf. unfold Hc. apply rhu_mono; [discriminate|apply G_mono; assumption]. Qed.

(* values that already fit 96 bits at some scale are not rounded *)
Lemma G_exact v k : v < B96 -> k <= 28 -> G (v * 10 ^ k) = v * 10 ^ k.
Proof.
  intros Hv Hk. set (V := v * 10 ^ k). assert (HD : Dof V <= k).
  { apply least_d_le; [lia|]. unfold V, pow10. rewrite N.div_mul by apply pow10_nz. exact Hv. }
  unfold G. cbv zeta. destruct (N.eqb_spec (Dof V) 0) as [|Hnz]; [reflexivity|].
  assert (EV : V = v * 10 ^ (k - Dof V) * 10 ^ Dof V).
  { unfold V at 1. rewrite <- N.mul_assoc, <- N.pow_add_r. do 2 f_equal. lia. }
  assert (Er : rhe V (10 ^ Dof V) = v * 10 ^ (k - Dof V)).
  { rewrite rhe_exact; [|apply pow10_nz|]; rewrite EV at 1; [apply N.div_mul|apply N.mod_mul]; apply pow10_nz. }
  assert (Hfit : V / 10 ^ Dof V < B96).
  { apply (least_d_fits 64 V 0 k); [lia|cbn; lia|]. unfold V, pow10. rewrite N.div_mul by apply pow10_nz. exact Hv. }
  rewrite Er. rewrite EV in Hfit at 1. rewrite N.div_mul in Hfit by apply pow10_nz.
  destruct (N.ltb_spec (v * 10 ^ (k - Dof V)) B96); [|lia]. symmetry. exact EV.
Qed.

(* ---------------------------------------------------------------- Buf24::rescale computes G *)
Lemma rescale_canon v s :
  s <= 28 -> fits (v * 10 ^ (28 - s)) ->
  exists m' s', rescale v s = Some (m', s') /\ s' <= 28 /\ m' * 10 ^ (28 - s') = G (v * 10 ^ (28 - s)).
Proof.
  intros Hs Hf. set (k := 28 - s) in *. set (V := v * 10 ^ k) in *. unfold rescale.
  replace (s - 28) with 0 by lia. set (d := least_d 64 v 0).
  destruct (N.lt_ge_cases v B96) as [Hsm|Hbig].
  - assert (Hd : d = 0).
    { assert (d <= 0); [|lia]. apply least_d_le; [lia|]. change (pow10 0) with 1. rewrite N.div_1_r. exact Hsm. }
    rewrite Hd. destruct (N.ltb_spec s 0); [lia|]. cbn [N.eqb].
    exists v, s. split; [reflexivity|]. split; [exact Hs|]. fold k. symmetry. apply G_exact; [exact Hsm|lia].
  - (* v / 10^j = V / 10^(j+k) *)
    assert (Hdiv : forall j, V / 10 ^ (j + k) = v / 10 ^ j).
    { intros j. unfold V. rewrite N.pow_add_r. apply N.div_mul_cancel_r; apply pow10_nz. }
    assert (Hvs : v / pow10 s < B96).
    { unfold pow10. rewrite <- Hdiv. replace (s + k) with 28 by lia. apply fits_div. exact Hf. }
    assert (Hds : d <= s) by (apply least_d_le; [lia|exact Hvs]).
    assert (Hdf : v / 10 ^ d < B96) by (apply (least_d_fits 64 v 0 s); [lia|cbn; lia|exact Hvs]).
    assert (Hdnz : d <> 0).
    { intros Hz. rewrite Hz, N.pow_0_r, N.div_1_r in Hdf. lia. }
    assert (HD : Dof V = d + k).
    { apply Dof_unique; [lia|rewrite Hdiv; exact Hdf|]. intros d' Hd'.
      destruct (N.le_gt_cases k d') as [Hkd|Hkd].
      - replace d' with ((d' - k) + k) by lia. rewrite Hdiv. apply (least_d_minimal 64 v 0); [lia|]. fold d. lia.
      - eapply N.le_trans; [exact Hbig|]. rewrite <- (N.div_1_r v), <- (N.pow_0_r 10), <- Hdiv, N.add_0_l.
        apply N.div_le_compat_l. split; [apply pow10_pos|]. apply N.pow_le_mono_r; [discriminate|lia]. }
    assert (Hm : rhe v (pow10 d) = rhe V (10 ^ Dof V)).
    { rewrite HD, N.pow_add_r. unfold V, pow10. symmetry. apply rhe_scale; apply pow10_nz. }
    destruct (N.ltb_spec s d) as [|_]; [lia|]. destruct (N.eqb_spec d 0) as [|_]; [contradiction|].
    unfold G. cbv zeta. destruct (N.eqb_spec (Dof V) 0) as [|_]; [lia|]. rewrite <- Hm.
    destruct (N.ltb_spec (rhe v (pow10 d)) B96) as [Hlt|Hge].
    + exists (rhe v (pow10 d)), (s - d). split; [reflexivity|]. split; [lia|]. rewrite HD. do 2 f_equal. lia.
    + destruct (N.eqb_spec (s - d) 0) as [Hz|Hnz].
      * exfalso. assert (Es : d = s) by lia. assert (E28' : Dof V = 28) by lia.
        rewrite Hm, E28', <- E28_pow in Hge.
        assert (rhe V E28 <= B96 - 1); [|pose proof E28_lt_B96; lia].
        rewrite <- (N.div_mul (B96 - 1) E28) by discriminate.
        rewrite <- (rhe_exact ((B96 - 1) * E28) E28) by (try discriminate; apply N.mod_mul; discriminate).
        apply rhe_mono; [discriminate|exact Hf].
      * exists (rhe (rhe v (pow10 d)) 10), (s - d - 1). split; [reflexivity|]. split; [lia|]. rewrite HD.
        do 2 f_equal. lia.
Qed.

(* ---------------------------------------------------------------- ratio * fee, rounded to a unit *)
Lemma Hc_zero : Hc 0 = 0. Proof. reflexivity. Qed.

Lemma round_nonneg m s : round_to_u128 (mkdec false m s) = Ok (rhu m (10 ^ s)).
Proof.
  unfold round_to_u128, dec_round0, dec_to_u128. cbn [d_neg d_mant d_scale].
  destruct (N.eqb_spec s 0) as [->|Hs].
  - cbn [d_neg d_mant d_scale of_opt]. change (pow10 0) with 1. rewrite N.pow_0_r, N.div_1_r.
    unfold rhu. cbv zeta. rewrite N.div_1_r, N.mod_1_r. reflexivity.
  - destruct (N.eqb_spec m 0) as [->|Hm].
    + cbn [d_neg d_mant d_scale of_opt]. change (pow10 0) with 1. rewrite N.div_1_r.
      unfold rhu. cbv zeta. rewrite N.div_0_l, N.mod_0_l by apply pow10_nz.
      pose proof (pow10_pos s). destruct (N.leb_spec (10 ^ s) (2 * 0)); [lia|reflexivity].
    + cbn [d_neg d_mant d_scale]. destruct (rhu m (pow10 s) =? 0); cbn [d_neg d_mant d_scale of_opt];
        change (pow10 0) with 1; rewrite N.div_1_r; reflexivity.
Qed.

Lemma mul_round_canon m s f :
  s <= 28 -> f < B96 -> m * 10 ^ (28 - s) <= E28 ->
  exists p, dec_mul (mkdec false m s) (dec_of_N f) = Some p /\ round_to_u128 p = Ok (Hc (m * 10 ^ (28 - s) * f)).
Proof.
  intros Hs Hf HR. set (k := 28 - s) in *.
  assert (HE : E28 = 10 ^ s * 10 ^ k) by (rewrite <- N.pow_add_r, E28_pow; f_equal; lia).
  assert (Hfit : fits (m * f * 10 ^ k)).
  { unfold fits. replace (m * f * 10 ^ k) with (m * 10 ^ k * f) by ring. nia. }
  assert (Hm : m < B96).
  { pose proof (pow10_pos k). pose proof E28_lt_B96. nia. }
  unfold dec_mul, dec_of_N. cbn [d_mant d_scale d_neg xorb]. rewrite N.add_0_r.
  destruct (N.eqb_spec m 0) as [->|Hmz].
  { cbn [orb]. exists dec_zero. split; [reflexivity|]. rewrite !N.mul_0_l, Hc_zero. reflexivity. }
  destruct (N.eqb_spec f 0) as [->|Hfz].
  { cbn [orb]. exists dec_zero. split; [reflexivity|]. rewrite N.mul_0_r, Hc_zero. reflexivity. }
  cbn [orb].
  destruct ((m <? two32) && (f <? two32)) eqn:Esm.
  - apply andb_prop in Esm as [E1 E2]. apply N.ltb_lt in E1, E2.
    destruct (N.ltb_spec 28 s); [lia|]. eexists. split; [reflexivity|].
    rewrite round_nonneg. f_equal. unfold Hc.
    replace (m * 10 ^ k * f) with (m * f * 10 ^ k) by ring.
    assert (Hv : m * f < B96) by (unfold two32, B96 in *; nia).
    rewrite G_exact by (try exact Hv; lia). rewrite HE. symmetry. apply rhu_scale; apply pow10_nz.
  - destruct (rescale_canon (m * f) s Hs Hfit) as (m' & s' & Hr & Hs' & Hv). rewrite Hr.
    eexists. split; [reflexivity|]. rewrite round_nonneg. f_equal. unfold Hc.
    replace (m * 10 ^ k * f) with (m * f * 10 ^ k) by ring. fold k in Hv. rewrite <- Hv.
    assert (HE' : E28 = 10 ^ s' * 10 ^ (28 - s')) by (rewrite <- N.pow_add_r, E28_pow; f_equal; lia).
    rewrite HE'. symmetry. apply rhu_scale; apply pow10_nz.
Qed.

Lemma R28_le x Q : 0 < Q -> x <= Q -> R28 x Q <= E28.
Proof.
  intros HQ Hx. unfold R28. rewrite <- (N.div_mul E28 Q) at 2 by lia.
  rewrite <- (rhe_exact (E28 * Q) Q) by (try lia; apply N.mod_mul; lia).
  apply rhe_mono; [lia|]. nia.
Qed.
Lemma R28_mono x1 x2 Q : 0 < Q -> x1 <= x2 -> R28 x1 Q <= R28 x2 Q.
Proof. intros HQ Hx. unfold R28. apply rhe_mono; [lia|]. nia. Qed.

(* the closed form of the escrowed fee *)
Theorem fee_for_rest_canon b fee x :
  0 < c_amt (b_quote b) -> c_amt (b_quote b) < B96 -> fee < B96 -> x <= c_amt (b_quote b) ->
  fee_for_rest b fee x = Ok (Hc (R28 x (c_amt (b_quote b)) * fee)).
Proof.
  intros HQ0 HQ Hf Hx. set (Q := c_amt (b_quote b)) in *.
  unfold fee_for_rest, quote_ratio, dec_of_u128, dec_from_u128. fold Q.
  destruct (N.ltb_spec x B96); [|lia]. destruct (N.ltb_spec Q B96); [|lia]. cbn [of_opt bind].
  destruct (dec_div_int_spec x Q HQ0 HQ Hx) as (r & Hr & Hneg & Hsc & Hval). rewrite Hr. cbn [of_opt bind].
  destruct (N.ltb_spec fee B96); [|lia]. cbn [of_opt bind].
  destruct r as [rn rm rs]. cbn [d_neg d_mant d_scale] in *. subst rn.
  pose proof (R28_le x Q HQ0 Hx) as HR. rewrite <- Hval in HR.
  destruct (mul_round_canon rm rs fee Hsc Hf HR) as (p & Hp & Hround). rewrite Hp. cbn [of_opt bind].
  rewrite Hround, Hval. reflexivity.
Qed.

Theorem fee_for_rest_mono b fee x1 x2 k1 k2 :
  0 < c_amt (b_quote b) -> c_amt (b_quote b) < B96 -> fee < B96 -> x1 <= x2 -> x2 <= c_amt (b_quote b) ->
  fee_for_rest b fee x1 = Ok k1 -> fee_for_rest b fee x2 = Ok k2 -> k1 <= k2.
Proof.
  intros HQ0 HQ Hf H12 H2 E1 E2. rewrite fee_for_rest_canon in E1, E2 by (try assumption; lia).
  injection E1 as <-. injection E2 as <-. apply Hc_mono.
  - apply N.mul_le_mono_r. apply R28_mono; assumption.
  - unfold fits. pose proof (R28_le x2 _ HQ0 H2). nia.
Qed.

(* the fee released by a fill grows with the amount spent *)
Theorem calculate_fee_mono b g1 g2 f1 f2 :
  0 < c_amt (b_quote b) -> c_amt (b_quote b) < B96 -> (forall f, b_fee b = Some f -> c_amt f < B96) ->
  calculate_fee b g1 = Ok f1 -> calculate_fee b g2 = Ok f2 -> g1 <= g2 -> opt_amt f1 <= opt_amt f2.
Proof.
  intros HQ0 HQ Hfee E1 E2 Hg. unfold calculate_fee in E1, E2. destruct (b_fee b) as [f|].
  2:{ injection E1 as <-. injection E2 as <-. cbn. lia. }
  specialize (Hfee f eq_refl).
  bind_inv E1 rq Hrq. cbn [bind] in E2. bind_inv E1 r1 Hr1. bind_inv E2 r2 Hr2. bind_inv E1 k1 Hk1. bind_inv E2 k2 Hk2.
  bind_inv E1 rf Hrf. cbn [bind] in E2. bind_inv E1 d1 Hd1. bind_inv E2 d2 Hd2. injection E1 as <-. injection E2 as <-.
  apply checked_sub_ok in Hr1 as [? ->]. apply checked_sub_ok in Hr2 as [? ->].
  apply checked_sub_ok in Hd1 as [? ->]. apply checked_sub_ok in Hd2 as [? ->].
  assert (Hrql : rq <= c_amt (b_quote b)).
  { unfold remaining_quote in Hrq. apply checked_sub_ok in Hrq as [? ->]. lia. }
  assert (Hk : k2 <= k1) by (eapply (fee_for_rest_mono b (c_amt f) (rq - g2) (rq - g1)); eauto; lia).
  destruct (N.ltb_spec 0 (rf - k1)); destruct (N.ltb_spec 0 (rf - k2)); cbn [opt_amt]; lia.
Qed.

(* ---------------------------------------------------------------- accuracy: F x is a nearest unit to fee * x / quote *)
Lemma C96_ten : C96 * 10 = B96 + 4. Proof. reflexivity. Qed.

(* the 96-bit rounding moves a value V <= 10^28 * f by at most 6 f (in units of 10^-28) *)
Lemma G_err V f : fits V -> V <= E28 * f -> 2 * G V <= 2 * V + 12 * f /\ 2 * V <= 2 * G V + 12 * f.
Proof.
  intros Hf HV. unfold G. cbv zeta. destruct (N.eqb_spec (Dof V) 0) as [_|Hnz]; [lia|].
  assert (Hmin : B96 <= V / 10 ^ (Dof V - 1)) by (apply Dof_minimal; lia).
  assert (HV1 : B96 * 10 ^ (Dof V - 1) <= V).
  { pose proof (N.div_mod V (10 ^ (Dof V - 1)) (pow10_nz _)) as E. nia. }
  assert (HP : 10 ^ Dof V = 10 * 10 ^ (Dof V - 1)).
  { rewrite <- (N.pow_1_r 10) at 2. rewrite <- N.pow_add_r. f_equal. lia. }
  set (P := 10 ^ Dof V) in *. set (P1 := 10 ^ (Dof V - 1)) in *.
  assert (HPf : 100 * P <= 127 * f) by (unfold B96, E28 in *; lia).
  destruct (rhe_bounds_aux V P (pow10_nz _)) as [L U].
  pose proof (rhe_le_B96 V _ (Dof_fits V Hf)) as Hm. fold P in Hm.
  destruct (N.ltb_spec (rhe V P) B96) as [Hlt|Hge].
  - nia.
  - assert (E : rhe V P = B96) by lia. rewrite E in *. rewrite C96_rhe, N.pow_add_r, N.pow_1_r. fold P.
    assert (EG : C96 * (P * 10) = B96 * P + 4 * P) by (pose proof C96_ten; nia).
    rewrite EG. nia.
Qed.

Theorem fee_for_rest_nearest b fee x F :
  0 < c_amt (b_quote b) -> c_amt (b_quote b) < B96 -> fee < B96 -> x <= c_amt (b_quote b) ->
  13 * c_amt (b_quote b) * fee < E28 ->
  fee_for_rest b fee x = Ok F ->
  2 * F * c_amt (b_quote b) <= 2 * (x * fee) + c_amt (b_quote b) /\
  2 * (x * fee) <= 2 * F * c_amt (b_quote b) + c_amt (b_quote b).
Proof.
  intros HQ0 HQ Hfee Hx Hsmall E. rewrite fee_for_rest_canon in E by assumption. injection E as <-.
  set (Q := c_amt (b_quote b)) in *. set (R := R28 x Q). set (V := R * fee).
  pose proof (R28_le x Q HQ0 Hx) as HR. fold R in HR.
  assert (Hfit : fits V) by (unfold fits, V; nia).
  assert (HVf : V <= E28 * fee) by (unfold V; nia).
  destruct (G_err V fee Hfit HVf) as [G1 G2].
  destruct (rhe_bounds_aux (x * E28) Q ltac:(lia)) as [R1 R2]. fold (R28 x Q) in R1, R2. fold R in R1, R2.
  unfold Hc. destruct (rhu_bounds_aux (G V) E28 ltac:(discriminate)) as [F1 F2].
  set (F := rhu (G V) E28) in *. set (g := G V) in *.
  (* 2 Q V <= 2 N E + Q f ; 2 N E <= 2 Q V + Q f  with N = x * fee *)
  assert (V1 : 2 * Q * V <= 2 * (x * fee) * E28 + Q * fee) by (unfold V; nia).
  assert (V2 : 2 * (x * fee) * E28 <= 2 * Q * V + Q * fee) by (unfold V; nia).
  assert (U1 : 2 * E28 * (F * Q) <= 2 * (x * fee) * E28 + 13 * Q * fee + E28 * Q) by nia.
  assert (U2 : 2 * (x * fee) * E28 < 2 * E28 * (F * Q) + E28 * Q + 13 * Q * fee) by nia.
  split.
  - assert (2 * E28 * (F * Q) < E28 * (2 * (x * fee) + Q + 1)) by nia.
    assert (2 * (F * Q) < 2 * (x * fee) + Q + 1) by (unfold E28 in *; nia). lia.
  - assert (E28 * (2 * (x * fee)) < E28 * (2 * (F * Q) + Q + 1)) by nia.
    assert (2 * (x * fee) < 2 * (F * Q) + Q + 1) by (unfold E28 in *; nia). lia.
Qed.

(* ---------------------------------------------------------------- rate * total: when is the product exact *)
(* a product whose integer mantissa product fits 96 bits and whose scales add up to at most 28 is never rounded;
   the class K_rate lies in the complement *)
Lemma dec_mul_small_exact2 a b r :
  d_scale a + d_scale b <= 28 -> d_mant a * d_mant b < B96 -> dec_mul a b = Some r -> mul_is_exact a b r = true.
Proof.
  intros Hs Hv. unfold dec_mul.
  destruct (N.eqb_spec (d_mant a) 0) as [Hz|Hnz]; cbn [orb].
  { intros Hx. injection Hx as <-. unfold mul_is_exact, pow10. cbn. rewrite Hz. reflexivity. }
  destruct (N.eqb_spec (d_mant b) 0) as [Hz|Hnz2].
  { intros Hx. injection Hx as <-. unfold mul_is_exact, pow10. cbn. rewrite Hz. rewrite N.mul_0_r. reflexivity. }
  cbv zeta. destruct ((d_mant a <? two32) && (d_mant b <? two32)).
  - destruct (N.ltb_spec 28 (d_scale a + d_scale b)) as [Hgt|Hle]; [lia|]. intros Hx. injection Hx as <-.
    unfold mul_is_exact, pow10. cbn [d_mant d_scale]. apply N.eqb_refl.
  - unfold rescale. replace (d_scale a + d_scale b - 28) with 0 by lia.
    change (least_d 64 (d_mant a * d_mant b) 0)
      with (if d_mant a * d_mant b / pow10 0 <? B96 then 0 else least_d 63 (d_mant a * d_mant b) (0 + 1)).
    change (pow10 0) with 1. rewrite N.div_1_r. destruct (N.ltb_spec (d_mant a * d_mant b) B96) as [_|Hge]; [|lia].
    cbv zeta. destruct (N.ltb_spec (d_scale a + d_scale b) 0) as [Hlt|_]; [lia|]. cbn [N.eqb].
    intros Hx. injection Hx as <-. unfold mul_is_exact, pow10. cbn [d_mant d_scale]. apply N.eqb_refl.
Qed.

(* ---------------------------------------------------------------- rate * total in general: never a whole unit off *)
(* one 96-bit rounding (two on a carry) moves the value by at most 0.55 units of the last kept digit *)
Lemma rescale_err v s m' s' :
  rescale v s = Some (m', s') ->
  s' <= s /\ 20 * (m' * 10 ^ (s - s')) <= 20 * v + 11 * 10 ^ (s - s') /\ 20 * v <= 20 * (m' * 10 ^ (s - s')) + 11 * 10 ^ (s - s').
Proof.
  unfold rescale. set (d := least_d 64 v (s - 28)).
  destruct (N.ltb_spec s d) as [|Hds]; [discriminate|].
  destruct (N.eqb_spec d 0) as [Hd0|Hdnz].
  { intros H. injection H as <- <-. rewrite N.sub_diag, N.pow_0_r. lia. }
  destruct (rhe_bounds_aux v (10 ^ d) (pow10_nz d)) as [L U]. unfold pow10.
  set (m := rhe v (10 ^ d)) in *. pose proof (pow10_pos d) as Hp.
  destruct (N.ltb_spec m B96) as [_|_].
  - intros H. injection H as <- <-. replace (s - (s - d)) with d by lia. split; [lia|]. nia.
  - destruct (N.eqb_spec (s - d) 0) as [|Hnz]; [discriminate|].
    intros H. injection H as <- <-. replace (s - (s - d - 1)) with (d + 1) by lia.
    rewrite N.pow_add_r, N.pow_1_r. destruct (rhe_bounds_aux m 10 ltac:(discriminate)) as [L2 U2].
    set (m2 := rhe m 10) in *. split; [lia|]. nia.
Qed.

Lemma dec_mul_err a b r :
  dec_mul a b = Some r ->
  let s := d_scale a + d_scale b in let v := d_mant a * d_mant b in
  d_scale r <= s /\
  20 * (d_mant r * 10 ^ (s - d_scale r)) <= 20 * v + 11 * 10 ^ (s - d_scale r) /\
  20 * v <= 20 * (d_mant r * 10 ^ (s - d_scale r)) + 11 * 10 ^ (s - d_scale r).
Proof.
  unfold dec_mul. cbv zeta.
  destruct (N.eqb_spec (d_mant a) 0) as [Hz|_]; cbn [orb].
  { intros H. injection H as <-. cbn [dec_zero d_mant d_scale]. rewrite Hz. pose proof (pow10_pos (d_scale a + d_scale b - 0)). lia. }
  destruct (N.eqb_spec (d_mant b) 0) as [Hz|_].
  { intros H. injection H as <-. cbn [dec_zero d_mant d_scale]. rewrite Hz, N.mul_0_r. pose proof (pow10_pos (d_scale a + d_scale b - 0)). lia. }
  set (s := d_scale a + d_scale b). set (v := d_mant a * d_mant b).
  destruct ((d_mant a <? two32) && (d_mant b <? two32)) eqn:Esm.
  - apply andb_prop in Esm as [E1 E2]. apply N.ltb_lt in E1, E2.
    assert (Hv : v < 18446744073709551616) by (unfold v, two32 in *; nia).
    destruct (N.ltb_spec 28 s) as [Hgt|Hle].
    + destruct (N.ltb_spec 47 s) as [H47|H47].
      * intros H. injection H as <-. cbn [dec_zero d_mant d_scale]. rewrite N.sub_0_r. split; [lia|].
        assert (10 ^ 48 <= 10 ^ s) by (apply N.pow_le_mono_r; [discriminate|lia]).
        assert (E48 : 10 ^ 48 = 1000000000000000000000000000000000000000000000000) by reflexivity. lia.
      * intros H. injection H as <-. cbn [d_mant d_scale]. split; [lia|].
        destruct (rhe_bounds_aux v (10 ^ (s - 28)) (pow10_nz _)) as [L U]. unfold pow10. nia.
    + intros H. injection H as <-. cbn [d_mant d_scale]. rewrite N.sub_diag, N.pow_0_r. lia.
  - destruct (rescale v s) as [[m' s']|] eqn:Er; [|discriminate]. intros H. injection H as <-. cbn [d_mant d_scale].
    apply rescale_err. exact Er.
Qed.

Lemma round_value a q : round_to_u128 a = Ok q -> q = rhu (d_mant a) (10 ^ d_scale a).
Proof.
  unfold round_to_u128, dec_round0, dec_to_u128. intros H. apply of_opt_ok in H. fold (pow10 (d_scale a)).
  destruct (N.eqb_spec (d_scale a) 0) as [Hz|Hnz].
  - destruct (d_neg a); [discriminate|]. injection H as <-. rewrite Hz. change (pow10 0) with 1.
    rewrite N.div_1_r. unfold rhu. cbv zeta. rewrite N.div_1_r, N.mod_1_r. reflexivity.
  - destruct (N.eqb_spec (d_mant a) 0) as [Hm|Hm].
    + cbn [d_neg d_mant d_scale] in H. destruct (d_neg a); [discriminate|]. injection H as <-. rewrite Hm.
      change (pow10 0) with 1. rewrite N.div_1_r.
      unfold rhu. cbv zeta. rewrite N.div_0_l, N.mod_0_l by apply pow10_nz.
      pose proof (pow10_pos (d_scale a)) as Hpos. destruct (N.leb_spec (pow10 (d_scale a)) (2 * 0)); [unfold pow10 in *; lia|reflexivity].
    + cbn [d_neg d_mant d_scale] in H. destruct (if rhu _ _ =? 0 then false else d_neg a); [discriminate|].
      injection H as <-. change (pow10 0) with 1. rewrite N.div_1_r. reflexivity.
Qed.

(* the fee charged for rate m/10^sr on a whole amount T is never a whole unit away from m*T/10^sr, for every rate and
   every amount (also inside the class K_rate, where it may be the other neighbour of the exact value) *)
Theorem rate_fee_within_a_unit rate total T calc :
  dec_int_value total T -> rate_fee rate total = Ok calc ->
  calc * 10 ^ d_scale rate < d_mant rate * T + 10 ^ d_scale rate /\
  d_mant rate * T < calc * 10 ^ d_scale rate + 10 ^ d_scale rate.
Proof.
  intros (_ & _ & HT) H. unfold rate_fee in H. destruct (dec_mul rate total) as [r|] eqn:Em; [|discriminate].
  cbn [of_opt bind] in H. pose proof (dec_mul_err _ _ _ Em) as (Hs & L & U). cbv zeta in *.
  set (s := d_scale rate + d_scale total) in *. set (k := s - d_scale r) in *.
  assert (Hcalc : calc = rhu (d_mant r) (10 ^ d_scale r)) by (apply round_value; exact H).
  destruct (rhu_bounds_aux (d_mant r) (10 ^ d_scale r) (pow10_nz _)) as [RL RU]. rewrite <- Hcalc in RL, RU.
  (* everything in units of 10^-s: 10^s = K * S', v = mr * T * 10^st *)
  set (K := 10 ^ k) in *. set (S' := 10 ^ d_scale r) in *. set (Pr := 10 ^ d_scale rate). set (Pt := 10 ^ d_scale total).
  assert (HKS : K * S' = Pr * Pt).
  { unfold K, S', Pr, Pt, k, s. rewrite <- !N.pow_add_r. f_equal. lia. }
  assert (HK : 0 < K) by apply pow10_pos. assert (HS : 0 < S') by apply pow10_pos.
  assert (HPt : 0 < Pt) by apply pow10_pos. assert (HPr : 0 < Pr) by apply pow10_pos.
  unfold pow10 in HT. fold Pt in HT. rewrite HT in L, U.
  (* scale the two claims by Pt *)
  assert (Goal1 : calc * Pr * Pt < (d_mant rate * T + Pr) * Pt).
  { destruct (N.eq_dec (d_scale r) 0) as [Hz|Hnz].
    - assert (S' = 1) by (unfold S'; rewrite Hz; reflexivity).
      assert (calc = d_mant r) by (rewrite Hcalc; unfold S' in *; rewrite Hz; unfold rhu; cbv zeta; cbn; rewrite N.div_1_r, N.mod_1_r; reflexivity).
      nia.
    - assert (10 <= S') by (unfold S'; rewrite <- (N.pow_1_r 10) at 1; apply N.pow_le_mono_r; [discriminate|lia]).
      nia. }
  assert (Goal2 : d_mant rate * T * Pt < (calc * Pr + Pr) * Pt).
  { destruct (N.eq_dec (d_scale r) 0) as [Hz|Hnz].
    - assert (S' = 1) by (unfold S'; rewrite Hz; reflexivity).
      assert (calc = d_mant r) by (rewrite Hcalc; unfold S' in *; rewrite Hz; unfold rhu; cbv zeta; cbn; rewrite N.div_1_r, N.mod_1_r; reflexivity).
      nia.
    - assert (10 <= S') by (unfold S'; rewrite <- (N.pow_1_r 10) at 1; apply N.pow_le_mono_r; [discriminate|lia]).
      nia. }
  split; nia.
Qed.

(* ---------------------------------------------------------------- the pro-rata fee is never a whole unit off either *)
(* for every bid whose fee is at most 10^27 (also inside K_prorata): | F x - fee*x/quote | < 1 *)
Theorem fee_for_rest_within_a_unit b fee x F :
  0 < c_amt (b_quote b) -> c_amt (b_quote b) < B96 -> fee <= 10 ^ 27 -> x <= c_amt (b_quote b) ->
  fee_for_rest b fee x = Ok F ->
  F * c_amt (b_quote b) < x * fee + c_amt (b_quote b) /\ x * fee < F * c_amt (b_quote b) + c_amt (b_quote b).
Proof.
  intros HQ0 HQ Hfee Hx H. set (Q := c_amt (b_quote b)) in *.
  assert (Hf96 : fee < B96) by (assert (10 ^ 27 < B96) by reflexivity; lia).
  unfold fee_for_rest, quote_ratio, dec_of_u128, dec_from_u128 in H. fold Q in H.
  destruct (N.ltb_spec x B96); [|lia]. destruct (N.ltb_spec Q B96); [|lia]. cbn [of_opt bind] in H.
  destruct (dec_div_int_spec x Q HQ0 HQ Hx) as (r & Hr & Hneg & Hsc & Hval). rewrite Hr in H. cbn [of_opt bind] in H.
  destruct (N.ltb_spec fee B96); [|lia]. cbn [of_opt bind] in H.
  destruct (dec_mul r (dec_of_N fee)) as [p|] eqn:Em; [|discriminate]. cbn [of_opt bind] in H.
  pose proof (dec_mul_err _ _ _ Em) as (Hs & L & U). cbv zeta in *. cbn [dec_of_N d_mant d_scale] in *.
  rewrite N.add_0_r in *.
  apply round_value in H.
  destruct (rhu_bounds_aux (d_mant p) (10 ^ d_scale p) (pow10_nz _)) as [RL RU]. rewrite <- H in RL, RU.
  destruct (rhe_bounds_aux (x * E28) Q ltac:(lia)) as [R1 R2]. fold (R28 x Q) in R1, R2. rewrite <- Hval in R1, R2.
  set (m := d_mant r) in *. set (A := 10 ^ (28 - d_scale r)) in *. set (K := 10 ^ (d_scale r - d_scale p)) in *.
  set (S' := 10 ^ d_scale p) in *. set (pm := d_mant p) in *.
  assert (HE : E28 = A * K * S').
  { unfold A, K, S'. rewrite <- !N.pow_add_r, E28_pow. f_equal. lia. }
  assert (HA : 0 < A) by apply pow10_pos. assert (HK : 0 < K) by apply pow10_pos. assert (HS : 0 < S') by apply pow10_pos.
  assert (Hfe : 10 * fee <= E28) by (unfold E28; change (10 ^ 27) with 1000000000000000000000000000 in Hfee; lia).
  (* R = m * A; R * fee within fee/2 of x*fee*E28/Q, scaled by 2Q *)
  assert (V1 : 2 * Q * (m * A * fee) <= 2 * (x * fee) * E28 + Q * fee) by nia.
  assert (V2 : 2 * (x * fee) * E28 <= 2 * Q * (m * A * fee) + Q * fee) by nia.
  (* the product: 20 pm K A within 11 K A of 20 m fee A *)
  assert (P1 : 20 * (pm * K * A) <= 20 * (m * A * fee) + 11 * (K * A)) by nia.
  assert (P2 : 20 * (m * A * fee) <= 20 * (pm * K * A) + 11 * (K * A)) by nia.
  destruct (N.eq_dec (d_scale p) 0) as [Hz|Hnz].
  - assert (HS1 : S' = 1) by (unfold S'; rewrite Hz; reflexivity).
    assert (HF : F = pm) by (rewrite H, HS1; unfold rhu; cbv zeta; rewrite N.div_1_r, N.mod_1_r; reflexivity).
    rewrite HS1, N.mul_1_r in HE. subst F.
    (* pm * E28 = pm K A *)
    assert (G1 : 20 * Q * (pm * E28) <= 20 * (x * fee) * E28 + 10 * Q * fee + 11 * Q * E28) by (rewrite HE in *; nia).
    assert (G2 : 20 * (x * fee) * E28 <= 20 * Q * (pm * E28) + 10 * Q * fee + 11 * Q * E28) by (rewrite HE in *; nia).
    split.
    + assert (20 * E28 * (pm * Q) < 20 * E28 * (x * fee + Q)) by nia. nia.
    + assert (20 * E28 * (x * fee) < 20 * E28 * (pm * Q + Q)) by nia. nia.
  - assert (HS10 : 10 <= S') by (unfold S'; rewrite <- (N.pow_1_r 10) at 1; apply N.pow_le_mono_r; [discriminate|lia]).
    (* F * S' within S'/2 of pm *)
    assert (KA : 10 * (K * A) <= E28) by (rewrite HE; nia).
    assert (G1 : 20 * Q * (F * E28) <= 20 * (x * fee) * E28 + 10 * Q * fee + 11 * Q * (K * A) + 10 * Q * E28).
    { assert (T1 : 20 * (F * S' * K * A) <= 20 * (pm * K * A) + 10 * (S' * K * A)) by nia.
      replace (F * E28) with (F * S' * K * A) by (rewrite HE; ring). replace (S' * K * A) with E28 in T1 by (rewrite HE; ring). nia. }
    assert (G2 : 20 * (x * fee) * E28 < 20 * Q * (F * E28) + 10 * Q * fee + 11 * Q * (K * A) + 10 * Q * E28).
    { assert (T1 : 20 * (pm * K * A) < 20 * (F * S' * K * A) + 10 * (S' * K * A)) by nia.
      replace (F * E28) with (F * S' * K * A) by (rewrite HE; ring). replace (S' * K * A) with E28 in T1 by (rewrite HE; ring). nia. }
    split.
    + assert (20 * E28 * (F * Q) < 20 * E28 * (x * fee + Q)) by nia. nia.
    + assert (20 * E28 * (x * fee) < 20 * E28 * (F * Q + Q)) by nia. nia.
Qed.

(* ---------------------------------------------------------------- price * size judged whole: never a whole unit off *)
(* whenever the contract accepts a product price * size as a whole number g (also inside K_inexact, where the exact product
   is not whole), g is less than one unit away from the exact product *)
Theorem whole_total_within_a_unit p n t g :
  mul_size p n = Ok t -> dec_has_fract t = false -> dec_to_u128 t = Some g ->
  g * 10 ^ d_scale p < d_mant p * n + 10 ^ d_scale p /\ d_mant p * n < g * 10 ^ d_scale p + 10 ^ d_scale p.
Proof.
  intros Hm Hfr Hg. unfold mul_size in Hm. bind_inv Hm dn Hdn. unfold dec_of_u128 in Hdn. apply of_opt_ok in Hdn, Hm.
  apply dec_from_u128_ok in Hdn as [_ ->].
  pose proof (dec_mul_err _ _ _ Hm) as (Hs & L & U). cbv zeta in *. cbn [dec_of_N d_mant d_scale] in *.
  rewrite N.add_0_r in *.
  unfold dec_has_fract in Hfr. apply negb_false_iff, N.eqb_eq in Hfr. unfold pow10 in Hfr.
  unfold dec_to_u128 in Hg. destruct (d_neg t); [discriminate|]. injection Hg as <-. unfold pow10.
  pose proof (N.div_mod (d_mant t) (10 ^ d_scale t) (pow10_nz _)) as Hdm. rewrite Hfr, N.add_0_r in Hdm.
  set (g := d_mant t / 10 ^ d_scale t) in *. set (S' := 10 ^ d_scale t) in *. set (K := 10 ^ (d_scale p - d_scale t)) in *.
  assert (HKS : K * S' = 10 ^ d_scale p) by (unfold K, S'; rewrite <- N.pow_add_r; f_equal; lia).
  assert (HK : 0 < K) by apply pow10_pos. assert (HS : 0 < S') by apply pow10_pos.
  rewrite <- HKS. rewrite Hdm in L, U. split; nia.
Qed.
