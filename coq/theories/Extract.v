(* Extraction of the model runner to OCaml.  ExtrOcamlBasic only: N, positive, string, ascii stay Coq inductives. *)
From ATS Require Import Prelude Dec Uuid Semver Types Contract Runner.
Require Import ExtrOcamlBasic.
Extraction Language OCaml.
Set Extraction Output Directory "../ocaml".
Extraction "atsmodel_ext.ml" run_line init_rstate all_fixes no_fixes mkfixes dec_case.
