(* MatchProofs: eligibility of a match and limit-price protection (C03); fee formulas (C09). *)
From ATS Require Import Prelude Dec DecFacts Uuid Semver Types Contract Tactics Spec Inv InvAsk InstProofs AskProofs
  BidFacts InvBid InvStep ExitProofs Ledger.
Ltac Zify.zify_post_hook ::= Z.div_mod_to_equations.

(* the execution price is one of the two limit prices, and never below the ask's *)
Lemma price_rule_ge_ask ap bp xp :
  positive_dec ap -> positive_dec bp -> price_rule ap bp xp = true ->
  positive_dec xp /\ d_mant ap * pow10 (d_scale xp) <= d_mant xp * pow10 (d_scale ap) /\
  (dec_eqb xp ap = true \/ dec_eqb xp bp = true).
Proof.
  intros Pa Pb H. unfold price_rule in H. rewrite (dec_cmp_pos ap bp Pa Pb) in H.
  pose proof (pow10_pos (d_scale ap)) as Xa. pose proof (pow10_pos (d_scale bp)) as Xb.
  pose proof (pow10_pos (d_scale xp)) as Xx. unfold pow10 in *.
  destruct (d_mant ap * 10 ^ d_scale bp ?= d_mant bp * 10 ^ d_scale ap) eqn:E; [| |discriminate].
  - pose proof H as H'. apply (dec_eqb_pos xp ap Pa) in H as [Px Hx]. unfold pow10 in Hx.
    split; [exact Px|]. split; [rewrite Hx; apply N.le_refl|auto].
  - apply N.compare_lt_iff in E. apply orb_prop in H as [H|H].
    + pose proof H as H'. apply (dec_eqb_pos xp ap Pa) in H as [Px Hx]. unfold pow10 in Hx.
      split; [exact Px|]. split; [rewrite Hx; apply N.le_refl|auto].
    + pose proof H as H'. apply (dec_eqb_pos xp bp Pb) in H as [Px Hx]. unfold pow10 in Hx. split; [exact Px|]. split; [|auto].
      assert (Hy : d_mant ap * 10 ^ d_scale xp * 10 ^ d_scale bp <= d_mant xp * 10 ^ d_scale ap * 10 ^ d_scale bp).
      { replace (d_mant ap * 10 ^ d_scale xp * 10 ^ d_scale bp) with ((d_mant ap * 10 ^ d_scale bp) * 10 ^ d_scale xp) by ring.
        replace (d_mant xp * 10 ^ d_scale ap * 10 ^ d_scale bp) with ((d_mant xp * 10 ^ d_scale bp) * 10 ^ d_scale ap) by ring.
        rewrite Hx. replace (d_mant bp * 10 ^ d_scale xp * 10 ^ d_scale ap) with ((d_mant bp * 10 ^ d_scale ap) * 10 ^ d_scale xp) by ring.
        apply N.mul_le_mono_r. apply N.lt_le_incl. exact E. }
      apply N.mul_le_mono_pos_r in Hy; [exact Hy|exact Xb].
Qed.

(* everything an accepted match implies, in exact terms *)
Theorem match_only_if e st sender funds ask_id bid_id price size st' r :
  Inv st -> clean_exec st (ExecuteMatch ask_id bid_id price size) ->
  execute FX e st sender funds (ExecuteMatch ask_id bid_id price size) = Ok (st', r) ->
  exists c a b ap bp xp gross dy,
    st_cfg st = Some c /\ In sender (cf_executors c) /\ funds = [] /\
    uuid_canonical ask_id = true /\ uuid_canonical bid_id = true /\
    lookup ask_id (st_asks st) = Some a /\ lookup bid_id (st_bids st) = Some (SlotV3 b) /\
    a_quote a = c_denom (b_quote b) /\ a_class a <> Pending /\
    price_of (a_price a) ap /\ price_of (b_price b) bp /\ dec_parse price = Some xp /\ positive_dec xp /\
    d_mant ap * pow10 (d_scale bp) <= d_mant bp * pow10 (d_scale ap) /\          (* ask price <= bid price *)
    (dec_eqb xp ap = true \/ dec_eqb xp bp = true) /\                              (* executed at one of the limits *)
    1 <= size /\ size <= a_size a /\ size <= unfilled b /\
    gross * 10 ^ d_scale xp = d_mant xp * size /\                                   (* price*size is the whole number gross *)
    dy * 10 ^ d_scale bp = d_mant bp * size /\                                      (* bid price*size is the whole number dy *)
    d_mant ap * size <= gross * 10 ^ d_scale ap /\                                  (* the seller gets at least ask price * size *)
    gross <= dy.                                                                   (* the buyer pays at most bid price * size *)
Proof.
  intros HI Hclean H. pose proof HI as [HA HB]. unfold execute in H. guard_inv H Hv. cbn [validate_exec] in Hv.
  repeat (apply andb_prop in Hv as [Hv ?]). assert (Hs1 : 1 <= size) by (apply N.leb_le; assumption).
  pose proof H as Hcopy. apply execute_match_inv in Hcopy as (c0 & a0 & b0 & ap & bp0 & xp0 & rb & gross_d & gross0 & af0 & bfee & fill & b' & rb' & imp &
    Hc0 & _ & _ & Hla0 & Hlb0 & Hq & Hap & Hbp & Hxp0 & Hrule & _).
  destruct (match_settles e st sender funds ask_id bid_id price size st' r HA HB Hs1 Hclean H) as
    (c & a & b & bp & xp & gross & af & dy & fa & Hc & Hex & Hf & Hla & Hlb & Hpb & Hxp & Pxp & Hsza & Hszb & Hnp & Hg & Hdy & Hgle & _).
  rewrite Hc in Hc0. injection Hc0 as <-. rewrite Hla in Hla0. injection Hla0 as <-. rewrite Hlb in Hlb0. injection Hlb0 as <-.
  rewrite Hxp in Hxp0. injection Hxp0 as <-. assert (bp0 = bp) by (destruct Hpb as [Hx _]; congruence). subst bp0.
  pose proof (inv_asks st HA c ask_id a Hc Hla) as (_ & _ & _ & _ & _ & _ & (ap0 & Hap0) & _).
  assert (ap0 = ap) by (destruct Hap0 as [Hx _]; congruence). subst ap0.
  assert (Pbp : positive_dec bp) by (destruct Hpb as (_ & ? & ? & _); split; assumption).
  assert (Pap : positive_dec ap) by (destruct Hap0 as (_ & ? & ? & _); split; assumption).
  destruct (price_rule_ge_ask ap bp xp Pap Pbp Hrule) as (_ & Hge & Hone).
  assert (Hcross : d_mant ap * pow10 (d_scale bp) <= d_mant bp * pow10 (d_scale ap)).
  { unfold price_rule in Hrule. rewrite (dec_cmp_pos ap bp Pap Pbp) in Hrule.
    destruct (d_mant ap * pow10 (d_scale bp) ?= d_mant bp * pow10 (d_scale ap)) eqn:E; [| |discriminate].
    - apply N.compare_eq in E. rewrite E. apply N.le_refl.
    - apply N.compare_lt_iff in E. apply N.lt_le_incl. exact E. }
  assert (Hsell : d_mant ap * size <= gross * 10 ^ d_scale ap).
  { pose proof (pow10_pos (d_scale xp)) as Xx. unfold pow10 in *.
    assert (Hy : d_mant ap * size * 10 ^ d_scale xp <= gross * 10 ^ d_scale ap * 10 ^ d_scale xp).
    { replace (gross * 10 ^ d_scale ap * 10 ^ d_scale xp) with ((gross * 10 ^ d_scale xp) * 10 ^ d_scale ap) by ring.
      rewrite Hg. replace (d_mant ap * size * 10 ^ d_scale xp) with ((d_mant ap * 10 ^ d_scale xp) * size) by ring.
      replace (d_mant xp * size * 10 ^ d_scale ap) with ((d_mant xp * 10 ^ d_scale ap) * size) by ring.
      apply N.mul_le_mono_r. exact Hge. }
    apply N.mul_le_mono_pos_r in Hy; [exact Hy|exact Xx]. }
  exists c, a, b, ap, bp, xp, gross, dy.
  repeat match goal with |- _ /\ _ => split end; auto.
Qed.

(* ---------------------------------------------------------------- fee = rate * amount, rounded half up (C09) *)
Lemma rhu_formula v p : p <> 0 -> rhu v p = (2 * v + p) / (2 * p).
Proof.
  intros Hp. unfold rhu. cbv zeta.
  pose proof (N.div_mod v p Hp) as E. pose proof (N.mod_lt v p Hp) as L.
  set (q := v / p) in *. set (r := v mod p) in *.
  destruct (N.leb_spec p (2 * r)).
  - apply N.div_unique with (r := 2 * r - p); nia.
  - apply N.div_unique with (r := 2 * r + p); nia.
Qed.
Lemma div_cross a b c d : b <> 0 -> d <> 0 -> a * d = c * b -> a / b = c / d.
Proof.
  intros Hb Hd H. rewrite <- (N.div_mul_cancel_r a b d) by assumption. rewrite H.
  rewrite (N.mul_comm b d). rewrite N.div_mul_cancel_r by assumption. reflexivity.
Qed.
Lemma rhu_cross v1 p1 v2 p2 : p1 <> 0 -> p2 <> 0 -> v1 * p2 = v2 * p1 -> rhu v1 p1 = rhu v2 p2.
Proof.
  intros H1 H2 H. rewrite !rhu_formula by assumption. apply div_cross; try lia; nia.
Qed.

(* value of round_dp(0, half away from zero).to_u128() *)
Lemma round_to_u128_value a q : round_to_u128 a = Ok q -> q = rhu (d_mant a) (pow10 (d_scale a)).
Proof.
  unfold round_to_u128, dec_round0, dec_to_u128. intros H. apply of_opt_ok in H.
  destruct (N.eqb_spec (d_scale a) 0) as [Hz|Hnz].
  - destruct (d_neg a); [discriminate|]. injection H as <-. rewrite Hz. change (pow10 0) with 1.
    rewrite N.div_1_r. unfold rhu. cbv zeta. rewrite N.div_1_r, N.mod_1_r. reflexivity.
  - destruct (N.eqb_spec (d_mant a) 0) as [Hm|Hm].
    + cbn [d_neg d_mant d_scale] in H. destruct (d_neg a); [discriminate|]. injection H as <-. rewrite Hm.
      change (pow10 0) with 1. rewrite N.div_1_r.
      unfold rhu. cbv zeta. rewrite N.div_0_l, N.mod_0_l by apply pow10_nz.
      pose proof (pow10_pos (d_scale a)) as Hpos. destruct (N.leb_spec (pow10 (d_scale a)) (2 * 0)); [unfold pow10 in *; lia|reflexivity].
    + cbn [d_neg d_mant d_scale] in H. destruct (if rhu _ _ =? 0 then false else d_neg a); [discriminate|].
      injection H as <-. change (pow10 0) with 1. rewrite N.div_1_r. reflexivity.
Qed.

(* outside the class K_rate (the 96-bit product is exact) the fee is the exact rate*amount rounded half away from
   zero: for rate m/10^s and whole amount T, fee = floor(m*T/10^s + 1/2) *)
Theorem rate_fee_exact rate total T calc pr :
  dec_int_value total T -> dec_mul rate total = Some pr -> mul_is_exact rate total pr = true ->
  rate_fee rate total = Ok calc -> calc = rhu (d_mant rate * T) (pow10 (d_scale rate)).
Proof.
  intros (_ & _ & Hm) Hmul Hex H. unfold rate_fee in H. rewrite Hmul in H. cbn [of_opt bind] in H.
  apply round_to_u128_value in H. subst calc. apply rhu_cross; try apply pow10_nz.
  unfold mul_is_exact in Hex. apply N.eqb_eq in Hex. unfold pow10 in *. rewrite Hm in Hex.
  rewrite N.pow_add_r in Hex.
  assert (Hx : d_mant pr * 10 ^ d_scale rate * 10 ^ d_scale total = d_mant rate * T * 10 ^ d_scale pr * 10 ^ d_scale total).
  { rewrite <- N.mul_assoc. rewrite Hex. ring. }
  apply N.mul_cancel_r in Hx; [exact Hx|apply pow10_nz].
Qed.

(* the fee escrowed with every open bid is the pro-rata function of its unspent quote *)
Lemma held_is_prorata st c k b f :
  InvB st -> st_cfg st = Some c -> lookup k (st_bids st) = Some (SlotV3 b) -> b_fee b = Some f ->
  fee_for_rest b (c_amt f) (unspent b) = Ok (held b) /\ c_denom f = c_denom (b_quote b).
Proof.
  intros HB Hc Hl Hf. destruct (inv_bids st HB c k _ Hc Hl) as (b0 & Hb0 & Hok). injection Hb0 as <-.
  destruct Hok as (_ & _ & _ & _ & _ & _ & _ & _ & _ & Hfee). rewrite Hf in Hfee. destruct Hfee as (Hd & _ & _ & HF). auto.
Qed.
