(* OrderLedger: the ledger of C01 order by order.  Every coin a request moves is attributed to the order(s) the request
   names; for every order key, what was received on its behalf minus what was paid on its behalf equals what the order
   records as still owed while it is on the book, and zero once it has left it. *)
From ATS Require Import Prelude Dec DecFacts Uuid Semver Types Contract Tactics Spec Inv InvAsk InstProofs AskProofs
  BidFacts InvBid InvStep ExitProofs Frame Ledger.
Ltac Zify.zify_post_hook ::= Z.div_mod_to_equations.

(* what the order under key k is owed in denomination d (nothing when no order is there) *)
Definition ask_owed_at (st : state) (k d : string) : N :=
  match lookup k (st_asks st) with Some a => ask_owed d a | None => 0 end.
Definition bid_owed_at (st : state) (k d : string) : N :=
  match lookup k (st_bids st) with Some s => bid_owed d s | None => 0 end.

(* what a match of [size] pays out of the ask's escrow: [size] of the denomination the ask sells and, for an approved
   convertible ask, [size] of the approver-supplied denomination *)
Definition ask_part (st : state) (ask_id d : string) (size : N) : N :=
  match lookup ask_id (st_asks st) with
  | Some a => ind d (a_base a) size + match a_class a with Ready _ cb => ind d (c_denom cb) size | _ => 0 end
  | None => 0
  end.

(* attribution of the flows of one accepted request (funds attached, messages of the response r) to the ask / bid under k *)
Definition ask_in (e : env) (funds : list coin) (m : emsg) (r : resp) (k d : string) : N :=
  match m with
  | CreateAsk id _ _ _ _ | ApproveAsk id _ _ => if String.eqb id k then funds_in d funds + inflow e d (r_msgs r) else 0
  | _ => 0
  end.
Definition ask_out (e : env) (st : state) (m : emsg) (r : resp) (k d : string) : N :=
  match m with
  | CancelAsk id | ExpireAsk id | RejectAsk id _ => if String.eqb id k then outflow e d (r_msgs r) else 0
  | ExecuteMatch aid _ _ size => if String.eqb aid k then ask_part st aid d size else 0
  | _ => 0
  end.
Definition bid_in (e : env) (funds : list coin) (m : emsg) (r : resp) (k d : string) : N :=
  match m with
  | CreateBid id _ _ _ _ _ _ => if String.eqb id k then funds_in d funds + inflow e d (r_msgs r) else 0
  | _ => 0
  end.
Definition bid_out (e : env) (st : state) (m : emsg) (r : resp) (k d : string) : N :=
  match m with
  | CancelBid id | ExpireBid id | RejectBid id _ => if String.eqb id k then outflow e d (r_msgs r) else 0
  | ExecuteMatch aid bid _ size => if String.eqb bid k then outflow e d (r_msgs r) - ask_part st aid d size else 0
  | _ => 0
  end.

(* the order(s) a request names, as single keys *)
Definition the_ask (m : emsg) : option string := match named_asks m with [k] => Some k | _ => None end.
Definition the_bid (m : emsg) : option string := match named_bids m with [k] => Some k | _ => None end.

Lemma eqb_ne a b : a <> b -> String.eqb a b = false.
Proof. intros H. destruct (String.eqb_spec a b); [contradiction|reflexivity]. Qed.

Lemma ask_owed_at_insert st k a d : ask_owed_at (set_asks st (insert k a (st_asks st))) k d = ask_owed d a.
Proof. unfold ask_owed_at. cbn [st_asks set_asks]. rewrite lookup_insert_eq. reflexivity. Qed.
Lemma ask_owed_at_remove st k d : ask_owed_at (set_asks st (remove k (st_asks st))) k d = 0.
Proof. unfold ask_owed_at. cbn [st_asks set_asks]. rewrite lookup_remove_eq. reflexivity. Qed.
Lemma bid_owed_at_insert st k s d : bid_owed_at (set_bids st (insert k s (st_bids st))) k d = bid_owed d s.
Proof. unfold bid_owed_at. cbn [st_bids set_bids]. rewrite lookup_insert_eq. reflexivity. Qed.
Lemma bid_owed_at_remove st k d : bid_owed_at (set_bids st (remove k (st_bids st))) k d = 0.
Proof. unfold bid_owed_at. cbn [st_bids set_bids]. rewrite lookup_remove_eq. reflexivity. Qed.

(* ---------------------------------------------------------------- the named ask *)
Lemma approve_order e st sender funds id base size st' r d :
  sender <> e_self e -> approve_ask e st sender funds id base size = Ok (st', r) ->
  funds_in d funds + inflow e d (r_msgs r) + ask_owed_at st id d = ask_owed_at st' id d.
Proof.
  intros Hs H. apply approve_ask_inv in H as (c & a & Hc & _ & Hfu & Hl & Hcl & -> & -> & -> & ->).
  rewrite ask_owed_at_insert. unfold ask_owed_at. rewrite Hl. cbn [r_msgs].
  rewrite (in_pull e d _ _ _ Hs), (funds_rule_in e d _ _ _ Hfu), (ask_owed_approved d a sender (cf_base c) Hcl).
  destruct (is_restricted e (cf_base c)); lia.
Qed.

Lemma create_ask_order e st sender funds id base quote price size st' r d :
  sender <> e_self e -> create_ask e st sender funds id base quote price size = Ok (st', r) ->
  ask_owed_at st id d = 0 /\ funds_in d funds + inflow e d (r_msgs r) = ask_owed_at st' id d.
Proof.
  intros Hs H. apply create_ask_iff in H as (c & Hc & (_ & Hfu & _ & _ & _ & _ & Hnone) & -> & -> & _).
  rewrite ask_owed_at_insert. unfold ask_owed_at. rewrite Hnone. cbn [r_msgs]. split; [reflexivity|].
  rewrite (in_pull e d _ _ _ Hs), (funds_rule_in e d _ _ _ Hfu), ask_owed_new. destruct (is_restricted e base); lia.
Qed.

Lemma cancel_ask_order e st sender funds id st' r d :
  InvA st -> cancel_ask e st sender funds id = Ok (st', r) ->
  ask_owed_at st id d = outflow e d (r_msgs r) /\ ask_owed_at st' id d = 0.
Proof.
  intros HA H. apply cancel_ask_inv in H as (a & -> & Hl & _ & -> & ->).
  destruct (inv_cfg st HA) as (c & Hc & _). assert (Hid : a_id a = id) by apply (inv_asks st HA c id a Hc Hl).
  rewrite Hid, ask_owed_at_remove. unfold ask_owed_at. rewrite Hl. cbn [r_msgs]. rewrite out_ask_exit. split; [|reflexivity].
  unfold ask_owed. destruct (a_class a); lia.
Qed.

Lemma reverse_ask_order e st sender funds id action csz st' r d :
  InvA st -> reverse_ask FX e st sender funds id action csz = Ok (st', r) ->
  ask_owed_at st id d = outflow e d (r_msgs r) + ask_owed_at st' id d.
Proof.
  intros HA H. apply reverse_ask_inv in H as (c & a & eff & -> & Hc & _ & Hl & _ & _ & Hle & -> & ->).
  pose proof (inv_asks st HA c id a Hc Hl) as (Hid & _ & _ & _ & _ & _ & _ & Hr).
  rewrite Hid. cbn [r_msgs]. rewrite out_ask_exit. unfold ask_owed_at at 1. rewrite Hl.
  destruct (N.eqb_spec (a_size a - eff) 0) as [Hz|Hnz].
  - assert (eff = a_size a) by lia. subst eff. rewrite ask_owed_at_remove. unfold ask_owed.
    destruct (a_class a) as [| |ap cb]; try lia. subst cb. cbn [c_amt c_denom]. lia.
  - rewrite ask_owed_at_insert, ask_owed_after. unfold ask_owed.
    pose proof (ind_sub d (a_base a) (a_size a) eff Hle) as E1.
    destruct (a_class a) as [| |ap cb]; try lia. subst cb. cbn [c_amt c_denom] in *.
    pose proof (ind_sub d (cf_base c) (a_size a) eff Hle) as E2. lia.
Qed.

(* ---------------------------------------------------------------- the named bid *)
Lemma create_bid_order e st sender funds id base fee price quote qsize size st' r d :
  sender <> e_self e -> 1 <= qsize ->
  create_bid e st sender funds id base fee price quote qsize size = Ok (st', r) ->
  bid_owed_at st id d = 0 /\ funds_in d funds + inflow e d (r_msgs r) = bid_owed_at st' id d.
Proof.
  intros Hs Hq1 H.
  apply create_bid_inv in H as (c & p & total & dq & rate & calc & tot & Hc & Hp & _ & Hm & Hfr & Hdq & Heq & _ & _ &
    _ & _ & _ & _ & Htot & Hfu & Hnone & -> & ->).
  apply dec_from_u128_ok in Hdq as [Hq96 ->]. assert (Hqnz : qsize <> 0) by lia.
  assert (Htq : tot = qsize) by exact (int_eq_of_dec_eqb total qsize tot Hfr Htot Hqnz Heq). subst tot.
  rewrite bid_owed_at_insert. unfold bid_owed_at. rewrite Hnone. cbn [r_msgs]. split; [reflexivity|].
  rewrite (in_pull e d _ _ _ Hs), (funds_rule_in e d _ _ _ Hfu), bid_owed_new. destruct (is_restricted e quote); lia.
Qed.

Lemma reverse_bid_order e st sender funds m id action is_cancel csz st' r d :
  Inv st -> clean_exec st m -> bid_reverse_of m = Some (id, action, is_cancel, csz) ->
  execute FX e st sender funds m = Ok (st', r) ->
  bid_owed_at st id d = outflow e d (r_msgs r) + bid_owed_at st' id d.
Proof.
  intros HI Hclean Hm H. pose proof HI as [HA HB].
  destruct (bid_reverse_settles e st sender funds m id action is_cancel csz st' r HI Hclean Hm H) as
    (c & b & p & eff & cq & fa & Hc & Hl & Hp & -> & _ & _ & _ & Hle & Hdy & Hfa & -> & ->).
  destruct (inv_bids st HB c id _ Hc Hl) as (b0 & Hb0 & Hok). injection Hb0 as <-.
  cbn [r_msgs]. unfold bid_owed_at at 1. rewrite Hl.
  pose proof (bid_consume_owed c id b p eff cq fa d Hok Hp Hle Hdy Hfa) as E.
  assert (Hout : outflow e d (pay_msg e cq (c_denom (b_quote b)) (b_owner b) ::
                  (if 0 <? fa then [pay_msg e fa (c_denom (b_quote b)) (b_owner b)] else [])) = ind d (c_denom (b_quote b)) (cq + fa)).
  { rewrite ind_add. destruct (N.ltb_spec 0 fa); cbn; rewrite ?out_pay; [lia|]. assert (fa = 0) by lia. subst fa. unfold ind. destruct (String.eqb _ _); lia. }
  rewrite Hout.
  destruct (N.eqb_spec (unfilled b - eff) 0) as [Hz|Hnz].
  - rewrite bid_owed_at_remove. lia.
  - rewrite bid_owed_at_insert. lia.
Qed.

(* ---------------------------------------------------------------- a match: both named orders *)
Lemma match_order e st sender funds ask_id bid_id price size st' r d :
  InvA st -> InvB st -> 1 <= size -> clean_match st bid_id price size ->
  execute_match FX e st sender funds ask_id bid_id price size = Ok (st', r) ->
  ask_owed_at st ask_id d = ask_part st ask_id d size + ask_owed_at st' ask_id d /\
  bid_owed_at st bid_id d = (outflow e d (r_msgs r) - ask_part st ask_id d size) + bid_owed_at st' bid_id d /\
  ask_part st ask_id d size <= outflow e d (r_msgs r).
Proof.
  intros HA HB Hs1 Hclean H.
  destruct (match_settles e st sender funds ask_id bid_id price size st' r HA HB Hs1 Hclean H) as
    (c & a & b & bp & xp & gross & af & dy & fa & Hc & _ & -> & Hla & Hlb & Hbp & _ & _ & Hsza & Hszb & Hnp & _ & Hdy & _ & _ & _ &
     Hfc & Hin & Hout & ->).
  destruct (inv_bids st HB c bid_id _ Hc Hlb) as (b0 & Hb0 & Hok). injection Hb0 as <-.
  pose proof (inv_asks st HA c ask_id a Hc Hla) as (_ & _ & _ & _ & _ & _ & _ & Hr).
  rewrite Hout. unfold ask_part. rewrite Hla. unfold ask_owed_at at 1, bid_owed_at at 1. rewrite Hla, Hlb.
  unfold ask_owed_at, bid_owed_at. cbn [st_asks st_bids].
  pose proof (bid_consume_owed c bid_id b bp size dy fa d Hok Hbp Hszb Hdy Hfc) as EB.
  split; [|split; [|lia]].
  - destruct (N.eqb_spec (a_size a - size) 0) as [Hz|Hnz].
    + assert (size = a_size a) by lia. subst size. rewrite lookup_remove_eq. unfold ask_owed.
      destruct (a_class a) as [| |ap cb]; try lia. subst cb. cbn [c_amt c_denom]. lia.
    + rewrite lookup_insert_eq, ask_owed_after. unfold ask_owed.
      pose proof (ind_sub d (a_base a) (a_size a) size Hsza) as E1.
      destruct (a_class a) as [| |ap cb]; try lia. subst cb. cbn [c_amt c_denom] in *.
      pose proof (ind_sub d (cf_base c) (a_size a) size Hsza) as E2. lia.
  - destruct (N.eqb_spec (unfilled b - size) 0) as [Hz|Hnz].
    + rewrite lookup_remove_eq. lia.
    + rewrite lookup_insert_eq. lia.
Qed.

(* ---------------------------------------------------------------- every accepted request, every key *)
Theorem order_step e st sender funds m st' r :
  Inv st -> clean_exec st m -> sender <> e_self e ->
  execute FX e st sender funds m = Ok (st', r) ->
  forall k d,
    ask_in e funds m r k d + ask_owed_at st k d = ask_out e st m r k d + ask_owed_at st' k d /\
    bid_in e funds m r k d + bid_owed_at st k d = bid_out e st m r k d + bid_owed_at st' k d.
Proof.
  intros HI Hclean Hs H k d. pose proof HI as [HA HB].
  pose proof (execute_framed e st sender funds m st' r (InvAB_keys_ok st HA HB) H) as Hfr.
  assert (FA : ~ In k (named_asks m) -> ask_owed_at st' k d = ask_owed_at st k d).
  { intros Hn. unfold ask_owed_at. rewrite (fr_asks _ _ _ Hfr k Hn). reflexivity. }
  assert (FB : ~ In k (named_bids m) -> bid_owed_at st' k d = bid_owed_at st k d).
  { intros Hn. unfold bid_owed_at. rewrite (fr_bids _ _ _ Hfr k Hn). reflexivity. }
  pose proof H as H0. unfold execute in H. guard_inv H Hv.
  destruct m; cbn [validate_exec clean_exec ask_in ask_out bid_in bid_out named_asks named_bids] in *.
  - (* approve *)
    split; [|rewrite FB by (intros []); lia].
    destruct (String.eqb_spec id k) as [->|Hne].
    + pose proof (approve_order _ _ _ _ _ _ _ _ _ d Hs H). lia.
    + rewrite FA by (intros [Hx|[]]; congruence). lia.
  - (* cancel ask *)
    split; [|rewrite FB by (intros []); lia].
    destruct (String.eqb_spec id k) as [->|Hne].
    + destruct (cancel_ask_order _ _ _ _ _ _ _ d HA H). lia.
    + rewrite FA by (intros [Hx|[]]; congruence). lia.
  - (* cancel bid *)
    split; [rewrite FA by (intros []); lia|].
    destruct (String.eqb_spec id k) as [->|Hne].
    + pose proof (reverse_bid_order e st sender funds (CancelBid k) k _ _ _ st' r d HI Hclean eq_refl H0). lia.
    + rewrite FB by (intros [Hx|[]]; congruence). lia.
  - (* create ask *)
    split; [|rewrite FB by (intros []); lia].
    destruct (String.eqb_spec id k) as [->|Hne].
    + destruct (create_ask_order _ _ _ _ _ _ _ _ _ _ _ d Hs H). lia.
    + rewrite FA by (intros [Hx|[]]; congruence). lia.
  - (* create bid *)
    split; [rewrite FA by (intros []); lia|].
    destruct (String.eqb_spec id k) as [->|Hne].
    + repeat (apply andb_prop in Hv as [Hv ?]).
      assert (Hq1 : 1 <= quote_size) by (apply N.leb_le; assumption).
      destruct (create_bid_order _ _ _ _ _ _ _ _ _ _ _ _ _ d Hs Hq1 H). lia.
    + rewrite FB by (intros [Hx|[]]; congruence). lia.
  - (* match *)
    repeat (apply andb_prop in Hv as [Hv ?]).
    assert (Hs1 : 1 <= size) by (apply N.leb_le; assumption).
    destruct (match_order e st sender funds ask_id bid_id price size st' r d HA HB Hs1 Hclean H) as (EA & EB & Hle).
    split.
    + destruct (String.eqb_spec ask_id k) as [->|Hne]; [lia|]. rewrite FA by (intros [Hx|[]]; congruence). lia.
    + destruct (String.eqb_spec bid_id k) as [->|Hne]; [lia|]. rewrite FB by (intros [Hx|[]]; congruence). lia.
  - (* expire ask *)
    split; [|rewrite FB by (intros []); lia].
    destruct (String.eqb_spec id k) as [->|Hne].
    + pose proof (reverse_ask_order _ _ _ _ _ _ _ _ _ d HA H). lia.
    + rewrite FA by (intros [Hx|[]]; congruence). lia.
  - (* expire bid *)
    split; [rewrite FA by (intros []); lia|].
    destruct (String.eqb_spec id k) as [->|Hne].
    + pose proof (reverse_bid_order e st sender funds (ExpireBid k) k _ _ _ st' r d HI Hclean eq_refl H0). lia.
    + rewrite FB by (intros [Hx|[]]; congruence). lia.
  - (* reject ask *)
    split; [|rewrite FB by (intros []); lia].
    destruct (String.eqb_spec id k) as [->|Hne].
    + pose proof (reverse_ask_order _ _ _ _ _ _ _ _ _ d HA H). lia.
    + rewrite FA by (intros [Hx|[]]; congruence). lia.
  - (* reject bid *)
    split; [rewrite FA by (intros []); lia|].
    destruct (String.eqb_spec id k) as [->|Hne].
    + pose proof (reverse_bid_order e st sender funds (RejectBid k size) k _ _ _ st' r d HI Hclean eq_refl H0). lia.
    + rewrite FB by (intros [Hx|[]]; congruence). lia.
  - (* modify *)
    rewrite FA by (intros []). rewrite FB by (intros []). lia.
Qed.

(* nothing a request moves is left unattributed: what comes in belongs to the order the request creates or approves, what
   goes out to the order(s) it names *)
Theorem attribution_complete e st sender funds m st' r :
  Inv st -> clean_exec st m -> sender <> e_self e ->
  execute FX e st sender funds m = Ok (st', r) ->
  forall d,
    funds_in d funds + inflow e d (r_msgs r) =
      match the_ask m with Some k => ask_in e funds m r k d | None => 0 end +
      match the_bid m with Some k => bid_in e funds m r k d | None => 0 end /\
    outflow e d (r_msgs r) =
      match the_ask m with Some k => ask_out e st m r k d | None => 0 end +
      match the_bid m with Some k => bid_out e st m r k d | None => 0 end.
Proof.
  intros HI Hclean Hs H d. pose proof HI as [HA HB]. pose proof H as H0. unfold execute in H. guard_inv H Hv.
  destruct m; cbn [validate_exec clean_exec ask_in ask_out bid_in bid_out the_ask the_bid named_asks named_bids] in *;
    rewrite ?String.eqb_refl.
  - (* approve: nothing goes out *)
    apply approve_ask_inv in H as (c & a & _ & _ & _ & _ & _ & _ & _ & _ & ->). cbn [r_msgs].
    rewrite (out_pull e d _ _ _ Hs). lia.
  - (* cancel ask: nothing comes in *)
    apply cancel_ask_inv in H as (a & -> & _ & _ & _ & ->). cbn [r_msgs]. rewrite in_ask_exit. change (funds_in d []) with 0. lia.
  - (* cancel bid *)
    destruct (bid_reverse_settles e st sender funds (CancelBid id) id _ _ _ st' r HI Hclean eq_refl H0) as
      (c & b & p & eff & cq & fa & _ & _ & _ & -> & _ & _ & _ & _ & _ & _ & -> & _).
    cbn [r_msgs]. change (funds_in d []) with 0. split; [|lia]. destruct (0 <? fa); cbn; rewrite ?in_pay; reflexivity.
  - (* create ask *)
    apply create_ask_iff in H as (c & _ & _ & _ & -> & _). cbn [r_msgs]. rewrite (out_pull e d _ _ _ Hs). lia.
  - (* create bid *)
    apply create_bid_inv in H as (c & p & total & dq & rate & calc & tot & _ & _ & _ & _ & _ & _ & _ & _ & _ &
      _ & _ & _ & _ & _ & _ & _ & _ & ->). cbn [r_msgs]. rewrite (out_pull e d _ _ _ Hs). lia.
  - (* match *)
    repeat (apply andb_prop in Hv as [Hv ?]).
    assert (Hs1 : 1 <= size) by (apply N.leb_le; assumption).
    destruct (match_order e st sender funds ask_id bid_id price size st' r d HA HB Hs1 Hclean H) as (_ & _ & Hle).
    destruct (match_settles e st sender funds ask_id bid_id price size st' r HA HB Hs1 Hclean H) as
      (c & a & b & bp & xp & gross & af & dy & fa & _ & _ & -> & _ & _ & _ & _ & _ & _ & _ & _ & _ & _ & _ & _ & _ & _ & Hin & _ & _).
    rewrite Hin. change (funds_in d []) with 0. lia.
  - (* expire ask *)
    apply reverse_ask_inv in H as (c & a & eff & -> & _ & _ & _ & _ & _ & _ & _ & ->). cbn [r_msgs]. rewrite in_ask_exit.
    change (funds_in d []) with 0. lia.
  - (* expire bid *)
    destruct (bid_reverse_settles e st sender funds (ExpireBid id) id _ _ _ st' r HI Hclean eq_refl H0) as
      (c & b & p & eff & cq & fa & _ & _ & _ & -> & _ & _ & _ & _ & _ & _ & -> & _).
    cbn [r_msgs]. change (funds_in d []) with 0. split; [|lia]. destruct (0 <? fa); cbn; rewrite ?in_pay; reflexivity.
  - (* reject ask *)
    apply reverse_ask_inv in H as (c & a & eff & -> & _ & _ & _ & _ & _ & _ & _ & ->). cbn [r_msgs]. rewrite in_ask_exit.
    change (funds_in d []) with 0. lia.
  - (* reject bid *)
    destruct (bid_reverse_settles e st sender funds (RejectBid id size) id _ _ _ st' r HI Hclean eq_refl H0) as
      (c & b & p & eff & cq & fa & _ & _ & _ & -> & _ & _ & _ & _ & _ & _ & -> & _).
    cbn [r_msgs]. change (funds_in d []) with 0. split; [|lia]. destruct (0 <? fa); cbn; rewrite ?in_pay; reflexivity.
  - (* modify *)
    apply modify_contract_inv in H0 as (c & af & bf & _ & Hf & -> & _ & _ & _ & _ & _ & _ & _ & _ & _ & _ & _ & ->).
    cbn [r_msgs inflow outflow fold_right]. split; reflexivity.
Qed.

(* ---------------------------------------------------------------- histories, order by order *)
(* received on behalf of / paid on behalf of the ask (bid) under key k, over the accepted steps of a history *)
Fixpoint ask_ledger (st : state) (evs : list event) (k d : string) : N * N :=
  match evs with
  | [] => (0, 0)
  | ev :: rest =>
    let io := ask_ledger (run_event st ev) rest k d in
    match execute FX (ev_env ev) st (ev_sender ev) (ev_funds ev) (ev_msg ev) with
    | Ok (_, r) => (ask_in (ev_env ev) (ev_funds ev) (ev_msg ev) r k d + fst io,
                    ask_out (ev_env ev) st (ev_msg ev) r k d + snd io)
    | Refused _ => io
    end
  end.
Fixpoint bid_ledger (st : state) (evs : list event) (k d : string) : N * N :=
  match evs with
  | [] => (0, 0)
  | ev :: rest =>
    let io := bid_ledger (run_event st ev) rest k d in
    match execute FX (ev_env ev) st (ev_sender ev) (ev_funds ev) (ev_msg ev) with
    | Ok (_, r) => (bid_in (ev_env ev) (ev_funds ev) (ev_msg ev) r k d + fst io,
                    bid_out (ev_env ev) st (ev_msg ev) r k d + snd io)
    | Refused _ => io
    end
  end.

Theorem order_ledger_balances evs : forall st k d,
  Inv st -> clean_run st evs -> never_self evs ->
  fst (ask_ledger st evs k d) + ask_owed_at st k d = snd (ask_ledger st evs k d) + ask_owed_at (run st evs) k d /\
  fst (bid_ledger st evs k d) + bid_owed_at st k d = snd (bid_ledger st evs k d) + bid_owed_at (run st evs) k d.
Proof.
  induction evs as [|ev evs IH]; intros st k d HI Hc Hns; [split; reflexivity|].
  change (run st (ev :: evs)) with (run (run_event st ev) evs). destruct Hc as [Hc1 Hc2].
  inversion Hns as [|? ? Hs Hns']; subst. cbn [ask_ledger bid_ledger]. unfold run_event in *.
  destruct (execute FX (ev_env ev) st (ev_sender ev) (ev_funds ev) (ev_msg ev)) as [[st' r]|t] eqn:E.
  - destruct (order_step _ _ _ _ _ _ _ HI Hc1 Hs E k d) as [SA SB].
    pose proof (Inv_step _ _ _ _ _ _ _ HI Hc1 E) as HI'. destruct (IH st' k d HI' Hc2 Hns') as [IA IB]. cbn [fst snd]. split; lia.
  - apply IH; auto.
Qed.

Lemma owed_at_init e m st0 r k d :
  instantiate e empty_state m = Ok (st0, r) -> ask_owed_at st0 k d = 0 /\ bid_owed_at st0 k d = 0.
Proof. intros H. apply instantiate_stored in H as [-> _]. split; reflexivity. Qed.

(* From instantiation: for every key, received - paid = what the order under that key still records as owed;
   in particular received = paid for a key under which no order is (any more) on the book. *)
Theorem order_by_order e m st0 r0 evs k d :
  env_version_ok e -> instantiate e empty_state m = Ok (st0, r0) -> clean_run st0 evs -> never_self evs ->
  fst (ask_ledger st0 evs k d) = snd (ask_ledger st0 evs k d) + ask_owed_at (run st0 evs) k d /\
  fst (bid_ledger st0 evs k d) = snd (bid_ledger st0 evs k d) + bid_owed_at (run st0 evs) k d /\
  (lookup k (st_asks (run st0 evs)) = None -> fst (ask_ledger st0 evs k d) = snd (ask_ledger st0 evs k d)) /\
  (lookup k (st_bids (run st0 evs)) = None -> fst (bid_ledger st0 evs k d) = snd (bid_ledger st0 evs k d)).
Proof.
  intros He Hi Hc Hns. pose proof (Inv_init e m st0 r0 He Hi) as HI.
  destruct (order_ledger_balances evs st0 k d HI Hc Hns) as [A B].
  destruct (owed_at_init e m st0 r0 k d Hi) as [ZA ZB]. rewrite ZA in A. rewrite ZB in B.
  repeat split; try lia.
  - intros Hn. unfold ask_owed_at in A. rewrite Hn in A. lia.
  - intros Hn. unfold bid_owed_at in B. rewrite Hn in B. lia.
Qed.
