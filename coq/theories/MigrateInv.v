(* MigrateInv: a migrated book satisfies the invariant, so every theorem about native orders applies to converted
   bids (C15 "a converted bid then behaves like a native one"). *)
From ATS Require Import Prelude Dec DecFacts Uuid Semver Types Contract Tactics Spec Inv InvAsk InstProofs AskProofs
  ExactFacts BidFacts InvBid InvStep MigrateProofs.

(* the stored book before migration: asks as in the invariant; every current-format bid consistent; every old-format
   bid has a well-formed log, i.e. its conversion is a consistent bid *)
Definition price_within (c : cfg) (b : bid) : Prop :=
  forall p, dec_parse (b_price b) = Some p -> within_precision p (cf_precision c).
Definition slot_ok (c : cfg) (k : string) (s : bslot) : Prop :=
  match s with
  | SlotV3 b => bid_ok c k b /\ price_within c b
  | SlotV2 o => exists b, convert_bid o = Ok b /\ bid_ok c k b /\ price_within c b
  end.
Record MigPre (st : state) (c : cfg) : Prop := mkMigPre {
  mp_cfg : st_cfg st = Some c /\ cfg_ok c;
  mp_asks : forall k a, lookup k (st_asks st) = Some a -> ask_ok c k a;
  mp_nd_asks : keys_nodup (st_asks st);
  mp_bids : forall k s, lookup k (st_bids st) = Some s -> slot_ok c k s;
  mp_nd_bids : keys_nodup (st_bids st) }.

Lemma convert_slots_lookup_inv w : forall l l' k s',
  convert_slots w l = Ok l' -> lookup k l' = Some s' ->
  exists s, lookup k l = Some s /\
    match s with
    | SlotV3 b => s' = SlotV3 b
    | SlotV2 o => if w then exists b, convert_bid o = Ok b /\ s' = SlotV3 b else s' = SlotV2 o
    end.
Proof.
  intros l l' k s' H Hl. pose proof (convert_slots_lookup w l l' k H) as Hx.
  destruct (lookup k l) as [[b|o]|]; [| |congruence].
  - exists (SlotV3 b). split; [reflexivity|]. congruence.
  - exists (SlotV2 o). split; [reflexivity|]. destruct w.
    + destruct Hx as (b & Hb & Hl2). exists b. split; [exact Hb|]. congruence.
    + congruence.
Qed.

Theorem Inv_after_migrate e st c m st' r :
  MigPre st c -> env_version_ok e ->
  migrate e st m = Ok (st', r) ->
  (forall k o, lookup k (st_bids st') <> Some (SlotV2 o)) ->        (* i.e. migrated inside the conversion window, or no old-format bid *)
  Inv st'.
Proof.
  intros [[Hc Hcok] Ha Hna Hb Hnb] (ver & Hv1 & Hv2) H Hno2.
  apply migrate_inv in H as (d & vs & v & c0 & af & bf & bids' & _ & _ & _ & _ & _ & Hc0 & _ & _ & _ & Hconv & -> & _).
  rewrite Hc in Hc0. injection Hc0 as <-.
  assert (Hm : market c = market (migrated_cfg c m af bf)) by reflexivity.
  split.
  - constructor; cbn.
    + exists (migrated_cfg c m af bf). split; [reflexivity|]. destruct Hcok as (H1 & H2 & H3 & H4 & H5 & H6).
      unfold cfg_ok, migrated_cfg. cbn. auto 10.
    + exists (e_crate_name e), (e_pkg_version e), ver. auto.
    + intros c2 k a Hc2 Hl. injection Hc2 as <-. eapply ask_ok_market; [exact Hm|]. apply Ha. exact Hl.
    + exact Hna.
  - assert (Hall : forall k s, lookup k bids' = Some s -> exists b, s = SlotV3 b /\ bid_ok c k b /\ price_within c b).
    { intros k s Hl. destruct (convert_slots_lookup_inv _ _ _ _ _ Hconv Hl) as (s0 & Hl0 & Hs0). specialize (Hb k s0 Hl0).
      destruct s0 as [b|o]; cbn in Hb.
      - subst s. exists b. destruct Hb. auto.
      - destruct (req_window v).
        + destruct Hs0 as (b & Hcb & ->). destruct Hb as (b2 & Hcb2 & Hok & Hwp). rewrite Hcb in Hcb2. injection Hcb2 as <-. eauto.
        + subst s. exfalso. eapply Hno2. cbn. exact Hl. }
    constructor; cbn.
    + intros c2 k s Hc2 Hl. injection Hc2 as <-. destruct (Hall k s Hl) as (b & -> & Hok & _).
      exists b. split; [reflexivity|]. eapply bid_ok_market; eauto.
    + unfold keys_nodup. rewrite (convert_slots_keys _ _ _ Hconv). exact Hnb.
    + intros c2 k b p Hc2 Hl Hp. injection Hc2 as <-. destruct (Hall k _ Hl) as (b0 & Hb0 & _ & Hwp). injection Hb0 as <-.
      cbn [migrated_cfg cf_precision]. apply Hwp. exact Hp.
Qed.
