(* Uuid: model of uuid 1.3.4 `Uuid::parse_str` (the four accepted shapes) and `hyphenated().to_string()`. *)
From ATS Require Import Prelude.

(* value of a hex digit, any case *)
Definition hexval (c : N) : option N :=
  if (48 <=? c) && (c <=? 57) then Some (c - 48)
  else if (97 <=? c) && (c <=? 102) then Some (c - 87)
  else if (65 <=? c) && (c <=? 70) then Some (c - 55)
  else None.

Fixpoint hexvals (l : list N) : option (list N) :=
  match l with
  | [] => Some []
  | c :: r => match hexval c, hexvals r with Some v, Some vs => Some (v :: vs) | _, _ => None end
  end.

(* split off exactly n items *)
Fixpoint take_n {A} (n : nat) (l : list A) : option (list A * list A) :=
  match n, l with
  | O, _ => Some ([], l)
  | S k, x :: r => match take_n k r with Some (a, b) => Some (x :: a, b) | None => None end
  | S _, [] => None
  end.

Definition hyphen : N := 45.

(* 36 chars 8-4-4-4-12 -> the 32 nibbles *)
Definition parse_hyphenated (l : list N) : option (list N) :=
  match take_n 8 l with
  | Some (g1, h1 :: r1) =>
    match take_n 4 r1 with
    | Some (g2, h2 :: r2) =>
      match take_n 4 r2 with
      | Some (g3, h3 :: r3) =>
        match take_n 4 r3 with
        | Some (g4, h4 :: r4) =>
          match take_n 12 r4 with
          | Some (g5, []) =>
            if (h1 =? hyphen) && (h2 =? hyphen) && (h3 =? hyphen) && (h4 =? hyphen)
            then hexvals (g1 ++ g2 ++ g3 ++ g4 ++ g5) else None
          | _ => None
          end
        | _ => None
        end
      | _ => None
      end
    | _ => None
    end
  | _ => None
  end.

Definition urn_prefix : list N := map code (chars "urn:uuid:").

Fixpoint list_N_eqb (a b : list N) : bool :=
  match a, b with
  | [], [] => true
  | x :: a', y :: b' => (x =? y) && list_N_eqb a' b'
  | _, _ => false
  end.

Definition uuid_parse (s : string) : option (list N) :=
  let l := map code (chars s) in
  match List.length l with
  | 32%nat => hexvals l
  | 36%nat => parse_hyphenated l
  | 38%nat =>
    match l with
    | 123 :: r =>
      match take_n 36 r with
      | Some (body, [125]) => parse_hyphenated body
      | _ => None
      end
    | _ => None
    end
  | 45%nat =>
    match take_n 9 l with
    | Some (p, body) => if list_N_eqb p urn_prefix then parse_hyphenated body else None
    | None => None
    end
  | _ => None
  end.

Definition hexchar (v : N) : ascii := ascii_of_N (if v <? 10 then v + 48 else v + 87).

Definition uuid_hyphenated (nib : list N) : string :=
  match take_n 8 nib with
  | Some (g1, r1) =>
    match take_n 4 r1 with
    | Some (g2, r2) =>
      match take_n 4 r2 with
      | Some (g3, r3) =>
        match take_n 4 r3 with
        | Some (g4, g5) =>
          of_chars (map hexchar g1 ++ ["-"%char] ++ map hexchar g2 ++ ["-"%char] ++ map hexchar g3 ++
                    ["-"%char] ++ map hexchar g4 ++ ["-"%char] ++ map hexchar g5)
        | None => ""
        end
      | None => ""
      end
    | None => ""
    end
  | None => ""
  end.

(* Uuid::parse_str(id).is_ok() : legacy-tolerant validation used on exit paths and queries *)
Definition uuid_valid (s : string) : bool :=
  match uuid_parse s with Some _ => true | None => false end.

(* util.rs is_hyphenated_uuid_str : canonical lower-case hyphenated form *)
Definition uuid_canonical (s : string) : bool :=
  match uuid_parse s with
  | Some nib => String.eqb s (uuid_hyphenated nib)
  | None => false
  end.
