(* Tactics and small lemmas for walking the `do x <- e; k` chains of Contract.v. *)
From ATS Require Import Prelude.

Lemma guard_ok b t u : guard b t = Ok u -> b = true.
Proof. unfold guard. destruct b; [reflexivity|discriminate]. Qed.
Lemma guard_true t : guard true t = Ok tt.
Proof. reflexivity. Qed.
Lemma of_opt_ok {A} (o : option A) t a : of_opt o t = Ok a -> o = Some a.
Proof. unfold of_opt. destruct o; [intros H; injection H as ->; reflexivity|discriminate]. Qed.
Lemma bind_ok {A B} (r : res A) (k : A -> res B) b :
  bind r k = Ok b -> exists a, r = Ok a /\ k a = Ok b.
Proof. destruct r as [a|t]; cbn; [eauto|discriminate]. Qed.

Lemma mem_In s l : mem s l = true <-> In s l.
Proof.
  unfold mem. rewrite existsb_exists. split.
  - intros (x & Hx & He). apply String.eqb_eq in He. subst. exact Hx.
  - intros H. exists s. split; [exact H|apply String.eqb_refl].
Qed.

(* peel one bind off hypothesis H : bind r k = Ok _ ; the head result is named x with equation E *)
Ltac bind_inv H x E :=
  match type of H with
  | bind ?r _ = Ok _ => destruct r as [x|] eqn:E; cbn [bind] in H; [|discriminate H]
  end.
(* peel one guard *)
Ltac guard_inv H E :=
  match type of H with
  | bind (guard ?b ?t) _ = Ok _ =>
    let u := fresh "u" in
    destruct (guard b t) as [u|] eqn:E; cbn [bind] in H; [apply guard_ok in E|discriminate H]
  end.
