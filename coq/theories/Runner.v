(* Runner: line-based history parser, trace printer and event loop for the model (FORMAT.md).
   Extracted to OCaml (ocaml/); also runnable with vm_compute.  Definitions only.
   This file is correspondence glue: no property theorem depends on it. *)
From ATS Require Import Prelude Dec Uuid Semver Types Contract InvCheck.

Local Notation "'let?' x := e 'in' k" := (match e with Some x => k | None => None end)
  (at level 200, x pattern, e at level 100, k at level 200).

Local Infix "+++" := String.append (right associativity, at level 60).

(* ---------------------------------------------------------------- tokens *)
Fixpoint split_aux (sep : ascii) (s : string) (acc : list ascii) : list string :=
  match s with
  | EmptyString => [of_chars (rev acc)]
  | String c r => if Ascii.eqb c sep then of_chars (rev acc) :: split_aux sep r []
                  else split_aux sep r (c :: acc)
  end.
Definition split (sep : ascii) (s : string) : list string := split_aux sep s [].

Definition hexdigit (v : N) : ascii := ascii_of_N (if v <? 10 then v + 48 else v + 55).
Definition plain (c : N) : bool :=
  ((48 <=? c) && (c <=? 57)) || ((65 <=? c) && (c <=? 90)) || ((97 <=? c) && (c <=? 122))
  || (c =? 46) || (c =? 95).
Fixpoint enc_chars (s : string) : string :=
  match s with
  | EmptyString => EmptyString
  | String c r =>
    let n := code c in
    if plain n then String c (enc_chars r)
    else String "%" (String (hexdigit (n / 16)) (String (hexdigit (n mod 16)) (enc_chars r)))
  end.
Definition enc (s : string) : string := if str_empty s then "~" else enc_chars s.

Fixpoint dec_chars (s : string) : option string :=
  match s with
  | EmptyString => Some EmptyString
  | String "%" (String h (String l r)) =>
    let? a := hexval (code h) in let? b := hexval (code l) in let? t := dec_chars r in
    Some (String (ascii_of_N (a * 16 + b)) t)
  | String "%" _ => None
  | String c r => let? t := dec_chars r in Some (String c t)
  end.
Definition dstr (s : string) : option string := if String.eqb s "~" then Some "" else dec_chars s.

Fixpoint num_loop (s : string) (acc : N) : option N :=
  match s with
  | EmptyString => Some acc
  | String c r => let n := code c in
                  if (48 <=? n) && (n <=? 57) then num_loop r (acc * 10 + (n - 48)) else None
  end.
(* every number on a line stands for a Uint128 (or smaller) field of a JSON message or storage slot: a numeral beyond
   2^128-1 cannot be deserialised by the contract and makes the line malformed, as it does for the harness *)
Definition dnum (s : string) : option N :=
  if str_empty s then None else
  match num_loop s 0 with Some n => if n <=? U128MAX then Some n else None | None => None end.

Definition dopt {A} (f : string -> option A) (s : string) : option (option A) :=
  if String.eqb s "-" then Some None else let? v := f s in Some (Some v).
Fixpoint mapM {A B} (f : A -> option B) (l : list A) : option (list B) :=
  match l with
  | [] => Some []
  | x :: r => let? y := f x in let? ys := mapM f r in Some (y :: ys)
  end.
Definition dlist {A} (f : string -> option A) (s : string) : option (list A) :=
  if String.eqb s "[]" then Some [] else mapM f (split "," s).
Definition dcoin (s : string) : option coin :=
  match split ":" s with
  | [a; d] => let? n := dnum a in let? dn := dstr d in Some (mkcoin n dn)
  | _ => None
  end.
Definition dclass (s : string) : option aclass :=
  match split ":" s with
  | ["basic"] => Some Basic
  | ["pending"] => Some Pending
  | ["ready"; ap; d; n] => let? a := dstr ap in let? dn := dstr d in let? amt := dnum n in
                           Some (Ready a (mkcoin amt dn))
  | _ => None
  end.
Definition dfeeinfo (s : string) : option (option feeinfo) :=
  if String.eqb s "-" then Some None else
  match split "=" s with
  | [a; r] => let? acc := dstr a in let? rate := dstr r in Some (Some (mkfee acc rate))
  | _ => None
  end.
Definition doptamt (s : string) : option (option N) := dopt dnum s.
Definition daction (s : string) : option action :=
  match split ":" s with
  (* lower-case letters: the same event logged with a block height in the future; only the amounts are ever read *)
  | ["F"; b; qt; f] | ["f"; b; qt; f] => let? b := dnum b in let? qt := dnum qt in let? f := doptamt f in Some (AFill b qt f)
  | ["R"; qt; f] | ["r"; qt; f] => let? qt := dnum qt in let? f := doptamt f in Some (ARefund qt f)
  | ["J"; b; qt; f] | ["j"; b; qt; f] => let? b := dnum b in let? qt := dnum qt in let? f := doptamt f in Some (AReject b qt f)
  | _ => None
  end.
Definition devents (s : string) : option (list action) :=
  if String.eqb s "[]" then Some [] else mapM daction (split ";" s).

(* ---------------------------------------------------------------- printers *)
Fixpoint join (sep : string) (l : list string) : string :=
  match l with [] => "" | [x] => x | x :: r => x +++ sep +++ join sep r end.
Definition plist {A} (f : A -> string) (l : list A) : string :=
  match l with [] => "[]" | _ => join "," (map f l) end.
Definition popt {A} (f : A -> string) (o : option A) : string := match o with Some x => f x | None => "-" end.
Definition pcoin (c : coin) : string := show_N (c_amt c) +++ ":" +++ enc (c_denom c).
Definition pclass (c : aclass) : string :=
  match c with
  | Basic => "basic" | Pending => "pending"
  | Ready ap cb => "ready:" +++ enc ap +++ ":" +++ enc (c_denom cb) +++ ":" +++ show_N (c_amt cb)
  end.
Definition pfee (f : option feeinfo) : string :=
  match f with Some x => enc (f_account x) +++ "=" +++ enc (f_rate x) | None => "-" end.
Definition words (l : list string) : string := join " " l.
Definition pask_fields (a : ask) : list string :=
  [enc (a_id a); enc (a_owner a); pclass (a_class a); enc (a_base a); enc (a_quote a); enc (a_price a);
   show_N (a_size a)].
Definition pbid_fields (b : bid) : list string :=
  [enc (b_id b); enc (b_owner b); enc (c_denom (b_base b)); show_N (c_amt (b_base b)); show_N (b_acc_base b);
   enc (c_denom (b_quote b)); show_N (c_amt (b_quote b)); show_N (b_acc_quote b); popt pcoin (b_fee b);
   show_N (b_acc_fee b); enc (b_price b)].
Definition paction (a : action) : string :=
  match a with
  | AFill b qt f => "F:" +++ show_N b +++ ":" +++ show_N qt +++ ":" +++ popt show_N f
  | ARefund qt f => "R:" +++ show_N qt +++ ":" +++ popt show_N f
  | AReject b qt f => "J:" +++ show_N b +++ ":" +++ show_N qt +++ ":" +++ popt show_N f
  end.
Definition pbid2_fields (b : bid2) : list string :=
  [enc (b2_id b); enc (b2_owner b); enc (c_denom (b2_base b)); show_N (c_amt (b2_base b));
   enc (c_denom (b2_quote b)); show_N (c_amt (b2_quote b)); popt pcoin (b2_fee b); enc (b2_price b);
   match b2_events b with [] => "[]" | l => join ";" (map paction l) end].
Definition pcfg_fields (c : cfg) : list string :=
  [enc (cf_name c); enc (cf_bind c); enc (cf_base c); plist enc (cf_conv c); plist enc (cf_quotes c);
   plist enc (cf_approvers c); plist enc (cf_executors c); pfee (cf_ask_fee c); pfee (cf_bid_fee c);
   plist enc (cf_ask_attrs c); plist enc (cf_bid_attrs c); show_N (cf_precision c); show_N (cf_increment c)].

(* insertion sort by raw key bytes *)
Fixpoint ins_sorted {V} (kv : string * V) (l : list (string * V)) : list (string * V) :=
  match l with
  | [] => [kv]
  | x :: r => if String.ltb (fst kv) (fst x) then kv :: l else x :: ins_sorted kv r
  end.
Definition sort_keys {V} (l : list (string * V)) : list (string * V) := fold_right ins_sorted [] l.

Definition dump (st : state) : list string :=
  map (fun kv => words ("ASK" :: enc (fst kv) :: pask_fields (snd kv))) (sort_keys (st_asks st))
  ++ map (fun kv => match snd kv with
                    | SlotV3 b => words ("BID3" :: enc (fst kv) :: pbid_fields b)
                    | SlotV2 b => words ("BID2" :: enc (fst kv) :: pbid2_fields b)
                    end) (sort_keys (st_bids st))
  ++ [match st_cfg st with Some c => words ("CFG" :: pcfg_fields c) | None => "CFG -" end;
      match st_ver st with Some (d, v) => words ["VER"; enc d; enc v] | None => "VER -" end].

Definition pmsg (m : msg) : string :=
  match m with
  | Bank to c => words ["MSG"; "bank"; enc to; pcoin c]
  | Xfer from to c admin => words ["MSG"; "xfer"; enc from; enc to; pcoin c; enc admin]
  end.
Definition pattr (kv : string * string) : string := words ["ATTR"; enc (fst kv); enc (snd kv)].
Definition presp (r : resp) : list string := map pmsg (r_msgs r) ++ map pattr (r_attrs r).
Definition pqres (r : qres) : string :=
  match r with
  | QAsk a => words ("QRY" :: "ask" :: pask_fields a)
  | QBid b => words ("QRY" :: "bid" :: pbid_fields b)
  | QCfg c => words ("QRY" :: "cfg" :: pcfg_fields c)
  | QVer d v => words ["QRY"; "ver"; enc d; enc v]
  end.

(* ---------------------------------------------------------------- runner state *)
(* follow mode: the runner reads the implementation's trace; after every state-changing event it adopts the
   state the implementation dumped, so that each step is compared from the same pre-state (no cascades) *)
Record follow := mkfollow { fo_on : bool; fo_adopt : bool; fo_seen : bool; fo_acc : state }.
Record rstate := mkrs0 {
  rs_st : state;
  rs_markers : list (string * mkind);
  rs_attrs : list (string * list string);
  rs_crate : string; rs_version : string; rs_self : string;
  rs_fix : fixes;
  rs_follow : follow }.
Definition mkrs st m a c v s f : rstate := mkrs0 st m a c v s f (mkfollow false false false empty_state).

Fixpoint no_upper (s : string) : bool :=
  match s with
  | EmptyString => true
  | String c r => let n := code c in negb ((65 <=? n) && (n <=? 90)) && negb (n =? 0) && no_upper r
  end.
(* cosmwasm_std::testing::MockApi::addr_validate *)
Definition mock_addr_ok (s : string) : bool :=
  let n := N.of_nat (String.length s) in (3 <=? n) && (n <=? 90) && no_upper s.
Definition env_of (r : rstate) : env :=
  mkenv (fun d => match lookup d (rs_markers r) with Some k => k | None => MNone end)
        (fun a => match lookup a (rs_attrs r) with Some l => l | None => [] end)
        mock_addr_ok (rs_self r) (rs_version r) (rs_crate r).
Definition init_rstate (fx : fixes) (follow_on : bool) : rstate :=
  mkrs0 empty_state [] [] "ats_smart_contract" "1.0.0" "cosmos2contract" fx
        (mkfollow follow_on false false empty_state).
Definition with_st (r : rstate) (st : state) : rstate :=
  mkrs0 st (rs_markers r) (rs_attrs r) (rs_crate r) (rs_version r) (rs_self r) (rs_fix r) (rs_follow r).
Definition with_follow (r : rstate) (f : follow) : rstate :=
  mkrs0 (rs_st r) (rs_markers r) (rs_attrs r) (rs_crate r) (rs_version r) (rs_self r) (rs_fix r) f.

(* ---------------------------------------------------------------- request parsers *)
Definition dmarker (s : string) : option (string * mkind) :=
  match split "=" s with
  | [d; "R"] | [d; "Ra"] | [d; "Rp"] | [d; "Rc"] | [d; "Rd"] | [d; "Rx"] | [d; "Rm"] => let? dn := dstr d in Some (dn, MRestricted)
  | [d; "U"] | [d; "Ua"] | [d; "Ud"] | [d; "E"] | [d; "Z"] | [d; "T"] | [d; "Um"] => let? dn := dstr d in Some (dn, MOther)
      (* E: the marker query fails; Z / T: a marker of type 0 (unspecified) / 3 (unknown): only type 2 is restricted *)
  | _ => None
  end.
Definition dattr (s : string) : option (string * list string) :=
  match split "=" s with
  | [a; l] =>
    (* `|` separates the pages in which the attribute module serves the listing; the contract asks for the first page
       only, so the first page is what the sender "holds" as far as the contract can see *)
    let first := match split "|" l with p :: _ => p | [] => l end in
    let? acc := dstr a in
    if str_empty first then Some (acc, []) else
    let? names := mapM dstr (split ";" first) in Some (acc, names)
  | _ => None
  end.

Definition dexec (kind : string) (args : list string) : option emsg :=
  match kind, args with
  | "approve_ask", [id; base; size] =>
    let? id := dstr id in let? base := dstr base in let? size := dnum size in Some (ApproveAsk id base size)
  | "cancel_ask", [id] => let? id := dstr id in Some (CancelAsk id)
  | "cancel_bid", [id] => let? id := dstr id in Some (CancelBid id)
  | "create_ask", [id; base; quote; price; size] =>
    let? id := dstr id in let? base := dstr base in let? quote := dstr quote in let? price := dstr price in
    let? size := dnum size in Some (CreateAsk id base quote price size)
  | "create_bid", [id; base; fee; price; quote; qsize; size] =>
    let? id := dstr id in let? base := dstr base in let? fee := dopt dcoin fee in let? price := dstr price in
    let? quote := dstr quote in let? qsize := dnum qsize in let? size := dnum size in
    Some (CreateBid id base fee price quote qsize size)
  | "execute_match", [aid; bid; price; size] =>
    let? aid := dstr aid in let? bid := dstr bid in let? price := dstr price in let? size := dnum size in
    Some (ExecuteMatch aid bid price size)
  | "expire_ask", [id] => let? id := dstr id in Some (ExpireAsk id)
  | "expire_bid", [id] => let? id := dstr id in Some (ExpireBid id)
  | "reject_ask", [id; size] => let? id := dstr id in let? size := dopt dnum size in Some (RejectAsk id size)
  | "reject_bid", [id; size] => let? id := dstr id in let? size := dopt dnum size in Some (RejectBid id size)
  | "modify_contract", [ap; ex; afr; afa; bfr; bfa; aat; bat] =>
    let? ap := dopt (dlist dstr) ap in let? ex := dopt (dlist dstr) ex in
    let? afr := dopt dstr afr in let? afa := dopt dstr afa in
    let? bfr := dopt dstr bfr in let? bfa := dopt dstr bfa in
    let? aat := dopt (dlist dstr) aat in let? bat := dopt (dlist dstr) bat in
    Some (ModifyContract (mkmod ap ex afr afa bfr bfa aat bat))
  | _, _ => None
  end.

Definition dinst (args : list string) : option instmsg :=
  match args with
  | [name; base; conv; quotes; aps; exs; afr; afa; bfr; bfa; aat; bat; prec; inc] =>
    let? name := dstr name in let? base := dstr base in let? conv := dlist dstr conv in
    let? quotes := dlist dstr quotes in let? aps := dlist dstr aps in let? exs := dlist dstr exs in
    let? afr := dopt dstr afr in let? afa := dopt dstr afa in
    let? bfr := dopt dstr bfr in let? bfa := dopt dstr bfa in
    let? aat := dlist dstr aat in let? bat := dlist dstr bat in
    let? prec := dnum prec in let? inc := dnum inc in
    Some (mkinst name base conv quotes aps exs afr afa bfr bfa aat bat prec inc)
  | _ => None
  end.
Definition dmig (args : list string) : option migmsg :=
  match args with
  | [ap; afr; afa; bfr; bfa; aat; bat] =>
    let? ap := dopt (dlist dstr) ap in
    let? afr := dopt dstr afr in let? afa := dopt dstr afa in
    let? bfr := dopt dstr bfr in let? bfa := dopt dstr bfa in
    let? aat := dopt (dlist dstr) aat in let? bat := dopt (dlist dstr) bat in
    Some (mkmig ap afr afa bfr bfa aat bat)
  | _ => None
  end.
Definition dcfg (args : list string) : option cfg :=
  match args with
  | [name; bind; base; conv; quotes; aps; exs; af; bf; aat; bat; prec; inc] =>
    let? name := dstr name in let? bind := dstr bind in let? base := dstr base in
    let? conv := dlist dstr conv in let? quotes := dlist dstr quotes in
    let? aps := dlist dstr aps in let? exs := dlist dstr exs in
    let? af := dfeeinfo af in let? bf := dfeeinfo bf in
    let? aat := dlist dstr aat in let? bat := dlist dstr bat in
    let? prec := dnum prec in let? inc := dnum inc in
    Some (mkcfg name bind base conv quotes aps exs af bf aat bat prec inc)
  | _ => None
  end.
Definition dask (args : list string) : option ask :=
  match args with
  | [id; owner; cls; base; quote; price; size] =>
    let? id := dstr id in let? owner := dstr owner in let? cls := dclass cls in let? base := dstr base in
    let? quote := dstr quote in let? price := dstr price in let? size := dnum size in
    Some (mkask id owner cls base quote price size)
  | _ => None
  end.
Definition dbid3 (args : list string) : option bid :=
  match args with
  | [id; owner; bd; ba; ab; qd; qa; aq; fee; af; price] =>
    let? id := dstr id in let? owner := dstr owner in let? bd := dstr bd in let? ba := dnum ba in
    let? ab := dnum ab in let? qd := dstr qd in let? qa := dnum qa in let? aq := dnum aq in
    let? fee := dopt dcoin fee in let? af := dnum af in let? price := dstr price in
    Some (mkbid (mkcoin ba bd) ab aq af fee id owner price (mkcoin qa qd))
  | _ => None
  end.
Definition dbid2 (args : list string) : option bid2 :=
  match args with
  | [id; owner; bd; ba; qd; qa; fee; price; evs] =>
    let? id := dstr id in let? owner := dstr owner in let? bd := dstr bd in let? ba := dnum ba in
    let? qd := dstr qd in let? qa := dnum qa in let? fee := dopt dcoin fee in let? price := dstr price in
    let? evs := devents evs in
    Some (mkbid2 (mkcoin ba bd) evs fee id owner price (mkcoin qa qd))
  | _ => None
  end.

(* ---------------------------------------------------------------- event loop *)
Definition malformed (line : string) : list string := ["EV " +++ line; "OUT err malformed"; "END"].
Definition block (line : string) (body : list string) : list string := ("EV " +++ line) :: body ++ ["END"].
Definition err_line (t : N) : string := "OUT err " +++ show_N t.

(* run an entry point; probes restore the state afterwards *)
Definition finish (r : rstate) (line : string) (probe : bool) (o : res (state * resp))
  : rstate * list string :=
  match o with
  | Ok (st', rp) => (if probe then r else with_st r st', block line ("OUT ok" :: presp rp ++ dump st'))
  | Refused t => (r, block line [err_line t])
  end.

Definition strip_ev (line : string) : string :=
  if String.prefix "EV " line then substring 3 (String.length line - 3) line else line.

Definition is_trace_kw (k : string) : bool :=
  mem k ["OUT"; "MSG"; "ATTR"; "QRY"; "STORAGE"; "ASK"; "ASKX"; "BID3"; "BID2"; "BIDX"; "CFG"; "VER";
         "END"; "XKEY"].

Definition step_line (r : rstate) (raw : string) : rstate * list string :=
  let line := strip_ev raw in
  let e := env_of r in
  let fx := rs_fix r in
  let st := rs_st r in
  match split " " line with
  | [] => (r, [])
  | kw :: args =>
    if str_empty kw || String.prefix "#" kw then (r, []) else
    if is_trace_kw kw then (r, []) else
    match kw, args with
    | "META", [c; v; a] =>
      match dstr c, dstr v, dstr a with
      | Some c, Some v, Some a =>
        (mkrs (rs_st r) (rs_markers r) (rs_attrs r) c v a (rs_fix r), block line [])
      | _, _, _ => (r, malformed line)
      end
    | "H", _ => (mkrs empty_state [] [] (rs_crate r) (rs_version r) (rs_self r) (rs_fix r), block line [])
    | "ENV", [ms; ats] =>
      match dlist dmarker ms, dlist dattr ats with
      | Some m, Some a => (mkrs (rs_st r) m a (rs_crate r) (rs_version r) (rs_self r) (rs_fix r), block line [])
      | _, _ => (r, malformed line)
      end
    | "INST", _sender :: rest | "INSTX", _sender :: rest =>     (* ...X: sent as JSON with an undeclared member *)
      match dinst rest with
      | Some m => finish r line false (instantiate e st m)
      | None => (r, malformed line)
      end
    | "INSTF", funds :: _sender :: rest =>          (* instantiate with funds attached: they play no part *)
      match dlist dcoin funds, dinst rest with
      | Some _, Some m => finish r line false (instantiate e st m)
      | _, _ => (r, malformed line)
      end
    | "EXEC", sender :: funds :: kind :: rest =>
      match dstr sender, dlist dcoin funds, dexec kind rest with
      | Some s, Some f, Some m => finish r line false (execute fx e st s f m)
      | _, _, _ => (r, malformed line)
      end
    | "PEXEC", sender :: funds :: kind :: rest =>
      match dstr sender, dlist dcoin funds, dexec kind rest with
      | Some s, Some f, Some m => finish r line true (execute fx e st s f m)
      | _, _, _ => (r, malformed line)
      end
    | "MIGRATE", _ =>
      match dmig args with Some m => finish r line false (migrate e st m) | None => (r, malformed line) end
    | "PMIGRATE", _ =>
      match dmig args with Some m => finish r line true (migrate e st m) | None => (r, malformed line) end
    | "QUERY", _ =>
      let qm := match args with
                | ["get_ask"; id] => let? id := dstr id in Some (GetAsk id)
                | ["get_bid"; id] => let? id := dstr id in Some (GetBid id)
                | ["get_contract_info"] => Some GetContractInfo
                | ["get_version_info"] => Some GetVersionInfo
                | _ => None
                end in
      match qm with
      | Some m => (r, block line (match query st m with
                                  | Ok v => ["OUT ok"; pqres v]
                                  | Refused t => [err_line t]
                                  end))
      | None => (r, malformed line)
      end
    | "SEEDVER", [d; v] =>
      match dstr d, dstr v with
      | Some d, Some v =>
        let st' := mkstate (st_cfg st) (Some (d, v)) (st_asks st) (st_bids st) in
        (with_st r st', block line ("OUT ok" :: dump st'))
      | _, _ => (r, malformed line)
      end
    | "SEEDNOVER", [] =>
      let st' := mkstate (st_cfg st) None (st_asks st) (st_bids st) in
      (with_st r st', block line ("OUT ok" :: dump st'))
    | "SEEDCFG", _ =>
      match dcfg args with
      | Some c => let st' := set_cfg st c in (with_st r st', block line ("OUT ok" :: dump st'))
      | None => (r, malformed line)
      end
    | "SEEDASK", k :: rest =>
      match dstr k, dask rest with
      | Some k, Some a => let st' := set_asks st (insert k a (st_asks st)) in
                          (with_st r st', block line ("OUT ok" :: dump st'))
      | _, _ => (r, malformed line)
      end
    | "SEEDBID3", k :: rest =>
      match dstr k, dbid3 rest with
      | Some k, Some b => let st' := set_bids st (insert k (SlotV3 b) (st_bids st)) in
                          (with_st r st', block line ("OUT ok" :: dump st'))
      | _, _ => (r, malformed line)
      end
    | "SEEDBID2", k :: rest | "SEEDBID2X", k :: rest =>      (* ...X: the same record stored with an undeclared JSON member *)
      match dstr k, dbid2 rest with
      | Some k, Some b => let st' := set_bids st (insert k (SlotV2 b) (st_bids st)) in
                          (with_st r st', block line ("OUT ok" :: dump st'))
      | _, _ => (r, malformed line)
      end
    | _, _ => (r, malformed line)
    end
  end.

(* follow-mode wrapper: processes the dump lines of the implementation's trace *)
Definition adoptable (kw : string) : bool :=
  mem kw ["INST"; "INSTF"; "INSTX"; "EXEC"; "MIGRATE"; "SEEDVER"; "SEEDNOVER"; "SEEDCFG"; "SEEDASK"; "SEEDBID3"; "SEEDBID2"; "SEEDBID2X"].
Definition run_line (r : rstate) (raw : string) : rstate * list string :=
  let f := rs_follow r in
  if negb (fo_on f) then
    let '(r', out) := step_line r raw in (with_follow r' f, out)
  else
  if String.prefix "EV " raw then
    let kw := match split " " (strip_ev raw) with k :: _ => k | [] => "" end in
    let '(r', out) := step_line r raw in
    (* the state this event starts from is the one the implementation dumped last: does it satisfy the invariant of the
       theorems?  (InvCheck.inv_check_iff: inv_check st = true <-> Inv st) *)
    let out := if mem kw ["EXEC"; "PEXEC"; "QUERY"; "MIGRATE"; "PMIGRATE"]
               then match out with
                    | [] => []
                    | _ => removelast out ++ [if inv_check (rs_st r) then "INV 1" else "INV 0"; "END"]
                    end
               else out in
    (with_follow r' (mkfollow true (adoptable kw) false empty_state), out)
  else
  match split " " raw with
  | "END" :: _ =>
    let r' := if fo_adopt f && fo_seen f then with_st r (fo_acc f) else r in
    (with_follow r' (mkfollow true false false empty_state), [])
  | "ASK" :: k :: rest =>
    match dstr k, dask rest with
    | Some k, Some a => (with_follow r (mkfollow true (fo_adopt f) (fo_seen f)
                           (set_asks (fo_acc f) (st_asks (fo_acc f) ++ [(k, a)]))), [])
    | _, _ => (r, [])
    end
  | "BID3" :: k :: rest =>
    match dstr k, dbid3 rest with
    | Some k, Some b => (with_follow r (mkfollow true (fo_adopt f) (fo_seen f)
                           (set_bids (fo_acc f) (st_bids (fo_acc f) ++ [(k, SlotV3 b)]))), [])
    | _, _ => (r, [])
    end
  | "BID2" :: k :: rest =>
    match dstr k, dbid2 rest with
    | Some k, Some b => (with_follow r (mkfollow true (fo_adopt f) (fo_seen f)
                           (set_bids (fo_acc f) (st_bids (fo_acc f) ++ [(k, SlotV2 b)]))), [])
    | _, _ => (r, [])
    end
  | "CFG" :: rest =>
    let acc := fo_acc f in
    let acc' := match dcfg rest with
                | Some c => mkstate (Some c) (st_ver acc) (st_asks acc) (st_bids acc)
                | None => mkstate None (st_ver acc) (st_asks acc) (st_bids acc)
                end in
    (with_follow r (mkfollow true (fo_adopt f) true acc'), [])
  | ["VER"; d; v] =>
    let acc := fo_acc f in
    match dstr d, dstr v with
    | Some d, Some v => (with_follow r (mkfollow true (fo_adopt f) (fo_seen f)
                           (mkstate (st_cfg acc) (Some (d, v)) (st_asks acc) (st_bids acc))), [])
    | _, _ => (r, [])
    end
  | _ => (r, [])
  end.

(* ---------------------------------------------------------------- decimal differential mode *)
Definition pdec (d : dec) : string :=
  words [show_N (d_mant d); show_N (d_scale d); if d_neg d then "1" else "0"].
Definition pdecv (d : dec) : string := if d_mant d =? 0 then "0 0 0" else pdec d.
Definition ddec (m s n : string) : option dec :=
  let? m := dnum m in let? s := dnum s in let? n := dnum n in Some (mkdec (n =? 1) m s).
Definition dec_case (line : string) : string :=
  let out := match split " " line with
  | ["mul"; m1; s1; n1; m2; s2; n2] =>
    match ddec m1 s1 n1, ddec m2 s2 n2 with
    | Some a, Some b => match dec_mul a b with Some r => pdecv r | None => "none" end
    | _, _ => "bad"
    end
  | ["div"; m1; s1; n1; m2; s2; n2] =>
    match ddec m1 s1 n1, ddec m2 s2 n2 with
    | Some a, Some b =>
      if (d_scale a =? 0) && (d_scale b =? 0) && negb (d_neg a) && negb (d_neg b) then
        match dec_div_int (d_mant a) (d_mant b) with Some r => pdecv r | None => "none" end
      else "unsupported"
    | _, _ => "bad"
    end
  | ["rnd"; m; s; n] =>
    match ddec m s n with
    | Some a => let r := dec_round0 a in
                pdec r +++ " " +++ match dec_to_u128 r with Some v => show_N v | None => "none" end
    | None => "bad"
    end
  | ["parse"; t] =>
    match dstr t with
    | Some s => match dec_parse s with Some r => pdec r | None => "err" end
    | None => "bad"
    end
  | ["str"; m; s; n] => match ddec m s n with Some a => enc (dec_to_string a) | None => "bad" end
  | ["cmp"; m1; s1; n1; m2; s2; n2] =>
    match ddec m1 s1 n1, ddec m2 s2 n2 with
    | Some a, Some b => match dec_cmp a b with Lt => "lt" | Eq => "eq" | Gt => "gt" end
    | _, _ => "bad"
    end
  | ["fract"; m; s; n] =>
    match ddec m s n with Some a => if dec_has_fract a then "nonzero" else "zero" | None => "bad" end
  | ["sub"; m1; s1; n1; m2; s2; n2] =>
    match ddec m1 s1 n1, ddec m2 s2 n2 with
    | Some a, Some b => match dec_sub_int a b with Some r => pdecv r | None => "none" end
    | _, _ => "bad"
    end
  | ["u128"; m; s; n] =>
    match ddec m s n with
    | Some a => match dec_to_u128 a with Some v => show_N v | None => "none" end
    | None => "bad"
    end
  (* the two other ported crates, case by case: Uuid::parse_str / util::is_hyphenated_uuid_str / the hyphenated form;
     Version::parse and the four version requirements the contract uses *)
  | ["uuid"; t] =>
    match dstr t with
    | Some s => match uuid_parse s with
                | Some nib => "1 " +++ (if uuid_canonical s then "1" else "0") +++ " " +++ enc (uuid_hyphenated nib)
                | None => "0"
                end
    | None => "bad"
    end
  | ["ver"; t] =>
    match dstr t with
    | Some s => match version_parse s with
                | Some v => words [show_N (v_major v); show_N (v_minor v); show_N (v_patch v); if v_has_pre v then "1" else "0";
                                   if req_ge_0_16_2 v then "1" else "0"; if req_ge_0_15_0 v then "1" else "0";
                                   if req_window v then "1" else "0"; if req_lt_0_16_2 v then "1" else "0"]
                | None => "err"
                end
    | None => "bad"
    end
  | _ => "bad"
  end in line +++ " => " +++ out.

(* whole-file runner, for vm_compute cross-checks *)
Fixpoint run_lines (r : rstate) (ls : list string) : list string :=
  match ls with
  | [] => []
  | l :: rest => let '(r', out) := run_line r l in out ++ run_lines r' rest
  end.
