(* MigrateProofs: C14 (migration gate / effect / idempotence) and C15 (bid format conversion). *)
From ATS Require Import Prelude Dec DecFacts Uuid Semver Types Contract Tactics Spec.
Ltac Zify.zify_post_hook ::= Z.div_mod_to_equations.

Definition migrated_cfg (c : cfg) (m : migmsg) (af bf : option feeinfo) : cfg :=
  mkcfg (cf_name c) (cf_bind c) (cf_base c) (cf_conv c) (cf_quotes c)
        (opt_list (cf_approvers c) (g_approvers m)) (cf_executors c) af bf
        (opt_list (cf_ask_attrs c) (g_aattrs m)) (opt_list (cf_bid_attrs c) (g_battrs m))
        (cf_precision c) (cf_increment c).

Lemma migrate_inv e st m st' r :
  migrate e st m = Ok (st', r) ->
  exists d vs v c af bf bids',
    opt_pair_ok (g_afr m) (g_afa m) = true /\ opt_pair_ok (g_bfr m) (g_bfa m) = true /\
    st_ver st = Some (d, vs) /\ version_parse vs = Some v /\ req_ge_0_16_2 v = true /\
    st_cfg st = Some c /\ opt_addrs_ok e (g_approvers m) = true /\
    fee_pair e (cf_ask_fee c) (g_afa m) (g_afr m) = Ok af /\
    fee_pair e (cf_bid_fee c) (g_bfa m) (g_bfr m) = Ok bf /\
    convert_slots (req_window v) (st_bids st) = Ok bids' /\
    st' = mkstate (Some (migrated_cfg c m af bf)) (Some (e_crate_name e, e_pkg_version e)) (st_asks st) bids' /\
    r = mkresp [] [].
Proof.
  unfold migrate. intros H. guard_inv H Hv. bind_inv H v Hver. guard_inv H Hge. bind_inv H c Hc. guard_inv H Had.
  bind_inv H af Haf. bind_inv H bf Hbf. guard_inv H Hge2. bind_inv H bids' Hb. injection H as <- <-.
  unfold validate_mig in Hv. apply andb_prop in Hv as [Hp1 Hp2]. apply get_cfg_ok in Hc.
  unfold stored_version in Hver. destruct (st_ver st) as [[d vs]|] eqn:Ev; [|discriminate]. apply of_opt_ok in Hver.
  exists d, vs, v, c, af, bf, bids'. repeat split; auto.
Qed.

(* the converse: a request meeting the gate is carried out (with [migrate_inv]: an "if and only if") *)
Lemma ge_0_16_2_ge_0_15_0 v : req_ge_0_16_2 v = true -> req_ge_0_15_0 v = true.
Proof.
  unfold req_ge_0_16_2, req_ge_0_15_0, ver_ge, ver_cmp. intros H. apply andb_prop in H as [Hp H]. rewrite Hp. cbn [andb].
  destruct (N.compare_spec (v_major v) 0) as [E1|E1|E1]; try discriminate H; try reflexivity.
  destruct (N.compare_spec (v_minor v) 16) as [E2|E2|E2]; try discriminate H.
  - rewrite E2. reflexivity.
  - destruct (N.compare_spec (v_minor v) 15) as [E3|E3|E3]; try reflexivity; exfalso; lia.
Qed.

Lemma migrate_if e st m d vs v c af bf bids' :
  opt_pair_ok (g_afr m) (g_afa m) = true -> opt_pair_ok (g_bfr m) (g_bfa m) = true ->
  st_ver st = Some (d, vs) -> version_parse vs = Some v -> req_ge_0_16_2 v = true ->
  st_cfg st = Some c -> opt_addrs_ok e (g_approvers m) = true ->
  fee_pair e (cf_ask_fee c) (g_afa m) (g_afr m) = Ok af ->
  fee_pair e (cf_bid_fee c) (g_bfa m) (g_bfr m) = Ok bf ->
  convert_slots (req_window v) (st_bids st) = Ok bids' ->
  migrate e st m = Ok (mkstate (Some (migrated_cfg c m af bf)) (Some (e_crate_name e, e_pkg_version e)) (st_asks st) bids',
                       mkresp [] []).
Proof.
  intros Hp1 Hp2 Hver Hparse Hge Hc Had Haf Hbf Hconv.
  unfold migrate, validate_mig. rewrite Hp1, Hp2. cbn [andb guard bind].
  unfold stored_version. rewrite Hver, Hparse. cbn [of_opt bind]. rewrite Hge. cbn [guard bind].
  unfold get_cfg. rewrite Hc. cbn [of_opt bind]. rewrite Had. cbn [guard bind]. rewrite Haf, Hbf. cbn [bind].
  rewrite (ge_0_16_2_ge_0_15_0 v Hge). cbn [guard bind]. rewrite Hconv. cbn [bind]. reflexivity.
Qed.

(* ---- the conversion of one bid ---- *)
Fixpoint list_sum (l : list N) : N := match l with [] => 0 | x :: r => x + list_sum r end.
Lemma sum_checked_ok l : forall acc s, sum_checked l acc = Ok s -> s = acc + list_sum l.
Proof.
  induction l as [|x l IH]; intros acc s; cbn [sum_checked list_sum].
  - intros H. injection H as <-. lia.
  - intros H. bind_inv H s' Hs. apply checked_add_ok in Hs as [-> _]. apply IH in H. lia.
Qed.

Lemma convert_bid_spec o b :
  convert_bid o = Ok b ->
  b_base b = b2_base o /\ b_quote b = b2_quote o /\ b_fee b = b2_fee o /\ b_id b = b2_id o /\
  b_owner b = b2_owner o /\ b_price b = b2_price o /\
  b_acc_base b = list_sum (map ev_base (b2_events o)) /\
  b_acc_quote b = list_sum (map ev_quote (b2_events o)) /\
  b_acc_fee b = list_sum (map ev_fee (b2_events o)).
Proof.
  unfold convert_bid. intros H. bind_inv H sb Hsb. bind_inv H sq Hsq. bind_inv H sf Hsf. injection H as <-.
  apply sum_checked_ok in Hsb, Hsq, Hsf. cbn. repeat split; auto.
Qed.

(* ---- the conversion of the bid book ---- *)
Lemma convert_slots_lookup w : forall l l' k,
  convert_slots w l = Ok l' ->
  match lookup k l with
  | None => lookup k l' = None
  | Some (SlotV3 b) => lookup k l' = Some (SlotV3 b)
  | Some (SlotV2 o) => if w then exists b, convert_bid o = Ok b /\ lookup k l' = Some (SlotV3 b)
                       else lookup k l' = Some (SlotV2 o)
  end.
Proof.
  induction l as [|[k0 s] l IH]; intros l' k; cbn [convert_slots lookup].
  - intros H. injection H as <-. reflexivity.
  - destruct s as [b|o].
    + intros H. bind_inv H r' Hr. injection H as <-. cbn [lookup]. destruct (String.eqb k k0); [reflexivity|].
      exact (IH _ k eq_refl).
    + destruct w.
      * intros H. bind_inv H b Hb. bind_inv H r' Hr. injection H as <-. cbn [lookup].
        destruct (String.eqb k k0); [eauto|]. exact (IH _ k eq_refl).
      * intros H. bind_inv H r' Hr. injection H as <-. cbn [lookup]. destruct (String.eqb k k0); [reflexivity|].
        exact (IH _ k eq_refl).
Qed.
Lemma convert_slots_keys w : forall l l', convert_slots w l = Ok l' -> map fst l' = map fst l.
Proof.
  induction l as [|[k0 s] l IH]; intros l'; cbn [convert_slots].
  - intros H. injection H as <-. reflexivity.
  - destruct s as [b|o]; [|destruct w].
    + intros H. bind_inv H r' Hr. injection H as <-. cbn. f_equal. auto.
    + intros H. bind_inv H b Hb. bind_inv H r' Hr. injection H as <-. cbn. f_equal. auto.
    + intros H. bind_inv H r' Hr. injection H as <-. cbn. f_equal. auto.
Qed.
Lemma convert_slots_off : forall l, convert_slots false l = Ok l.
Proof.
  induction l as [|[k0 s] l IH]; cbn [convert_slots]; [reflexivity|].
  destruct s; rewrite IH; cbn [bind]; reflexivity.
Qed.
Fixpoint no_v2 (l : list (string * bslot)) : Prop :=
  match l with [] => True | (_, SlotV2 _) :: _ => False | _ :: r => no_v2 r end.
Lemma convert_slots_on_no_v2 : forall l l', convert_slots true l = Ok l' -> no_v2 l'.
Proof.
  induction l as [|[k0 s] l IH]; intros l'; cbn [convert_slots].
  - intros H. injection H as <-. exact I.
  - destruct s as [b|o].
    + intros H. bind_inv H r' Hr. injection H as <-. cbn. eauto.
    + intros H. bind_inv H b Hb. bind_inv H r' Hr. injection H as <-. cbn. eauto.
Qed.
Lemma convert_slots_id w : forall l, no_v2 l -> convert_slots w l = Ok l.
Proof.
  induction l as [|[k0 s] l IH]; cbn [convert_slots no_v2]; [reflexivity|].
  destruct s as [b|o]; [|contradiction]. intros H. rewrite IH; [reflexivity|exact H].
Qed.

(* ---- idempotence ---- *)
Lemma fee_pair_idem e cur a r f : fee_pair e cur a r = Ok f -> fee_pair e f a r = Ok f.
Proof.
  unfold fee_pair. destruct a as [a|], r as [r|]; auto.
Qed.
Lemma opt_list_idem cur new : opt_list (opt_list cur new) new = opt_list cur new.
Proof. destruct new; reflexivity. Qed.

Lemma migrate_idempotent e st m st' r :
  migrate e st m = Ok (st', r) ->
  (forall ver, version_parse (e_pkg_version e) = Some ver -> req_window ver = false) ->
  forall st'' r', migrate e st' m = Ok (st'', r') -> st'' = st'.
Proof.
  intros H Hpkg st'' r' H2.
  apply migrate_inv in H as (d & vs & v & c & af & bf & bids' & Hp1 & Hp2 & Hver & Hv & Hge & Hc & Had & Haf & Hbf & Hb & -> & _).
  apply migrate_inv in H2 as (d2 & vs2 & v2 & c2 & af2 & bf2 & bids2 & _ & _ & Hver2 & Hv2 & _ & Hc2 & _ & Haf2 & Hbf2 & Hb2 & -> & _).
  cbn in Hver2, Hc2, Hb2. injection Hver2 as <- <-. injection Hc2 as <-.
  cbn [migrated_cfg cf_ask_fee cf_bid_fee] in Haf2, Hbf2.
  rewrite (fee_pair_idem _ _ _ _ _ Haf) in Haf2. injection Haf2 as <-.
  rewrite (fee_pair_idem _ _ _ _ _ Hbf) in Hbf2. injection Hbf2 as <-.
  rewrite (Hpkg _ Hv2) in Hb2. rewrite convert_slots_off in Hb2. injection Hb2 as <-.
  unfold migrated_cfg. cbn. rewrite !opt_list_idem. reflexivity.
Qed.

Lemma migrate_refused_unsupported e st m :
  (match st_ver st with
   | None => True
   | Some (_, vs) => match version_parse vs with None => True | Some v => req_ge_0_16_2 v = false end
   end) -> is_ok (migrate e st m) = false.
Proof.
  intros H. destruct (migrate e st m) as [[st' r]|t] eqn:E; [|reflexivity]. exfalso.
  apply migrate_inv in E as (d & vs & v & c & af & bf & bids' & _ & _ & Hver & Hv & Hge & _).
  rewrite Hver, Hv in H. congruence.
Qed.
