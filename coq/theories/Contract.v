(* Contract: executable model of src/contract.rs, src/msg.rs (validate), src/bid_order.rs,
   src/contract_info.rs, src/execute/modify_contract.rs, src/version_info.rs, src/util.rs.
   One function per Rust function, same checks, same arithmetic.  Definitions only. *)
From ATS Require Import Prelude Dec Uuid Semver Types.

(* ---------------------------------------------------------------- Uint128 helpers *)
Definition checked_add (a b : N) : res N := if a + b <=? U128MAX then Ok (a + b) else Refused 90.
(* checked_sub -> Err; plain `-` -> panic: both refuse *)
Definition checked_sub (a b : N) (tag : N) : res N := if b <=? a then Ok (a - b) else Refused tag.

(* ---------------------------------------------------------------- decimal helpers *)
(* Decimal::from(u128) / Decimal::from_u128(x).unwrap() *)
Definition dec_of_u128 (n : N) : res dec := of_opt (dec_from_u128 n) 80.
(* price.checked_mul(Decimal::from(size)) *)
Definition mul_size (p : dec) (n : N) : res dec :=
  do dn <- dec_of_u128 n; of_opt (dec_mul p dn) 81.
(* rate.checked_mul(total).round_dp_with_strategy(0, MidpointAwayFromZero).to_u128() *)
Definition round_to_u128 (a : dec) : res N := of_opt (dec_to_u128 (dec_round0 a)) 82.
Definition rate_fee (rate total : dec) : res N :=
  do p <- of_opt (dec_mul rate total) 81; round_to_u128 p.
(* util.rs is_invalid_price_precision *)
Definition invalid_price_precision (p : dec) (precision : N) : res bool :=
  do t <- of_opt (dec_from_u128 (10 ^ precision)) 80;
  do m <- of_opt (dec_mul p t) 81;
  Ok (dec_has_fract m).
(* price string -> positive decimal within precision *)
Definition valid_price (s : string) (precision : N) : res dec :=
  do p <- of_opt (dec_parse s) 20;
  do _ <- guard (negb (dec_is_zero p || dec_is_neg p)) 21;
  do bad <- invalid_price_precision p precision;
  do _ <- guard (negb bad) 22;
  Ok p.

(* ---------------------------------------------------------------- bid_order.rs *)
Definition remaining_base (b : bid) : res N := checked_sub (c_amt (b_base b)) (b_acc_base b) 70.
Definition remaining_quote (b : bid) : res N := checked_sub (c_amt (b_quote b)) (b_acc_quote b) 71.
Definition remaining_fee (b : bid) : res N :=
  match b_fee b with None => Ok 0 | Some f => checked_sub (c_amt f) (b_acc_fee b) 72 end.
(* get_quote_ratio *)
Definition quote_ratio (b : bid) (amount : N) : res dec :=
  do _ <- dec_of_u128 amount;
  do _ <- dec_of_u128 (c_amt (b_quote b));
  of_opt (dec_div_int amount (c_amt (b_quote b))) 73.
(* the fee that must stay escrowed when `rest` of the quote is still unspent:
   ratio.checked_mul(Decimal::from(fee)).round(0, half away).to_u128() *)
Definition fee_for_rest (b : bid) (fee_amt rest : N) : res N :=
  do ratio <- quote_ratio b rest;
  do f <- dec_of_u128 fee_amt;
  do p <- of_opt (dec_mul ratio f) 81;
  round_to_u128 p.
(* calculate_fee: None when the order has no fee or the amount due is 0 *)
Definition calculate_fee (b : bid) (gross : N) : res (option N) :=
  match b_fee b with
  | None => Ok None
  | Some f =>
    do rq <- remaining_quote b;
    do rest <- checked_sub rq gross 74;
    do keep <- fee_for_rest b (c_amt f) rest;
    do rf <- remaining_fee b;
    do due <- checked_sub rf keep 75;
    Ok (if 0 <? due then Some due else None)
  end.
Definition opt_amt (o : option N) : N := match o with Some x => x | None => 0 end.
(* update_remaining_amounts; Refund is a Fill of base 0 *)
Definition accumulate (b : bid) (base quote : N) (fee : option N) : res bid :=
  do ab <- checked_add (b_acc_base b) base;
  do af <- match fee with Some f => checked_add (b_acc_fee b) f | None => Ok (b_acc_fee b) end;
  do aq <- checked_add (b_acc_quote b) quote;
  Ok (mkbid (b_base b) ab aq af (b_fee b) (b_id b) (b_owner b) (b_price b) (b_quote b)).

(* BidOrderV2 sums (`.sum::<Uint128>()` panics on overflow) and From<BidOrderV2> *)
Definition ev_base (a : action) : N := match a with AFill b _ _ => b | AReject b _ _ => b | ARefund _ _ => 0 end.
Definition ev_quote (a : action) : N := match a with AFill _ q _ => q | AReject _ q _ => q | ARefund q _ => q end.
Definition ev_fee (a : action) : N :=
  match a with AFill _ _ f => opt_amt f | AReject _ _ f => opt_amt f | ARefund _ f => opt_amt f end.
Fixpoint sum_checked (l : list N) (acc : N) : res N :=
  match l with [] => Ok acc | x :: r => do s <- checked_add acc x; sum_checked r s end.
Definition convert_bid (o : bid2) : res bid :=
  do sb <- sum_checked (map ev_base (b2_events o)) 0;
  do sq <- sum_checked (map ev_quote (b2_events o)) 0;
  do sf <- sum_checked (map ev_fee (b2_events o)) 0;
  Ok (mkbid (b2_base o) sb sq sf (b2_fee o) (b2_id o) (b2_owner o) (b2_price o) (b2_quote o)).

(* ---------------------------------------------------------------- attribute strings *)
Definition q (s : string) : string := String """"%char (String.append s """").
Definition coin_json (c : coin) : string :=
  "{""denom"":" ++ q (c_denom c) ++ ",""amount"":" ++ q (show_N (c_amt c)) ++ "}".
Definition class_json (c : aclass) : string :=
  match c with
  | Basic => q "Basic"
  | Pending => "{""Convertible"":{""status"":""PendingIssuerApproval""}}"
  | Ready ap cb =>
    "{""Convertible"":{""status"":{""Ready"":{""approver"":" ++ q ap ++ ",""converted_base"":"
      ++ coin_json cb ++ "}}}}"
  end.
Definition coin_debug (c : coin) : string :=
  "Coin { " ++ show_N (c_amt c) ++ " " ++ q (c_denom c) ++ " }".
Definition bool_str (b : bool) : string := if b then "true" else "false".

Section Contract.
Variable fx : fixes.
Variable e : env.

(* ---------------------------------------------------------------- util.rs transfers *)
(* transfer_marker_coins(0) is an Err that add_transfer unwraps: a panic *)
Definition add_transfer (restricted : bool) (amt : N) (d to : string) : res msg :=
  if restricted then
    (if amt =? 0 then Refused 91 else Ok (Xfer (e_self e) to (mkcoin amt d) (e_self e)))
  else Ok (Bank to (mkcoin amt d)).
Definition pay (amt : N) (d to : string) : res msg := add_transfer (is_restricted e d) amt d to.
(* escrow pull-in from the sender for a restricted marker *)
Definition pull_in (amt : N) (d from : string) : res msg :=
  if amt =? 0 then Refused 91 else Ok (Xfer from (e_self e) (mkcoin amt d) (e_self e)).
Definition funds_ok (restricted : bool) (funds : list coin) (amt : N) (d : string) : bool :=
  if restricted then list_empty funds else coins_eqb funds [mkcoin amt d].
Definition has_attrs (required : list string) (sender : string) : bool :=
  list_empty required || subset required (e_attrs e sender).

Definition get_cfg (st : state) : res cfg := of_opt (st_cfg st) 1.
Definition load_ask (st : state) (k : string) : res ask := of_opt (lookup k (st_asks st)) 3.
Definition load_bid (st : state) (k : string) : res bid :=
  match lookup k (st_bids st) with Some (SlotV3 b) => Ok b | _ => Refused 4 end.
Definition set_asks (st : state) (m : list (string * ask)) : state :=
  mkstate (st_cfg st) (st_ver st) m (st_bids st).
Definition set_bids (st : state) (m : list (string * bslot)) : state :=
  mkstate (st_cfg st) (st_ver st) (st_asks st) m.
Definition set_cfg (st : state) (c : cfg) : state :=
  mkstate (Some c) (st_ver st) (st_asks st) (st_bids st).

(* ---------------------------------------------------------------- msg.rs validate *)
Definition opt_pair_ok (a b : option string) : bool :=
  match a, b with Some _, Some _ => true | None, None => true | _, _ => false end.
Definition opt_size_ok (s : option N) : bool := match s with Some n => 1 <=? n | None => true end.
Definition opt_nonempty (l : option (list string)) : bool :=
  match l with Some v => negb (list_empty v) | None => true end.
Definition validate_exec (m : emsg) : bool :=
  match m with
  | ApproveAsk id base size => uuid_canonical id && negb (str_empty base) && (1 <=? size)
  | CreateAsk id base quote price size =>
    uuid_canonical id && negb (str_empty base) && negb (str_empty quote) && negb (str_empty price)
    && (1 <=? size)
  | CreateBid id base _ price quote qsize size =>
    uuid_canonical id && negb (str_empty base) && negb (str_empty price) && negb (str_empty quote)
    && (1 <=? qsize) && (1 <=? size)
  | CancelAsk id | CancelBid id | ExpireAsk id | ExpireBid id => uuid_valid id
  | ExecuteMatch aid bid price size =>
    uuid_canonical aid && uuid_canonical bid && negb (str_empty price) && (1 <=? size)
  | RejectAsk id size | RejectBid id size => uuid_valid id && opt_size_ok size
  | ModifyContract m =>
    opt_nonempty (m_approvers m) && opt_nonempty (m_executors m)
    && opt_pair_ok (m_afr m) (m_afa m) && opt_pair_ok (m_bfr m) (m_bfa m)
  end.
Definition validate_inst (m : instmsg) : bool :=
  negb (str_empty (i_name m)) && negb (str_empty (i_base m)) && negb (list_empty (i_quotes m))
  && negb (list_empty (i_executors m)) && opt_pair_ok (i_afr m) (i_afa m)
  && opt_pair_ok (i_bfr m) (i_bfa m) && (i_precision m <=? 18) && (1 <=? i_increment m).
Definition validate_mig (m : migmsg) : bool :=
  opt_pair_ok (g_afr m) (g_afa m) && opt_pair_ok (g_bfr m) (g_bfa m).
Definition validate_query (m : qmsg) : bool :=
  match m with GetAsk id | GetBid id => uuid_valid id | _ => true end.

(* ---------------------------------------------------------------- fee pairs, address lists *)
Definition addrs_ok (l : list string) : bool := forallb (e_addr_ok e) l.
(* (Some account, Some rate): ("","") clears, otherwise the rate must parse and the account validate;
   anything else leaves the current value *)
Definition fee_pair (cur : option feeinfo) (account rate : option string) : res (option feeinfo) :=
  match account, rate with
  | Some a, Some r =>
    if str_empty a && str_empty r then Ok None
    else
      do _ <- of_opt (dec_parse r) 30;
      do _ <- guard (e_addr_ok e a) 31;
      Ok (Some (mkfee a r))
  | _, _ => Ok cur
  end.

(* ---------------------------------------------------------------- instantiate *)
Definition instantiate (st : state) (m : instmsg) : res (state * resp) :=
  do _ <- guard (validate_inst m) 10;
  do _ <- guard (addrs_ok (i_approvers m)) 31;
  do _ <- guard (addrs_ok (i_executors m)) 31;
  do af <- fee_pair None (i_afa m) (i_afr m);
  do bf <- fee_pair None (i_bfa m) (i_bfr m);
  do _ <- guard (i_increment m mod (10 ^ i_precision m) =? 0) 11;
  let c := mkcfg (i_name m) "" (i_base m) (i_conv m) (i_quotes m) (i_approvers m) (i_executors m)
                 af bf (i_aattrs m) (i_battrs m) (i_precision m) (i_increment m) in
  Ok (mkstate (Some c) (Some (e_crate_name e, e_pkg_version e)) (st_asks st) (st_bids st),
      mkresp [] [("action", "init")]).

(* ---------------------------------------------------------------- approve_ask *)
Definition approve_ask (st : state) (sender : string) (funds : list coin) (id base : string) (size : N)
  : res (state * resp) :=
  do c <- get_cfg st;
  do _ <- guard (mem sender (cf_approvers c)) 2;
  let restricted := is_restricted e base in
  do _ <- guard (funds_ok restricted funds size base) 5;
  do a <- load_ask st id;
  do _ <- guard (match a_class a with Pending => true | _ => false end) 40;
  do _ <- guard ((size =? a_size a) && String.eqb base (cf_base c)) 5;
  let a' := mkask (a_id a) (a_owner a) (Ready sender (mkcoin size base)) (a_base a) (a_quote a)
                  (a_price a) (a_size a) in
  do msgs <- (if restricted then do m <- pull_in size base sender; Ok [m] else Ok []);
  Ok (set_asks st (insert id a' (st_asks st)),
      mkresp msgs [("action", "approve_ask"); ("id", a_id a'); ("class", class_json (a_class a'));
                   ("quote", a_quote a'); ("price", a_price a'); ("size", show_N (a_size a'))]).

(* ---------------------------------------------------------------- create_ask *)
Definition create_ask (st : state) (sender : string) (funds : list coin)
           (id base quote price : string) (size : N) : res (state * resp) :=
  do c <- get_cfg st;
  do _ <- guard (String.eqb base (cf_base c) || mem base (cf_conv c)) 41;
  let restricted := is_restricted e base in
  do _ <- guard (funds_ok restricted funds size base) 5;
  do _ <- guard (mem quote (cf_quotes c)) 42;
  do _ <- guard (size mod cf_increment c =? 0) 43;
  do _ <- valid_price price (cf_precision c);
  do _ <- guard (has_attrs (cf_ask_attrs c) sender) 2;
  let cls := if String.eqb base (cf_base c) then Basic else Pending in
  do _ <- guard (match lookup id (st_asks st) with None => true | Some _ => false end) 44;
  let a := mkask id sender cls base quote price size in
  do msgs <- (if restricted then do m <- pull_in size base sender; Ok [m] else Ok []);
  Ok (set_asks st (insert id a (st_asks st)),
      mkresp msgs [("action", "create_ask"); ("id", id); ("class", class_json cls);
                   ("target_base", cf_base c); ("base", base); ("quote", quote); ("price", price);
                   ("size", show_N size)]).

(* ---------------------------------------------------------------- create_bid *)
Definition create_bid (st : state) (sender : string) (funds : list coin)
           (id base : string) (fee : option coin) (price quote : string) (qsize size : N)
  : res (state * resp) :=
  do c <- get_cfg st;
  do p <- valid_price price (cf_precision c);
  do _ <- guard (size mod cf_increment c =? 0) 43;
  do total <- mul_size p size;
  do _ <- guard (negb (dec_has_fract total)) 45;
  do dq <- dec_of_u128 qsize;
  do _ <- guard (dec_eqb total dq) 5;
  do rate <- match cf_bid_fee c with
             | Some f => of_opt (dec_parse (f_rate f)) 30
             | None => Ok dec_zero
             end;
  do calc <- rate_fee rate total;
  do _ <- match fee with
          | Some f => guard ((c_amt f =? calc) && String.eqb (c_denom f) quote) 46
          | None => guard (calc =? 0) 46
          end;
  do _ <- guard (mem quote (cf_quotes c)) 42;
  do _ <- guard (String.eqb base (cf_base c)) 41;
  do _ <- guard (has_attrs (cf_bid_attrs c) sender) 2;
  let restricted := is_restricted e quote in
  do tot <- of_opt (dec_to_u128 total) 82;
  do due <- checked_add tot (match fee with Some f => c_amt f | None => 0 end);
  do _ <- guard (funds_ok restricted funds due quote) 5;
  do _ <- guard (match lookup id (st_bids st) with None => true | Some _ => false end) 44;
  let b := mkbid (mkcoin size base) 0 0 0 fee id sender price (mkcoin qsize quote) in
  do pulled <- checked_add qsize (match fee with Some f => c_amt f | None => 0 end);
  do msgs <- (if restricted then do m <- pull_in pulled quote sender; Ok [m] else Ok []);
  Ok (set_bids st (insert id (SlotV3 b) (st_bids st)),
      mkresp msgs [("action", "create_bid"); ("base", base); ("id", id);
                   ("fee", match fee with Some f => coin_debug f | None => "None" end);
                   ("price", price); ("quote", quote); ("quote_size", show_N qsize);
                   ("size", show_N size)]).

(* ---------------------------------------------------------------- cancel_ask *)
Definition cancel_ask (st : state) (sender : string) (funds : list coin) (id : string)
  : res (state * resp) :=
  do _ <- guard (list_empty funds) 6;
  do a <- load_ask st id;
  do _ <- guard (String.eqb sender (a_owner a)) 2;
  do m1 <- pay (a_size a) (a_base a) (a_owner a);
  do ms <- match a_class a with
           | Ready ap cb => do m2 <- pay (c_amt cb) (c_denom cb) ap; Ok [m1; m2]
           | _ => Ok [m1]
           end;
  Ok (set_asks st (remove (a_id a) (st_asks st)),
      mkresp ms [("action", "cancel_ask"); ("id", a_id a)]).

(* ---------------------------------------------------------------- reverse_ask (expire / reject) *)
Definition lot_ok (c : cfg) (csz : option N) (eff : N) : bool :=
  if fix_exit_lot fx then match csz with None => true | Some _ => eff mod cf_increment c =? 0 end
  else eff mod cf_increment c =? 0.

Definition reverse_ask (st : state) (sender : string) (funds : list coin) (id action : string)
           (csz : option N) : res (state * resp) :=
  do _ <- guard (negb (str_empty id)) 2;
  do _ <- guard (list_empty funds) 6;
  do c <- get_cfg st;
  do _ <- guard (mem sender (cf_executors c)) 2;
  do a <- load_ask st id;
  let eff := match csz with None => a_size a | Some s => s end in
  do _ <- guard (lot_ok c csz eff) 43;
  do size' <- checked_sub (a_size a) eff 43;
  let cls' := match a_class a with
              | Ready ap cb => if fix_reject_converted fx then Ready ap (mkcoin size' (c_denom cb))
                               else Ready ap cb
              | x => x
              end in
  let a' := mkask (a_id a) (a_owner a) cls' (a_base a) (a_quote a) (a_price a) size' in
  do m1 <- pay eff (a_base a) (a_owner a);
  do ms <- match a_class a with
           | Ready ap cb => do m2 <- pay eff (c_denom cb) ap; Ok [m1; m2]
           | _ => Ok [m1]
           end;
  let open := negb (size' =? 0) in
  Ok (set_asks st (if open then insert (a_id a) a' (st_asks st) else remove (a_id a) (st_asks st)),
      mkresp ms [("action", action); ("id", id); ("reverse_size", show_N eff);
                 ("order_open", bool_str open)]).

(* ---------------------------------------------------------------- reverse_bid (cancel / expire / reject) *)
Definition reverse_bid (st : state) (sender : string) (funds : list coin) (id action : string)
           (is_cancel : bool) (csz : option N) : res (state * resp) :=
  do _ <- guard (negb (str_empty id)) 2;
  do _ <- guard (list_empty funds) 6;
  do c <- get_cfg st;
  do b <- load_bid st id;
  do _ <- guard (if is_cancel then String.eqb sender (b_owner b) else mem sender (cf_executors c)) 2;
  do rb <- remaining_base b;
  let eff := match csz with None => rb | Some s => s end in
  do _ <- guard (lot_ok c csz eff) 43;
  do _ <- guard (eff <=? rb) 43;
  do p <- of_opt (dec_parse (b_price b)) 20;
  do tq <- mul_size p eff;
  do _ <- guard (negb (dec_has_fract tq)) 45;
  do cq <- of_opt (dec_to_u128 tq) 82;
  do cf <- match b_fee b with
           | Some f =>
             do rq <- remaining_quote b;
             do rest <- checked_sub rq cq 74;
             do keep <- fee_for_rest b (c_amt f) rest;
             do rf <- remaining_fee b;
             do back <- checked_sub rf keep 43;
             Ok (Some back)
           | None => Ok None
           end;
  do b' <- accumulate b eff cq cf;
  do m1 <- pay cq (c_denom (b_quote b)) (b_owner b);
  do ms <- match cf with
           | Some back => if 0 <? back then do m2 <- pay back (c_denom (b_quote b)) (b_owner b); Ok [m1; m2]
                          else Ok [m1]
           | None => Ok [m1]
           end;
  do rb' <- remaining_base b';
  let open := negb (rb' =? 0) in
  Ok (set_bids st (if open then insert (b_id b) (SlotV3 b') (st_bids st) else remove (b_id b) (st_bids st)),
      mkresp ms [("action", action); ("id", id); ("reverse_size", show_N eff);
                 ("order_open", bool_str open)]).

(* ---------------------------------------------------------------- execute_match *)
Definition price_rule (ap bp xp : dec) : bool :=
  match dec_cmp ap bp with
  | Lt => dec_eqb xp ap || dec_eqb xp bp
  | Eq => dec_eqb xp ap
  | Gt => false
  end.
Definition skip_zero (amt : N) : bool := fix_zero_net fx && (amt =? 0).

Definition execute_match (st : state) (sender : string) (funds : list coin)
           (ask_id bid_id price : string) (size : N) : res (state * resp) :=
  do c <- get_cfg st;
  do _ <- guard (mem sender (cf_executors c)) 2;
  do _ <- guard (list_empty funds) 6;
  do a <- load_ask st ask_id;
  do b <- load_bid st bid_id;
  let qd := c_denom (b_quote b) in
  do _ <- guard (String.eqb (a_quote a) qd) 42;
  do ap <- of_opt (dec_parse (a_price a)) 20;
  do bp <- of_opt (dec_parse (b_price b)) 20;
  do xp <- of_opt (dec_parse price) 20;
  do _ <- guard (price_rule ap bp xp) 50;
  do rb <- remaining_base b;
  do _ <- guard ((size <=? a_size a) && (size <=? rb)) 51;
  do gross_d <- mul_size xp size;
  do _ <- guard (negb (dec_has_fract gross_d)) 45;
  do gross <- of_opt (dec_to_u128 gross_d) 82;
  let size' := a_size a - size in
  let cls' := match a_class a with Ready ap0 cb => Ready ap0 (mkcoin size' (c_denom cb)) | x => x end in
  let a' := mkask (a_id a) (a_owner a) cls' (a_base a) (a_quote a) (a_price a) size' in
  let base_r := is_restricted e (a_base a) in
  let quote_r := is_restricted e qd in
  (* ask fee *)
  do af <- match cf_ask_fee c with
           | Some fi => do r <- of_opt (dec_parse (f_rate fi)) 30; rate_fee r gross_d
           | None => Ok 0
           end;
  do m_af <- match cf_ask_fee c with
             | Some fi => if af =? 0 then Ok [] else do m <- add_transfer quote_r af qd (f_account fi); Ok [m]
             | None => Ok []
             end;
  do net <- checked_sub gross af 52;
  (* bid fee *)
  do bfee <- calculate_fee b gross;
  do m_bf <- match bfee with
             | Some f => match cf_bid_fee c with
                         | Some fi => do m <- add_transfer quote_r f qd (f_account fi); Ok [m]
                         | None => Refused 53
                         end
             | None => Ok []
             end;
  (* proceeds and base *)
  do m_settle <- match a_class a with
    | Basic =>
      do m_net <- (if skip_zero net then Ok [] else do m <- add_transfer quote_r net qd (a_owner a); Ok [m]);
      do m_base <- add_transfer base_r size (a_base a) (b_owner b);
      Ok (m_net ++ [m_base])
    | Ready apr cb =>
      do m_b <- add_transfer (if fix_conv_marker fx then is_restricted e (c_denom cb) else base_r)
                             size (c_denom cb) (b_owner b);
      do m_c <- add_transfer base_r size (a_base a) apr;
      do m_net <- (if skip_zero net then Ok [] else do m <- add_transfer quote_r net qd apr; Ok [m]);
      Ok ([m_b; m_c] ++ m_net)
    | Pending => Refused 54
    end;
  (* price improvement *)
  do fill <- accumulate b size gross bfee;
  do r <- (if dec_ltb xp bp then
      do og_d <- mul_size bp size;
      do _ <- guard (negb (dec_has_fract og_d)) 45;
      do diff <- of_opt (dec_sub_int og_d gross_d) 81;
      do refund <- of_opt (dec_to_u128 diff) 45;
      do og <- of_opt (dec_to_u128 og_d) 82;
      do ofee <- calculate_fee b og;
      do frefund <- match bfee, ofee with
                    | Some act, Some o => do d <- checked_sub o act 55; Ok (if 0 <? d then Some d else None)
                    | None, Some o => if fix_zero_fee_refund fx then Ok (Some o) else Ok None
                    | _, None => Ok None
                    end;
      do m_ref <- (if 0 <? refund then
                     do m1 <- add_transfer quote_r refund qd (b_owner b);
                     match frefund with
                     | Some fr => do m2 <- add_transfer quote_r fr qd (b_owner b); Ok [m1; m2]
                     | None => Ok [m1]
                     end
                   else Ok []);
      do b'' <- accumulate fill 0 refund frefund;
      Ok (b'', m_ref)
    else Ok (fill, []));
  let '(b', m_ref) := r in
  do rb' <- remaining_base b';
  let asks' := if size' =? 0 then remove ask_id (st_asks st) else insert ask_id a' (st_asks st) in
  let bids' := if rb' =? 0 then remove bid_id (st_bids st) else insert bid_id (SlotV3 b') (st_bids st) in
  Ok (mkstate (st_cfg st) (st_ver st) asks' bids',
      mkresp (m_af ++ m_bf ++ m_settle ++ m_ref)
             [("action", "execute"); ("ask_id", ask_id); ("bid_id", bid_id);
              ("base", c_denom (b_base b)); ("quote", a_quote a); ("price", dec_to_string xp);
              ("size", show_N size); ("ask_fee", show_N af); ("bid_fee", show_N (opt_amt bfee))]).

(* ---------------------------------------------------------------- modify_contract *)
Definition check_attrs_frozen (nonempty : bool) (new : option (list string)) : bool :=
  if nonempty then match new with None => true | Some _ => false end else true.
(* check_fee_rate: with open orders on the side a supplied rate must equal the current one as a number *)
Definition check_fee_rate (nonempty : bool) (cur : option feeinfo) (rate account : option string) : bool :=
  if nonempty then
    match rate with
    | Some r =>
      match cur with
      | Some f => match dec_parse (f_rate f), dec_parse r with
                  | Some a, Some b => dec_eqb a b
                  | _, _ => false           (* unwrap panics *)
                  end
      | None => false
      end
    | None => true
    end
  else true.
(* version gate of modify_contract_info *)
Definition modify_version_ok (st : state) : bool :=
  match st_ver st with
  | Some (_, v) => match version_parse v with Some ver => negb (req_lt_0_16_2 ver) | None => false end
  | None => false
  end.
Definition opt_list (cur : list string) (new : option (list string)) : list string :=
  match new with Some l => l | None => cur end.
Definition opt_addrs_ok (new : option (list string)) : bool :=
  match new with Some l => addrs_ok l | None => true end.

Definition modify_contract (st : state) (sender : string) (funds : list coin) (m : modmsg)
  : res (state * resp) :=
  do c <- get_cfg st;
  do _ <- guard (mem sender (cf_executors c)) 2;
  do _ <- guard (if fix_modify_funds fx then list_empty funds else true) 6;
  let has_ask := negb (list_empty (st_asks st)) in
  let has_bid := negb (list_empty (st_bids st)) in
  do _ <- guard (check_attrs_frozen has_ask (m_aattrs m)) 60;
  do _ <- guard (check_fee_rate has_ask (cf_ask_fee c) (m_afr m) (m_afa m)) 61;
  do _ <- guard (check_attrs_frozen has_bid (m_battrs m)) 60;
  do _ <- guard (check_fee_rate has_bid (cf_bid_fee c) (m_bfr m) (m_bfa m)) 61;
  do _ <- guard (if has_ask || has_bid then
                   match m_approvers m with Some l => subset (cf_approvers c) l | None => true end
                 else true) 62;
  do _ <- guard (modify_version_ok st) 63;
  do _ <- guard (opt_addrs_ok (m_approvers m)) 31;
  do _ <- guard (opt_addrs_ok (m_executors m)) 31;
  do af <- fee_pair (cf_ask_fee c) (m_afa m) (m_afr m);
  do bf <- fee_pair (cf_bid_fee c) (m_bfa m) (m_bfr m);
  let c' := mkcfg (cf_name c) (cf_bind c) (cf_base c) (cf_conv c) (cf_quotes c)
                  (opt_list (cf_approvers c) (m_approvers m)) (opt_list (cf_executors c) (m_executors m))
                  af bf (opt_list (cf_ask_attrs c) (m_aattrs m)) (opt_list (cf_bid_attrs c) (m_battrs m))
                  (cf_precision c) (cf_increment c) in
  Ok (set_cfg st c', mkresp [] [("action", "modify_contract")]).

(* ---------------------------------------------------------------- execute dispatch *)
Definition execute (st : state) (sender : string) (funds : list coin) (m : emsg) : res (state * resp) :=
  do _ <- guard (validate_exec m) 10;
  match m with
  | ApproveAsk id base size => approve_ask st sender funds id base size
  | CreateAsk id base quote price size => create_ask st sender funds id base quote price size
  | CreateBid id base fee price quote qsize size => create_bid st sender funds id base fee price quote qsize size
  | CancelAsk id => cancel_ask st sender funds id
  | CancelBid id => reverse_bid st sender funds id "cancel_bid" true None
  | ExecuteMatch aid bid price size => execute_match st sender funds aid bid price size
  | ExpireAsk id => reverse_ask st sender funds id "expire_ask" None
  | ExpireBid id => reverse_bid st sender funds id "expire_bid" false None
  | RejectAsk id size => reverse_ask st sender funds id "reject_ask" size
  | RejectBid id size => reverse_bid st sender funds id "reject_bid" false size
  | ModifyContract mm => modify_contract st sender funds mm
  end.

(* ---------------------------------------------------------------- migrate *)
Definition stored_version (st : state) : res version :=
  match st_ver st with
  | Some (_, v) => of_opt (version_parse v) 64
  | None => Refused 64
  end.
Fixpoint convert_slots (window : bool) (m : list (string * bslot)) : res (list (string * bslot)) :=
  match m with
  | [] => Ok []
  | (k, SlotV2 o) :: r =>
    if window then do b <- convert_bid o; do r' <- convert_slots window r; Ok ((k, SlotV3 b) :: r')
    else do r' <- convert_slots window r; Ok ((k, SlotV2 o) :: r')
  | (k, s) :: r => do r' <- convert_slots window r; Ok ((k, s) :: r')
  end.
Definition migrate (st : state) (m : migmsg) : res (state * resp) :=
  do _ <- guard (validate_mig m) 10;
  do v <- stored_version st;
  do _ <- guard (req_ge_0_16_2 v) 65;
  do c <- get_cfg st;
  do _ <- guard (opt_addrs_ok (g_approvers m)) 31;
  do af <- fee_pair (cf_ask_fee c) (g_afa m) (g_afr m);
  do bf <- fee_pair (cf_bid_fee c) (g_bfa m) (g_bfr m);
  let c' := mkcfg (cf_name c) (cf_bind c) (cf_base c) (cf_conv c) (cf_quotes c)
                  (opt_list (cf_approvers c) (g_approvers m)) (cf_executors c)
                  af bf (opt_list (cf_ask_attrs c) (g_aattrs m)) (opt_list (cf_bid_attrs c) (g_battrs m))
                  (cf_precision c) (cf_increment c) in
  do _ <- guard (req_ge_0_15_0 v) 65;
  do bids' <- convert_slots (req_window v) (st_bids st);
  Ok (mkstate (Some c') (Some (e_crate_name e, e_pkg_version e)) (st_asks st) bids', mkresp [] []).

(* ---------------------------------------------------------------- query (read-only by type) *)
Definition query (st : state) (m : qmsg) : res qres :=
  do _ <- guard (validate_query m) 10;
  match m with
  | GetAsk id => do a <- load_ask st id; Ok (QAsk a)
  | GetBid id => do b <- load_bid st id; Ok (QBid b)
  | GetContractInfo => do c <- get_cfg st; Ok (QCfg c)
  | GetVersionInfo => match st_ver st with Some (d, v) => Ok (QVer d v) | None => Refused 64 end
  end.

End Contract.
