(* Prelude: result monad, association-list maps, string helpers.  Definitions only + basic map lemmas. *)
From Coq Require Export NArith ZArith Lia List Bool String Ascii.
From Coq Require Import DecimalString.
Export ListNotations.
Open Scope string_scope.
Open Scope list_scope.
Open Scope N_scope.

(* ---------------------------------------------------------------- result monad *)
Inductive res (A : Type) := Ok (a : A) | Refused (tag : N).
Arguments Ok {A} a. Arguments Refused {A} tag.
Definition bind {A B} (r : res A) (k : A -> res B) : res B :=
  match r with Ok a => k a | Refused t => Refused t end.
Notation "'do' x <- e ; k" := (bind e (fun x => k))
  (at level 200, x pattern, e at level 100, k at level 200).
Definition guard (b : bool) (tag : N) : res unit := if b then Ok tt else Refused tag.
Definition of_opt {A} (o : option A) (tag : N) : res A :=
  match o with Some a => Ok a | None => Refused tag end.
Definition is_ok {A} (r : res A) : bool := match r with Ok _ => true | Refused _ => false end.

(* ---------------------------------------------------------------- strings *)
Definition mem (s : string) (l : list string) : bool := existsb (String.eqb s) l.
Definition subset (a b : list string) : bool := forallb (fun x => mem x b) a.
Definition str_empty (s : string) : bool := match s with EmptyString => true | _ => false end.
Definition list_empty {A} (l : list A) : bool := match l with [] => true | _ => false end.

Definition string_of_N (n : N) : string := NilEmpty.string_of_uint (N.to_uint n).
Definition show_N (n : N) : string := if n =? 0 then "0" else string_of_N n.

Fixpoint chars (s : string) : list ascii :=
  match s with EmptyString => [] | String c r => c :: chars r end.
Fixpoint of_chars (l : list ascii) : string :=
  match l with [] => EmptyString | c :: r => String c (of_chars r) end.
Definition code (c : ascii) : N := N_of_ascii c.

(* ---------------------------------------------------------------- association-list maps *)
Section Maps.
  Context {V : Type}.
  Fixpoint lookup (k : string) (m : list (string * V)) : option V :=
    match m with [] => None | (k', v) :: r => if String.eqb k k' then Some v else lookup k r end.
  Fixpoint remove (k : string) (m : list (string * V)) : list (string * V) :=
    match m with
    | [] => []
    | (k', v) :: r => if String.eqb k k' then remove k r else (k', v) :: remove k r
    end.
  Definition insert (k : string) (v : V) (m : list (string * V)) := (k, v) :: remove k m.
  Definition keys (m : list (string * V)) : list string := map fst m.

  Lemma lookup_remove_ne k k' m : k <> k' -> lookup k (remove k' m) = lookup k m.
  Proof.
    intros H. induction m as [|[k0 v] r IH]; cbn; [reflexivity|].
    destruct (String.eqb_spec k' k0) as [->|Hne].
    - destruct (String.eqb_spec k k0); [congruence|]. exact IH.
    - cbn. destruct (String.eqb_spec k k0); [reflexivity|exact IH].
  Qed.
  Lemma lookup_remove_eq k m : lookup k (remove k m) = None.
  Proof.
    induction m as [|[k0 v] r IH]; cbn; [reflexivity|].
    destruct (String.eqb_spec k k0) as [->|Hne]; [exact IH|].
    cbn. destruct (String.eqb_spec k k0); [congruence|exact IH].
  Qed.
  Lemma lookup_insert_ne k k' v m : k <> k' -> lookup k (insert k' v m) = lookup k m.
  Proof.
    intros H. unfold insert. cbn. destruct (String.eqb_spec k k'); [congruence|].
    apply lookup_remove_ne; assumption.
  Qed.
  Lemma lookup_insert_eq k v m : lookup k (insert k v m) = Some v.
  Proof. unfold insert. cbn. rewrite String.eqb_refl. reflexivity. Qed.
  Lemma lookup_remove k k' m :
    lookup k (remove k' m) = if String.eqb k k' then None else lookup k m.
  Proof.
    destruct (String.eqb_spec k k') as [->|H]; [apply lookup_remove_eq|apply lookup_remove_ne; exact H].
  Qed.
  Lemma lookup_insert k k' v m :
    lookup k (insert k' v m) = if String.eqb k k' then Some v else lookup k m.
  Proof.
    destruct (String.eqb_spec k k') as [->|H]; [apply lookup_insert_eq|apply lookup_insert_ne; exact H].
  Qed.
End Maps.
