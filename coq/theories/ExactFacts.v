(* ExactFacts: products formed for lot-multiple sizes at prices within the precision are always exact, so the class
   K_inexact can only arise from match sizes that are not lot multiples. *)
From ATS Require Import Prelude Dec DecFacts Uuid Semver Types Contract Tactics Spec InstProofs.
Ltac Zify.zify_post_hook ::= Z.div_mod_to_equations.

(* value-level: price m/10^s has at most `prec` decimals *)
Definition within_precision (p : dec) (prec : N) : Prop := (d_mant p * 10 ^ prec) mod 10 ^ d_scale p = 0.

Lemma pow10_lt_B96 k : k <= 18 -> 10 ^ k < B96.
Proof.
  intros H. apply N.le_lt_trans with (10 ^ 18); [apply N.pow_le_mono_r; [discriminate|exact H]|]. reflexivity.
Qed.

(* multiplying by a power of ten not exceeding the scale never rounds *)
Lemma dec_mul_pow_exact a k r :
  dec_wf a -> k <= d_scale a -> dec_mul a (dec_of_N (10 ^ k)) = Some r -> mul_is_exact a (dec_of_N (10 ^ k)) r = true.
Proof.
  intros [Hs Hm] Hk. unfold dec_mul, dec_of_N. cbn [d_mant d_scale d_neg]. rewrite N.add_0_r.
  destruct (N.eqb_spec (d_mant a) 0) as [Hz|Hnz]; cbn [orb].
  { intros Hx. injection Hx as <-. unfold mul_is_exact, pow10. cbn. rewrite Hz. reflexivity. }
  destruct (N.eqb_spec (10 ^ k) 0) as [Hz|_]; [exfalso; eapply pow10_nz; eauto|].
  destruct ((d_mant a <? two32) && (10 ^ k <? two32)).
  - destruct (N.ltb_spec 28 (d_scale a)) as [Hgt|Hle]; [lia|]. intros Hx. injection Hx as <-.
    unfold mul_is_exact, pow10. cbn [d_mant d_scale]. rewrite N.add_0_r. apply N.eqb_refl.
  - destruct (rescale_exact (d_mant a * 10 ^ k) (d_scale a) (d_mant a) k) as (m' & s' & Hr & Hle & Hval & _); try lia; try reflexivity.
    rewrite Hr. intros Hx. injection Hx as <-. apply exact_of_rescale; assumption.
Qed.

Lemma precision_check_exact p prec :
  dec_wf p -> prec <= 18 -> invalid_price_precision p prec = Ok false -> within_precision p prec.
Proof.
  intros Hwf Hprec H. unfold within_precision. destruct (N.le_gt_cases (d_scale p) prec) as [Hle|Hgt].
  - replace prec with ((prec - d_scale p) + d_scale p) by lia. rewrite N.pow_add_r, N.mul_assoc. apply N.mod_mul. apply pow10_nz.
  - unfold invalid_price_precision in H. bind_inv H t Ht. bind_inv H m Hm. injection H as Hfr.
    apply of_opt_ok in Ht, Hm. apply dec_from_u128_ok in Ht as [_ ->].
    pose proof (dec_mul_pow_exact p prec m Hwf ltac:(lia) Hm) as Hex.
    pose proof (no_fract_int_value m Hfr) as Hiv.
    pose proof (dec_int_value_exact p (10 ^ prec) m _ Hex Hiv) as E. rewrite E. apply N.mod_mul. apply pow10_nz.
Qed.

Lemma valid_price_within s prec p : prec <= 18 -> valid_price s prec = Ok p -> within_precision p prec.
Proof.
  intros Hprec H. unfold valid_price in H. bind_inv H p0 Hp. guard_inv H Hz. bind_inv H bad Hb. guard_inv H Hnb. injection H as <-.
  apply of_opt_ok in Hp. apply negb_true_iff in Hnb. subst bad. eapply precision_check_exact; eauto. eapply dec_parse_wf; eauto.
Qed.

Lemma int_value_is_exact a n r q :
  dec_int_value r q -> d_mant a * n = q * 10 ^ d_scale a -> mul_is_exact a (dec_of_N n) r = true.
Proof.
  intros (_ & _ & Hm) Hp. unfold mul_is_exact, dec_of_N, pow10 in *. cbn [d_mant d_scale]. rewrite N.add_0_r. apply N.eqb_eq.
  rewrite Hm, Hp. ring.
Qed.

(* lot multiples: size a multiple of the increment, the increment a multiple of 10^precision, the price within the
   precision => the product is a whole number and the contract's multiplication is exact (or fails: never rounds) *)
Lemma lot_product_exact p prec inc size total :
  d_scale p <= 28 -> within_precision p prec -> inc mod 10 ^ prec = 0 -> inc <> 0 -> size mod inc = 0 ->
  dec_mul p (dec_of_N size) = Some total -> size < B96 ->
  mul_is_exact p (dec_of_N size) total = true.
Proof.
  intros Hs Hwp Hinc Hnz Hlot Hmul Hsz.
  pose proof (integral_total (d_mant p) (d_scale p) prec inc size Hinc Hlot Hnz Hwp) as Hint.
  pose proof (N.div_mod (d_mant p * size) (10 ^ d_scale p) (pow10_nz _)) as E. rewrite Hint, N.add_0_r in E.
  set (q := d_mant p * size / 10 ^ d_scale p) in *.
  assert (Hp : d_mant p * size = q * 10 ^ d_scale p) by (rewrite E; ring).
  destruct (N.lt_ge_cases q B96) as [Hq|Hq].
  - destruct (dec_mul_int p size q Hs Hsz Hq Hp) as (r & Hr & Hiv & _). rewrite Hmul in Hr. injection Hr as <-.
    eapply int_value_is_exact; eauto.
  - rewrite (dec_mul_int_overflow p size q Hs Hp Hq) in Hmul. discriminate.
Qed.
