(* InvAsk: preservation of the invariant by the ask-side operations and by configuration changes. *)
From ATS Require Import Prelude Dec DecFacts Uuid Semver Types Contract Tactics Spec Inv.
Ltac Zify.zify_post_hook ::= Z.div_mod_to_equations.

Lemma uuid_canonical_valid s : uuid_canonical s = true -> uuid_valid s = true.
Proof. unfold uuid_canonical, uuid_valid. destruct (uuid_parse s); [reflexivity|discriminate]. Qed.

(* changing only the ask book *)
Lemma Inv_set_asks st m :
  Inv st -> keys_nodup m ->
  (forall c k a, st_cfg st = Some c -> lookup k m = Some a -> ask_ok c k a) ->
  Inv (set_asks st m).
Proof.
  intros [Hc Hv Ha Hb Hna Hnb] Hnd Hm. constructor; cbn; auto.
Qed.
Lemma Inv_set_bids st m :
  Inv st -> keys_nodup m ->
  (forall c k s, st_cfg st = Some c -> lookup k m = Some s -> exists b, s = SlotV3 b /\ bid_ok c k b) ->
  Inv (set_bids st m).
Proof.
  intros [Hc Hv Ha Hb Hna Hnb] Hnd Hm. constructor; cbn; auto.
Qed.

Lemma ask_ok_after c k a size' :
  ask_ok c k a -> 1 <= size' -> ask_ok c k (ask_after a size').
Proof.
  intros (Hid & Hu & Hs & Hcl & Hb & Hq & Hp & Hr) Hs'. unfold ask_after, ask_ok. cbn [a_id a_size a_class a_base a_quote a_price].
  repeat split; auto.
  - destruct (a_class a); try discriminate; apply Hcl; reflexivity.
  - intros Hbase. apply Hcl in Hbase. rewrite Hbase. reflexivity.
  - destruct (a_class a) as [| |ap cb]; auto. rewrite Hr. reflexivity.
Qed.

Lemma Inv_remove_ask st k :
  Inv st -> Inv (set_asks st (remove k (st_asks st))).
Proof.
  intros HI. apply Inv_set_asks; [exact HI|apply nodup_remove; apply HI|].
  intros c k' a Hc Hl. rewrite lookup_remove in Hl. destruct (String.eqb k' k); [discriminate|].
  eapply inv_asks; eauto.
Qed.
Lemma Inv_insert_ask st k a :
  Inv st -> (forall c, st_cfg st = Some c -> ask_ok c k a) -> Inv (set_asks st (insert k a (st_asks st))).
Proof.
  intros HI Hok. apply Inv_set_asks; [exact HI|apply nodup_insert; apply HI|].
  intros c k' a' Hc Hl. rewrite lookup_insert in Hl. destruct (String.eqb_spec k' k) as [->|Hne].
  - injection Hl as <-. auto.
  - eapply inv_asks; eauto.
Qed.
Lemma Inv_remove_bid st k :
  Inv st -> Inv (set_bids st (remove k (st_bids st))).
Proof.
  intros HI. apply Inv_set_bids; [exact HI|apply nodup_remove; apply HI|].
  intros c k' a Hc Hl. rewrite lookup_remove in Hl. destruct (String.eqb k' k); [discriminate|].
  eapply inv_bids; eauto.
Qed.
Lemma Inv_insert_bid st k b :
  Inv st -> (forall c, st_cfg st = Some c -> bid_ok c k b) -> Inv (set_bids st (insert k (SlotV3 b) (st_bids st))).
Proof.
  intros HI Hok. apply Inv_set_bids; [exact HI|apply nodup_insert; apply HI|].
  intros c k' s Hc Hl. rewrite lookup_insert in Hl. destruct (String.eqb_spec k' k) as [->|Hne].
  - injection Hl as <-. eauto.
  - eapply inv_bids; eauto.
Qed.

(* ---- cancel_ask ---- *)
Lemma Inv_cancel_ask e st sender funds id st' r :
  Inv st -> cancel_ask e st sender funds id = Ok (st', r) -> Inv st'.
Proof.
  intros HI H. apply cancel_ask_inv in H as (a & _ & _ & _ & -> & _). apply Inv_remove_ask. exact HI.
Qed.

(* ---- reverse_ask ---- *)
Lemma Inv_reverse_ask e st sender funds id action csz st' r :
  Inv st -> reverse_ask FX e st sender funds id action csz = Ok (st', r) -> Inv st'.
Proof.
  intros HI H. apply reverse_ask_inv in H as (c & a & eff & _ & Hc & _ & Hl & _ & _ & Hle & -> & _).
  pose proof (inv_asks st HI c id a Hc Hl) as Hok.
  destruct (N.eqb_spec (a_size a - eff) 0) as [Hz|Hnz]; [apply Inv_remove_ask; exact HI|].
  assert (Hid : a_id a = id) by apply Hok. rewrite Hid.
  apply Inv_insert_ask; [exact HI|]. intros c' Hc'. rewrite Hc in Hc'. injection Hc' as <-.
  apply ask_ok_after; [exact Hok|lia].
Qed.

(* ---- approve_ask ---- *)
Lemma Inv_approve_ask e st sender funds id base size st' r :
  Inv st -> approve_ask e st sender funds id base size = Ok (st', r) -> Inv st'.
Proof.
  intros HI H. apply approve_ask_inv in H as (c & a & Hc & _ & _ & Hl & Hcl & Hs & Hb & -> & _).
  pose proof (inv_asks st HI c id a Hc Hl) as (Hid & Hu & Hsz & Hbc & Hbb & Hq & Hp & _).
  apply Inv_insert_ask; [exact HI|]. intros c' Hc'. rewrite Hc in Hc'. injection Hc' as <-.
  unfold approved, ask_ok. cbn [a_id a_size a_class a_base a_quote a_price]. subst base.
  repeat split; auto; try discriminate.
  intros Hx. apply Hbc in Hx. congruence.
Qed.

(* ---- modify_contract: only roles, fee infos and attribute lists change ---- *)
Lemma ask_ok_market c c' k a : market c = market c' -> ask_ok c k a -> ask_ok c' k a.
Proof.
  unfold market, ask_ok. intros H. injection H as _ _ Hb Hcv Hq _ _. rewrite <- Hb, <- Hcv, <- Hq. auto.
Qed.
Lemma bid_ok_market c c' k b : market c = market c' -> bid_ok c k b -> bid_ok c' k b.
Proof.
  unfold market, bid_ok. intros H. injection H as _ _ Hb Hcv Hq _ _. rewrite <- Hb, <- Hq. auto.
Qed.
Lemma Inv_modify e st sender funds m st' r :
  Inv st -> execute FX e st sender funds (ModifyContract m) = Ok (st', r) -> Inv st'.
Proof.
  intros HI H. apply modify_contract_inv in H as (c & af & bf & Hc & _ & _ & _ & _ & _ & _ & _ & Hex & _ & _ & _ & _ & -> & _).
  destruct HI as [(c0 & Hc0 & Hok) Hv Ha Hb Hna Hnb]. rewrite Hc in Hc0. injection Hc0 as <-.
  set (c' := mkcfg _ _ _ _ _ _ _ _ _ _ _ _ _).
  assert (Hm : market c = market c') by reflexivity.
  constructor; cbn [set_cfg st_cfg st_ver st_asks st_bids]; auto.
  - exists c'. split; [reflexivity|]. destruct Hok as (H1 & H2 & H3 & H4 & H5 & H6). unfold cfg_ok. cbn.
    repeat split; auto. unfold opt_list. destruct (m_executors m) as [l|] eqn:El; [|exact H4]. apply (Hex l eq_refl).
  - intros c2 k a Hc2 Hl. injection Hc2 as <-. eapply ask_ok_market; [exact Hm|]. eapply Ha; eauto.
  - intros c2 k s Hc2 Hl. injection Hc2 as <-. destruct (Hb c k s Hc Hl) as (b & -> & Hbok).
    exists b. split; [reflexivity|]. eapply bid_ok_market; eauto.
Qed.
