(* InvAsk: preservation of the invariant by the ask-side operations and by configuration changes. *)
From ATS Require Import Prelude Dec DecFacts Uuid Semver Types Contract Tactics Spec ExactFacts Inv.
Ltac Zify.zify_post_hook ::= Z.div_mod_to_equations.

Lemma uuid_canonical_valid s : uuid_canonical s = true -> uuid_valid s = true.
Proof. unfold uuid_canonical, uuid_valid. destruct (uuid_parse s); [reflexivity|discriminate]. Qed.

(* changing only the ask book / only the bid book *)
Lemma InvA_set_asks st m :
  InvA st -> keys_nodup m ->
  (forall c k a, st_cfg st = Some c -> lookup k m = Some a -> ask_ok c k a) ->
  InvA (set_asks st m).
Proof. intros [Hc Hv Ha Hna] Hnd Hm. constructor; cbn; auto. Qed.
Lemma InvA_set_bids st m : InvA st -> InvA (set_bids st m).
Proof. intros [Hc Hv Ha Hna]. constructor; cbn; auto. Qed.
Lemma InvB_set_asks st m : InvB st -> InvB (set_asks st m).
Proof. intros [Hb Hnb Hp]. constructor; cbn; auto. Qed.
Lemma InvB_set_bids st m :
  InvB st -> keys_nodup m ->
  (forall c k s, st_cfg st = Some c -> lookup k m = Some s -> exists b, s = SlotV3 b /\ bid_ok c k b) ->
  (forall c k b p, st_cfg st = Some c -> lookup k m = Some (SlotV3 b) -> dec_parse (b_price b) = Some p ->
                   within_precision p (cf_precision c)) ->
  InvB (set_bids st m).
Proof. intros [Hb Hnb Hp] Hnd Hm Hpm. constructor; cbn; auto. Qed.

Lemma ask_ok_after c k a size' :
  ask_ok c k a -> 1 <= size' -> ask_ok c k (ask_after a size').
Proof.
  intros (Hid & Hu & Hs & Hcl & Hb & Hq & Hp & Hr) Hs'. unfold ask_after, ask_ok. cbn [a_id a_size a_class a_base a_quote a_price].
  repeat split; auto.
  - destruct (a_class a); try discriminate; apply Hcl; reflexivity.
  - intros Hbase. apply Hcl in Hbase. rewrite Hbase. reflexivity.
  - destruct (a_class a) as [| |ap cb]; auto. rewrite Hr. reflexivity.
Qed.

Lemma InvA_remove_ask st k : InvA st -> InvA (set_asks st (remove k (st_asks st))).
Proof.
  intros HI. apply InvA_set_asks; [exact HI|apply nodup_remove; apply HI|].
  intros c k' a Hc Hl. rewrite lookup_remove in Hl. destruct (String.eqb k' k); [discriminate|].
  eapply inv_asks; eauto.
Qed.
Lemma InvA_insert_ask st k a :
  InvA st -> (forall c, st_cfg st = Some c -> ask_ok c k a) -> InvA (set_asks st (insert k a (st_asks st))).
Proof.
  intros HI Hok. apply InvA_set_asks; [exact HI|apply nodup_insert; apply HI|].
  intros c k' a' Hc Hl. rewrite lookup_insert in Hl. destruct (String.eqb_spec k' k) as [->|Hne].
  - injection Hl as <-. auto.
  - eapply inv_asks; eauto.
Qed.
Lemma InvB_remove_bid st k : InvB st -> InvB (set_bids st (remove k (st_bids st))).
Proof.
  intros HI. apply InvB_set_bids; [exact HI|apply nodup_remove; apply HI| |].
  - intros c k' a Hc Hl. rewrite lookup_remove in Hl. destruct (String.eqb k' k); [discriminate|].
    eapply inv_bids; eauto.
  - intros c k' b p Hc Hl Hp. rewrite lookup_remove in Hl. destruct (String.eqb k' k); [discriminate|].
    eapply inv_prec; eauto.
Qed.
Lemma InvB_insert_bid st k b :
  InvB st -> (forall c, st_cfg st = Some c -> bid_ok c k b) ->
  (forall c p, st_cfg st = Some c -> dec_parse (b_price b) = Some p -> within_precision p (cf_precision c)) ->
  InvB (set_bids st (insert k (SlotV3 b) (st_bids st))).
Proof.
  intros HI Hok Hwp. apply InvB_set_bids; [exact HI|apply nodup_insert; apply HI| |].
  - intros c k' s Hc Hl. rewrite lookup_insert in Hl. destruct (String.eqb_spec k' k) as [->|Hne].
    + injection Hl as <-. eauto.
    + eapply inv_bids; eauto.
  - intros c k' b' p Hc Hl Hp. rewrite lookup_insert in Hl. destruct (String.eqb_spec k' k) as [->|Hne].
    + injection Hl as <-. eauto.
    + eapply inv_prec; eauto.
Qed.

(* ---- cancel_ask ---- *)
Lemma InvA_cancel_ask e st sender funds id st' r :
  InvA st -> cancel_ask e st sender funds id = Ok (st', r) -> InvA st'.
Proof.
  intros HI H. apply cancel_ask_inv in H as (a & _ & _ & _ & -> & _). apply InvA_remove_ask. exact HI.
Qed.

(* ---- reverse_ask ---- *)
Lemma InvA_reverse_ask e st sender funds id action csz st' r :
  InvA st -> reverse_ask FX e st sender funds id action csz = Ok (st', r) -> InvA st'.
Proof.
  intros HI H. apply reverse_ask_inv in H as (c & a & eff & _ & Hc & _ & Hl & _ & _ & Hle & -> & _).
  pose proof (inv_asks st HI c id a Hc Hl) as Hok.
  destruct (N.eqb_spec (a_size a - eff) 0) as [Hz|Hnz]; [apply InvA_remove_ask; exact HI|].
  assert (Hid : a_id a = id) by apply Hok. rewrite Hid.
  apply InvA_insert_ask; [exact HI|]. intros c' Hc'. rewrite Hc in Hc'. injection Hc' as <-.
  apply ask_ok_after; [exact Hok|lia].
Qed.

(* ---- approve_ask ---- *)
Lemma InvA_approve_ask e st sender funds id base size st' r :
  InvA st -> approve_ask e st sender funds id base size = Ok (st', r) -> InvA st'.
Proof.
  intros HI H. apply approve_ask_inv in H as (c & a & Hc & _ & _ & Hl & Hcl & Hs & Hb & -> & _).
  pose proof (inv_asks st HI c id a Hc Hl) as (Hid & Hu & Hsz & Hbc & Hbb & Hq & Hp & _).
  apply InvA_insert_ask; [exact HI|]. intros c' Hc'. rewrite Hc in Hc'. injection Hc' as <-.
  unfold approved, ask_ok. cbn [a_id a_size a_class a_base a_quote a_price]. subst base.
  repeat split; auto; try discriminate.
  intros Hx. apply Hbc in Hx. congruence.
Qed.

(* ---- modify_contract: only roles, fee infos and attribute lists change ---- *)
Lemma ask_ok_market c c' k a : market c = market c' -> ask_ok c k a -> ask_ok c' k a.
Proof.
  unfold market, ask_ok. intros H. injection H as _ _ Hb Hcv Hq _ _. rewrite <- Hb, <- Hcv, <- Hq. auto.
Qed.
Lemma bid_ok_market c c' k b : market c = market c' -> bid_ok c k b -> bid_ok c' k b.
Proof.
  unfold market, bid_ok. intros H. injection H as _ _ Hb Hcv Hq _ _. rewrite <- Hb, <- Hq. auto.
Qed.
Lemma Inv_modify e st sender funds m st' r :
  execute FX e st sender funds (ModifyContract m) = Ok (st', r) ->
  (InvA st -> InvA st') /\ (InvB st -> InvB st').
Proof.
  intros H. apply modify_contract_inv in H as (c & af & bf & Hc & _ & _ & _ & _ & _ & _ & _ & Hex & _ & _ & _ & _ & -> & _).
  set (c' := mkcfg _ _ _ _ _ _ _ _ _ _ _ _ _).
  assert (Hm : market c = market c') by reflexivity.
  split.
  - intros [(c0 & Hc0 & Hok) Hv Ha Hna]. rewrite Hc in Hc0. injection Hc0 as <-.
    constructor; cbn [set_cfg st_cfg st_ver st_asks st_bids]; auto.
    + exists c'. split; [reflexivity|]. destruct Hok as (H1 & H2 & H3 & H4 & H5 & H6). unfold cfg_ok. cbn.
      repeat split; auto. unfold opt_list. destruct (m_executors m) as [l|] eqn:El; [|exact H4]. apply (Hex l eq_refl).
    + intros c2 k a Hc2 Hl. injection Hc2 as <-. eapply ask_ok_market; [exact Hm|]. eapply Ha; eauto.
  - intros [Hb Hnb Hp]. constructor; cbn [set_cfg st_cfg st_ver st_asks st_bids]; auto.
    + intros c2 k s Hc2 Hl. injection Hc2 as <-. destruct (Hb c k s Hc Hl) as (b & -> & Hbok).
      exists b. split; [reflexivity|]. eapply bid_ok_market; eauto.
    + intros c2 k b p Hc2 Hl Hpp. injection Hc2 as <-. unfold c'. cbn [cf_precision]. exact (Hp c k b p Hc Hl Hpp).
Qed.

(* ---- create_ask ---- *)
Lemma valid_price_of s prec p : valid_price s prec = Ok p -> price_of s p.
Proof.
  unfold valid_price, price_of. intros H. bind_inv H p0 Hp. guard_inv H Hz. bind_inv H bad Hb. guard_inv H Hnb.
  injection H as <-. apply of_opt_ok in Hp. apply negb_true_iff in Hz. apply orb_false_iff in Hz as [Hz Hn].
  pose proof (dec_parse_wf _ _ Hp) as [Hs _]. unfold dec_is_zero in Hz. apply N.eqb_neq in Hz.
  unfold dec_is_neg in Hn. auto.
Qed.

Lemma InvA_create_ask e st sender funds id base quote price size st' r :
  InvA st -> uuid_canonical id = true -> 1 <= size ->
  create_ask e st sender funds id base quote price size = Ok (st', r) -> InvA st'.
Proof.
  intros HI Hid Hsz H. apply create_ask_iff in H as (c & Hc & (Hb & _ & Hq & _ & (p & Hp) & _ & _) & -> & _).
  apply InvA_insert_ask; [exact HI|]. intros c' Hc'. rewrite Hc in Hc'. injection Hc' as <-.
  unfold new_ask, ask_ok. cbn [a_id a_size a_class a_base a_quote a_price].
  split; [reflexivity|]. split; [apply uuid_canonical_valid; exact Hid|]. split; [exact Hsz|].
  split. { destruct (String.eqb_spec base (cf_base c)); split; auto; try discriminate; congruence. }
  split; [exact Hb|]. split; [exact Hq|]. split; [exists p; eapply valid_price_of; exact Hp|].
  destruct (String.eqb base (cf_base c)); exact I.
Qed.

(* ---- execute_match (ask side) ---- *)
Lemma InvA_execute_match e st sender funds ask_id bid_id price size st' r :
  InvA st -> 1 <= size -> execute_match FX e st sender funds ask_id bid_id price size = Ok (st', r) -> InvA st'.
Proof.
  intros HI Hsz H.
  apply execute_match_inv in H as (c & a & b & ap & bp & xp & rb & gross_d & gross & af & bfee & fill & b' & rb' & imp &
    Hc & _ & _ & Hla & _ & _ & _ & _ & _ & _ & _ & Hle & _ & _ & _ & _ & _ & _ & _ & _ & _ & _ & _ & _ & -> & _).
  pose proof (inv_asks st HI c ask_id a Hc Hla) as Hok.
  set (asks' := if a_size a - size =? 0 then _ else _).
  assert (HA : InvA (set_asks st asks')).
  { unfold asks'. destruct (N.eqb_spec (a_size a - size) 0) as [Hz|Hnz]; [apply InvA_remove_ask; exact HI|].
    apply InvA_insert_ask; [exact HI|]. intros c' Hc'. rewrite Hc in Hc'. injection Hc' as <-.
    apply ask_ok_after; [exact Hok|lia]. }
  destruct HA as [H1 H2 H3 H4]. constructor; cbn in *; auto.
Qed.

(* ---- every execute request preserves the ask-side invariant ---- *)
Theorem InvA_step e st sender funds m st' r :
  InvA st -> execute FX e st sender funds m = Ok (st', r) -> InvA st'.
Proof.
  intros HI H. pose proof H as H0. unfold execute in H. guard_inv H Hv. destruct m; cbn [validate_exec] in Hv.
  - eapply InvA_approve_ask; eauto.
  - eapply InvA_cancel_ask; eauto.
  - apply reverse_bid_inv in H as (c & b & rb & eff & p & tq & cq & back & b' & rb' & _ & _ & _ & _ & _ & _ & _ & _ & _ & _ & _ & _ & _ & _ & _ & -> & _).
    apply InvA_set_bids. exact HI.
  - repeat (apply andb_prop in Hv as [Hv ?]). eapply InvA_create_ask; eauto. apply N.leb_le. assumption.
  - apply create_bid_inv in H as (c & p & total & dq & rate & calc & tot & _ & _ & _ & _ & _ & _ & _ & _ & _ & _ & _ & _ & _ & _ & _ & _ & -> & _).
    apply InvA_set_bids. exact HI.
  - repeat (apply andb_prop in Hv as [Hv ?]). eapply InvA_execute_match; eauto. apply N.leb_le. assumption.
  - eapply InvA_reverse_ask; eauto.
  - apply reverse_bid_inv in H as (c & b & rb & eff & p & tq & cq & back & b' & rb' & _ & _ & _ & _ & _ & _ & _ & _ & _ & _ & _ & _ & _ & _ & _ & -> & _).
    apply InvA_set_bids. exact HI.
  - eapply InvA_reverse_ask; eauto.
  - apply reverse_bid_inv in H as (c & b & rb & eff & p & tq & cq & back & b' & rb' & _ & _ & _ & _ & _ & _ & _ & _ & _ & _ & _ & _ & _ & _ & _ & -> & _).
    apply InvA_set_bids. exact HI.
  - apply Inv_modify in H0 as [HA _]. auto.
Qed.
