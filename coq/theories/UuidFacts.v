(* UuidFacts: the canonical spelling of a uuid is a right inverse of the parser -- every list of 32 hex digits has a
   hyphenated lower-case spelling that parses back to exactly that list and is canonical; every spelling the parser
   accepts denotes such a list.  (What "a canonical hyphenated UUID" in C07 means, and why a legacy spelling and the canonical
   one denote the same identifier but are different keys.) *)
From ATS Require Import Prelude Uuid.
Require Import Lia.

Lemma chars_of_chars l : chars (of_chars l) = l.
Proof. induction l as [|c l IH]; cbn; [reflexivity|]. rewrite IH. reflexivity. Qed.
Lemma of_chars_chars s : of_chars (chars s) = s.
Proof. induction s as [|c s IH]; cbn; [reflexivity|]. rewrite IH. reflexivity. Qed.

Definition nibble (v : N) : Prop := v < 16.

Lemma hexval_hexchar v : nibble v -> hexval (code (hexchar v)) = Some v.
Proof.
  unfold nibble. intros H.
  assert (Hc : In v [0;1;2;3;4;5;6;7;8;9;10;11;12;13;14;15]).
  { assert (E : v = 0 \/ v = 1 \/ v = 2 \/ v = 3 \/ v = 4 \/ v = 5 \/ v = 6 \/ v = 7 \/ v = 8 \/ v = 9 \/ v = 10 \/ v = 11 \/
                v = 12 \/ v = 13 \/ v = 14 \/ v = 15) by lia.
    cbn. intuition. }
  cbn in Hc. repeat (destruct Hc as [<-|Hc]; [vm_compute; reflexivity|]). contradiction.
Qed.

Lemma hexvals_hexchars g : Forall nibble g -> hexvals (map code (map hexchar g)) = Some g.
Proof.
  induction g as [|v g IH]; intros H; [reflexivity|]. inversion H as [|? ? Hv Hg]; subst.
  cbn [map hexvals]. rewrite (hexval_hexchar v Hv), (IH Hg). reflexivity.
Qed.

Lemma hexval_nibble c v : hexval c = Some v -> nibble v.
Proof.
  unfold hexval, nibble. intros H.
  destruct ((48 <=? c) && (c <=? 57)) eqn:E1.
  - injection H as <-. apply andb_prop in E1 as [A B]. apply N.leb_le in A, B. lia.
  - destruct ((97 <=? c) && (c <=? 102)) eqn:E2.
    + injection H as <-. apply andb_prop in E2 as [A B]. apply N.leb_le in A, B. lia.
    + destruct ((65 <=? c) && (c <=? 70)) eqn:E3; [|discriminate].
      injection H as <-. apply andb_prop in E3 as [A B]. apply N.leb_le in A, B. lia.
Qed.
Lemma hexvals_spec l vs : hexvals l = Some vs -> List.length vs = List.length l /\ Forall nibble vs.
Proof.
  revert vs. induction l as [|c l IH]; intros vs H; cbn [hexvals] in H.
  - injection H as <-. split; [reflexivity|constructor].
  - destruct (hexval c) as [v|] eqn:Ev; [|discriminate]. destruct (hexvals l) as [vs'|] eqn:El; [|discriminate].
    injection H as <-. destruct (IH vs' eq_refl) as [Hl Hf]. split; [cbn; rewrite Hl; reflexivity|].
    constructor; [eapply hexval_nibble; eauto|exact Hf].
Qed.

Lemma take_n_app {A} (a b : list A) : take_n (List.length a) (a ++ b) = Some (a, b).
Proof. induction a as [|x a IH]; cbn; [reflexivity|]. rewrite IH. reflexivity. Qed.
Lemma take_n_spec {A} n (l a b : list A) : take_n n l = Some (a, b) -> l = a ++ b /\ List.length a = n.
Proof.
  revert l a b. induction n as [|n IH]; intros l a b H; cbn in H.
  - injection H as <- <-. auto.
  - destruct l as [|x r]; [discriminate|]. destruct (take_n n r) as [[a' b']|] eqn:E; [|discriminate].
    injection H as <- <-. destruct (IH r a' b' E) as [-> <-]. auto.
Qed.

(* a list of exactly 32 hex digits, written in the canonical way, reads back as itself *)
Theorem uuid_parse_hyphenated nib :
  List.length nib = 32%nat -> Forall nibble nib ->
  uuid_parse (uuid_hyphenated nib) = Some nib /\ uuid_canonical (uuid_hyphenated nib) = true.
Proof.
  intros Hlen Hnib.
  assert (P : uuid_parse (uuid_hyphenated nib) = Some nib).
  { do 32 (destruct nib as [|? nib]; [discriminate Hlen|]). destruct nib; [|discriminate Hlen].
    unfold uuid_hyphenated. cbn [take_n]. unfold uuid_parse. rewrite chars_of_chars.
    cbn [map app List.length]. change (code "-"%char) with 45.
    unfold parse_hyphenated. cbn [take_n]. unfold hyphen. change (45 =? 45) with true. cbn [andb app].
    repeat match goal with H : Forall nibble (_ :: _) |- _ => inversion H; subst; clear H end.
    cbn [hexvals].
    repeat match goal with H : nibble ?v |- context [hexval (code (hexchar ?v))] => rewrite (hexval_hexchar v H) end.
    reflexivity. }
  split; [exact P|]. unfold uuid_canonical. rewrite P. apply String.eqb_refl.
Qed.

(* whatever spelling the parser accepts denotes exactly 32 hex digits *)
Theorem uuid_parse_spec s nib : uuid_parse s = Some nib -> List.length nib = 32%nat /\ Forall nibble nib.
Proof.
  unfold uuid_parse. set (l := map code (chars s)).
  assert (PH : forall body, parse_hyphenated body = Some nib -> List.length nib = 32%nat /\ Forall nibble nib).
  { intros body H. unfold parse_hyphenated in H.
    destruct (take_n 8 body) as [[g1 [|h1 r1]]|] eqn:E1; try discriminate.
    destruct (take_n 4 r1) as [[g2 [|h2 r2]]|] eqn:E2; try discriminate.
    destruct (take_n 4 r2) as [[g3 [|h3 r3]]|] eqn:E3; try discriminate.
    destruct (take_n 4 r3) as [[g4 [|h4 r4]]|] eqn:E4; try discriminate.
    destruct (take_n 12 r4) as [[g5 [|]]|] eqn:E5; try discriminate.
    destruct ((h1 =? hyphen) && (h2 =? hyphen) && (h3 =? hyphen) && (h4 =? hyphen)); [|discriminate].
    apply hexvals_spec in H as [Hl Hf]. split; [|exact Hf]. rewrite Hl, !app_length.
    apply take_n_spec in E1 as [_ ->]. apply take_n_spec in E2 as [_ ->]. apply take_n_spec in E3 as [_ ->].
    apply take_n_spec in E4 as [_ ->]. apply take_n_spec in E5 as [_ ->]. reflexivity. }
  intros H.
  destruct (List.length l) as [|n] eqn:El; [discriminate|].
  do 31 (destruct n as [|n]; [discriminate|]).
  destruct n as [|n].
  - apply hexvals_spec in H as [Hl Hf]. split; [rewrite Hl; exact El|exact Hf].
  - do 3 (destruct n as [|n]; [discriminate|]). destruct n as [|n]; [exact (PH l H)|].
    destruct n as [|n]; [discriminate|]. destruct n as [|n].
    + destruct l as [|c r]; [discriminate|]. destruct c as [|p]; [discriminate|].
      repeat (destruct p as [p|p|]; try discriminate).
      destruct (take_n 36 r) as [[body [|x t]]|]; try discriminate.
      destruct x as [|p]; [discriminate|]. repeat (destruct p as [p|p|]; try discriminate).
      destruct t; [|discriminate]. exact (PH body H).
    + do 6 (destruct n as [|n]; [discriminate|]). destruct n as [|n]; [|discriminate].
      destruct (take_n 9 l) as [[p body]|]; [|discriminate]. destruct (list_N_eqb p urn_prefix); [exact (PH body H)|discriminate].
Qed.

(* hence: every valid id has a canonical spelling, which is valid, canonical and denotes the same 32 digits *)
Corollary valid_has_canonical s nib :
  uuid_parse s = Some nib ->
  uuid_parse (uuid_hyphenated nib) = Some nib /\ uuid_canonical (uuid_hyphenated nib) = true /\
  (uuid_canonical s = true <-> s = uuid_hyphenated nib).
Proof.
  intros H. destruct (uuid_parse_spec s nib H) as [Hl Hf]. destruct (uuid_parse_hyphenated nib Hl Hf) as [P C].
  split; [exact P|]. split; [exact C|]. unfold uuid_canonical. rewrite H. apply String.eqb_eq.
Qed.
