(* Reach: facts about every state reachable from an instantiation by any history of execute requests. *)
From ATS Require Import Prelude Dec DecFacts Uuid Semver Types Contract Tactics Spec Inv InvAsk InstProofs AskProofs Frame Evolve.

Lemma keys_ok_run evs : forall st, keys_ok st -> keys_ok (run st evs).
Proof.
  induction evs as [|ev evs IH]; intros st HK; cbn [run fold_left]; [exact HK|].
  apply IH. unfold run_event.
  destruct (execute FX (ev_env ev) st (ev_sender ev) (ev_funds ev) (ev_msg ev)) as [[st' r]|t] eqn:E; [|exact HK].
  eapply fr_keys. eapply execute_framed; eauto.
Qed.
Lemma keys_ok_init e m st0 r : instantiate e empty_state m = Ok (st0, r) -> keys_ok st0.
Proof. intros H. apply instantiate_stored in H as [-> _]. split; cbn; discriminate. Qed.
Lemma keys_ok_reachable e m st0 r evs : instantiate e empty_state m = Ok (st0, r) -> keys_ok (run st0 evs).
Proof. intros H. apply keys_ok_run. eapply keys_ok_init; eauto. Qed.

(* the market parameters never change after instantiation *)
Lemma market_run evs : forall st, keys_ok st -> option_map market (st_cfg (run st evs)) = option_map market (st_cfg st).
Proof.
  induction evs as [|ev evs IH]; intros st HK; [reflexivity|].
  change (run st (ev :: evs)) with (run (run_event st ev) evs).
  unfold run_event.
  destruct (execute FX (ev_env ev) st (ev_sender ev) (ev_funds ev) (ev_msg ev)) as [[st' r]|t] eqn:E; [|apply IH; exact HK].
  pose proof (execute_framed _ _ _ _ _ _ _ HK E) as F. rewrite IH; [apply F|apply F].
Qed.

(* fee rate as a number *)
Definition same_number (f f' : option feeinfo) : Prop :=
  f' = f \/ exists x y a b, f = Some x /\ f' = Some y /\ dec_parse (f_rate x) = Some a /\ dec_parse (f_rate y) = Some b /\
                            dec_eqb a b = true.

Lemma fee_pair_same e cur account rate f :
  opt_pair_ok rate account = true -> (forall r, rate = Some r -> same_rate cur r) ->
  fee_pair e cur account rate = Ok f -> same_number cur f.
Proof.
  unfold fee_pair, same_number. intros Hp Hs H. destruct account as [a|], rate as [r|]; try discriminate.
  - destruct (Hs r eq_refl) as (x & pa & pb & -> & H1 & H2 & H3).
    destruct (str_empty a && str_empty r) eqn:E.
    + apply andb_prop in E as [_ E]. destruct r; [|discriminate]. cbn in H2. discriminate.
    + bind_inv H d Hd. guard_inv H Ha. injection H as <-. right. exists x, (mkfee a r), pa, pb. cbn. auto.
  - injection H as <-. auto.
Qed.

(* a configuration change while asks are open keeps the ask fee rate (as a number) and the ask attributes *)
Lemma modify_keeps_ask_terms e st sender funds m st' r c c' :
  execute FX e st sender funds (ModifyContract m) = Ok (st', r) -> st_cfg st = Some c -> st_cfg st' = Some c' ->
  st_asks st <> [] -> same_number (cf_ask_fee c) (cf_ask_fee c') /\ cf_ask_attrs c' = cf_ask_attrs c.
Proof.
  intros H Hc Hc' Hne. apply modify_contract_inv in H as (c0 & af & bf & Hc0 & _ & _ & Ha & _ & _ & _ & _ & _ & Hp1 & _ & Haf & _ & -> & _).
  rewrite Hc in Hc0. injection Hc0 as <-. cbn in Hc'. injection Hc' as <-. cbn.
  destruct (Ha Hne) as [Hat Hrt]. split; [eapply fee_pair_same; eauto|]. rewrite Hat. reflexivity.
Qed.
Lemma modify_keeps_bid_terms e st sender funds m st' r c c' :
  execute FX e st sender funds (ModifyContract m) = Ok (st', r) -> st_cfg st = Some c -> st_cfg st' = Some c' ->
  st_bids st <> [] -> same_number (cf_bid_fee c) (cf_bid_fee c') /\ cf_bid_attrs c' = cf_bid_attrs c.
Proof.
  intros H Hc Hc' Hne. apply modify_contract_inv in H as (c0 & af & bf & Hc0 & _ & _ & _ & Hb & _ & _ & _ & _ & _ & Hp2 & _ & Hbf & -> & _).
  rewrite Hc in Hc0. injection Hc0 as <-. cbn in Hc'. injection Hc' as <-. cbn.
  destruct (Hb Hne) as [Hat Hrt]. split; [eapply fee_pair_same; eauto|]. rewrite Hat. reflexivity.
Qed.
