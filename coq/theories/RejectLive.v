(* RejectLive: the converse of the size rule of C04 -- an executor's reject of a positive multiple of the size increment not
   exceeding what remains is carried out (asks in any state satisfying InvA, bids in any state satisfying Inv). *)
From ATS Require Import Prelude Dec DecFacts Uuid Semver Types Contract Tactics Spec ExactFacts Inv InvAsk InstProofs AskProofs
  BidFacts DivFacts ProRata InvBid InvStep ExitProofs Ledger MsgProofs MatchProofs AdmitProofs MatchLive.
Ltac Zify.zify_post_hook ::= Z.div_mod_to_equations.

Theorem reject_bid_if e st c id b sender s :
  Inv st -> st_cfg st = Some c -> In sender (cf_executors c) -> lookup id (st_bids st) = Some (SlotV3 b) ->
  1 <= s -> s mod cf_increment c = 0 -> s <= unfilled b ->
  is_ok (execute FX e st sender [] (RejectBid id (Some s))) = true.
Proof.
  intros [HA HB] Hcfg Hex Hl Hs1 Hlot Hle.
  destruct (inv_bids st HB c id _ Hcfg Hl) as (b0 & Hb0 & Hok). injection Hb0 as <-.
  pose proof Hok as (Hid & Hu & Hbd & Hqd & Hab & Haq & Hb96 & Hq96 & (p & Hp & HQ & HU) & Hfee).
  pose proof Hp as (Hparse & Hneg & Hmnz & Hsc).
  destruct (inv_cfg st HA) as (c' & Hc' & (Hprec18 & Hinc1 & Hincm & _)). rewrite Hcfg in Hc'. injection Hc' as <-.
  pose proof (inv_prec st HB c id b p Hcfg Hl Hparse) as Hwp.
  pose proof (pow10_pos (d_scale p)) as Ppos.
  (* price * s is the whole number q, below what is unspent *)
  assert (Hint : (d_mant p * s) mod 10 ^ d_scale p = 0).
  { apply (integral_total (d_mant p) (d_scale p) (cf_precision c) (cf_increment c) s Hincm Hlot); [lia|exact Hwp]. }
  set (q := d_mant p * s / 10 ^ d_scale p).
  assert (Hq : d_mant p * s = q * 10 ^ d_scale p).
  { pose proof (N.div_mod (d_mant p * s) (10 ^ d_scale p) (pow10_nz _)) as E. rewrite Hint, N.add_0_r in E. unfold q. rewrite E at 1. ring. }
  assert (Hqle : q <= unspent b).
  { assert (Hx : q * 10 ^ d_scale p <= unspent b * 10 ^ d_scale p) by (rewrite <- Hq, HU; apply N.mul_le_mono_l; exact Hle).
    apply N.mul_le_mono_pos_r in Hx; [exact Hx|exact Ppos]. }
  assert (Hq1 : 1 <= q) by (destruct (N.eq_dec q 0) as [Hz|]; [rewrite Hz in Hq; nia|lia]).
  assert (Hs96 : s < B96) by (unfold unfilled in Hle; lia).
  assert (Hq96' : q < B96) by (unfold unspent in Hqle; lia).
  destruct (mul_size_live p s q Hsc Hneg Hs96 Hq96' Hq) as (t & Ht & Hfr & Htu).
  (* run the function *)
  unfold execute. cbn [validate_exec opt_size_ok]. rewrite Hu. apply N.leb_le in Hs1. rewrite Hs1. cbn [andb guard bind].
  apply N.leb_le in Hs1.
  unfold reverse_bid.
  assert (Hne : negb (str_empty id) = true) by (destruct id; [cbn in Hu; discriminate|reflexivity]).
  rewrite Hne. cbn [list_empty guard bind]. unfold get_cfg. rewrite Hcfg. cbn [of_opt bind].
  unfold load_bid. rewrite Hl. cbn [bind]. apply mem_In in Hex. rewrite Hex. cbn [guard bind].
  assert (Hrb : remaining_base b = Ok (unfilled b)).
  { unfold remaining_base, checked_sub, unfilled. destruct (N.leb_spec (b_acc_base b) (c_amt (b_base b))); [reflexivity|lia]. }
  rewrite Hrb. cbn [bind]. unfold lot_ok. cbn [fix_exit_lot all_fixes]. apply N.eqb_eq in Hlot. rewrite Hlot. cbn [guard bind].
  apply N.leb_le in Hle. rewrite Hle. cbn [guard bind]. apply N.leb_le in Hle.
  rewrite Hparse. cbn [of_opt bind]. rewrite Ht. cbn [bind]. rewrite Hfr. cbn [negb guard bind]. rewrite Htu. cbn [of_opt bind].
  assert (HU1 : b_acc_base b + s <= U128MAX) by (unfold unfilled, B96, U128MAX in *; lia).
  assert (HU2 : b_acc_quote b + q <= U128MAX) by (unfold unspent, B96, U128MAX in *; lia).
  assert (Hrb' : forall z fe, remaining_base (mkbid (b_base b) (b_acc_base b + s) (b_acc_quote b + q) z fe (b_id b) (b_owner b)
                                                     (b_price b) (b_quote b)) = Ok (unfilled b - s)).
  { intros z fe. unfold remaining_base, checked_sub, unfilled in *. cbn.
    destruct (N.leb_spec (b_acc_base b + s) (c_amt (b_base b))); [f_equal; lia|lia]. }
  destruct (b_fee b) as [f|] eqn:Ef.
  - destruct Hfee as (Hfd & Hfa & Hf96 & HF).
    assert (Hqnz : 0 < c_amt (b_quote b)) by (unfold unspent in Hqle; lia).
    assert (Hrq : remaining_quote b = Ok (unspent b)).
    { unfold remaining_quote, checked_sub, unspent. destruct (N.leb_spec (b_acc_quote b) (c_amt (b_quote b))); [reflexivity|lia]. }
    rewrite Hrq. cbn [bind].
    assert (Hcs : checked_sub (unspent b) q 74 = Ok (unspent b - q)).
    { unfold checked_sub. destruct (N.leb_spec q (unspent b)); [reflexivity|lia]. }
    rewrite Hcs. cbn [bind].
    assert (Hx : unspent b - q <= c_amt (b_quote b)) by (unfold unspent; lia).
    pose proof (fee_for_rest_canon b (c_amt f) (unspent b - q) Hqnz Hq96 Hf96 Hx) as Hk.
    set (keep := Hc (R28 (unspent b - q) (c_amt (b_quote b)) * c_amt f)) in *.
    rewrite Hk. cbn [bind].
    assert (Hkle : keep <= held b).
    { apply (fee_for_rest_mono b (c_amt f) (unspent b - q) (unspent b) keep (held b) Hqnz Hq96 Hf96); try assumption; unfold unspent; lia. }
    assert (Hrf : remaining_fee b = Ok (held b)).
    { unfold remaining_fee, held, checked_sub. rewrite Ef. destruct (N.leb_spec (b_acc_fee b) (c_amt f)); [reflexivity|lia]. }
    rewrite Hrf. cbn [bind].
    assert (Hcs2 : checked_sub (held b) keep 43 = Ok (held b - keep)).
    { unfold checked_sub. destruct (N.leb_spec keep (held b)); [reflexivity|lia]. }
    rewrite Hcs2. cbn [bind].
    assert (HU3 : b_acc_fee b + opt_amt (Some (held b - keep)) <= U128MAX).
    { cbn [opt_amt]. unfold held in *. rewrite Ef in *. unfold B96, U128MAX in *. lia. }
    rewrite (accumulate_live b s q (Some (held b - keep)) HU1 HU2 HU3). cbn [bind opt_amt].
    unfold pay. rewrite pay_live_at by lia. cbn [bind].
    destruct (0 <? held b - keep) eqn:Eh.
    + rewrite pay_live_at by (apply N.ltb_lt in Eh; lia). cbn [bind]. rewrite Hrb'. reflexivity.
    + cbn [bind]. rewrite Hrb'. reflexivity.
  - assert (HU3 : b_acc_fee b + opt_amt (@None N) <= U128MAX) by (cbn [opt_amt]; unfold U128MAX; lia).
    cbn [bind]. rewrite (accumulate_live b s q None HU1 HU2 HU3). cbn [bind opt_amt].
    unfold pay. rewrite pay_live_at by lia. cbn [bind]. rewrite Hrb'. reflexivity.
Qed.

Theorem reject_ask_if e st c id a sender s :
  InvA st -> st_cfg st = Some c -> In sender (cf_executors c) -> lookup id (st_asks st) = Some a ->
  1 <= s -> s mod cf_increment c = 0 -> s <= a_size a ->
  is_ok (execute FX e st sender [] (RejectAsk id (Some s))) = true.
Proof.
  intros HA Hc Hex Hl Hs1 Hlot Hle.
  pose proof (inv_asks st HA c id a Hc Hl) as (Hid & Hu & _ & _ & _ & _ & _ & Hr).
  unfold execute. cbn [validate_exec opt_size_ok]. rewrite Hu. apply N.leb_le in Hs1. rewrite Hs1. cbn [andb guard bind].
  apply N.leb_le in Hs1. unfold reverse_ask.
  assert (Hne : negb (str_empty id) = true) by (destruct id; [cbn in Hu; discriminate|reflexivity]).
  rewrite Hne. cbn [list_empty guard bind]. unfold get_cfg. rewrite Hc. cbn [of_opt bind].
  apply mem_In in Hex. rewrite Hex. cbn [guard bind]. unfold load_ask. rewrite Hl. cbn [of_opt bind].
  unfold lot_ok. cbn [fix_exit_lot all_fixes]. apply N.eqb_eq in Hlot. rewrite Hlot. cbn [guard bind].
  assert (Hcs : checked_sub (a_size a) s 43 = Ok (a_size a - s)).
  { unfold checked_sub. destruct (N.leb_spec s (a_size a)); [reflexivity|lia]. }
  rewrite Hcs. cbn [bind]. unfold pay. rewrite pay_live_at by lia. cbn [bind].
  destruct (a_class a) as [| |ap cb]; cbn [bind]; try reflexivity.
  rewrite pay_live_at by lia. reflexivity.
Qed.
