(* BidFacts: comparison of prices, and the pro-rata fee function at its end points. *)
From ATS Require Import Prelude Dec DecFacts Uuid Semver Types Contract Tactics Spec Inv.
Ltac Zify.zify_post_hook ::= Z.div_mod_to_equations.

(* ---- comparisons with a positive decimal ---- *)
Definition positive_dec (b : dec) : Prop := d_neg b = false /\ d_mant b <> 0.

Lemma dec_cmp_pos a b :
  positive_dec a -> positive_dec b ->
  dec_cmp a b = (d_mant a * pow10 (d_scale b) ?= d_mant b * pow10 (d_scale a)).
Proof. intros [Ha _] [Hb _]. unfold dec_cmp. rewrite Ha, Hb. reflexivity. Qed.

Lemma dec_eqb_pos a b :
  positive_dec b -> dec_eqb a b = true ->
  positive_dec a /\ d_mant a * pow10 (d_scale b) = d_mant b * pow10 (d_scale a).
Proof.
  intros [Hb Hnz]. unfold dec_eqb, dec_cmp. rewrite Hb. cbn [andb].
  pose proof (pow10_pos (d_scale a)) as Pa. pose proof (pow10_pos (d_scale b)) as Pb. unfold pow10 in *.
  destruct (d_neg a) eqn:Ena; cbn [andb].
  - destruct (N.eqb_spec (d_mant a) 0) as [Hz|Hn]; cbn [negb].
    + rewrite Hz. destruct (0 * 10 ^ d_scale b ?= d_mant b * 10 ^ d_scale a) eqn:E; try discriminate.
      apply N.compare_eq in E. nia.
    + discriminate.
  - destruct (d_mant a * 10 ^ d_scale b ?= d_mant b * 10 ^ d_scale a) eqn:E; try discriminate.
    apply N.compare_eq in E. intros _. split; [|exact E]. split; [exact Ena|]. intros Hz. rewrite Hz in E. nia.
Qed.

(* executed at the bid's limit whenever the price rule holds and the execution price is not below it *)
Lemma not_improved_is_bid_price ap bp xp :
  positive_dec ap -> positive_dec bp -> price_rule ap bp xp = true -> dec_ltb xp bp = false ->
  positive_dec xp /\ d_mant xp * pow10 (d_scale bp) = d_mant bp * pow10 (d_scale xp).
Proof.
  intros Hap Hbp Hrule Hnlt. unfold price_rule in Hrule. rewrite (dec_cmp_pos ap bp Hap Hbp) in Hrule.
  pose proof (pow10_pos (d_scale ap)) as Pa. pose proof (pow10_pos (d_scale bp)) as Pb.
  pose proof (pow10_pos (d_scale xp)) as Px. unfold pow10 in *.
  destruct (d_mant ap * 10 ^ d_scale bp ?= d_mant bp * 10 ^ d_scale ap) eqn:E; [| |discriminate].
  - apply N.compare_eq in E. apply (dec_eqb_pos xp ap Hap) in Hrule as [Hxp Hx]. split; [exact Hxp|].
    unfold pow10 in Hx.
    assert (H : d_mant xp * 10 ^ d_scale bp * 10 ^ d_scale ap = d_mant bp * 10 ^ d_scale xp * 10 ^ d_scale ap).
    { replace (d_mant xp * 10 ^ d_scale bp * 10 ^ d_scale ap) with ((d_mant xp * 10 ^ d_scale ap) * 10 ^ d_scale bp) by ring.
      rewrite Hx. replace (d_mant ap * 10 ^ d_scale xp * 10 ^ d_scale bp) with ((d_mant ap * 10 ^ d_scale bp) * 10 ^ d_scale xp) by ring.
      rewrite E. ring. }
    apply N.mul_cancel_r in H; [exact H|lia].
  - apply orb_prop in Hrule as [Hr|Hr]; [|apply (dec_eqb_pos xp bp Hbp) in Hr; exact Hr].
    apply (dec_eqb_pos xp ap Hap) in Hr as [Hxp Hx]. exfalso.
    unfold dec_ltb in Hnlt. rewrite (dec_cmp_pos xp bp Hxp Hbp) in Hnlt. unfold pow10 in *.
    apply N.compare_lt_iff in E.
    assert (Hlt : d_mant xp * 10 ^ d_scale bp < d_mant bp * 10 ^ d_scale xp).
    { assert (H : d_mant xp * 10 ^ d_scale bp * 10 ^ d_scale ap < d_mant bp * 10 ^ d_scale xp * 10 ^ d_scale ap).
      { replace (d_mant xp * 10 ^ d_scale bp * 10 ^ d_scale ap) with ((d_mant xp * 10 ^ d_scale ap) * 10 ^ d_scale bp) by ring.
        rewrite Hx. replace (d_mant ap * 10 ^ d_scale xp * 10 ^ d_scale bp) with ((d_mant ap * 10 ^ d_scale bp) * 10 ^ d_scale xp) by ring.
        replace (d_mant bp * 10 ^ d_scale xp * 10 ^ d_scale ap) with ((d_mant bp * 10 ^ d_scale ap) * 10 ^ d_scale xp) by ring.
        apply N.mul_lt_mono_pos_r; [exact Px|exact E]. }
      apply N.mul_lt_mono_pos_r in H; [exact H|lia]. }
    apply N.compare_lt_iff in Hlt. rewrite Hlt in Hnlt. discriminate.
Qed.

(* ---- the pro-rata fee function at 0 and at the whole quote; it depends on the bid through its quote only ---- *)
Lemma fee_for_rest_ext b b' f x : c_amt (b_quote b') = c_amt (b_quote b) -> fee_for_rest b' f x = fee_for_rest b f x.
Proof. intros H. unfold fee_for_rest, quote_ratio. rewrite H. reflexivity. Qed.

Lemma fee_for_rest_zero b f : c_amt (b_quote b) <> 0 -> c_amt (b_quote b) < B96 -> f < B96 -> fee_for_rest b f 0 = Ok 0.
Proof.
  intros Hq Hlt Hf. unfold fee_for_rest, quote_ratio, dec_of_u128, dec_from_u128.
  destruct (N.ltb_spec 0 B96) as [_|H0]; [|unfold B96 in H0; lia]. cbn [of_opt bind].
  destruct (N.ltb_spec (c_amt (b_quote b)) B96); [|lia]. cbn [of_opt bind].
  unfold dec_div_int. destruct (N.eqb_spec (c_amt (b_quote b)) 0); [contradiction|]. cbn [N.eqb of_opt bind].
  destruct (N.ltb_spec f B96); [|lia]. cbn [of_opt bind]. reflexivity.
Qed.

Lemma fee_for_rest_full b f :
  c_amt (b_quote b) <> 0 -> c_amt (b_quote b) < B96 -> f < B96 -> fee_for_rest b f (c_amt (b_quote b)) = Ok f.
Proof.
  intros Hq Hlt Hf. set (Q := c_amt (b_quote b)) in *. unfold fee_for_rest, quote_ratio, dec_of_u128, dec_from_u128. fold Q.
  destruct (N.ltb_spec Q B96); [|lia]. cbn [of_opt bind].
  unfold dec_div_int. destruct (N.eqb_spec Q 0); [contradiction|].
  rewrite N.div_same, N.mod_same by assumption. cbn [div_loop N.eqb of_opt bind].
  destruct (N.ltb_spec f B96); [|lia]. cbn [of_opt bind].
  unfold dec_mul, dec_of_N. cbn [d_mant d_scale d_neg N.eqb orb xorb]. rewrite N.mul_1_l.
  destruct (N.eqb_spec f 0) as [->|Hfz]; [reflexivity|].
  change (1 <? two32) with true. cbn [andb N.add].
  destruct (f <? two32).
  - cbn [N.ltb of_opt bind]. change (28 <? 0) with false. cbn [of_opt bind].
    unfold round_to_u128, dec_round0, dec_to_u128. cbn [d_scale d_neg d_mant N.eqb of_opt]. change (pow10 0) with 1.
    rewrite N.div_1_r. reflexivity.
  - unfold rescale. change (0 - 28) with 0. change (least_d 64 f 0) with (if f / pow10 0 <? B96 then 0 else least_d 63 f 1).
    change (pow10 0) with 1. rewrite N.div_1_r. destruct (N.ltb_spec f B96); [|lia]. cbn [N.ltb N.eqb of_opt bind].
    change (0 <? 0) with false. cbn [of_opt bind].
    unfold round_to_u128, dec_round0, dec_to_u128. cbn [d_scale d_neg d_mant N.eqb of_opt]. change (pow10 0) with 1.
    rewrite N.div_1_r. reflexivity.
Qed.
