(* InvBid: preservation of the bid-side invariant (exact quote/base relation, pro-rata fee held). *)
From ATS Require Import Prelude Dec DecFacts DivFacts Uuid Semver Types Contract Tactics Spec ExactFacts Inv InvAsk BidFacts ProRata.
Ltac Zify.zify_post_hook ::= Z.div_mod_to_equations.

(* the product formed for n units at price p carries the exact value (outside the class K_inexact) *)
Definition exact_at (p : dec) (n : N) (t : dec) : Prop := mul_is_exact p (dec_of_N n) t = true.

Lemma mul_size_inv p n t : mul_size p n = Ok t -> n < B96 /\ dec_mul p (dec_of_N n) = Some t.
Proof.
  unfold mul_size, dec_of_u128. intros H. bind_inv H dn Hdn. apply of_opt_ok in Hdn, H.
  apply dec_from_u128_ok in Hdn as [Hlt ->]. auto.
Qed.

Lemma mul_size_units p n t q :
  mul_size p n = Ok t -> exact_at p n t -> dec_has_fract t = false -> dec_to_u128 t = Some q ->
  q * 10 ^ d_scale p = d_mant p * n.
Proof.
  intros Hm Hex Hfr Hq. apply to_u128_value in Hq as [-> _].
  pose proof (no_fract_int_value t Hfr) as Hiv. symmetry. eapply dec_int_value_exact; eauto.
Qed.

(* for an integral exact product below 2^96 the contract's own multiplication succeeds and is exact *)
Lemma mul_size_live p n q :
  d_scale p <= 28 -> d_neg p = false -> n < B96 -> q < B96 -> d_mant p * n = q * 10 ^ d_scale p ->
  exists t, mul_size p n = Ok t /\ dec_has_fract t = false /\ dec_to_u128 t = Some q.
Proof.
  intros Hs Hn Hlt Hq Hprod.
  destruct (dec_mul_int p n q Hs Hlt Hq Hprod) as (r & Hr & (Hf & Hv & _) & Hneg).
  exists r. unfold mul_size, dec_of_u128, dec_from_u128. destruct (N.ltb_spec n B96); [|lia]. cbn [of_opt bind].
  rewrite Hr. cbn [of_opt]. split; [reflexivity|]. split; [exact Hf|]. unfold dec_to_u128. rewrite (Hneg Hn), Hv. reflexivity.
Qed.

Lemma accumulate_eq b x y z b' :
  accumulate b x y z = Ok b' ->
  b' = mkbid (b_base b) (b_acc_base b + x) (b_acc_quote b + y) (b_acc_fee b + opt_amt z) (b_fee b) (b_id b)
             (b_owner b) (b_price b) (b_quote b).
Proof.
  unfold accumulate. intros H. bind_inv H ab Hab. bind_inv H af Haf. bind_inv H aq Haq. injection H as <-.
  apply checked_add_ok in Hab as [-> _]. apply checked_add_ok in Haq as [-> _].
  destruct z; [apply checked_add_ok in Haf as [-> _]|injection Haf as <-; cbn; rewrite N.add_0_r]; reflexivity.
Qed.
Lemma remaining_base_ok b rb : remaining_base b = Ok rb -> rb = unfilled b /\ b_acc_base b <= c_amt (b_base b).
Proof. unfold remaining_base, unfilled. intros H. apply checked_sub_ok in H as [H1 ->]. auto. Qed.
Lemma remaining_quote_ok b rq : remaining_quote b = Ok rq -> rq = unspent b /\ b_acc_quote b <= c_amt (b_quote b).
Proof. unfold remaining_quote, unspent. intros H. apply checked_sub_ok in H as [H1 ->]. auto. Qed.
Lemma remaining_fee_some b f rf : b_fee b = Some f -> remaining_fee b = Ok rf -> rf = held b /\ b_acc_fee b <= c_amt f.
Proof. unfold remaining_fee, held. intros ->. intros H. apply checked_sub_ok in H as [H1 ->]. auto. Qed.

Lemma price_of_fun s p p' : price_of s p -> price_of s p' -> p' = p.
Proof. intros [H _] [H' _]. congruence. Qed.

(* ---- a bid after consuming `dx` base and `dy` quote with dy*10^s = m*dx, fee held moving to F(unspent') ---- *)
Lemma bid_ok_consume c k b p dx dy fa b' :
  bid_ok c k b -> price_of (b_price b) p ->
  dx < unfilled b -> dy * 10 ^ d_scale p = d_mant p * dx ->
  (match b_fee b with
   | None => fa = 0
   | Some f => exists keep, fee_for_rest b (c_amt f) (unspent b - dy) = Ok keep /\ keep <= held b /\ fa = held b - keep
   end) ->
  b' = mkbid (b_base b) (b_acc_base b + dx) (b_acc_quote b + dy) (b_acc_fee b + fa) (b_fee b) (b_id b)
             (b_owner b) (b_price b) (b_quote b) ->
  bid_ok c k b'.
Proof.
  intros (Hid & Hu & Hbd & Hqd & Hab & Haq & Hb96 & Hq96 & (p0 & Hp0 & HQ & HU) & Hfee) Hp Hdx Hdy Hfz ->.
  pose proof (price_of_fun _ _ _ Hp Hp0) as Hpe. subst p0.
  unfold unfilled, unspent in *. pose proof (pow10_pos (d_scale p)) as Ppos.
  assert (Hdyle : dy <= c_amt (b_quote b) - b_acc_quote b).
  { assert (dy * 10 ^ d_scale p <= (c_amt (b_quote b) - b_acc_quote b) * 10 ^ d_scale p) by (rewrite Hdy, HU; apply N.mul_le_mono_l; lia).
    apply N.mul_le_mono_pos_r in H; [exact H|exact Ppos]. }
  unfold bid_ok. cbn [b_id b_base b_quote b_acc_base b_acc_quote b_acc_fee b_fee b_price].
  split; [exact Hid|]. split; [exact Hu|]. split; [exact Hbd|]. split; [exact Hqd|]. split; [lia|]. split; [lia|].
  split; [exact Hb96|]. split; [exact Hq96|]. split.
  - exists p. split; [exact Hp|]. split; [exact HQ|]. unfold unspent, unfilled. cbn.
    replace (c_amt (b_quote b) - (b_acc_quote b + dy)) with (c_amt (b_quote b) - b_acc_quote b - dy) by lia.
    replace (c_amt (b_base b) - (b_acc_base b + dx)) with (c_amt (b_base b) - b_acc_base b - dx) by lia.
    rewrite N.mul_sub_distr_r, N.mul_sub_distr_l. rewrite HU, Hdy. reflexivity.
  - destruct (b_fee b) as [f|] eqn:Ef.
    + destruct Hfee as (Hfd & Hfa & Hf96 & HF). destruct Hfz as (keep & Hk & Hkle & Hamt).
      unfold held in *. rewrite Ef in *. split; [exact Hfd|]. split; [lia|]. split; [exact Hf96|].
      unfold unspent, held. cbn [b_quote b_acc_quote b_fee b_acc_fee]. 
      match goal with |- fee_for_rest ?bb _ _ = _ => rewrite (fee_for_rest_ext b bb) by reflexivity end.
      replace (c_amt (b_quote b) - (b_acc_quote b + dy)) with (c_amt (b_quote b) - b_acc_quote b - dy) by lia.
      rewrite Hk. f_equal. lia.
    + subst fa. cbn. lia.
Qed.

(* ---------------------------------------------------------------- reverse_bid *)
(* the quote returned by a full exit is computed exactly: no side condition needed *)
Lemma full_exit_quote c k b p tq cq :
  bid_ok c k b -> price_of (b_price b) p -> mul_size p (unfilled b) = Ok tq -> dec_has_fract tq = false ->
  dec_to_u128 tq = Some cq -> cq = unspent b.
Proof.
  intros (Hid & Hu & Hbd & Hqd & Hab & Haq & Hb96 & Hq96 & (p0 & Hp0 & HQ & HU) & Hfee) Hp Hm Hfr Hq.
  pose proof (price_of_fun _ _ _ Hp Hp0) as Hpe. subst p0. destruct Hp as (_ & Hneg & _ & Hsc).
  assert (Hlt : unfilled b < B96) by (unfold unfilled; lia).
  assert (Hlq : unspent b < B96) by (unfold unspent; lia).
  destruct (mul_size_live p (unfilled b) (unspent b) Hsc Hneg Hlt Hlq) as (t & Ht & _ & Htu); [symmetry; exact HU|].
  rewrite Hm in Ht. injection Ht as <-. congruence.
Qed.

(* an explicit partial size is a lot multiple, so its product with the price is exact: no side condition *)
Lemma lot_exact_at st c k b p s tq :
  InvA st -> InvB st -> st_cfg st = Some c -> lookup k (st_bids st) = Some (SlotV3 b) -> dec_parse (b_price b) = Some p ->
  s mod cf_increment c = 0 -> mul_size p s = Ok tq -> exact_at p s tq.
Proof.
  intros HA HB Hc Hl Hp Hlot Hm. destruct (inv_cfg st HA) as (c0 & Hc0 & Hok). rewrite Hc in Hc0. injection Hc0 as <-.
  destruct Hok as (_ & Hinc1 & Hincm & _). apply mul_size_inv in Hm as [Hs96 Hmul].
  pose proof (dec_parse_wf _ _ Hp) as [Hsc _].
  eapply lot_product_exact; eauto; [eapply inv_prec; eauto|lia].
Qed.

Lemma InvB_reverse_bid e st sender funds id action is_cancel csz st' r :
  InvA st -> InvB st ->
  reverse_bid FX e st sender funds id action is_cancel csz = Ok (st', r) -> InvB st'.
Proof.
  intros HA HB H.
  apply reverse_bid_inv in H as (c & b & rb & eff & p & tq & cq & back & b' & rb' & _ & Hc & Hl & _ & Hrb & Heff & Hlot &
    Hle & Hp & Hm & Hfr & Hcq & Hfb & Hacc & Hrb' & -> & _).
  destruct (inv_bids st HB c id _ Hc Hl) as (b0 & Hb0 & Hok). injection Hb0 as <-.
  destruct (N.eqb_spec rb' 0) as [Hz|Hnz]; [apply InvB_remove_bid; exact HB|].
  assert (Hid : b_id b = id) by apply Hok. rewrite Hid.
  pose proof Hok as (_ & _ & _ & _ & _ & _ & _ & _ & (p0 & Hp0 & HQ & HU) & Hfee).
  assert (Hpp : p0 = p) by (destruct Hp0 as [Hx _]; congruence). subst p0.
  apply remaining_base_ok in Hrb as [-> Hab]. apply accumulate_eq in Hacc.
  apply InvB_insert_bid; [exact HB| |].
  2:{ intros c' p' Hc' Hp'. rewrite Hc in Hc'. injection Hc' as <-. rewrite Hacc in Hp'. cbn [b_price] in Hp'. eapply inv_prec; eauto. }
  intros c' Hc'. rewrite Hc in Hc'. injection Hc' as <-.
  assert (Hdy : cq * 10 ^ d_scale p = d_mant p * eff).
  { destruct csz as [s|].
    - subst eff. eapply mul_size_units; eauto. eapply lot_exact_at; eauto.
    - subst eff. rewrite (full_exit_quote c id b p tq cq Hok Hp0 Hm Hfr Hcq). exact HU. }
  assert (Hdx : eff < unfilled b).
  { apply remaining_base_ok in Hrb' as [Hr _]. rewrite Hacc in Hr. unfold unfilled in *. cbn in Hr. lia. }
  eapply bid_ok_consume; [exact Hok|exact Hp0|exact Hdx|exact Hdy| |exact Hacc].
  unfold fee_back in Hfb. destruct (b_fee b) as [f|] eqn:Ef; [|rewrite Hfb; reflexivity].
  destruct Hfb as (rq & keep & rf & Hrq & Hcle & Hk & Hrf & Hkle & ->).
  apply remaining_quote_ok in Hrq as [-> _]. apply (remaining_fee_some b f rf Ef) in Hrf as [-> _].
  exists keep. cbn [opt_amt]. auto.
Qed.

(* ---------------------------------------------------------------- create_bid *)
Lemma int_eq_of_dec_eqb t n q :
  dec_has_fract t = false -> dec_to_u128 t = Some q -> n <> 0 -> dec_eqb t (dec_of_N n) = true -> q = n.
Proof.
  intros Hfr Hq Hn He. apply to_u128_value in Hq as [-> _]. pose proof (no_fract_int_value t Hfr) as (_ & _ & Hm).
  apply dec_eqb_pos in He as [_ He]; [|split; [reflexivity|exact Hn]].
  unfold dec_of_N, pow10 in He. cbn [d_mant d_scale] in He. rewrite N.mul_1_r in He. rewrite Hm in He at 1.
  unfold pow10 in He. apply N.mul_cancel_r in He; [exact He|apply pow10_nz].
Qed.

Lemma rate_fee_lt rate total calc : dec_wf rate -> dec_wf total -> rate_fee rate total = Ok calc -> calc < B96.
Proof.
  intros Hr Ht H. unfold rate_fee in H. bind_inv H pr Hpr. apply of_opt_ok in Hpr. unfold round_to_u128 in H.
  apply of_opt_ok in H. eapply round_to_u128_lt; [|exact H]. exact (dec_mul_wf rate total pr Hr Ht Hpr).
Qed.

Lemma create_bid_exact st c price size p total :
  InvA st -> st_cfg st = Some c -> valid_price price (cf_precision c) = Ok p -> size mod cf_increment c = 0 ->
  mul_size p size = Ok total -> exact_at p size total.
Proof.
  intros HA Hc Hp Hlot Hm. destruct (inv_cfg st HA) as (c0 & Hc0 & Hok). rewrite Hc in Hc0. injection Hc0 as <-.
  destruct Hok as (Hprec & Hinc1 & Hincm & _). apply mul_size_inv in Hm as [Hs96 Hmul].
  pose proof (valid_price_of _ _ _ Hp) as (_ & _ & _ & Hsc).
  eapply lot_product_exact; eauto; [eapply valid_price_within; eauto|lia].
Qed.

Lemma InvB_create_bid e st sender funds id base fee price quote qsize size st' r :
  InvA st -> InvB st -> uuid_canonical id = true -> 1 <= qsize -> 1 <= size ->
  create_bid e st sender funds id base fee price quote qsize size = Ok (st', r) -> InvB st'.
Proof.
  intros HA HB Hid Hq1 Hs1 H.
  apply create_bid_inv in H as (c & p & total & dq & rate & calc & tot & Hc & Hp & Hlot & Hm & Hfr & Hdq & Heq & Hrate & Hcalc &
    Hfee & Hqin & Hbase & _ & Htot & _ & _ & -> & _).
  pose proof (create_bid_exact st c price size p total HA Hc Hp Hlot Hm) as Hex.
  destruct (inv_cfg st HA) as (c0 & Hc0 & Hcok). rewrite Hc in Hc0. injection Hc0 as <-.
  apply InvB_insert_bid; [exact HB| |].
  2:{ intros c' p' Hc' Hp'. rewrite Hc in Hc'. injection Hc' as <-. cbn [new_bid b_price] in Hp'.
      pose proof (valid_price_of _ _ _ Hp) as (Hpp & _). rewrite Hpp in Hp'. injection Hp' as <-.
      eapply valid_price_within; [apply Hcok|exact Hp]. }
  intros c' Hc'. rewrite Hc in Hc'. injection Hc' as <-.
  pose proof (valid_price_of _ _ _ Hp) as Hpo. apply dec_from_u128_ok in Hdq as [Hq96 ->].
  pose proof (mul_size_inv _ _ _ Hm) as [Hs96 Hmul].
  assert (Hqnz : qsize <> 0) by lia.
  assert (Htq : tot = qsize) by exact (int_eq_of_dec_eqb total qsize tot Hfr Htot Hqnz Heq). subst tot.
  assert (HQ : qsize * 10 ^ d_scale p = d_mant p * size).
  { eapply (mul_size_units p size total qsize Hm); [exact Hex|exact Hfr|exact Htot]. }
  unfold new_bid, bid_ok. cbn [b_id b_base b_quote b_acc_base b_acc_quote b_acc_fee b_fee b_price c_amt c_denom].
  split; [reflexivity|]. split; [apply uuid_canonical_valid; exact Hid|]. split; [exact Hbase|]. split; [exact Hqin|].
  split; [lia|]. split; [lia|]. split; [exact Hs96|]. split; [exact Hq96|]. split.
  - exists p. split; [exact Hpo|]. split; [exact HQ|]. unfold unspent, unfilled. cbn. rewrite !N.sub_0_r. exact HQ.
  - destruct fee as [f|]; [|reflexivity]. destruct Hfee as [Hfa Hfd].
    assert (Hwr : dec_wf rate).
    { unfold bid_rate in Hrate. destruct (cf_bid_fee c); [eapply dec_parse_wf; eauto|]. injection Hrate as <-. split; cbn; [lia|unfold B96; lia]. }
    assert (Hwt : dec_wf total).
    { eapply dec_mul_wf; [| |exact Hmul]; [eapply dec_parse_wf; apply Hpo|apply dec_of_N_wf; exact Hs96]. }
    assert (Hf96 : c_amt f < B96) by (rewrite Hfa; exact (rate_fee_lt rate total calc Hwr Hwt Hcalc)).
    split; [exact Hfd|]. split; [lia|]. split; [exact Hf96|].
    unfold unspent, held. cbn [b_quote b_acc_quote b_fee b_acc_fee c_amt]. rewrite !N.sub_0_r.
    match goal with |- fee_for_rest ?bb _ _ = _ => pose proof (fee_for_rest_full bb (c_amt f)) as HF end.
    cbn [b_quote c_amt] in HF. apply HF; [lia|exact Hq96|exact Hf96].
Qed.

(* ---------------------------------------------------------------- execute_match (bid side) *)
Lemma calculate_fee_inv b gross r :
  calculate_fee b gross = Ok r ->
  match b_fee b with
  | None => r = None
  | Some f => exists keep, gross <= unspent b /\ fee_for_rest b (c_amt f) (unspent b - gross) = Ok keep /\
                           keep <= held b /\ opt_amt r = held b - keep
  end.
Proof.
  unfold calculate_fee. destruct (b_fee b) as [f|] eqn:Ef; [|intros H; injection H as <-; reflexivity].
  intros H. bind_inv H rq Hrq. bind_inv H rest Hrest. bind_inv H keep Hk. bind_inv H rf Hrf. bind_inv H due Hdue.
  injection H as <-. apply remaining_quote_ok in Hrq as [-> _]. apply checked_sub_ok in Hrest as [Hle ->].
  apply (remaining_fee_some b f rf Ef) in Hrf as [-> _]. apply checked_sub_ok in Hdue as [Hkle ->].
  exists keep. repeat split; auto. destruct (N.ltb_spec 0 (held b - keep)); cbn [opt_amt]; lia.
Qed.

(* the fee released by a fill grows with the amount spent (ProRata.calculate_fee_mono) for every well-formed bid *)
Lemma bid_ok_fee_mono c k b :
  bid_ok c k b -> forall g1 g2 f1 f2, calculate_fee b g1 = Ok f1 -> calculate_fee b g2 = Ok f2 -> g1 <= g2 ->
  opt_amt f1 <= opt_amt f2.
Proof.
  intros (_ & _ & _ & _ & Hab & _ & _ & Hq96 & (p & (_ & _ & Hmnz & _) & HQ & _) & Hfee) g1 g2 f1 f2 E1 E2 Hg.
  eapply calculate_fee_mono; eauto.
  - destruct (N.eq_dec (c_amt (b_quote b)) 0) as [Hz|]; [|lia]. rewrite Hz in HQ. nia.
  - intros f Hf. rewrite Hf in Hfee. destruct Hfee as (_ & _ & ? & _). assumption.
Qed.

(* side condition of a match step outside the known classes: the products it forms are exact *)
Definition clean_match (st : state) (bid_id price : string) (size : N) : Prop :=
  forall b bp xp, lookup bid_id (st_bids st) = Some (SlotV3 b) -> dec_parse (b_price b) = Some bp ->
    dec_parse price = Some xp ->
    (forall t, mul_size xp size = Ok t -> exact_at xp size t) /\
    (dec_ltb xp bp = true -> forall t, mul_size bp size = Ok t -> exact_at bp size t).

(* value-level sufficient condition: the class K_inexact is contained in "mantissa(price) * size >= 2^96" *)
Definition small_products (st : state) (bid_id price : string) (size : N) : Prop :=
  forall b bp xp, lookup bid_id (st_bids st) = Some (SlotV3 b) -> dec_parse (b_price b) = Some bp ->
    dec_parse price = Some xp -> d_mant xp * size < B96 /\ d_mant bp * size < B96.
Lemma clean_match_intro st bid_id price size : small_products st bid_id price size -> clean_match st bid_id price size.
Proof.
  intros Hsm b bp xp Hl Hbp Hxp. destruct (Hsm b bp xp Hl Hbp Hxp) as [H1 H2].
  pose proof (dec_parse_wf _ _ Hbp) as [Hsb _]. pose proof (dec_parse_wf _ _ Hxp) as [Hsx _].
  split.
  - intros t Ht. apply mul_size_inv in Ht as [_ Ht]. eapply dec_mul_small_exact; eauto.
  - intros _ t Ht. apply mul_size_inv in Ht as [_ Ht]. eapply dec_mul_small_exact; eauto.
Qed.

Lemma sub_int_value og_d gross_d diff og gross refund :
  dec_sub_int og_d gross_d = Some diff -> dec_to_u128 diff = Some refund ->
  dec_to_u128 og_d = Some og -> dec_to_u128 gross_d = Some gross -> gross <= og /\ refund = og - gross.
Proof.
  unfold dec_sub_int. destruct (d_neg og_d || d_neg gross_d || dec_has_fract og_d || dec_has_fract gross_d); [discriminate|].
  intros H Hr Ho Hg. apply to_u128_value in Ho as [-> _]. apply to_u128_value in Hg as [-> _].
  destruct (N.ltb_spec (d_mant og_d / pow10 (d_scale og_d)) (d_mant gross_d / pow10 (d_scale gross_d))); [discriminate|].
  injection H as <-. unfold dec_to_u128, dec_of_N in Hr. cbn in Hr. change (pow10 0) with 1 in Hr. rewrite N.div_1_r in Hr.
  injection Hr as <-. split; [assumption|reflexivity].
Qed.

Lemma InvB_execute_match e st sender funds ask_id bid_id price size st' r :
  InvA st -> InvB st -> 1 <= size -> clean_match st bid_id price size ->
  execute_match FX e st sender funds ask_id bid_id price size = Ok (st', r) -> InvB st'.
Proof.
  intros HA HB Hs1 Hclean H.
  apply execute_match_inv in H as (c & a & b & ap & bp & xp & rb & gross_d & gross & af & bfee & fill & b' & rb' & imp &
    Hc & _ & _ & Hla & Hlb & _ & Hap & Hbp & Hxp & Hrule & Hrb & _ & Hszb & Hm & Hfr & Hgr & _ & _ & Hbfee & _ & _ &
    Hfill & Himp & Hrb' & -> & _).
  destruct (inv_bids st HB c bid_id _ Hc Hlb) as (b0 & Hb0 & Hok). injection Hb0 as <-.
  pose proof (inv_asks st HA c ask_id a Hc Hla) as (_ & _ & _ & _ & _ & _ & (ap0 & Hap0) & _).
  assert (ap0 = ap) by (destruct Hap0 as [Hx _]; congruence). subst ap0.
  set (bids' := if rb' =? 0 then _ else _).
  assert (HBB : InvB (set_bids st bids')).
  { unfold bids'. destruct (N.eqb_spec rb' 0) as [Hz|Hnz]; [apply InvB_remove_bid; exact HB|].
    assert (Hpr' : b_price b' = b_price b).
    { apply accumulate_eq in Hfill. unfold improve_spec in Himp. destruct (dec_ltb xp bp).
      - destruct Himp as (og_d & diff & og & refund & ofee & _ & _ & _ & _ & _ & _ & _ & Hacc & _).
        apply accumulate_eq in Hacc. rewrite Hacc, Hfill. reflexivity.
      - destruct Himp as [-> _]. rewrite Hfill. reflexivity. }
    apply InvB_insert_bid; [exact HB| |].
    2:{ intros c' p' Hc' Hp'. rewrite Hc in Hc'. injection Hc' as <-. rewrite Hpr' in Hp'. eapply inv_prec; eauto. }
    intros c' Hc'. rewrite Hc in Hc'. injection Hc' as <-.
    pose proof Hok as (_ & _ & _ & _ & _ & _ & _ & _ & (p0 & Hp0 & HQ & HU) & Hfee).
    assert (Hpp : p0 = bp) by (destruct Hp0 as [Hx _]; congruence). subst p0.
    destruct (Hclean b bp xp Hlb Hbp Hxp) as (Hex1 & Hex2). pose proof (bid_ok_fee_mono _ _ _ Hok) as Hmono.
    assert (Pbp : positive_dec bp) by (destruct Hp0 as (_ & ? & ? & _); split; assumption).
    assert (Pap : positive_dec ap) by (destruct Hap0 as (_ & ? & ? & _); split; assumption).
    apply remaining_base_ok in Hrb as [-> Hab]. apply accumulate_eq in Hfill.
    pose proof (Hex1 _ Hm) as Hexg.
    assert (Hg : gross * 10 ^ d_scale xp = d_mant xp * size) by (eapply mul_size_units; eauto).
    pose proof (calculate_fee_inv _ _ _ Hbfee) as Hcf.
    unfold improve_spec in Himp. destruct (dec_ltb xp bp) eqn:Elt.
    - (* executed below the bid's limit *)
      destruct Himp as (og_d & diff & og & refund & ofee & Hmo & Hfro & Hdiff & Hrefund & Hog & Hofee & Hle & Hacc & _).
      pose proof (Hex2 eq_refl _ Hmo) as Hexo.
      assert (Ho : og * 10 ^ d_scale bp = d_mant bp * size) by (eapply mul_size_units; eauto).
      destruct (sub_int_value _ _ _ _ _ _ Hdiff Hrefund Hog Hgr) as [Hgle ->].
      apply accumulate_eq in Hacc. pose proof (calculate_fee_inv _ _ _ Hofee) as Hcfo.
      pose proof (Hmono gross og bfee ofee Hbfee Hofee Hgle) as Hmon.
      assert (Hdx : size < unfilled b).
      { apply remaining_base_ok in Hrb' as [Hr _]. rewrite Hacc, Hfill in Hr. unfold unfilled in *. cbn in Hr. lia. }
      eapply (bid_ok_consume c bid_id b bp size og (opt_amt bfee + opt_amt (fee_refund_of bfee ofee))); eauto.
      + destruct (b_fee b) as [f|] eqn:Ef.
        * destruct Hcf as (keep & _ & _ & Hkle & Hb1). destruct Hcfo as (keepo & Hole & Hko & Hkole & Hb2).
          exists keepo. split; [exact Hko|]. split; [exact Hkole|].
          unfold fee_refund_of. destruct ofee as [o|]; cbn [opt_amt] in *.
          -- specialize (Hle o eq_refl). destruct (0 <? o - opt_amt bfee) eqn:E; cbn [opt_amt].
             ++ lia.
             ++ apply N.ltb_ge in E. lia.
          -- lia.
        * subst bfee. subst ofee. reflexivity.
      + rewrite Hacc, Hfill. cbn. f_equal; lia.
    - (* executed at the bid's limit *)
      destruct Himp as [-> _].
      destruct (not_improved_is_bid_price ap bp xp Pap Pbp Hrule Elt) as [Pxp Hcross]. unfold pow10 in Hcross.
      assert (Ho : gross * 10 ^ d_scale bp = d_mant bp * size).
      { assert (Hx : gross * 10 ^ d_scale bp * 10 ^ d_scale xp = d_mant bp * size * 10 ^ d_scale xp).
        { replace (gross * 10 ^ d_scale bp * 10 ^ d_scale xp) with ((gross * 10 ^ d_scale xp) * 10 ^ d_scale bp) by ring.
          rewrite Hg. replace (d_mant xp * size * 10 ^ d_scale bp) with ((d_mant xp * 10 ^ d_scale bp) * size) by ring.
          rewrite Hcross. ring. }
        apply N.mul_cancel_r in Hx; [exact Hx|apply pow10_nz]. }
      assert (Hdx : size < unfilled b).
      { apply remaining_base_ok in Hrb' as [Hr _]. rewrite Hfill in Hr. unfold unfilled in *. cbn in Hr. lia. }
      eapply (bid_ok_consume c bid_id b bp size gross (opt_amt bfee)); eauto.
      destruct (b_fee b) as [f|] eqn:Ef.
      + destruct Hcf as (keep & _ & Hk & Hkle & Hb1). exists keep. auto.
      + subst bfee. reflexivity. }
  destruct HBB as [H1 H2 H3]. constructor; cbn in *; auto.
Qed.
