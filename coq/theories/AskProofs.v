(* AskProofs: histories, ask-side liveness (exits), approval converse. *)
From ATS Require Import Prelude Dec DecFacts Uuid Semver Types Contract Tactics Spec Inv InvAsk InstProofs.
Ltac Zify.zify_post_hook ::= Z.div_mod_to_equations.

(* ---------------------------------------------------------------- histories *)
(* one execute request with the chain environment of that moment (marker types, attributes may change) *)
Record event := mkev { ev_env : env; ev_sender : string; ev_funds : list coin; ev_msg : emsg }.
Definition run_event (st : state) (ev : event) : state :=
  match execute FX (ev_env ev) st (ev_sender ev) (ev_funds ev) (ev_msg ev) with
  | Ok (st', _) => st'
  | Refused _ => st       (* refused / aborted requests roll back completely *)
  end.
Definition run (st : state) (evs : list event) : state := fold_left run_event evs st.

Lemma InvA_run evs : forall st, InvA st -> InvA (run st evs).
Proof.
  induction evs as [|ev evs IH]; intros st HI; cbn [run fold_left]; [exact HI|].
  apply IH. unfold run_event.
  destruct (execute FX (ev_env ev) st (ev_sender ev) (ev_funds ev) (ev_msg ev)) as [[st' r]|t] eqn:E; [|exact HI].
  eapply InvA_step; eauto.
Qed.

Definition env_version_ok (e : env) : Prop :=
  exists ver, version_parse (e_pkg_version e) = Some ver /\ req_lt_0_16_2 ver = false.

Lemma InvA_init e m st0 r :
  env_version_ok e -> instantiate e empty_state m = Ok (st0, r) -> InvA st0.
Proof.
  intros (ver & Hv1 & Hv2) H. pose proof (instantiate_iff e empty_state m) as Hco. rewrite H in Hco. cbn [is_ok] in Hco.
  apply instantiate_stored in H as [-> _]. symmetry in Hco. unfold coherent in Hco.
  repeat (apply andb_prop in Hco as [Hco ?]).
  constructor; cbn.
  - exists (inst_cfg m). split; [reflexivity|]. unfold cfg_ok, inst_cfg. cbn.
    repeat split.
    + apply N.leb_le. assumption.
    + apply N.leb_le. assumption.
    + apply N.eqb_eq. assumption.
    + destruct (i_executors m); [discriminate|congruence].
    + destruct (i_base m); [discriminate|congruence].
    + destruct (i_quotes m); [discriminate|congruence].
  - exists (e_crate_name e), (e_pkg_version e), ver. auto.
  - intros c k a _ Hl. discriminate.
  - constructor.
Qed.

(* every state reachable from an accepted instantiation satisfies the ask-side invariant *)
Theorem InvA_reachable e m st0 r evs :
  env_version_ok e -> instantiate e empty_state m = Ok (st0, r) -> InvA (run st0 evs).
Proof. intros He H. apply InvA_run. eapply InvA_init; eauto. Qed.

(* ---------------------------------------------------------------- exits of asks are always possible *)
Lemma ask_exit_live e a amt camt :
  1 <= amt -> (match a_class a with Ready _ _ => 1 <= camt | _ => True end) ->
  (do m1 <- pay e amt (a_base a) (a_owner a);
   match a_class a with
   | Ready ap cb => do m2 <- pay e camt (c_denom cb) ap; Ok [m1; m2]
   | _ => Ok [m1]
   end) = Ok (ask_exit_msgs e a amt camt).
Proof.
  intros H1 H2. rewrite pay_live by lia. cbn [bind]. unfold ask_exit_msgs.
  destruct (a_class a) as [| |ap cb]; try reflexivity. rewrite pay_live by lia. reflexivity.
Qed.

Lemma cancel_ask_live e st c id a :
  st_cfg st = Some c -> lookup id (st_asks st) = Some a -> ask_ok c id a ->
  execute FX e st (a_owner a) [] (CancelAsk id) =
  Ok (set_asks st (remove id (st_asks st)),
      mkresp (ask_exit_msgs e a (a_size a) (a_size a)) [("action", "cancel_ask"); ("id", id)]).
Proof.
  intros Hc Hl (Hid & Hu & Hs & Hcl & Hb & Hq & Hp & Hr).
  unfold execute. cbn [validate_exec]. rewrite Hu. cbn [guard bind]. unfold cancel_ask.
  cbn [list_empty guard bind]. unfold load_ask. rewrite Hl. cbn [of_opt bind]. rewrite String.eqb_refl. cbn [guard bind].
  assert (Hm : (do m1 <- pay e (a_size a) (a_base a) (a_owner a);
                do ms <- match a_class a with
                         | Ready ap cb => do m2 <- pay e (c_amt cb) (c_denom cb) ap; Ok [m1; m2]
                         | _ => Ok [m1]
                         end;
                Ok (set_asks st (remove (a_id a) (st_asks st)), mkresp ms [("action", "cancel_ask"); ("id", a_id a)]))
               = Ok (set_asks st (remove id (st_asks st)),
                     mkresp (ask_exit_msgs e a (a_size a) (a_size a)) [("action", "cancel_ask"); ("id", id)])).
  { rewrite pay_live by lia. cbn [bind]. unfold ask_exit_msgs. rewrite Hid.
    destruct (a_class a) as [| |ap cb]; cbn [bind]; try reflexivity.
    rewrite Hr. cbn [c_amt c_denom]. rewrite pay_live by lia. reflexivity. }
  exact Hm.
Qed.

Lemma expire_ask_live e st c id a ex :
  st_cfg st = Some c -> In ex (cf_executors c) -> lookup id (st_asks st) = Some a -> ask_ok c id a ->
  execute FX e st ex [] (ExpireAsk id) =
  Ok (set_asks st (remove id (st_asks st)),
      mkresp (ask_exit_msgs e a (a_size a) (a_size a)) (reverse_attrs "expire_ask" id (a_size a) false)).
Proof.
  intros Hc Hex Hl (Hid & Hu & Hs & Hcl & Hb & Hq & Hp & Hr).
  unfold execute. cbn [validate_exec]. rewrite Hu. cbn [guard bind]. unfold reverse_ask.
  assert (Hne : negb (str_empty id) = true).
  { destruct id; [|reflexivity]. cbn in Hu. discriminate. }
  rewrite Hne. cbn [list_empty guard bind]. unfold get_cfg. rewrite Hc. cbn [of_opt bind].
  apply mem_In in Hex. rewrite Hex. cbn [guard bind]. unfold load_ask. rewrite Hl. cbn [of_opt bind].
  unfold lot_ok. cbn [fix_exit_lot all_fixes guard bind]. unfold checked_sub. rewrite N.leb_refl. cbn [bind].
  rewrite N.sub_diag. rewrite pay_live by lia. cbn [bind]. cbn [fix_reject_converted all_fixes].
  unfold ask_exit_msgs, reverse_attrs. rewrite Hid.
  destruct (a_class a) as [| |ap cb]; cbn [bind N.eqb negb]; try reflexivity.
  rewrite Hr. cbn [c_denom]. rewrite pay_live by lia. reflexivity.
Qed.

(* ---------------------------------------------------------------- approval: the converse *)
Lemma approve_ask_live e st c a sender funds id :
  st_cfg st = Some c -> cfg_ok c -> In sender (cf_approvers c) -> lookup id (st_asks st) = Some a -> ask_ok c id a ->
  a_class a = Pending -> funds_rule e funds (a_size a) (cf_base c) -> uuid_canonical id = true ->
  execute FX e st sender funds (ApproveAsk id (cf_base c) (a_size a)) =
  Ok (set_asks st (insert id (approved a sender (cf_base c)) (st_asks st)),
      mkresp (pull_msgs e (a_size a) (cf_base c) sender) (approve_attrs (approved a sender (cf_base c)))).
Proof.
  intros Hc Hcok Hap Hl (Hid & Hu & Hs & Hcl & Hb & Hq & Hp & Hr) Hpend Hfu Hcan.
  unfold execute. cbn [validate_exec]. rewrite Hcan.
  assert (Hbne : negb (str_empty (cf_base c)) = true).
  { destruct Hcok as (_ & _ & _ & _ & Hne & _). destruct (cf_base c); [congruence|reflexivity]. }
  rewrite Hbne. apply N.leb_le in Hs. rewrite Hs. cbn [andb guard bind]. apply N.leb_le in Hs.
  unfold approve_ask, get_cfg. rewrite Hc. cbn [of_opt bind]. apply mem_In in Hap. rewrite Hap. cbn [guard bind].
  apply funds_ok_rule in Hfu. rewrite Hfu. cbn [guard bind]. unfold load_ask. rewrite Hl. cbn [of_opt bind].
  rewrite Hpend. cbn [guard bind]. rewrite N.eqb_refl, String.eqb_refl. cbn [andb guard bind].
  unfold pull_msgs, approved, approve_attrs. cbn [a_id a_class a_quote a_price a_size].
  destruct (is_restricted e (cf_base c)); [|reflexivity].
  unfold pull_in. destruct (N.eqb_spec (a_size a) 0); [lia|]. reflexivity.
Qed.

Lemma approve_only_if e st sender funds id base size st' r :
  execute FX e st sender funds (ApproveAsk id base size) = Ok (st', r) ->
  exists c a,
    st_cfg st = Some c /\ In sender (cf_approvers c) /\ funds_rule e funds size base /\
    lookup id (st_asks st) = Some a /\ a_class a = Pending /\ size = a_size a /\ base = cf_base c /\
    st' = set_asks st (insert id (approved a sender base) (st_asks st)) /\
    r = mkresp (pull_msgs e size base sender) (approve_attrs (approved a sender base)).
Proof. unfold execute. intros H. guard_inv H Hv. apply approve_ask_inv. exact H. Qed.

Lemma ready_tracks_size st c id a ap cb :
  InvA st -> st_cfg st = Some c -> lookup id (st_asks st) = Some a -> a_class a = Ready ap cb ->
  cb = mkcoin (a_size a) (cf_base c).
Proof.
  intros HI Hc Hl Hcl. pose proof (inv_asks st HI c id a Hc Hl) as (_ & _ & _ & _ & _ & _ & _ & Hr).
  rewrite Hcl in Hr. exact Hr.
Qed.

Lemma match_not_pending e st sender funds ask_id bid_id price size st' r :
  execute FX e st sender funds (ExecuteMatch ask_id bid_id price size) = Ok (st', r) ->
  exists a, lookup ask_id (st_asks st) = Some a /\ a_class a <> Pending.
Proof.
  unfold execute. intros H. guard_inv H Hv.
  apply execute_match_inv in H as (c & a & b & ap & bp & xp & rb & gross_d & gross & af & bfee & fill & b' & rb' & imp &
    _ & _ & _ & Hla & _ & _ & _ & _ & _ & _ & _ & _ & _ & _ & _ & _ & _ & _ & _ & _ & Hnp & _).
  eauto.
Qed.
