(* C10 Transfer mechanism always matches the denomination's marker type. *)
From ATS Require Import Prelude Dec DecFacts Uuid Semver Types Contract Tactics Spec Inv InvAsk InstProofs AskProofs
  BidFacts InvBid InvStep ExitProofs Ledger MsgProofs.

(* The response type of the model has exactly two message constructors: Bank (one coin) and Xfer (marker transfer):
   no other kind of message can be emitted.  For every accepted request, in every state and every environment
   (every assignment of marker types), every message is a bank send of a denomination that is not a restricted
   marker, or a marker transfer of a restricted one with the contract as administrator, drawn from the contract -- or,
   for create-ask / create-bid / approve only, from the requesting sender into the contract.  The marker type is
   looked up per coin (is_restricted e (denomination of that coin)). *)
Theorem C10_mechanism : forall e st sender funds m st' r,
  execute FX e st sender funds m = Ok (st', r) -> Forall (msg_mech e sender (escrowing m)) (r_msgs r).
Proof. exact messages_match_marker_type. Qed.
Print Assumptions C10_mechanism.

(* every amount moved is strictly positive (states satisfying the invariant, outside the known classes) *)
Theorem C10_strictly_positive : forall e st sender funds m st' r,
  Inv st -> clean_exec st m -> execute FX e st sender funds m = Ok (st', r) ->
  Forall (fun x => 1 <= msg_amount x) (r_msgs r).
Proof. exact messages_strictly_positive. Qed.
Print Assumptions C10_strictly_positive.

(* instantiate and migrate emit no message *)
Theorem C10_instantiate_silent : forall e st m st' r, instantiate e st m = Ok (st', r) -> r_msgs r = [].
Proof. intros e st m st' r H. apply InstProofs.instantiate_stored in H as [_ ->]. reflexivity. Qed.
Print Assumptions C10_instantiate_silent.

(* the mixed configuration the property names (convertible denomination restricted, base not) on the model:
   base reaches the buyer by bank send with the repair, by marker transfer on the pinned code *)
Definition ex_env : env :=
  mkenv (fun d => if String.eqb d "cv" then MRestricted else MOther) (fun _ => []) (fun s => negb (str_empty s)) "self" "1.0.0" "ats".
Definition A : string := "a0000000-0000-4000-8000-000000000001".
Definition B : string := "b0000000-0000-4000-8000-000000000001".
Definition ex_inst : instmsg := mkinst "ats" "base" ["cv"] ["q"] ["appr"] ["exec"] None None None None [] [] 0 1.
Definition ex_history : list event :=
  [mkev ex_env "seller" [] (CreateAsk A "cv" "q" "2" 10);
   mkev ex_env "appr" [mkcoin 10 "base"] (ApproveAsk A "base" 10);
   mkev ex_env "buyer" [mkcoin 20 "q"] (CreateBid B "base" None "2" "q" 20 10)].
Example C10_mixed_markers :
  match instantiate ex_env empty_state ex_inst with
  | Ok (st0, _) =>
    (match execute FX ex_env (run st0 ex_history) "exec" [] (ExecuteMatch A B "2" 4) with
     | Ok (_, r) => hd_error (r_msgs r) = Some (Bank "buyer" (mkcoin 4 "base")) | Refused _ => False end) /\
    (match execute no_fixes ex_env (run st0 ex_history) "exec" [] (ExecuteMatch A B "2" 4) with
     | Ok (_, r) => hd_error (r_msgs r) = Some (Xfer "self" "buyer" (mkcoin 4 "base") "self") | Refused _ => False end)
  | Refused _ => False
  end.
Proof. vm_compute. split; reflexivity. Qed.
