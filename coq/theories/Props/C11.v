(* C11 Order integrity: immutable terms, shrinking remainders, no interference. *)
From ATS Require Import Prelude Dec DecFacts Uuid Semver Types Contract Tactics Spec Inv InvAsk InstProofs AskProofs Frame Evolve Reach
  BidFacts InvBid InvStep InvCheck.

(* frame: an accepted request leaves the version record alone, the configuration alone unless it is a
   configuration change, every ask it does not name and every bid it does not name exactly as they were
   (named = one for create/approve/cancel/expire/reject, the ask and the bid for a match); stated for every
   state in which orders are stored under their own ids (keys_ok), which holds in every reachable state *)
Theorem C11_frame : forall e st sender funds m st' r,
  keys_ok st -> execute FX e st sender funds m = Ok (st', r) -> framed st st' m.
Proof. exact execute_framed. Qed.
Print Assumptions C11_frame.
Theorem C11_keys_ok_reachable : forall e m st0 r evs,
  instantiate e empty_state m = Ok (st0, r) -> keys_ok (run st0 evs).
Proof. exact keys_ok_reachable. Qed.
Print Assumptions C11_keys_ok_reachable.

(* immutability and monotonicity: an order that is on the book before and after an accepted request keeps id,
   owner, price, denominations (and a bid its original base, quote and fee); remaining size / consumed amounts
   move one way only; an ask's class changes only from pending to approved *)
Theorem C11_orders_evolve : forall e st sender funds m st' r,
  keys_ok st -> execute FX e st sender funds m = Ok (st', r) ->
  (forall k a a', lookup k (st_asks st) = Some a -> lookup k (st_asks st') = Some a' -> ask_evolves a a') /\
  (forall k b b', lookup k (st_bids st) = Some (SlotV3 b) -> lookup k (st_bids st') = Some (SlotV3 b') -> bid_evolves b b').
Proof. exact execute_evolves. Qed.
Print Assumptions C11_orders_evolve.

(* consistency of every ask visible on any reachable book: stored under its id, positive remaining size, plain
   exactly when its base is the contract's base denomination, a traded quote denomination, a valid price, and
   an approver amount equal to the remaining size *)
Theorem C11_asks_consistent : forall e m st0 r0 evs c k a,
  env_version_ok e -> instantiate e empty_state m = Ok (st0, r0) ->
  st_cfg (run st0 evs) = Some c -> lookup k (st_asks (run st0 evs)) = Some a -> ask_ok c k a.
Proof.
  intros e m st0 r0 evs c k a He Hi Hc Hl. eapply inv_asks; eauto. eapply InvA_reachable; eauto.
Qed.
Print Assumptions C11_asks_consistent.

(* consistency of every bid visible on the book after a clean history: a current-format slot stored under its id,
   0 <= filled < size, spent <= quote, both below 2^96, and -- exactly, as integers, for the parsed price m/10^s --
     quote * 10^s = m * size      and      unspent * 10^s = m * unfilled
   (the remaining quote is the limit price times the remaining size), with the escrowed fee the pro-rata function of
   the unspent quote *)
Theorem C11_bids_consistent : forall e m st0 r0 evs c k s,
  env_version_ok e -> instantiate e empty_state m = Ok (st0, r0) -> clean_run st0 evs ->
  st_cfg (run st0 evs) = Some c -> lookup k (st_bids (run st0 evs)) = Some s ->
  exists b, s = SlotV3 b /\ bid_ok c k b.
Proof.
  intros e m st0 r0 evs c k s He Hi Hcl Hc Hl.
  pose proof (Inv_reachable e m st0 r0 evs He Hi Hcl) as [_ HB]. eapply inv_bids; eauto.
Qed.
Print Assumptions C11_bids_consistent.

(* The invariant behind "every order visible on the book is internally consistent" is decidable, and the decision
   procedure is the one the extracted model runner evaluates on every state the implementation dumps (an `INV` line per
   event in the model's trace): the hypothesis `Inv st` of the theorems is checked on the states real histories reach. *)
Theorem C11_invariant_decided : forall st, inv_check st = true <-> Inv st.
Proof. exact inv_check_iff. Qed.
Print Assumptions C11_invariant_decided.
