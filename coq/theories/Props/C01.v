(* C01 Escrow solvency: funds held always equal what open orders are owed. *)
From ATS Require Import Prelude Dec DecFacts Uuid Semver Types Contract Tactics Spec Inv InvAsk InstProofs AskProofs
  BidFacts InvBid InvStep ExitProofs Frame Ledger OrderLedger MigrateProofs MigrateInv Hist OrderHist Witness.

(* Per step.  For every accepted request of any kind, in any state satisfying the invariant, outside the known
   numeric classes (clean_exec: a side condition on MATCHES only -- the products price*size it forms are exact, which
   holds whenever mantissa(price)*size < 2^96, and the fee due grows with the amount spent; every other request kind
   needs none) and with a sender other than the contract itself, for EVERY denomination:
     attached funds + escrow pulled in + owed before  =  paid out + owed after
   where owed = every ask's unfilled size in its base + every approved ask's approver amount + every bid's unspent
   quote and unspent fee.  Nothing is over-paid (the payouts are funded by what the orders were owed) and nothing
   is stranded (an order that leaves the book has released exactly what it was owed). *)
Theorem C01_step : forall e st sender funds m st' r,
  Inv st -> clean_exec st m -> sender <> e_self e ->
  execute FX e st sender funds m = Ok (st', r) ->
  forall d, funds_in d funds + inflow e d (r_msgs r) + owed st d = outflow e d (r_msgs r) + owed st' d.
Proof. exact execute_conserves. Qed.
Print Assumptions C01_step.

(* Histories.  From any accepted instantiation, for every finite sequence of execute requests by any senders
   (refused ones roll back), any environments per step (marker types, attributes), all sizes / prices / rates /
   precisions / increments: after every step, everything escrowed minus everything paid out equals what the open
   orders are owed, per denomination. *)
Theorem C01_solvency : forall e m st0 r0 evs d,
  env_version_ok e -> instantiate e empty_state m = Ok (st0, r0) -> clean_run st0 evs -> never_self evs ->
  fst (ledger st0 evs d) = snd (ledger st0 evs d) + owed (run st0 evs) d.
Proof.
  intros e m st0 r0 evs d He Hi Hc Hn.
  pose proof (ledger_balances evs st0 d (Inv_init e m st0 r0 He Hi) Hc Hn) as H.
  rewrite (owed_init e m st0 r0 d Hi) in H. lia.
Qed.
Print Assumptions C01_solvency.

(* "No request is ever answered with payouts the contract cannot fund": in every state reached by a clean history,
   whatever the next accepted request is, what its response pays out in a denomination is covered by what the contract
   holds in it according to the ledger of the history so far (escrowed minus paid) plus what this very request brings
   in; and the ledger itself is never overdrawn. *)
Theorem C01_payouts_are_funded : forall e m st0 r0 evs e' sender funds msg st' r d,
  env_version_ok e -> instantiate e empty_state m = Ok (st0, r0) -> clean_run st0 evs -> never_self evs ->
  clean_exec (run st0 evs) msg -> sender <> e_self e' ->
  execute FX e' (run st0 evs) sender funds msg = Ok (st', r) ->
  snd (ledger st0 evs d) <= fst (ledger st0 evs d) /\
  outflow e' d (r_msgs r) <=
    (fst (ledger st0 evs d) - snd (ledger st0 evs d)) + funds_in d funds + inflow e' d (r_msgs r).
Proof.
  intros e m st0 r0 evs e' sender funds msg st' r d He Hi Hc Hn Hce Hs Hx.
  pose proof (C01_solvency e m st0 r0 evs d He Hi Hc Hn) as Hsol.
  pose proof (C01_step e' (run st0 evs) sender funds msg st' r (Inv_reachable e m st0 r0 evs He Hi Hc) Hce Hs Hx d) as Hst.
  lia.
Qed.
Print Assumptions C01_payouts_are_funded.

(* ... and the same over histories that interleave execute requests with migrations of the contract (a migration of a
   reachable state leaves the book untouched, moves nothing and re-establishes the invariant) *)
Theorem C01_solvency_with_migrations : forall e m st0 r0 hs d,
  env_version_ok e -> instantiate e empty_state m = Ok (st0, r0) -> hclean st0 hs ->
  fst (hledger st0 hs d) = snd (hledger st0 hs d) + owed (hrun st0 hs) d.
Proof.
  intros e m st0 r0 hs d He Hi Hc.
  pose proof (hledger_balances hs st0 d (Inv_init e m st0 r0 He Hi) Hc) as H.
  rewrite (owed_init e m st0 r0 d Hi) in H. lia.
Qed.
Print Assumptions C01_solvency_with_migrations.

(* Order by order.  Every coin a request moves is attributed to the order(s) it names: what a creation or an approval
   brings in belongs to the ask / bid created or approved; what an exit pays out to the order it closes or shrinks; of
   what a match pays out, [size] of the denomination the ask sells (and, for an approved convertible ask, [size] of the
   approver-supplied base) is drawn on the ask, everything else -- net proceeds, both fees, refund and refunded fee -- on
   the bid.  Then, for EVERY key k (named by the request or not) and every denomination:
     received on k's behalf + owed to k before  =  paid on k's behalf + owed to k after
   where "owed to k" is what the order stored under k records (0 when none is). *)
Theorem C01_order_step : forall e st sender funds m st' r,
  Inv st -> clean_exec st m -> sender <> e_self e ->
  execute FX e st sender funds m = Ok (st', r) ->
  forall k d,
    ask_in e funds m r k d + ask_owed_at st k d = ask_out e st m r k d + ask_owed_at st' k d /\
    bid_in e funds m r k d + bid_owed_at st k d = bid_out e st m r k d + bid_owed_at st' k d.
Proof. exact order_step. Qed.
Print Assumptions C01_order_step.

(* ... and the attribution leaves nothing out: everything that came in and everything that went out is on the account
   of the order(s) the request names *)
Theorem C01_every_flow_is_attributed : forall e st sender funds m st' r,
  Inv st -> clean_exec st m -> sender <> e_self e ->
  execute FX e st sender funds m = Ok (st', r) ->
  forall d,
    funds_in d funds + inflow e d (r_msgs r) =
      match the_ask m with Some k => ask_in e funds m r k d | None => 0 end +
      match the_bid m with Some k => bid_in e funds m r k d | None => 0 end /\
    outflow e d (r_msgs r) =
      match the_ask m with Some k => ask_out e st m r k d | None => 0 end +
      match the_bid m with Some k => bid_out e st m r k d | None => 0 end.
Proof. exact attribution_complete. Qed.
Print Assumptions C01_every_flow_is_attributed.

(* Over every history from instantiation: what was received on an order's behalf minus what was paid on its behalf equals
   that order's recorded remaining amounts while it is on the book, and zero once it has left the book. *)
Theorem C01_order_by_order : forall e m st0 r0 evs k d,
  env_version_ok e -> instantiate e empty_state m = Ok (st0, r0) -> clean_run st0 evs -> never_self evs ->
  fst (ask_ledger st0 evs k d) = snd (ask_ledger st0 evs k d) + ask_owed_at (run st0 evs) k d /\
  fst (bid_ledger st0 evs k d) = snd (bid_ledger st0 evs k d) + bid_owed_at (run st0 evs) k d /\
  (lookup k (st_asks (run st0 evs)) = None -> fst (ask_ledger st0 evs k d) = snd (ask_ledger st0 evs k d)) /\
  (lookup k (st_bids (run st0 evs)) = None -> fst (bid_ledger st0 evs k d) = snd (bid_ledger st0 evs k d)).
Proof. exact order_by_order. Qed.
Print Assumptions C01_order_by_order.

(* ... and order by order over histories with migrations interleaved *)
Theorem C01_order_by_order_with_migrations : forall e m st0 r0 hs k d,
  env_version_ok e -> instantiate e empty_state m = Ok (st0, r0) -> hclean st0 hs ->
  fst (hask_ledger st0 hs k d) = snd (hask_ledger st0 hs k d) + ask_owed_at (hrun st0 hs) k d /\
  fst (hbid_ledger st0 hs k d) = snd (hbid_ledger st0 hs k d) + bid_owed_at (hrun st0 hs) k d.
Proof. exact order_by_order_with_migrations. Qed.
Print Assumptions C01_order_by_order_with_migrations.

(* a refused request changes nothing and moves nothing (it contributes nothing to the ledger: by definition of
   `ledger` and `run_event`); an order leaving the book releases exactly what it was owed: *)
Theorem C01_bid_release : forall c k b p dx dy fa d,
  bid_ok c k b -> price_of (b_price b) p -> dx <= unfilled b -> dy * 10 ^ d_scale p = d_mant p * dx ->
  fee_cond b dy fa ->
  (if unfilled b - dx =? 0 then 0
   else bid_owed d (SlotV3 (mkbid (b_base b) (b_acc_base b + dx) (b_acc_quote b + dy) (b_acc_fee b + fa) (b_fee b)
                                  (b_id b) (b_owner b) (b_price b) (b_quote b))))
  + ind d (c_denom (b_quote b)) (dy + fa) = bid_owed d (SlotV3 b).
Proof. exact bid_consume_owed. Qed.
Print Assumptions C01_bid_release.

(* non-vacuity, and the two histories the property names, evaluated on the model:
   D1 (partial reject then cancel of an approved convertible ask) and D2 (final fill at an improved price whose
   fee rounds to zero) balance with the repairs and do NOT balance on the pinned code (repairs off) *)
Definition ex_env : env := mkenv (fun _ => MNone) (fun _ => []) (fun s => negb (str_empty s)) "self" "1.0.0" "ats".
Definition A : string := "a0000000-0000-4000-8000-000000000001".
Definition B : string := "b0000000-0000-4000-8000-000000000001".
Definition d1_inst : instmsg := mkinst "ats" "base" ["cv"] ["q"] ["appr"] ["exec"] None None None None [] [] 0 1.
Definition d1 : list event :=
  [mkev ex_env "seller" [mkcoin 10 "cv"] (CreateAsk A "cv" "q" "2" 10);
   mkev ex_env "appr" [mkcoin 10 "base"] (ApproveAsk A "base" 10);
   mkev ex_env "exec" [] (RejectAsk A (Some 4));
   mkev ex_env "seller" [] (CancelAsk A)].
Definition d2_inst : instmsg :=
  mkinst "ats" "base" [] ["q"] [] ["exec"] None None (Some "0.1") (Some "feeb") [] [] 0 1.
Definition d2 : list event :=
  [mkev ex_env "buyer" [mkcoin 11 "q"] (CreateBid B "base" (Some (mkcoin 1 "q")) "10" "q" 10 1);
   mkev ex_env "seller" [mkcoin 1 "base"] (CreateAsk A "base" "q" "4" 1);
   mkev ex_env "exec" [] (ExecuteMatch A B "4" 1)].
Definition balanced (inst : instmsg) (evs : list event) (d : string) : bool :=
  match instantiate ex_env empty_state inst with
  | Ok (st0, _) => fst (ledger st0 evs d) =? snd (ledger st0 evs d) + owed (run st0 evs) d
  | Refused _ => false
  end.
Example C01_d1_d2_balance : balanced d1_inst d1 "base" = true /\ balanced d2_inst d2 "q" = true.
Proof. vm_compute. split; reflexivity. Qed.

(* the same histories on the pinned code (model with all repairs off): money out exceeds / falls short *)
Fixpoint ledger0 (st : state) (evs : list event) (d : string) : N * N * state :=
  match evs with
  | [] => (0, 0, st)
  | ev :: rest =>
    match execute no_fixes (ev_env ev) st (ev_sender ev) (ev_funds ev) (ev_msg ev) with
    | Ok (st', r) => let '(i, o, s) := ledger0 st' rest d in
                     (funds_in d (ev_funds ev) + inflow (ev_env ev) d (r_msgs r) + i, outflow (ev_env ev) d (r_msgs r) + o, s)
    | Refused _ => ledger0 st rest d
    end
  end.
Example C01_refuted_on_pinned_code :
  (match instantiate ex_env empty_state d1_inst with
   | Ok (st0, _) => let '(i, o, s) := ledger0 st0 d1 "base" in (i, o, owed s "base") | Refused _ => (0, 0, 0) end) = (10, 14, 0)
  /\
  (match instantiate ex_env empty_state d2_inst with
   | Ok (st0, _) => let '(i, o, s) := ledger0 st0 d2 "q" in (i, o, owed s "q") | Refused _ => (0, 0, 0) end) = (11, 10, 0).
Proof. vm_compute. split; reflexivity. Qed.

(* the hypotheses of the theorems above are met by a concrete non-trivial history (Witness.v): an accepted
   instantiation with two fee rates and a restricted quote marker; an approved convertible ask and a fee-bearing bid,
   created, partly filled at an improved price, partly rejected, both still open (remaining 50 and 60, unspent quote
   150, fee held 15); every step accepted, clean, never from the contract itself; the invariant holds at the end *)
Example C01_hypotheses_are_met :
  env_version_ok w_env /\ (exists r0, instantiate w_env empty_state w_inst = Ok (w_st0, r0)) /\
  clean_run w_st0 w_hist /\ never_self w_hist /\ Inv (run w_st0 w_hist) /\
  st_asks (run w_st0 w_hist) <> [] /\ st_bids (run w_st0 w_hist) <> [].
Proof. exact witness. Qed.
Example C01_witness_balances : forall d,
  fst (ledger w_st0 w_hist d) = snd (ledger w_st0 w_hist d) + owed (run w_st0 w_hist) d.
Proof.
  intros d. destruct w_inst_ok as [r0 Hi]. exact (C01_solvency w_env w_inst w_st0 r0 w_hist d w_env_ok Hi w_clean w_never_self).
Qed.

(* the same history, order by order: the ask received 100 cv and 100 base and has paid out 50 of each (30 filled, 20
   rejected), 50 of each still owed; the bid received 250 + 25 q and has paid out 110 (the fill of 30 consumed 75 of its
   quote and released 7 of its fee, the reject of 10 returned 25 and 3), 150 + 15 still owed; nothing of either order is
   on the other's account *)
Example C01_witness_order_by_order :
  (ask_ledger w_st0 w_hist wA "cv", ask_owed_at (run w_st0 w_hist) wA "cv") = ((100, 50), 50) /\
  (ask_ledger w_st0 w_hist wA "base", ask_owed_at (run w_st0 w_hist) wA "base") = ((100, 50), 50) /\
  (bid_ledger w_st0 w_hist wB "q", bid_owed_at (run w_st0 w_hist) wB "q") = ((275, 110), 165) /\
  (ask_ledger w_st0 w_hist wB "q", bid_ledger w_st0 w_hist wA "q") = ((0, 0), (0, 0)).
Proof. vm_compute. repeat split; reflexivity. Qed.
