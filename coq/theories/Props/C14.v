(* C14 Migration: version-gated, preserves the book, idempotent. *)
From ATS Require Import Prelude Dec DecFacts Uuid Semver Types Contract Tactics Spec ExactFacts Inv InvAsk InstProofs AskProofs
  BidFacts InvBid InvStep ExitProofs Ledger MigrateProofs MigrateInv Hist.

(* refused (hence, by the type of the transition, nothing changes) when the stored version is absent,
   unreadable, a pre-release, or older than 0.16.2 *)
Theorem C14_refused_when_unsupported : forall e st m,
  (match st_ver st with
   | None => True
   | Some (_, vs) => match version_parse vs with None => True | Some v => req_ge_0_16_2 v = false end
   end) -> is_ok (migrate e st m) = false.
Proof. exact migrate_refused_unsupported. Qed.
Print Assumptions C14_refused_when_unsupported.

(* accepted => readable supported version, whole fee pairs, valid overrides; and the effect is exactly: every
   ask as it was; configuration = old one with the supplied overrides (approver list, the two fee pairs, the two
   attribute lists) and nothing else; version = (crate name, package version); bids per the conversion (C15);
   the response carries no messages *)
Theorem C14_gate_and_effect : forall e st m st' r,
  migrate e st m = Ok (st', r) ->
  exists d vs v c af bf bids',
    opt_pair_ok (g_afr m) (g_afa m) = true /\ opt_pair_ok (g_bfr m) (g_bfa m) = true /\
    st_ver st = Some (d, vs) /\ version_parse vs = Some v /\ req_ge_0_16_2 v = true /\
    st_cfg st = Some c /\ opt_addrs_ok e (g_approvers m) = true /\
    fee_pair e (cf_ask_fee c) (g_afa m) (g_afr m) = Ok af /\
    fee_pair e (cf_bid_fee c) (g_bfa m) (g_bfr m) = Ok bf /\
    convert_slots (req_window v) (st_bids st) = Ok bids' /\
    st' = mkstate (Some (migrated_cfg c m af bf)) (Some (e_crate_name e, e_pkg_version e)) (st_asks st) bids' /\
    r = mkresp [] [].
Proof. exact migrate_inv. Qed.
Print Assumptions C14_gate_and_effect.

(* conversely, a request that meets the gate is carried out, with exactly that effect: together with the theorem above,
   acceptance of a migration is decided by the gate and by nothing else *)
Theorem C14_accepted_when_gate_met : forall e st m d vs v c af bf bids',
  opt_pair_ok (g_afr m) (g_afa m) = true -> opt_pair_ok (g_bfr m) (g_bfa m) = true ->
  st_ver st = Some (d, vs) -> version_parse vs = Some v -> req_ge_0_16_2 v = true ->
  st_cfg st = Some c -> opt_addrs_ok e (g_approvers m) = true ->
  fee_pair e (cf_ask_fee c) (g_afa m) (g_afr m) = Ok af ->
  fee_pair e (cf_bid_fee c) (g_bfa m) (g_bfr m) = Ok bf ->
  convert_slots (req_window v) (st_bids st) = Ok bids' ->
  migrate e st m = Ok (mkstate (Some (migrated_cfg c m af bf)) (Some (e_crate_name e, e_pkg_version e)) (st_asks st) bids',
                       mkresp [] []).
Proof. exact migrate_if. Qed.
Print Assumptions C14_accepted_when_gate_met.

(* applying the same migration a second time changes nothing further (package version at or after the bid
   format change, as for this code base: 1.0.0) *)
Theorem C14_idempotent : forall e st m st' r,
  migrate e st m = Ok (st', r) ->
  (forall ver, version_parse (e_pkg_version e) = Some ver -> req_window ver = false) ->
  forall st'' r', migrate e st' m = Ok (st'', r') -> st'' = st'.
Proof. exact migrate_idempotent. Qed.
Print Assumptions C14_idempotent.

(* migrating any state reached by real histories (a state satisfying the invariant): every ask and every bid exactly as
   it was, no message, and the invariant -- hence every other theorem -- continues to hold afterwards *)
Theorem C14_preserves_reachable_books : forall e st m st' r,
  Inv st -> migrate e st m = Ok (st', r) ->
  st_asks st' = st_asks st /\ st_bids st' = st_bids st /\ r = mkresp [] [] /\ (env_version_ok e -> Inv st').
Proof. exact migrate_from_inv. Qed.
Print Assumptions C14_preserves_reachable_books.

Example C14_pkg_version_after_window : forall ver, version_parse "1.0.0" = Some ver -> req_window ver = false.
Proof. intros ver H. vm_compute in H. injection H as <-. reflexivity. Qed.
