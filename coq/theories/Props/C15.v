(* C15 Bid format conversion preserves every bid's remaining amounts. *)
From ATS Require Import Prelude Dec DecFacts Uuid Semver Types Contract Tactics Spec Inv InvAsk InstProofs AskProofs
  BidFacts InvBid InvStep MigrateProofs MigrateInv.

(* one bid, any event log (induction on the log inside sum_checked_ok): the consumed amounts of the converted bid
   are the sums over the fill / refund / reject events, every other field is copied: remaining base, quote and
   fee (original minus consumed) are therefore unchanged *)
Theorem C15_conversion_preserves : forall o b,
  convert_bid o = Ok b ->
  b_base b = b2_base o /\ b_quote b = b2_quote o /\ b_fee b = b2_fee o /\ b_id b = b2_id o /\
  b_owner b = b2_owner o /\ b_price b = b2_price o /\
  b_acc_base b = list_sum (map ev_base (b2_events o)) /\
  b_acc_quote b = list_sum (map ev_quote (b2_events o)) /\
  b_acc_fee b = list_sum (map ev_fee (b2_events o)).
Proof. exact convert_bid_spec. Qed.
Print Assumptions C15_conversion_preserves.

(* the book: no bid is lost or invented (same keys in the same order); current-format bids are untouched;
   an old-format bid is converted exactly when the stored version is in [0.16.2, 0.19.1), else left as it is *)
Theorem C15_book_keys : forall w l l', convert_slots w l = Ok l' -> map fst l' = map fst l.
Proof. exact convert_slots_keys. Qed.
Print Assumptions C15_book_keys.
Theorem C15_book_slots : forall w l l' k,
  convert_slots w l = Ok l' ->
  match lookup k l with
  | None => lookup k l' = None
  | Some (SlotV3 b) => lookup k l' = Some (SlotV3 b)
  | Some (SlotV2 o) => if w then exists b, convert_bid o = Ok b /\ lookup k l' = Some (SlotV3 b)
                       else lookup k l' = Some (SlotV2 o)
  end.
Proof. exact convert_slots_lookup. Qed.
Print Assumptions C15_book_slots.
Theorem C15_nothing_rewritten_after_window : forall l, convert_slots false l = Ok l.
Proof. exact convert_slots_off. Qed.
Print Assumptions C15_nothing_rewritten_after_window.

(* a converted bid then behaves like a native one: if the stored asks are consistent, the current-format bids are
   consistent and every old-format bid has a well-formed log (its conversion is a consistent bid), the migrated state
   satisfies the full invariant -- so C01 .. C12 (solvency, settlement, exits, fees ...) apply verbatim to it *)
Theorem C15_converted_behaves_native : forall e st c m st' r,
  MigPre st c -> env_version_ok e -> migrate e st m = Ok (st', r) ->
  (forall k o, lookup k (st_bids st') <> Some (SlotV2 o)) -> Inv st'.
Proof. exact Inv_after_migrate. Qed.
Print Assumptions C15_converted_behaves_native.

(* non-vacuity: the log of the repository's own migration test (fill 2/4/1, refund 2, reject 3/9/2) *)
Example C15_example :
  convert_bid (mkbid2 (mkcoin 10 "base") [AFill 2 4 (Some 1); ARefund 2 None; AReject 3 9 (Some 2)]
                      (Some (mkcoin 5 "q")) "id" "owner" "3" (mkcoin 30 "q"))
  = Ok (mkbid (mkcoin 10 "base") 5 15 3 (Some (mkcoin 5 "q")) "id" "owner" "3" (mkcoin 30 "q")).
Proof. vm_compute. reflexivity. Qed.
