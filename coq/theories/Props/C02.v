(* C02 Match settlement: each party receives exactly its due, nobody else anything. *)
From ATS Require Import Prelude Dec DecFacts Uuid Semver Types Contract Tactics Spec Inv InvAsk InstProofs AskProofs
  BidFacts InvBid InvStep ExitProofs Ledger Recipients Witness.

(* The complete message list of an accepted match (every state, every environment):
     ask fee -> ask-fee account (if non-zero);  bid fee for the fill -> bid-fee account (if non-zero);
     plain ask:   net proceeds (gross - ask fee) -> ask owner (if non-zero);  size of the ask's base -> bid owner;
     approved convertible ask:  size of the contract's base -> bid owner;  size of the convertible denomination and
                  net proceeds -> approver;
     at a price below the bid's limit: refund (bid price*size - gross) and the fee share -> bid owner;
   every message is a payout drawn from the contract (pay_msg); the orders' remaining amounts fall by exactly
   these quantities; either order is removed exactly when nothing remains. *)
Theorem C02_messages_and_state : forall e st sender funds ask_id bid_id price size st' r,
  execute_match FX e st sender funds ask_id bid_id price size = Ok (st', r) ->
  exists c a b ap bp xp rb gross_d gross af bfee fill b' rb' imp,
    st_cfg st = Some c /\ In sender (cf_executors c) /\ funds = [] /\
    lookup ask_id (st_asks st) = Some a /\ lookup bid_id (st_bids st) = Some (SlotV3 b) /\
    a_quote a = c_denom (b_quote b) /\
    dec_parse (a_price a) = Some ap /\ dec_parse (b_price b) = Some bp /\ dec_parse price = Some xp /\
    price_rule ap bp xp = true /\ remaining_base b = Ok rb /\ size <= a_size a /\ size <= rb /\
    mul_size xp size = Ok gross_d /\ dec_has_fract gross_d = false /\ dec_to_u128 gross_d = Some gross /\
    ask_fee_spec c gross_d af /\ af <= gross /\
    calculate_fee b gross = Ok bfee /\ (bfee <> None -> cf_bid_fee c <> None) /\
    a_class a <> Pending /\
    accumulate b size gross bfee = Ok fill /\
    improve_spec b bp xp size gross_d bfee fill b' imp /\
    remaining_base b' = Ok rb' /\
    st' = mkstate (st_cfg st) (st_ver st)
            (if a_size a - size =? 0 then remove ask_id (st_asks st)
             else insert ask_id (ask_after a (a_size a - size)) (st_asks st))
            (if rb' =? 0 then remove bid_id (st_bids st) else insert bid_id (SlotV3 b') (st_bids st)) /\
    r = mkresp (m_ask_fee e c (c_denom (b_quote b)) af ++ m_bid_fee e c (c_denom (b_quote b)) bfee ++
                m_settle e a b size (gross - af) ++
                match imp with Some (_, refund, ofee) => m_refund e b refund (fee_refund_of bfee ofee) | None => [] end)
               (match_attrs ask_id bid_id a b xp size af bfee).
Proof. exact execute_match_inv. Qed.
Print Assumptions C02_messages_and_state.

(* The same in exact numbers, in every state satisfying the invariant and outside the known classes:
   gross = p*s for the execution price p; the bid gives up dy = (bid price)*s of quote and fa of its escrowed fee,
   fa = held - F(unspent - dy); the contract pays out, per denomination, exactly dy + fa of quote (= ask fee + net
   to the selling side + bid fee + refund + fee refund), s of the ask's denomination and, for an approved ask, s of
   the contract's base; it receives nothing; both orders shrink by exactly (s) and (s, dy, fa). *)
Theorem C02_settlement_exact : forall e st sender funds ask_id bid_id price size st' r,
  InvA st -> InvB st -> 1 <= size -> clean_match st bid_id price size ->
  execute_match FX e st sender funds ask_id bid_id price size = Ok (st', r) ->
  exists c a b bp xp gross af dy fa,
    st_cfg st = Some c /\ In sender (cf_executors c) /\ funds = [] /\
    lookup ask_id (st_asks st) = Some a /\ lookup bid_id (st_bids st) = Some (SlotV3 b) /\
    price_of (b_price b) bp /\ dec_parse price = Some xp /\ positive_dec xp /\
    size <= a_size a /\ size <= unfilled b /\ a_class a <> Pending /\
    gross * 10 ^ d_scale xp = d_mant xp * size /\
    dy * 10 ^ d_scale bp = d_mant bp * size /\
    gross <= dy /\ af <= gross /\ ask_fee_spec_exists c xp size af /\ fee_cond b dy fa /\
    (forall d, inflow e d (r_msgs r) = 0) /\
    (forall d, outflow e d (r_msgs r) =
               ind d (c_denom (b_quote b)) (dy + fa) + ind d (a_base a) size +
               match a_class a with Ready _ cb => ind d (c_denom cb) size | _ => 0 end) /\
    st' = mkstate (st_cfg st) (st_ver st)
            (if a_size a - size =? 0 then remove ask_id (st_asks st)
             else insert ask_id (ask_after a (a_size a - size)) (st_asks st))
            (if unfilled b - size =? 0 then remove bid_id (st_bids st)
             else insert bid_id (SlotV3 (mkbid (b_base b) (b_acc_base b + size) (b_acc_quote b + dy) (b_acc_fee b + fa)
                                               (b_fee b) (b_id b) (b_owner b) (b_price b) (b_quote b))) (st_bids st)).
Proof. exact match_settles. Qed.
Print Assumptions C02_settlement_exact.

(* Account by account.  [received d x ms] = what the messages ms deliver to account x in denomination d.  For every
   accepted match, for EVERY account x and EVERY denomination d:
     the bid's owner receives [size] of the contract's base and, below the bid's limit, (bid price - price) * size of
       quote with the refunded share fr of the escrowed fee;
     the selling side (the ask's owner; the approver of an approved convertible ask, who also receives [size] of the
       convertible denomination) receives price * size - ask fee of quote;
     the ask-fee account receives the ask fee, the bid-fee account the bid's fee bf for this fill;
     nobody else receives anything (for any other x the right-hand side is 0), and accounts that coincide receive the sum.
   gross = price * size, dy = bid price * size (exact integers); bf + fr is what the fill releases of the escrowed fee:
   held - F(unspent - dy) (fee_cond). *)
Theorem C02_each_party_its_due : forall e st sender funds ask_id bid_id price size st' r,
  InvA st -> InvB st -> 1 <= size -> clean_match st bid_id price size ->
  execute_match FX e st sender funds ask_id bid_id price size = Ok (st', r) ->
  exists c a b bp xp gross af dy bf fr,
    st_cfg st = Some c /\ lookup ask_id (st_asks st) = Some a /\ lookup bid_id (st_bids st) = Some (SlotV3 b) /\
    price_of (b_price b) bp /\ dec_parse price = Some xp /\
    gross * 10 ^ d_scale xp = d_mant xp * size /\ dy * 10 ^ d_scale bp = d_mant bp * size /\
    gross <= dy /\ af <= gross /\ ask_fee_spec_exists c xp size af /\ fee_cond b dy (bf + fr) /\
    forall x d,
      received d x (r_msgs r) =
        sel x (b_owner b) (ind d (cf_base c) size + ind d (c_denom (b_quote b)) ((dy - gross) + fr)) +
        sel x (seller_side a) (ind d (c_denom (b_quote b)) (gross - af) +
                               match a_class a with Ready _ _ => ind d (a_base a) size | _ => 0 end) +
        sel x (fee_acct (cf_ask_fee c)) (ind d (c_denom (b_quote b)) af) +
        sel x (fee_acct (cf_bid_fee c)) (ind d (c_denom (b_quote b)) bf).
Proof. exact match_recipients. Qed.
Print Assumptions C02_each_party_its_due.

(* the match of the witness history (30 of an approved convertible ask at 2 against a bid at 2.5, ask fee 1 %, bid fee
   10 %), account by account: (quote, base, convertible) received *)
Example C02_witness_recipients :
  let msgs := match execute FX w_env (run w_st0 (firstn 3 w_hist)) "exec" [] (ExecuteMatch wA wB "2" 30) with
              | Ok (_, r) => r_msgs r | Refused _ => [] end in
  map (fun x => (x, received "q" x msgs, received "base" x msgs, received "cv" x msgs))
      ["buyer"; "seller"; "appr"; "feea"; "feeb"; "exec"; "self"] =
  [("buyer", 16, 30, 0); ("seller", 0, 0, 0); ("appr", 59, 0, 30); ("feea", 1, 0, 0); ("feeb", 6, 0, 0);
   ("exec", 0, 0, 0); ("self", 0, 0, 0)].
Proof. vm_compute. reflexivity. Qed.
