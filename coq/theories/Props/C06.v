(* C06 Exit liveness: an open order can always be cancelled and made whole. *)
From ATS Require Import Prelude Dec DecFacts Uuid Semver Types Contract Tactics Spec Inv InvAsk InstProofs AskProofs
  BidFacts InvBid InvStep ExitProofs MigrateProofs MigrateInv Ledger Drain.

(* asks: in every state reachable from an instantiation by ANY history (no side condition: fills of any accepted
   size, partial rejects, configuration changes, changes of marker type between steps), under any environment e'
   at the time of the exit, the owner's plain cancel is accepted, pays the owner the whole remaining size and, for
   an approved convertible ask, the approver the whole remaining approver amount, and the ask leaves the book *)
Theorem C06_ask_cancel : forall e' e m st0 r0 evs c id a,
  env_version_ok e -> instantiate e empty_state m = Ok (st0, r0) ->
  st_cfg (run st0 evs) = Some c -> lookup id (st_asks (run st0 evs)) = Some a ->
  execute FX e' (run st0 evs) (a_owner a) [] (CancelAsk id) =
  Ok (set_asks (run st0 evs) (remove id (st_asks (run st0 evs))),
      mkresp (ask_exit_msgs e' a (a_size a) (a_size a)) [("action", "cancel_ask"); ("id", id)]).
Proof.
  intros e' e m st0 r0 evs c id a He Hi Hc Hl. eapply cancel_ask_live; eauto.
  eapply inv_asks; eauto. eapply InvA_reachable; eauto.
Qed.
Print Assumptions C06_ask_cancel.

(* ... and any configured executor can expire it (the executor list is never empty) *)
Theorem C06_ask_expire : forall e' e m st0 r0 evs c id a ex,
  env_version_ok e -> instantiate e empty_state m = Ok (st0, r0) ->
  st_cfg (run st0 evs) = Some c -> In ex (cf_executors c) -> lookup id (st_asks (run st0 evs)) = Some a ->
  execute FX e' (run st0 evs) ex [] (ExpireAsk id) =
  Ok (set_asks (run st0 evs) (remove id (st_asks (run st0 evs))),
      mkresp (ask_exit_msgs e' a (a_size a) (a_size a)) (reverse_attrs "expire_ask" id (a_size a) false)).
Proof.
  intros e' e m st0 r0 evs c id a ex He Hi Hc Hex Hl. eapply expire_ask_live; eauto.
  eapply inv_asks; eauto. eapply InvA_reachable; eauto.
Qed.
Print Assumptions C06_ask_expire.
Theorem C06_an_executor_exists : forall e m st0 r0 evs,
  env_version_ok e -> instantiate e empty_state m = Ok (st0, r0) ->
  exists c, st_cfg (run st0 evs) = Some c /\ cf_executors c <> [].
Proof.
  intros e m st0 r0 evs He Hi. destruct (inv_cfg _ (InvA_reachable e m st0 r0 evs He Hi)) as (c & Hc & Hok).
  exists c. split; [exact Hc|apply Hok].
Qed.
Print Assumptions C06_an_executor_exists.

(* bids: in every state reachable by a history whose accepted steps are outside the known numeric classes
   (clean_run; the exit request itself needs no side condition), the owner's cancel and an executor's expire are
   accepted, return the whole unspent quote and the whole fee still held to the owner, and the bid is gone.
   Keys need only be Uuid::parse_str-valid, so legacy un-hyphenated ids are covered by the same statement. *)
Theorem C06_bid_cancel : forall e' e m st0 r0 evs c id b,
  env_version_ok e -> instantiate e empty_state m = Ok (st0, r0) -> clean_run st0 evs ->
  st_cfg (run st0 evs) = Some c -> lookup id (st_bids (run st0 evs)) = Some (SlotV3 b) ->
  execute FX e' (run st0 evs) (b_owner b) [] (CancelBid id) =
  Ok (set_bids (run st0 evs) (remove id (st_bids (run st0 evs))),
      mkresp (bid_exit_all e' b) (reverse_attrs "cancel_bid" id (unfilled b) false)).
Proof.
  intros e' e m st0 r0 evs c id b He Hi Hcl Hc Hl. eapply cancel_bid_live; eauto.
  destruct (Inv_reachable e m st0 r0 evs He Hi Hcl) as [_ HB].
  destruct (inv_bids _ HB c id _ Hc Hl) as (b0 & Hb0 & Hok). injection Hb0 as <-. exact Hok.
Qed.
Print Assumptions C06_bid_cancel.
Theorem C06_bid_expire : forall e' e m st0 r0 evs c id b ex,
  env_version_ok e -> instantiate e empty_state m = Ok (st0, r0) -> clean_run st0 evs ->
  st_cfg (run st0 evs) = Some c -> In ex (cf_executors c) -> lookup id (st_bids (run st0 evs)) = Some (SlotV3 b) ->
  execute FX e' (run st0 evs) ex [] (ExpireBid id) =
  Ok (set_bids (run st0 evs) (remove id (st_bids (run st0 evs))),
      mkresp (bid_exit_all e' b) (reverse_attrs "expire_bid" id (unfilled b) false)).
Proof.
  intros e' e m st0 r0 evs c id b ex He Hi Hcl Hc Hex Hl. eapply expire_bid_live; eauto.
  destruct (Inv_reachable e m st0 r0 evs He Hi Hcl) as [_ HB].
  destruct (inv_bids _ HB c id _ Hc Hl) as (b0 & Hb0 & Hok). injection Hb0 as <-. exact Hok.
Qed.
Print Assumptions C06_bid_expire.

(* orders carried over from earlier contract versions, under legacy un-hyphenated ids included (the invariant asks
   only for Uuid::parse_str-valid keys): after a migration of a consistent stored book (MigPre: consistent asks and
   current-format bids, old-format bids with well-formed logs) every bid can be cancelled by its owner and made whole *)
Theorem C06_after_migration : forall e' e st c m st' r c' id b,
  MigPre st c -> env_version_ok e -> migrate e st m = Ok (st', r) ->
  (forall k o, lookup k (st_bids st') <> Some (SlotV2 o)) ->
  st_cfg st' = Some c' -> lookup id (st_bids st') = Some (SlotV3 b) ->
  execute FX e' st' (b_owner b) [] (CancelBid id) =
  Ok (set_bids st' (remove id (st_bids st')), mkresp (bid_exit_all e' b) (reverse_attrs "cancel_bid" id (unfilled b) false)).
Proof.
  intros e' e st c m st' r c' id b Hpre He Hm Hno Hc Hl.
  destruct (Inv_after_migrate e st c m st' r Hpre He Hm Hno) as [_ HB].
  eapply cancel_bid_live; eauto. destruct (inv_bids _ HB c' id _ Hc Hl) as (b0 & Hb0 & Hok). injection Hb0 as <-. exact Hok.
Qed.
Print Assumptions C06_after_migration.

(* the defect the property names (fill 15 of 20 with increment 10, then exit) on the repaired model: accepted *)
Definition ex_env : env := mkenv (fun _ => MNone) (fun _ => []) (fun s => negb (str_empty s)) "self" "1.0.0" "ats".
Definition ex_inst : instmsg := mkinst "ats" "base" [] ["q"] [] ["exec"] None None None None [] [] 0 10.
Definition A : string := "a0000000-0000-4000-8000-000000000001".
Definition B : string := "b0000000-0000-4000-8000-000000000001".
Definition ex_history : list event :=
  [mkev ex_env "buyer" [mkcoin 40 "q"] (CreateBid B "base" None "2" "q" 40 20);
   mkev ex_env "seller" [mkcoin 20 "base"] (CreateAsk A "base" "q" "2" 20);
   mkev ex_env "exec" [] (ExecuteMatch A B "2" 15)].
Example C06_offgrid_remainder_exits :
  match instantiate ex_env empty_state ex_inst with
  | Ok (st0, _) =>
    is_ok (execute FX ex_env (run st0 ex_history) "buyer" [] (CancelBid B)) = true /\
    is_ok (execute FX ex_env (run st0 ex_history) "exec" [] (ExpireBid B)) = true /\
    is_ok (execute FX ex_env (run st0 ex_history) "exec" [] (ExpireAsk A)) = true /\
    (* with the repair switched off (the pinned code) the same exits are refused *)
    is_ok (execute no_fixes ex_env (run st0 ex_history) "buyer" [] (CancelBid B)) = false
  | Refused _ => False
  end.
Proof. vm_compute. repeat split. Qed.

(* the whole book can be wound up: in every state reachable by a clean history, cancelling each open order by its
   owner, in book order, is accepted step by step and leaves both books empty (no order blocks another's exit) ... *)
Theorem C06_book_can_be_emptied : forall e' e m st0 r0 evs,
  env_version_ok e -> instantiate e empty_state m = Ok (st0, r0) -> clean_run st0 evs ->
  let st := run st0 evs in
  let st' := run st (ask_cancels e' (st_asks st) ++ bid_cancels e' (st_bids st)) in
  st_asks st' = [] /\ st_bids st' = [].
Proof.
  intros e' e m st0 r0 evs He Hi Hc. cbv zeta.
  destruct (book_can_be_emptied e' (run st0 evs) (Inv_reachable e m st0 r0 evs He Hi Hc)) as (H1 & H2 & _). auto.
Qed.
Print Assumptions C06_book_can_be_emptied.

(* ... and what that pays out, net of nothing coming in, is exactly what the book owed (per denomination): every
   owner and approver gets back the whole escrow, nobody more *)
Theorem C06_everything_owed_is_paid_out : forall e' e m st0 r0 evs d,
  env_version_ok e -> instantiate e empty_state m = Ok (st0, r0) -> clean_run st0 evs ->
  let st := run st0 evs in
  let drain := ask_cancels e' (st_asks st) ++ bid_cancels e' (st_bids st) in
  never_self drain ->
  fst (ledger st drain d) + owed st d = snd (ledger st drain d).
Proof.
  intros e' e m st0 r0 evs d He Hi Hc. cbv zeta. apply everything_owed_is_paid_out.
  apply (Inv_reachable e m st0 r0 evs He Hi Hc).
Qed.
Print Assumptions C06_everything_owed_is_paid_out.
