(* C03 Match eligibility and limit-price protection. *)
From ATS Require Import Prelude Dec DecFacts Uuid Semver Types Contract Tactics Spec Inv InvAsk InstProofs AskProofs
  BidFacts InvBid InvStep ExitProofs Ledger MsgProofs MatchProofs AdmitProofs MatchLive DivFacts ProRata Known.

(* A match succeeds ONLY IF: sender is an executor, no funds; both ids canonical and both orders on the book; equal
   quote denominations; the ask plain or approved (never pending); ask price <= bid price; the execution price equals
   one of the two limit prices (numerically: differently written equal decimals included); 1 <= size <= each
   remaining size; size*execution price is a whole number (gross) and size*bid price is a whole number (dy).
   Hence the seller's gross is at least ask price*size and the buyer gives up at most bid price*size.
   Stated for every state satisfying the invariant, outside the class K_inexact (clean_exec). *)
Theorem C03_only_if : forall e st sender funds ask_id bid_id price size st' r,
  Inv st -> clean_exec st (ExecuteMatch ask_id bid_id price size) ->
  execute FX e st sender funds (ExecuteMatch ask_id bid_id price size) = Ok (st', r) ->
  exists c a b ap bp xp gross dy,
    st_cfg st = Some c /\ In sender (cf_executors c) /\ funds = [] /\
    uuid_canonical ask_id = true /\ uuid_canonical bid_id = true /\
    lookup ask_id (st_asks st) = Some a /\ lookup bid_id (st_bids st) = Some (SlotV3 b) /\
    a_quote a = c_denom (b_quote b) /\ a_class a <> Pending /\
    price_of (a_price a) ap /\ price_of (b_price b) bp /\ dec_parse price = Some xp /\ positive_dec xp /\
    d_mant ap * pow10 (d_scale bp) <= d_mant bp * pow10 (d_scale ap) /\
    (dec_eqb xp ap = true \/ dec_eqb xp bp = true) /\
    1 <= size /\ size <= a_size a /\ size <= unfilled b /\
    gross * 10 ^ d_scale xp = d_mant xp * size /\
    dy * 10 ^ d_scale bp = d_mant bp * size /\
    d_mant ap * size <= gross * 10 ^ d_scale ap /\
    gross <= dy.
Proof. exact match_only_if. Qed.
Print Assumptions C03_only_if.

(* the structural conditions hold in EVERY state and environment, with no side condition at all *)
Theorem C03_only_if_structural : forall e st sender funds ask_id bid_id price size st' r,
  execute_match FX e st sender funds ask_id bid_id price size = Ok (st', r) ->
  exists c a b ap bp xp rb,
    st_cfg st = Some c /\ In sender (cf_executors c) /\ funds = [] /\
    lookup ask_id (st_asks st) = Some a /\ lookup bid_id (st_bids st) = Some (SlotV3 b) /\
    a_quote a = c_denom (b_quote b) /\ a_class a <> Pending /\
    dec_parse (a_price a) = Some ap /\ dec_parse (b_price b) = Some bp /\ dec_parse price = Some xp /\
    price_rule ap bp xp = true /\ remaining_base b = Ok rb /\ size <= a_size a /\ size <= rb.
Proof.
  intros e st sender funds ask_id bid_id price size st' r H.
  apply execute_match_inv in H as (c & a & b & ap & bp & xp & rb & gross_d & gross & af & bfee & fill & b' & rb' & imp &
    H1 & H2 & H3 & H4 & H5 & H6 & H7 & H8 & H9 & H10 & H11 & H12 & H13 & _ & _ & _ & _ & _ & _ & _ & H14 & _).
  exists c, a, b, ap, bp, xp, rb. auto 20.
Qed.
Print Assumptions C03_only_if_structural.

(* CONVERSELY: in every state satisfying the invariant, an executor's request with no funds, canonical ids naming an
   ask and a bid on the book with equal quote denominations, the ask not pending, an execution price allowed by the
   price rule (ask <= bid, price = one of the two limits), 1 <= size <= both remaining sizes, size*price the whole
   number gross and size*bid price the whole number og, and with the configured fees payable (fees_payable: the ask
   fee is computable and does not exceed the proceeds; the pro-rata bid fee is computable and has an account to go
   to; at an improved price the fee share of the refund is computable and not smaller than the fee for the fill)
   IS carried out. *)
Theorem C03_if : forall e st c a b ap bp xp sender ask_id bid_id price size gross og,
  Inv st -> st_cfg st = Some c -> In sender (cf_executors c) ->
  uuid_canonical ask_id = true -> uuid_canonical bid_id = true -> price <> "" -> 1 <= size ->
  lookup ask_id (st_asks st) = Some a -> lookup bid_id (st_bids st) = Some (SlotV3 b) ->
  a_quote a = c_denom (b_quote b) -> a_class a <> Pending ->
  dec_parse (a_price a) = Some ap -> dec_parse (b_price b) = Some bp -> dec_parse price = Some xp ->
  price_rule ap bp xp = true ->
  size <= a_size a -> size <= unfilled b ->
  gross * 10 ^ d_scale xp = d_mant xp * size ->
  og * 10 ^ d_scale bp = d_mant bp * size ->
  fees_payable c b xp size gross og (dec_ltb xp bp) ->
  is_ok (execute FX e st sender [] (ExecuteMatch ask_id bid_id price size)) = true.
Proof. exact match_if. Qed.
Print Assumptions C03_if.

(* for EVERY accepted match -- no invariant, no side condition, inside K_inexact too -- the gross amount the match is
   settled at is less than one unit away from execution price * size: the class K_inexact (a non-whole product judged
   whole after 96-bit rounding) can misjudge wholeness, it cannot move the settlement by a unit *)
Theorem C03_total_within_a_unit : forall e st sender funds ask_id bid_id price size st' r,
  execute_match FX e st sender funds ask_id bid_id price size = Ok (st', r) ->
  exists xp gross_d gross,
    dec_parse price = Some xp /\ mul_size xp size = Ok gross_d /\ dec_to_u128 gross_d = Some gross /\
    gross * 10 ^ d_scale xp < d_mant xp * size + 10 ^ d_scale xp /\
    d_mant xp * size < gross * 10 ^ d_scale xp + 10 ^ d_scale xp.
Proof.
  intros e st sender funds ask_id bid_id price size st' r H.
  apply execute_match_inv in H as (c & a & b & ap & bp & xp & rb & gross_d & gross & af & bfee & fill & b' & rb' & imp &
    _ & _ & _ & _ & _ & _ & _ & _ & Hxp & _ & _ & _ & _ & Hm & Hfr & Hgr & _).
  exists xp, gross_d, gross. repeat split; try assumption; eapply whole_total_within_a_unit; eauto.
Qed.
Print Assumptions C03_total_within_a_unit.

(* Inside K_inexact the "only if" direction is FALSE of the code (recorded finding, corpus/known/k_inexact_match.hist):
   a reachable state satisfying the invariant and a match that is accepted although execution price * size is not a
   whole number.  The side condition of C03_only_if cannot be dropped. *)
Theorem C03_refuted_in_K_inexact :
  exists e st sender ask_id bid_id price size p,
    Inv st /\ dec_parse price = Some p /\
    is_ok (execute FX e st sender [] (ExecuteMatch ask_id bid_id price size)) = true /\
    (d_mant p * size) mod 10 ^ d_scale p <> 0.
Proof.
  exists k_env, (run (k_start k_inexact_inst) k_inexact_book), "exec", kA, kB, "0.999999999999999999", 1000000000000000001,
         (mkdec false 999999999999999999 18).
  split; [exact k_inexact_inv|]. split; [vm_compute; reflexivity|]. split; [exact (proj1 k_inexact_witness)|].
  vm_compute. discriminate.
Qed.
Print Assumptions C03_refuted_in_K_inexact.
