(* C13 Instantiation accepts exactly the coherent configurations. *)
From ATS Require Import Prelude Dec Uuid Semver Types Contract Tactics InstProofs Numeral.

(* accepted <-> coherent: non-empty name, base, quote list, executor list; precision <= 18; increment >= 1 and a
   multiple of 10^precision; each fee pair whole (both empty = no fee, else parseable rate + valid account);
   valid addresses throughout *)
Theorem C13_iff : forall e st m, is_ok (instantiate e st m) = coherent e m.
Proof. exact instantiate_iff. Qed.
Print Assumptions C13_iff.

(* the stored configuration and version record equal the request; orders untouched; no messages *)
Theorem C13_stored : forall e st m st' r,
  instantiate e st m = Ok (st', r) ->
  st' = mkstate (Some (inst_cfg m)) (Some (e_crate_name e, e_pkg_version e)) (st_asks st) (st_bids st)
  /\ r = mkresp [] [("action", "init")].
Proof. exact instantiate_stored. Qed.
Print Assumptions C13_stored.

(* integrality: with increment a multiple of 10^precision, a price m/10^s within the precision
   (m*10^p a multiple of 10^s) times a lot-multiple size is a whole number (m*size a multiple of 10^s) *)
Theorem C13_integral : forall m s p inc size,
  inc mod 10 ^ p = 0 -> size mod inc = 0 -> inc <> 0 ->
  (m * 10 ^ p) mod 10 ^ s = 0 ->
  (m * size) mod 10 ^ s = 0.
Proof. exact integral_total. Qed.
Print Assumptions C13_integral.

(* non-vacuity: a coherent message is accepted, an incoherent increment is refused *)
Definition ex_env : env := mkenv (fun _ => MNone) (fun _ => []) (fun s => negb (str_empty s)) "self" "1.0.0" "ats".
Definition ex_msg (inc : N) : instmsg :=
  mkinst "ats" "base" ["cv"] ["q"] ["appr"] ["exec"] (Some "0.01") (Some "fee") None None [] [] 2 inc.
Example C13_accepts : is_ok (instantiate ex_env empty_state (ex_msg 300)) = true.
Proof. vm_compute. reflexivity. Qed.
Example C13_refuses : is_ok (instantiate ex_env empty_state (ex_msg 250)) = false.
Proof. vm_compute. reflexivity. Qed.

(* what "parses as a decimal" means for the plain numerals [+|-] digits [. digits] (at most 28 decimals, the digits
   read as one integer below 2^96): the parser returns exactly (sign, digits as an integer, number of decimals), so
   a stored rate or price *is* the number written, and the arithmetic theorems on mantissa/scale pairs (C02 C03 C04
   C07 C09 C12) speak about those numbers *)
Theorem C13_numerals_mean_their_value : forall s ws fs (pointed : bool),
  let '(neg, body) := sign_split (codes s) in
  body = (if pointed then ws ++ dot :: fs else ws) ->
  all_digits ws = true -> all_digits fs = true ->
  (if pointed then ws <> [] \/ fs <> [] else ws <> [] /\ fs = []) ->
  N.of_nat (List.length fs) <= 28 -> digits_val (ws ++ fs) 0 < B96 ->
  dec_parse s = Some (result neg (digits_val (ws ++ fs) 0) (N.of_nat (List.length fs))).
Proof. exact dec_parse_numeral. Qed.
Print Assumptions C13_numerals_mean_their_value.
