(* C08 Convertible asks: one-time funded approval, approver escrow tracks the ask. *)
From ATS Require Import Prelude Dec DecFacts Uuid Semver Types Contract Tactics Spec Inv InvAsk InstProofs AskProofs.

(* approval is accepted only from a configured approver, only for a pending (hence convertible, never plain,
   never already approved) ask, only with base = the contract's base denomination and size = the ask's current
   size, escrowed exactly (one attached coin, or a pull transfer with no funds for a restricted marker);
   its only effect is class := Ready{approver, (size, base)} on that ask *)
Theorem C08_approve_only_if : forall e st sender funds id base size st' r,
  execute FX e st sender funds (ApproveAsk id base size) = Ok (st', r) ->
  exists c a,
    st_cfg st = Some c /\ In sender (cf_approvers c) /\ funds_rule e funds size base /\
    lookup id (st_asks st) = Some a /\ a_class a = Pending /\ size = a_size a /\ base = cf_base c /\
    st' = set_asks st (insert id (approved a sender base) (st_asks st)) /\
    r = mkresp (pull_msgs e size base sender) (approve_attrs (approved a sender base)).
Proof. exact approve_only_if. Qed.
Print Assumptions C08_approve_only_if.

(* conversely, a request meeting these conditions is carried out *)
Theorem C08_approve_if : forall e st c a sender funds id,
  st_cfg st = Some c -> cfg_ok c -> In sender (cf_approvers c) -> lookup id (st_asks st) = Some a -> ask_ok c id a ->
  a_class a = Pending -> funds_rule e funds (a_size a) (cf_base c) -> uuid_canonical id = true ->
  execute FX e st sender funds (ApproveAsk id (cf_base c) (a_size a)) =
  Ok (set_asks st (insert id (approved a sender (cf_base c)) (st_asks st)),
      mkresp (pull_msgs e (a_size a) (cf_base c) sender) (approve_attrs (approved a sender (cf_base c)))).
Proof. exact approve_ask_live. Qed.
Print Assumptions C08_approve_if.

(* "only once": once an approval has been accepted, every further approval of the same ask -- by the same approver or
   any other sender, with any funds, base or size, in any environment -- is refused (the ask is no longer pending);
   any state, no hypothesis.  Over histories the class never returns to pending (C11_orders_evolve), so this holds
   for as long as the ask stays on the book. *)
Theorem C08_only_once : forall e st sender funds id base size st' r,
  execute FX e st sender funds (ApproveAsk id base size) = Ok (st', r) ->
  forall e2 sender2 funds2 base2 size2,
    exists t, execute FX e2 st' sender2 funds2 (ApproveAsk id base2 size2) = Refused t.
Proof.
  intros e st sender funds id base size st' r H e2 sender2 funds2 base2 size2.
  apply C08_approve_only_if in H as (c & a & _ & _ & _ & _ & _ & _ & _ & Hst & _).
  destruct (execute FX e2 st' sender2 funds2 (ApproveAsk id base2 size2)) as [[st2 r2]|t] eqn:E; [|eauto].
  exfalso. apply C08_approve_only_if in E as (c2 & a2 & _ & _ & _ & Hl & Hp & _).
  subst st'. cbn [set_asks st_asks] in Hl. rewrite lookup_insert_eq in Hl. injection Hl as <-.
  unfold approved in Hp. cbn [a_class] in Hp. discriminate.
Qed.
Print Assumptions C08_only_once.

(* ... and in any state whatever: an ask that is not pending -- a plain ask, or one already approved -- is never
   approved, by anybody with anything ("plain asks can never be approved", "only while pending").  A Ready ask stays
   Ready with the same approver for as long as it is on the book (C11_orders_evolve: class_evolves), so together the
   two say that an ask is approved at most once in its life. *)
Theorem C08_not_pending_never_approved : forall e st sender funds id base size a,
  lookup id (st_asks st) = Some a -> a_class a <> Pending ->
  exists t, execute FX e st sender funds (ApproveAsk id base size) = Refused t.
Proof.
  intros e st sender funds id base size a Hl Hnp.
  destruct (execute FX e st sender funds (ApproveAsk id base size)) as [[st2 r2]|t] eqn:E; [|eauto].
  exfalso. apply C08_approve_only_if in E as (c2 & a2 & _ & _ & _ & Hl2 & Hp & _).
  rewrite Hl in Hl2. injection Hl2 as <-. exact (Hnp Hp).
Qed.
Print Assumptions C08_not_pending_never_approved.

(* in every state reachable from an instantiation, by any history (fills, partial rejects, expiries, cancels,
   configuration changes, other orders), the approver-supplied amount recorded for an approved ask equals the
   ask's remaining size, in the contract's base denomination *)
Theorem C08_approver_escrow_tracks_ask : forall e m st0 r0 evs c id a ap cb,
  env_version_ok e -> instantiate e empty_state m = Ok (st0, r0) ->
  st_cfg (run st0 evs) = Some c -> lookup id (st_asks (run st0 evs)) = Some a -> a_class a = Ready ap cb ->
  cb = mkcoin (a_size a) (cf_base c).
Proof.
  intros e m st0 r0 evs c id a ap cb He Hi Hc Hl Hcl.
  eapply ready_tracks_size; eauto. eapply InvA_reachable; eauto.
Qed.
Print Assumptions C08_approver_escrow_tracks_ask.

(* so a cancel at any time returns the owner the remaining size and the approver exactly the unconsumed part *)
Theorem C08_cancel_returns_unconsumed : forall e' e m st0 r0 evs c id a,
  env_version_ok e -> instantiate e empty_state m = Ok (st0, r0) ->
  st_cfg (run st0 evs) = Some c -> lookup id (st_asks (run st0 evs)) = Some a ->
  execute FX e' (run st0 evs) (a_owner a) [] (CancelAsk id) =
  Ok (set_asks (run st0 evs) (remove id (st_asks (run st0 evs))),
      mkresp (ask_exit_msgs e' a (a_size a) (a_size a)) [("action", "cancel_ask"); ("id", id)]).
Proof.
  intros e' e m st0 r0 evs c id a He Hi Hc Hl.
  eapply cancel_ask_live; eauto. eapply inv_asks; eauto. eapply InvA_reachable; eauto.
Qed.
Print Assumptions C08_cancel_returns_unconsumed.

(* a pending ask is never matched *)
Theorem C08_pending_never_matched : forall e st sender funds ask_id bid_id price size st' r,
  execute FX e st sender funds (ExecuteMatch ask_id bid_id price size) = Ok (st', r) ->
  exists a, lookup ask_id (st_asks st) = Some a /\ a_class a <> Pending.
Proof. exact match_not_pending. Qed.
Print Assumptions C08_pending_never_matched.

(* non-vacuity: approve, partial reject, then the recorded approver amount follows the ask (3 of 10 rejected) *)
Definition ex_env : env :=
  mkenv (fun d => if String.eqb d "base" then MRestricted else MNone) (fun _ => [])
        (fun s => negb (str_empty s)) "self" "1.0.0" "ats".
Definition ex_inst : instmsg := mkinst "ats" "base" ["cv"] ["q"] ["appr"] ["exec"] None None None None [] [] 0 1.
Definition ex_id : string := "093231fc-e4b3-4fbc-a441-838787f16933".
Definition ex_history : list event :=
  [mkev ex_env "seller" [mkcoin 10 "cv"] (CreateAsk ex_id "cv" "q" "2" 10);
   mkev ex_env "appr" [] (ApproveAsk ex_id "base" 10);
   mkev ex_env "exec" [] (RejectAsk ex_id (Some 3))].
Example C08_example :
  match instantiate ex_env empty_state ex_inst with
  | Ok (st0, _) => option_map a_class (lookup ex_id (st_asks (run st0 ex_history)))
                   = Some (Ready "appr" (mkcoin 7 "base"))
  | Refused _ => False
  end.
Proof. vm_compute. reflexivity. Qed.
