(* C07 Admission: only fully funded, well-formed orders enter the book. *)
From ATS Require Import Prelude Dec DecFacts Uuid Semver Types Contract Tactics Spec Inv InvAsk InstProofs AskProofs
  BidFacts InvBid InvStep ExitProofs Ledger AdmitProofs MatchLive AdmitLive Known UuidFacts.

(* asks, both directions, every state and environment: a create-ask request is accepted IF AND ONLY IF the id is a
   canonical hyphenated UUID, base/quote/price are non-empty, size >= 1, the base is the contract's base or a
   convertible denomination, the escrow is exactly the ask's size in its base (one attached coin for an ordinary
   denomination; no funds and a single pull transfer from the sender for a restricted marker), the quote is
   supported, the size is a multiple of the increment, the price parses, is positive and within the precision, the
   sender holds every required attribute, and the id is not already on the ask side; the recorded ask then
   reproduces the request with the sender as owner (class by base denomination), every other order is untouched. *)
Theorem C07_ask_iff : forall e st sender funds id base quote price size st' r,
  execute FX e st sender funds (CreateAsk id base quote price size) = Ok (st', r) <->
  ask_wellformed id base quote price size /\
  exists c, st_cfg st = Some c /\ ask_admissible e c st sender funds id base quote price size /\
    st' = set_asks st (insert id (new_ask c sender id base quote price size) (st_asks st)) /\
    r = mkresp (pull_msgs e size base sender) (create_ask_attrs c (new_ask c sender id base quote price size)).
Proof. exact create_ask_admission. Qed.
Print Assumptions C07_ask_iff.

(* bids, "only if" in exact terms (any state satisfying the ask-side/config invariant; no numeric side condition:
   lot-multiple products are always exact): canonical id, sizes >= 1, valid price within precision, size a
   multiple of the increment, price*size the whole number quote_size, fee = rate_fee(configured rate, total) in the
   quote denomination (absent iff it is 0), supported quote, the contract's base, attributes held, escrow exactly
   quote_size + fee as one coin or one pull transfer, id fresh on the bid side; recorded bid = request, nothing filled *)
Theorem C07_bid_only_if : forall e st sender funds id base fee price quote qsize size st' r,
  InvA st ->
  execute FX e st sender funds (CreateBid id base fee price quote qsize size) = Ok (st', r) ->
  exists c p rate total calc,
    uuid_canonical id = true /\ 1 <= qsize /\ 1 <= size /\
    st_cfg st = Some c /\ price_of price p /\ valid_price price (cf_precision c) = Ok p /\
    size mod cf_increment c = 0 /\
    qsize * 10 ^ d_scale p = d_mant p * size /\
    bid_rate c = Some rate /\ mul_size p size = Ok total /\ rate_fee rate total = Ok calc /\
    (match fee with Some f => c_amt f = calc /\ c_denom f = quote | None => calc = 0 end) /\
    In quote (cf_quotes c) /\ base = cf_base c /\ has_attrs e (cf_bid_attrs c) sender = true /\
    funds_rule e funds (qsize + fee_amt fee) quote /\
    lookup id (st_bids st) = None /\
    st' = set_bids st (insert id (SlotV3 (new_bid sender id base fee price quote qsize size)) (st_bids st)) /\
    r = mkresp (pull_msgs e (qsize + fee_amt fee) quote sender)
               (create_bid_attrs (new_bid sender id base fee price quote qsize size)).
Proof. exact create_bid_admission_only_if. Qed.
Print Assumptions C07_bid_only_if.

(* the escrow demanded equals the obligation recorded: an admitted order adds to "owed" exactly what was escrowed *)
Theorem C07_escrow_equals_obligation : forall e st sender funds m st' r,
  Inv st -> clean_exec st m -> sender <> e_self e -> escrow_create m = true ->
  execute FX e st sender funds m = Ok (st', r) ->
  forall d, funds_in d funds + inflow e d (r_msgs r) + owed st d = owed st' d /\ outflow e d (r_msgs r) = 0.
Proof.
  intros e st sender funds m st' r HI Hc Hs Hm H d. pose proof (execute_conserves e st sender funds m st' r HI Hc Hs H d) as E.
  assert (Ho : outflow e d (r_msgs r) = 0).
  { unfold execute in H. guard_inv H Hv. destruct m; try discriminate Hm.
    - apply create_ask_iff in H as (c & _ & _ & _ & -> & _). apply out_pull. exact Hs.
    - apply create_bid_inv in H as (c & p & total & dq & rate & calc & tot & _ & _ & _ & _ & _ & _ & _ & _ & _ & _ & _ & _ & _ & _ & _ & _ & _ & ->).
      apply out_pull. exact Hs. }
  split; [lia|exact Ho].
Qed.
Print Assumptions C07_escrow_equals_obligation.

(* CONVERSELY for bids: every create-bid request meeting the conditions is accepted and recorded as requested
   (amounts below 2^96: outside the known class K_capacity; "the fee at the configured rate is computable and is the
   one sent" is the hypothesis on rate_fee) *)
Theorem C07_bid_if : forall e st c sender funds id fee price quote qsize size p rate,
  st_cfg st = Some c -> cfg_ok c ->
  uuid_canonical id = true -> quote <> "" -> price <> "" -> 1 <= qsize -> 1 <= size ->
  valid_price price (cf_precision c) = Ok p ->
  size mod cf_increment c = 0 ->
  size < B96 -> qsize < B96 ->
  qsize * 10 ^ d_scale p = d_mant p * size ->
  bid_rate c = Some rate ->
  (forall total, mul_size p size = Ok total ->
     exists calc, rate_fee rate total = Ok calc /\
       match fee with Some f => c_amt f = calc /\ c_denom f = quote | None => calc = 0 end) ->
  In quote (cf_quotes c) -> has_attrs e (cf_bid_attrs c) sender = true ->
  qsize + fee_amt fee <= U128MAX ->
  funds_rule e funds (qsize + fee_amt fee) quote ->
  lookup id (st_bids st) = None ->
  execute FX e st sender funds (CreateBid id (cf_base c) fee price quote qsize size) =
  Ok (set_bids st (insert id (SlotV3 (new_bid sender id (cf_base c) fee price quote qsize size)) (st_bids st)),
      mkresp (pull_msgs e (qsize + fee_amt fee) quote sender)
             (create_bid_attrs (new_bid sender id (cf_base c) fee price quote qsize size))).
Proof. exact create_bid_if. Qed.
Print Assumptions C07_bid_if.

(* the capacity class, exactly: an admitted bid has size and quote size below 2^96 (the decimal type's capacity).  Together
   with C07_bid_if (every request meeting the listed conditions with amounts below 2^96 is admitted) this pins down
   K_capacity (known_findings.json) as "an amount of 2^96 or more", nothing else *)
Theorem C07_capacity : forall e st sender funds id base fee price quote qsize size st' r,
  execute FX e st sender funds (CreateBid id base fee price quote qsize size) = Ok (st', r) ->
  size < B96 /\ qsize < B96.
Proof.
  intros e st sender funds id base fee price quote qsize size st' r H.
  unfold execute in H. guard_inv H Hv. cbn [validate_exec] in *.
  apply create_bid_inv in H as (c & p & total & dq & rate & calc & tot & _ & _ & _ & Hm & _ & Hdq & _).
  unfold mul_size in Hm. bind_inv Hm dn Hdn. unfold dec_of_u128 in Hdn. apply of_opt_ok in Hdn.
  apply dec_from_u128_ok in Hdn as [Hs _]. apply dec_from_u128_ok in Hdq as [Hq _]. split; assumption.
Qed.
Print Assumptions C07_capacity.

(* Inside K_capacity the converse is FALSE of the code (recorded finding, corpus/known/k_capacity.hist): in a reachable
   state a bid of 2^96 units at price 1 with exactly 2^96 attached -- every listed admission condition holds -- is refused,
   the same bid one unit smaller is admitted. *)
Theorem C07_refuted_in_K_capacity :
  exists e st sender id1 id2 n,
    Inv st /\ n = 2 ^ 96 /\
    is_ok (execute FX e st sender [mkcoin n "q"] (CreateBid id1 "base" None "1" "q" n n)) = false /\
    is_ok (execute FX e st sender [mkcoin (n - 1) "q"] (CreateBid id2 "base" None "1" "q" (n - 1) (n - 1))) = true.
Proof.
  exists k_env, (k_start k_cap_inst), "buyer", kB, kB2, 79228162514264337593543950336.
  split; [apply k_start_inv; vm_compute; reflexivity|]. split; [vm_compute; reflexivity|].
  destruct k_capacity_witness as (_ & H1 & H2). split; [exact H1|exact H2].
Qed.
Print Assumptions C07_refuted_in_K_capacity.

(* "a canonical hyphenated UUID": every spelling the validator accepts (hyphenated, 32 hex digits, braced, urn:uuid:, any
   letter case) denotes a list of exactly 32 hex digits; that list has one canonical spelling, which parses back to it and is
   canonical; and a spelling is canonical exactly when it IS that spelling.  (Round-trip law for the uuid port, Uuid.v; the
   port itself is compared with the crate case by case on every run.) *)
Theorem C07_canonical_id : forall s nib,
  uuid_parse s = Some nib ->
  uuid_parse (uuid_hyphenated nib) = Some nib /\ uuid_canonical (uuid_hyphenated nib) = true /\
  (uuid_canonical s = true <-> s = uuid_hyphenated nib).
Proof. exact valid_has_canonical. Qed.
Print Assumptions C07_canonical_id.
