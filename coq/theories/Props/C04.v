(* C04 Cancel / expire / reject return exactly the cancelled escrow to its depositor. *)
From ATS Require Import Prelude Dec DecFacts Uuid Semver Types Contract Tactics Spec Inv InvAsk InstProofs AskProofs
  BidFacts InvBid InvStep ExitProofs Ledger Recipients RejectLive.

(* owner-initiated ask cancel: only the owner, no funds; pays the owner the remaining size in the ask's base and,
   for an approved convertible ask, the approver the recorded approver amount (= the remaining size in every
   reachable state, C08) in the contract's base; nobody else; the ask leaves the book *)
Theorem C04_cancel_ask : forall e st sender funds id st' r,
  execute FX e st sender funds (CancelAsk id) = Ok (st', r) ->
  exists a, funds = [] /\ lookup id (st_asks st) = Some a /\ sender = a_owner a /\
    st' = set_asks st (remove (a_id a) (st_asks st)) /\
    r = mkresp (ask_exit_msgs e a (a_size a) (match a_class a with Ready _ cb => c_amt cb | _ => 0 end))
               [("action", "cancel_ask"); ("id", a_id a)].
Proof. intros e st sender funds id st' r H. unfold execute in H. guard_inv H Hv. apply cancel_ask_inv. exact H. Qed.
Print Assumptions C04_cancel_ask.

(* executor-initiated ask expire / reject of size c (c = the whole remaining size when none is given; an
   explicit c is a multiple of the increment, and >= 1 by message validation, and <= the remainder): pays the owner c
   of the ask's base and, if approved, the approver c of the contract's base; size and approver amount shrink by c;
   removed exactly when nothing remains *)
Theorem C04_reverse_ask : forall e st sender funds id action csz st' r,
  reverse_ask FX e st sender funds id action csz = Ok (st', r) ->
  exists c a eff,
    funds = [] /\ st_cfg st = Some c /\ In sender (cf_executors c) /\ lookup id (st_asks st) = Some a /\
    eff = match csz with None => a_size a | Some s => s end /\
    (forall s, csz = Some s -> s mod cf_increment c = 0) /\
    eff <= a_size a /\
    st' = set_asks st (if a_size a - eff =? 0 then remove (a_id a) (st_asks st)
                       else insert (a_id a) (ask_after a (a_size a - eff)) (st_asks st)) /\
    r = mkresp (ask_exit_msgs e a eff eff) (reverse_attrs action id eff (negb (a_size a - eff =? 0))).
Proof. exact reverse_ask_inv. Qed.
Print Assumptions C04_reverse_ask.

(* bid cancel / expire / reject of size c in a state satisfying the invariant (every state reachable by a clean
   history): pays the owner cq = price*c of quote (exactly: cq*10^s = m*c for price m/10^s) plus the part fa of the
   escrowed fee no longer needed for what remains (fa = held - F(unspent - cq), F the pro-rata function of C09);
   nobody else; unfilled, unspent and held shrink by exactly (c, cq, fa); removed exactly when c = unfilled *)
Theorem C04_reverse_bid : forall e st sender funds m id action is_cancel csz st' r,
  Inv st -> clean_exec st m -> bid_reverse_of m = Some (id, action, is_cancel, csz) ->
  execute FX e st sender funds m = Ok (st', r) ->
  exists c b p eff cq fa,
    st_cfg st = Some c /\ lookup id (st_bids st) = Some (SlotV3 b) /\ price_of (b_price b) p /\ funds = [] /\
    (if is_cancel then sender = b_owner b else In sender (cf_executors c)) /\
    eff = match csz with None => unfilled b | Some s => s end /\
    (forall s, csz = Some s -> 1 <= s /\ s mod cf_increment c = 0) /\ eff <= unfilled b /\
    cq * 10 ^ d_scale p = d_mant p * eff /\
    (match b_fee b with
     | None => fa = 0
     | Some f => exists keep, fee_for_rest b (c_amt f) (unspent b - cq) = Ok keep /\ keep <= held b /\ fa = held b - keep
     end) /\
    r = mkresp (pay_msg e cq (c_denom (b_quote b)) (b_owner b) ::
                (if 0 <? fa then [pay_msg e fa (c_denom (b_quote b)) (b_owner b)] else []))
               (reverse_attrs action id eff (negb (unfilled b - eff =? 0))) /\
    st' = set_bids st (if unfilled b - eff =? 0 then remove id (st_bids st)
                       else insert id (SlotV3 (mkbid (b_base b) (b_acc_base b + eff) (b_acc_quote b + cq) (b_acc_fee b + fa)
                                                      (b_fee b) (b_id b) (b_owner b) (b_price b) (b_quote b))) (st_bids st)).
Proof. exact bid_reverse_settles. Qed.
Print Assumptions C04_reverse_bid.

(* "Nobody else is paid", account by account ([received d x ms] = what the messages ms deliver to account x in
   denomination d).  An ask exit of effective size c (the whole remaining size for a cancel): the owner receives c of the
   denomination the ask sells, the approver of an approved ask c of the contract's base, every other account 0. *)
Theorem C04_ask_exit_recipients : forall e st sender funds m st' r,
  InvA st -> (exists id, m = CancelAsk id \/ m = ExpireAsk id \/ exists s, m = RejectAsk id s) ->
  execute FX e st sender funds m = Ok (st', r) ->
  exists c a eff id,
    st_cfg st = Some c /\ lookup id (st_asks st) = Some a /\ eff <= a_size a /\
    (forall id', m = CancelAsk id' -> eff = a_size a) /\
    forall x d,
      received d x (r_msgs r) =
        sel x (a_owner a) (ind d (a_base a) eff) +
        match a_class a with Ready ap _ => sel x ap (ind d (cf_base c) eff) | _ => 0 end.
Proof. exact ask_exit_recipients. Qed.
Print Assumptions C04_ask_exit_recipients.

(* A bid exit of effective size c: the owner receives cq = price * c of quote plus the part fa of the escrowed fee no longer
   needed for what remains, every other account 0. *)
Theorem C04_bid_exit_recipients : forall e st sender funds m id action is_cancel csz st' r,
  Inv st -> clean_exec st m -> bid_reverse_of m = Some (id, action, is_cancel, csz) ->
  execute FX e st sender funds m = Ok (st', r) ->
  exists b p eff cq fa,
    lookup id (st_bids st) = Some (SlotV3 b) /\ price_of (b_price b) p /\
    eff = match csz with None => unfilled b | Some s => s end /\
    cq * 10 ^ d_scale p = d_mant p * eff /\ fee_cond b cq fa /\
    forall x d, received d x (r_msgs r) = sel x (b_owner b) (ind d (c_denom (b_quote b)) (cq + fa)).
Proof. exact bid_exit_recipients. Qed.
Print Assumptions C04_bid_exit_recipients.

(* The size rule is exact: "a partial size must be a positive multiple of the size increment not exceeding what remains"
   (only-if: C04_reverse_ask, C04_reverse_bid) -- and conversely an executor's reject by such a size is carried out, for
   asks in every state satisfying InvA, for bids in every state satisfying Inv (no side condition: a lot times an
   in-precision price is whole, and the fee to keep never exceeds the fee held, by monotonicity of the pro-rata function). *)
Theorem C04_reject_ask_if : forall e st c id a sender s,
  InvA st -> st_cfg st = Some c -> In sender (cf_executors c) -> lookup id (st_asks st) = Some a ->
  1 <= s -> s mod cf_increment c = 0 -> s <= a_size a ->
  is_ok (execute FX e st sender [] (RejectAsk id (Some s))) = true.
Proof. exact reject_ask_if. Qed.
Print Assumptions C04_reject_ask_if.

Theorem C04_reject_bid_if : forall e st c id b sender s,
  Inv st -> st_cfg st = Some c -> In sender (cf_executors c) -> lookup id (st_bids st) = Some (SlotV3 b) ->
  1 <= s -> s mod cf_increment c = 0 -> s <= unfilled b ->
  is_ok (execute FX e st sender [] (RejectBid id (Some s))) = true.
Proof. exact reject_bid_if. Qed.
Print Assumptions C04_reject_bid_if.
