(* C05 Authorization: owners cancel, executors operate, approvers approve; no one else.
   Statements hold for every setting of the repair flags, every environment and every state. *)
From ATS Require Import Prelude Dec Uuid Semver Types Contract Tactics AuthProofs.

(* the transition function as the chain sees it: a refused request changes nothing and emits nothing *)
Theorem C05_refused_changes_nothing : forall fx e st sender funds m t,
  execute fx e st sender funds m = Refused t ->
  step fx e st sender funds m = (st, None).
Proof. exact step_refused. Qed.
Print Assumptions C05_refused_changes_nothing.

Theorem C05_cancel_ask_owner_only : forall fx e st sender funds id st' r,
  execute fx e st sender funds (CancelAsk id) = Ok (st', r) ->
  exists a, lookup id (st_asks st) = Some a /\ sender = a_owner a.
Proof. exact cancel_ask_owner. Qed.
Print Assumptions C05_cancel_ask_owner_only.

Theorem C05_cancel_bid_owner_only : forall fx e st sender funds id st' r,
  execute fx e st sender funds (CancelBid id) = Ok (st', r) ->
  exists b, lookup id (st_bids st) = Some (SlotV3 b) /\ sender = b_owner b.
Proof. exact cancel_bid_owner. Qed.
Print Assumptions C05_cancel_bid_owner_only.

Theorem C05_executor_only : forall fx e st sender funds m st' r,
  executor_op m = true ->
  execute fx e st sender funds m = Ok (st', r) ->
  exists c, st_cfg st = Some c /\ In sender (cf_executors c).
Proof. exact executor_ops. Qed.
Print Assumptions C05_executor_only.

Theorem C05_approver_only : forall fx e st sender funds id base size st' r,
  execute fx e st sender funds (ApproveAsk id base size) = Ok (st', r) ->
  exists c, st_cfg st = Some c /\ In sender (cf_approvers c).
Proof. exact approve_approver. Qed.
Print Assumptions C05_approver_only.

(* holding one role never confers another: with the role sets disjoint from the sender, refusal *)
Theorem C05_role_separation : forall fx e st sender funds m c,
  st_cfg st = Some c ->
  (executor_op m = true -> ~ In sender (cf_executors c)) ->
  (forall id base size, m = ApproveAsk id base size -> ~ In sender (cf_approvers c)) ->
  (forall id a, m = CancelAsk id -> lookup id (st_asks st) = Some a -> sender <> a_owner a) ->
  (forall id b, m = CancelBid id -> lookup id (st_bids st) = Some (SlotV3 b) -> sender <> b_owner b) ->
  privileged m = true ->
  step fx e st sender funds m = (st, None).
Proof. exact role_separation. Qed.
Print Assumptions C05_role_separation.
