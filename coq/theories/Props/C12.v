(* C12 Configuration changes cannot move the terms under open orders. *)
From ATS Require Import Prelude Dec DecFacts Uuid Semver Types Contract Tactics Spec Inv InvAsk InstProofs AskProofs Frame Evolve Reach.

(* the complete relation between a configuration-change request and its effect: executor only, no funds;
   with asks open the ask attributes may not be supplied and a supplied ask rate must equal the current one as a
   number (same for bids); with any order open every current approver stays; supplied lists are non-empty valid
   addresses and are installed verbatim, omitted fields keep their values, fee pairs are whole (fee_pair: the
   empty pair clears, otherwise parseable rate + valid account); everything else in the configuration, the
   book and the version record is untouched *)
Theorem C12_modify_relation : forall e st sender funds m st' r,
  execute FX e st sender funds (ModifyContract m) = Ok (st', r) ->
  exists c af bf,
    st_cfg st = Some c /\ In sender (cf_executors c) /\ funds = [] /\
    (st_asks st <> [] -> m_aattrs m = None /\ forall rate, m_afr m = Some rate -> same_rate (cf_ask_fee c) rate) /\
    (st_bids st <> [] -> m_battrs m = None /\ forall rate, m_bfr m = Some rate -> same_rate (cf_bid_fee c) rate) /\
    (st_asks st <> [] \/ st_bids st <> [] -> forall l, m_approvers m = Some l -> incl (cf_approvers c) l) /\
    modify_version_ok st = true /\
    (forall l, m_approvers m = Some l -> l <> [] /\ forallb (e_addr_ok e) l = true) /\
    (forall l, m_executors m = Some l -> l <> [] /\ forallb (e_addr_ok e) l = true) /\
    opt_pair_ok (m_afr m) (m_afa m) = true /\ opt_pair_ok (m_bfr m) (m_bfa m) = true /\
    fee_pair e (cf_ask_fee c) (m_afa m) (m_afr m) = Ok af /\
    fee_pair e (cf_bid_fee c) (m_bfa m) (m_bfr m) = Ok bf /\
    st' = set_cfg st (mkcfg (cf_name c) (cf_bind c) (cf_base c) (cf_conv c) (cf_quotes c)
                 (opt_list (cf_approvers c) (m_approvers m)) (opt_list (cf_executors c) (m_executors m))
                 af bf (opt_list (cf_ask_attrs c) (m_aattrs m)) (opt_list (cf_bid_attrs c) (m_battrs m))
                 (cf_precision c) (cf_increment c)) /\
    r = mkresp [] [("action", "modify_contract")].
Proof. exact modify_contract_inv. Qed.
Print Assumptions C12_modify_relation.

(* while an ask is open an accepted change keeps the ask fee rate as a number (present-ness included) and the
   ask-side required attributes; likewise for bids *)
Theorem C12_ask_terms_frozen : forall e st sender funds m st' r c c',
  execute FX e st sender funds (ModifyContract m) = Ok (st', r) -> st_cfg st = Some c -> st_cfg st' = Some c' ->
  st_asks st <> [] -> same_number (cf_ask_fee c) (cf_ask_fee c') /\ cf_ask_attrs c' = cf_ask_attrs c.
Proof. exact modify_keeps_ask_terms. Qed.
Print Assumptions C12_ask_terms_frozen.
Theorem C12_bid_terms_frozen : forall e st sender funds m st' r c c',
  execute FX e st sender funds (ModifyContract m) = Ok (st', r) -> st_cfg st = Some c -> st_cfg st' = Some c' ->
  st_bids st <> [] -> same_number (cf_bid_fee c) (cf_bid_fee c') /\ cf_bid_attrs c' = cf_bid_attrs c.
Proof. exact modify_keeps_bid_terms. Qed.
Print Assumptions C12_bid_terms_frozen.

(* no execute request of any kind other than a configuration change touches the configuration, and none at all
   changes the market parameters (name, bind name, base, convertible and quote denominations, precision,
   increment): for every history from an instantiation they equal the instantiated ones *)
Theorem C12_only_modify_changes_config : forall e st sender funds m st' r,
  keys_ok st -> execute FX e st sender funds m = Ok (st', r) -> is_modify m = false -> st_cfg st' = st_cfg st.
Proof. intros e st sender funds m st' r HK H. apply (fr_cfg _ _ _ (execute_framed _ _ _ _ _ _ _ HK H)). Qed.
Print Assumptions C12_only_modify_changes_config.

Theorem C12_market_parameters_frozen : forall e m st0 r0 evs,
  instantiate e empty_state m = Ok (st0, r0) ->
  option_map market (st_cfg (run st0 evs)) = Some (market (inst_cfg m)).
Proof.
  intros e m st0 r0 evs H. rewrite market_run; [|eapply keys_ok_init; eauto].
  apply instantiate_stored in H as [-> _]. reflexivity.
Qed.
Print Assumptions C12_market_parameters_frozen.
