(* C16 Queries are read-only and report the book and configuration faithfully. *)
From ATS Require Import Prelude Dec Uuid Semver Types Contract Tactics InstProofs.

(* Read-only: `query : state -> qmsg -> res qres` returns no state at all; as a transition it is the identity.
   (On the implementation side the correspondence run compares the complete raw storage around every query.) *)
Definition query_transition (st : state) (m : qmsg) : state * res qres := (st, query st m).
Theorem C16_read_only : forall st m, fst (query_transition st m) = st.
Proof. reflexivity. Qed.
Print Assumptions C16_read_only.

Theorem C16_get_ask : forall st id a,
  query st (GetAsk id) = Ok (QAsk a) <-> uuid_valid id = true /\ lookup id (st_asks st) = Some a.
Proof. exact query_get_ask. Qed.
Print Assumptions C16_get_ask.

Theorem C16_get_bid : forall st id b,
  query st (GetBid id) = Ok (QBid b) <-> uuid_valid id = true /\ lookup id (st_bids st) = Some (SlotV3 b).
Proof. exact query_get_bid. Qed.
Print Assumptions C16_get_bid.

(* ids not on the book (closed, never used) fail *)
Theorem C16_absent_ask : forall st id, lookup id (st_asks st) = None -> is_ok (query st (GetAsk id)) = false.
Proof. exact query_ask_absent. Qed.
Print Assumptions C16_absent_ask.
Theorem C16_absent_bid : forall st id,
  (forall b, lookup id (st_bids st) <> Some (SlotV3 b)) -> is_ok (query st (GetBid id)) = false.
Proof. exact query_bid_absent. Qed.
Print Assumptions C16_absent_bid.

Theorem C16_contract_info : forall st,
  query st GetContractInfo = match st_cfg st with Some c => Ok (QCfg c) | None => Refused 1 end.
Proof. exact query_cfg. Qed.
Print Assumptions C16_contract_info.
Theorem C16_version_info : forall st,
  query st GetVersionInfo = match st_ver st with Some (d, v) => Ok (QVer d v) | None => Refused 64 end.
Proof. exact query_ver. Qed.
Print Assumptions C16_version_info.
