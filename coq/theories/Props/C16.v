(* C16 Queries are read-only and report the book and configuration faithfully. *)
From ATS Require Import Prelude Dec Uuid Semver Types Contract Tactics InstProofs Spec Inv InvAsk InstProofs AskProofs BidFacts InvBid InvStep ExitProofs.

(* Read-only: `query : state -> qmsg -> res qres` returns no state at all; as a transition it is the identity.
   (On the implementation side the correspondence run compares the complete raw storage around every query.) *)
Definition query_transition (st : state) (m : qmsg) : state * res qres := (st, query st m).
Theorem C16_read_only : forall st m, fst (query_transition st m) = st.
Proof. reflexivity. Qed.
Print Assumptions C16_read_only.

Theorem C16_get_ask : forall st id a,
  query st (GetAsk id) = Ok (QAsk a) <-> uuid_valid id = true /\ lookup id (st_asks st) = Some a.
Proof. exact query_get_ask. Qed.
Print Assumptions C16_get_ask.

Theorem C16_get_bid : forall st id b,
  query st (GetBid id) = Ok (QBid b) <-> uuid_valid id = true /\ lookup id (st_bids st) = Some (SlotV3 b).
Proof. exact query_get_bid. Qed.
Print Assumptions C16_get_bid.

(* ids not on the book (closed, never used) fail *)
Theorem C16_absent_ask : forall st id, lookup id (st_asks st) = None -> is_ok (query st (GetAsk id)) = false.
Proof. exact query_ask_absent. Qed.
Print Assumptions C16_absent_ask.
Theorem C16_absent_bid : forall st id,
  (forall b, lookup id (st_bids st) <> Some (SlotV3 b)) -> is_ok (query st (GetBid id)) = false.
Proof. exact query_bid_absent. Qed.
Print Assumptions C16_absent_bid.

Theorem C16_contract_info : forall st,
  query st GetContractInfo = match st_cfg st with Some c => Ok (QCfg c) | None => Refused 1 end.
Proof. exact query_cfg. Qed.
Print Assumptions C16_contract_info.
Theorem C16_version_info : forall st,
  query st GetVersionInfo = match st_ver st with Some (d, v) => Ok (QVer d v) | None => Refused 64 end.
Proof. exact query_ver. Qed.
Print Assumptions C16_version_info.

(* "what a cancel would return": in every reachable state the order a query reports is the order its owner's cancel acts
   on -- the cancel is accepted, removes exactly that order and pays out the amounts the query showed (an ask: its
   remaining size, plus the approver's recorded amount; a bid: its unspent quote and the fee still held) *)
Theorem C16_ask_query_is_what_cancel_returns : forall e' e m st0 r0 evs id a,
  env_version_ok e -> instantiate e empty_state m = Ok (st0, r0) ->
  query (run st0 evs) (GetAsk id) = Ok (QAsk a) ->
  execute FX e' (run st0 evs) (a_owner a) [] (CancelAsk id) =
  Ok (set_asks (run st0 evs) (remove id (st_asks (run st0 evs))),
      mkresp (ask_exit_msgs e' a (a_size a) (a_size a)) [("action", "cancel_ask"); ("id", id)]).
Proof.
  intros e' e m st0 r0 evs id a He Hi Hq. apply query_get_ask in Hq as [_ Hl].
  pose proof (InvA_reachable e m st0 r0 evs He Hi) as HA. destruct (inv_cfg _ HA) as (c & Hc & _).
  eapply cancel_ask_live; eauto. eapply inv_asks; eauto.
Qed.
Print Assumptions C16_ask_query_is_what_cancel_returns.

Theorem C16_bid_query_is_what_cancel_returns : forall e' e m st0 r0 evs id b,
  env_version_ok e -> instantiate e empty_state m = Ok (st0, r0) -> clean_run st0 evs ->
  query (run st0 evs) (GetBid id) = Ok (QBid b) ->
  execute FX e' (run st0 evs) (b_owner b) [] (CancelBid id) =
  Ok (set_bids (run st0 evs) (remove id (st_bids (run st0 evs))),
      mkresp (bid_exit_all e' b) (reverse_attrs "cancel_bid" id (unfilled b) false)).
Proof.
  intros e' e m st0 r0 evs id b He Hi Hcl Hq. apply query_get_bid in Hq as [_ Hl].
  destruct (Inv_reachable e m st0 r0 evs He Hi Hcl) as [HA HB]. destruct (inv_cfg _ HA) as (c & Hc & _).
  eapply cancel_bid_live; eauto. destruct (inv_bids _ HB c id _ Hc Hl) as (b0 & Hb0 & Hok). injection Hb0 as <-. exact Hok.
Qed.
Print Assumptions C16_bid_query_is_what_cancel_returns.
