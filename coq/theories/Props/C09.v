(* C09 Fee exactness: configured rate at entry, half-up rounding, pro-rata thereafter. *)
From ATS Require Import Prelude Dec DecFacts Uuid Semver Types Contract Tactics Spec Inv InvAsk InstProofs AskProofs
  BidFacts InvBid InvStep ExitProofs Ledger MatchProofs.

(* (i)+(ii) both fees are rate_fee rate amount = round_half_away_from_zero(rate*amount) in the contract's decimal
   arithmetic: the bid fee demanded at creation (create_bid_inv: fee = calc, in the quote denomination, or no fee
   when calc = 0) and the ask fee of a match (ask_fee_spec, deducted from the proceeds: net = gross - af, paid to the
   ask-fee account: C02).  Outside the class K_rate -- i.e. when the 96-bit product is exact -- this is the exact
   value: for rate m/10^s and whole amount T, fee = floor(m*T/10^s + 1/2). *)
Theorem C09_rate_fee_exact : forall rate total T calc pr,
  dec_int_value total T -> dec_mul rate total = Some pr -> mul_is_exact rate total pr = true ->
  rate_fee rate total = Ok calc -> calc = rhu (d_mant rate * T) (pow10 (d_scale rate)).
Proof. exact rate_fee_exact. Qed.
Print Assumptions C09_rate_fee_exact.

Theorem C09_bid_fee_at_entry : forall e st sender funds id base fee price quote qsize size st' r,
  create_bid e st sender funds id base fee price quote qsize size = Ok (st', r) ->
  exists c p total rate calc,
    st_cfg st = Some c /\ valid_price price (cf_precision c) = Ok p /\ mul_size p size = Ok total /\
    bid_rate c = Some rate /\ rate_fee rate total = Ok calc /\
    (match fee with Some f => c_amt f = calc /\ c_denom f = quote | None => calc = 0 end).
Proof.
  intros e st sender funds id base fee price quote qsize size st' r H.
  apply create_bid_inv in H as (c & p & total & dq & rate & calc & tot & H1 & H2 & _ & H3 & _ & _ & _ & H4 & H5 & H6 & _).
  exists c, p, total, rate, calc. auto 10.
Qed.
Print Assumptions C09_bid_fee_at_entry.

(* (iii) in every state reachable by a clean history, the fee still held by an open bid is the pro-rata function F of
   its unspent quote:  held = F(unspent),  F x = round_half_away(fee * (x / quote)) formed in 28-digit decimals
   (fee_for_rest); F 0 = 0 and F quote = fee *)
Theorem C09_held_is_prorata : forall e m st0 r0 evs c k b f,
  env_version_ok e -> instantiate e empty_state m = Ok (st0, r0) -> clean_run st0 evs ->
  st_cfg (run st0 evs) = Some c -> lookup k (st_bids (run st0 evs)) = Some (SlotV3 b) -> b_fee b = Some f ->
  fee_for_rest b (c_amt f) (unspent b) = Ok (held b) /\ c_denom f = c_denom (b_quote b).
Proof.
  intros e m st0 r0 evs c k b f He Hi Hc Hcfg Hl Hf. eapply held_is_prorata; eauto.
  apply (Inv_reachable e m st0 r0 evs He Hi Hc).
Qed.
Print Assumptions C09_held_is_prorata.
Theorem C09_prorata_endpoints : forall b f,
  c_amt (b_quote b) <> 0 -> c_amt (b_quote b) < B96 -> f < B96 ->
  fee_for_rest b f 0 = Ok 0 /\ fee_for_rest b f (c_amt (b_quote b)) = Ok f.
Proof. intros b f H1 H2 H3. split; [apply fee_for_rest_zero|apply fee_for_rest_full]; assumption. Qed.
Print Assumptions C09_prorata_endpoints.

(* (iv) over the life of a bid the fee paid on fills plus the fee returned on refunds, rejects and cancels adds up
   exactly to the fee escrowed: every step consumes fa = held - F(unspent') (C02, C04), and the step on which the bid
   leaves the book consumes everything still held (so consumed + held = fee at every moment, and = fee at the end) *)
Theorem C09_fee_fully_released_at_close : forall c k b p dy fa,
  bid_ok c k b -> price_of (b_price b) p -> dy * 10 ^ d_scale p = d_mant p * unfilled b -> fee_cond b dy fa ->
  dy = unspent b /\ fa = held b.
Proof.
  intros c k b p dy fa Hok Hp Hdy Hfc.
  pose proof (bid_consume_owed c k b p (unfilled b) dy fa (c_denom (b_quote b)) Hok Hp (N.le_refl _) Hdy Hfc) as E.
  rewrite N.sub_diag in E. cbn [N.eqb] in E. unfold bid_owed, ind in E. rewrite String.eqb_refl in E.
  destruct Hok as (_ & _ & _ & _ & _ & _ & _ & _ & (p0 & Hp0 & HQ & HU) & Hfee).
  pose proof (price_of_fun _ _ _ Hp Hp0) as Hpe. subst p0. pose proof (pow10_pos (d_scale p)) as Ppos.
  assert (Hd : dy = unspent b).
  { assert (Hx : dy * 10 ^ d_scale p = unspent b * 10 ^ d_scale p) by (rewrite Hdy, HU; reflexivity).
    apply N.mul_cancel_r in Hx; [exact Hx|lia]. }
  split; [exact Hd|lia].
Qed.
Print Assumptions C09_fee_fully_released_at_close.

(* NOT proved here: that F x is the nearest unit to fee*x/quote (lower unit only on an exact half) outside the class
   K_prorata, and monotonicity of F; see DESIGN.md ("partial").  The implementation-side oracle of the correspondence
   run evaluates that statement in exact rational arithmetic on every bid of every generated state. *)
