(* C09 Fee exactness: configured rate at entry, half-up rounding, pro-rata thereafter. *)
From ATS Require Import Prelude Dec DecFacts Uuid Semver Types Contract Tactics Spec Inv InvAsk InstProofs AskProofs
  BidFacts DivFacts ProRata InvBid InvStep ExitProofs Ledger MatchProofs Witness Known.

(* (i)+(ii) both fees are rate_fee rate amount = round_half_away_from_zero(rate*amount) in the contract's decimal
   arithmetic: the bid fee demanded at creation (create_bid_inv: fee = calc, in the quote denomination, or no fee
   when calc = 0) and the ask fee of a match (ask_fee_spec, deducted from the proceeds: net = gross - af, paid to the
   ask-fee account: C02).  Outside the class K_rate -- i.e. when the 96-bit product is exact -- this is the exact
   value: for rate m/10^s and whole amount T, fee = floor(m*T/10^s + 1/2). *)
Theorem C09_rate_fee_exact : forall rate total T calc pr,
  dec_int_value total T -> dec_mul rate total = Some pr -> mul_is_exact rate total pr = true ->
  rate_fee rate total = Ok calc -> calc = rhu (d_mant rate * T) (pow10 (d_scale rate)).
Proof. exact rate_fee_exact. Qed.
Print Assumptions C09_rate_fee_exact.

(* a value-level sufficient condition for exactness: mantissa(rate) * mantissa(total) < 2^96 and at most 28 decimals
   together -- the class K_rate (known_findings.json) lies in the complement *)
Theorem C09_rate_fee_small : forall rate total T calc,
  dec_int_value total T -> d_scale rate + d_scale total <= 28 -> d_mant rate * d_mant total < B96 ->
  rate_fee rate total = Ok calc -> calc = rhu (d_mant rate * T) (pow10 (d_scale rate)).
Proof.
  intros rate total T calc HT Hs Hm H. pose proof H as H0. unfold rate_fee in H0.
  destruct (dec_mul rate total) as [pr|] eqn:E; [|discriminate].
  eapply rate_fee_exact; eauto. eapply dec_mul_small_exact2; eauto.
Qed.
Print Assumptions C09_rate_fee_small.

(* and for EVERY rate and amount -- also inside K_rate -- the fee is never a whole unit away from the exact product
   rate * amount: it is one of the two integers next to it.  (The decimal product is rounded to 96 bits at most twice,
   moving it by at most 0.55 units of its last kept digit, then rounded half-up to a unit.) *)
Theorem C09_rate_fee_within_a_unit : forall rate total T calc,
  dec_int_value total T -> rate_fee rate total = Ok calc ->
  calc * 10 ^ d_scale rate < d_mant rate * T + 10 ^ d_scale rate /\
  d_mant rate * T < calc * 10 ^ d_scale rate + 10 ^ d_scale rate.
Proof. exact rate_fee_within_a_unit. Qed.
Print Assumptions C09_rate_fee_within_a_unit.

Theorem C09_bid_fee_at_entry : forall e st sender funds id base fee price quote qsize size st' r,
  create_bid e st sender funds id base fee price quote qsize size = Ok (st', r) ->
  exists c p total rate calc,
    st_cfg st = Some c /\ valid_price price (cf_precision c) = Ok p /\ mul_size p size = Ok total /\
    bid_rate c = Some rate /\ rate_fee rate total = Ok calc /\
    (match fee with Some f => c_amt f = calc /\ c_denom f = quote | None => calc = 0 end).
Proof.
  intros e st sender funds id base fee price quote qsize size st' r H.
  apply create_bid_inv in H as (c & p & total & dq & rate & calc & tot & H1 & H2 & _ & H3 & _ & _ & _ & H4 & H5 & H6 & _).
  exists c, p, total, rate, calc. auto 10.
Qed.
Print Assumptions C09_bid_fee_at_entry.

(* (iii) in every state reachable by a clean history, the fee still held by an open bid is the pro-rata function F of
   its unspent quote:  held = F(unspent),  F x = round_half_away(fee * (x / quote)) formed in 28-digit decimals
   (fee_for_rest); F 0 = 0 and F quote = fee *)
Theorem C09_held_is_prorata : forall e m st0 r0 evs c k b f,
  env_version_ok e -> instantiate e empty_state m = Ok (st0, r0) -> clean_run st0 evs ->
  st_cfg (run st0 evs) = Some c -> lookup k (st_bids (run st0 evs)) = Some (SlotV3 b) -> b_fee b = Some f ->
  fee_for_rest b (c_amt f) (unspent b) = Ok (held b) /\ c_denom f = c_denom (b_quote b).
Proof.
  intros e m st0 r0 evs c k b f He Hi Hc Hcfg Hl Hf. eapply held_is_prorata; eauto.
  apply (Inv_reachable e m st0 r0 evs He Hi Hc).
Qed.
Print Assumptions C09_held_is_prorata.
Theorem C09_prorata_endpoints : forall b f,
  c_amt (b_quote b) <> 0 -> c_amt (b_quote b) < B96 -> f < B96 ->
  fee_for_rest b f 0 = Ok 0 /\ fee_for_rest b f (c_amt (b_quote b)) = Ok f.
Proof. intros b f H1 H2 H3. split; [apply fee_for_rest_zero|apply fee_for_rest_full]; assumption. Qed.
Print Assumptions C09_prorata_endpoints.

(* (iv) over the life of a bid the fee paid on fills plus the fee returned on refunds, rejects and cancels adds up
   exactly to the fee escrowed: every step consumes fa = held - F(unspent') (C02, C04), and the step on which the bid
   leaves the book consumes everything still held (so consumed + held = fee at every moment, and = fee at the end) *)
Theorem C09_fee_fully_released_at_close : forall c k b p dy fa,
  bid_ok c k b -> price_of (b_price b) p -> dy * 10 ^ d_scale p = d_mant p * unfilled b -> fee_cond b dy fa ->
  dy = unspent b /\ fa = held b.
Proof.
  intros c k b p dy fa Hok Hp Hdy Hfc.
  pose proof (bid_consume_owed c k b p (unfilled b) dy fa (c_denom (b_quote b)) Hok Hp (N.le_refl _) Hdy Hfc) as E.
  rewrite N.sub_diag in E. cbn [N.eqb] in E. unfold bid_owed, ind in E. rewrite String.eqb_refl in E.
  destruct Hok as (_ & _ & _ & _ & _ & _ & _ & _ & (p0 & Hp0 & HQ & HU) & Hfee).
  pose proof (price_of_fun _ _ _ Hp Hp0) as Hpe. subst p0. pose proof (pow10_pos (d_scale p)) as Ppos.
  assert (Hd : dy = unspent b).
  { assert (Hx : dy * 10 ^ d_scale p = unspent b * 10 ^ d_scale p) by (rewrite Hdy, HU; reflexivity).
    apply N.mul_cancel_r in Hx; [exact Hx|lia]. }
  split; [exact Hd|lia].
Qed.
Print Assumptions C09_fee_fully_released_at_close.

(* (iii, closed form) F is a closed function of the 28-digit ratio and the fee, for every bid whose quote and fee fit
   96 bits (every bid of a reachable state does: bid_ok):
     F x = Hc (R28 x quote * fee),   R28 x Q = round_half_even (x * 10^28 / Q),
     Hc V = round_half_up (G V / 10^28),  G = the 96-bit rounding of Buf24::rescale (ProRata.G);
   this is what dec_div_int, dec_mul, round_dp and to_u128 compute together, representation included. *)
Theorem C09_fee_closed_form : forall b fee x,
  0 < c_amt (b_quote b) -> c_amt (b_quote b) < B96 -> fee < B96 -> x <= c_amt (b_quote b) ->
  fee_for_rest b fee x = Ok (Hc (R28 x (c_amt (b_quote b)) * fee)).
Proof. exact fee_for_rest_canon. Qed.
Print Assumptions C09_fee_closed_form.

(* F is monotone: a larger unspent quote never keeps less fee in escrow; consequently the fee released by a fill
   grows with the amount it spends (no hypothesis on the sizes involved) *)
Theorem C09_fee_monotone : forall b fee x1 x2 k1 k2,
  0 < c_amt (b_quote b) -> c_amt (b_quote b) < B96 -> fee < B96 -> x1 <= x2 -> x2 <= c_amt (b_quote b) ->
  fee_for_rest b fee x1 = Ok k1 -> fee_for_rest b fee x2 = Ok k2 -> k1 <= k2.
Proof. exact fee_for_rest_mono. Qed.
Print Assumptions C09_fee_monotone.
Theorem C09_released_fee_monotone : forall c k b g1 g2 f1 f2,
  bid_ok c k b -> calculate_fee b g1 = Ok f1 -> calculate_fee b g2 = Ok f2 -> g1 <= g2 -> opt_amt f1 <= opt_amt f2.
Proof. intros c k b g1 g2 f1 f2 H. apply (bid_ok_fee_mono c k b H). Qed.
Print Assumptions C09_released_fee_monotone.

(* (iii, accuracy) outside the class K_prorata -- precisely: whenever 13 * quote * fee < 10^28 -- F x is a nearest
   whole unit to the exact pro-rata share fee * x / quote:  | F x - fee*x/quote | <= 1/2  (either neighbour on an exact
   half).  K_prorata (known_findings.json) lies in the complement 13 * quote * fee >= 10^28. *)
Theorem C09_fee_nearest_unit : forall b fee x F,
  0 < c_amt (b_quote b) -> c_amt (b_quote b) < B96 -> fee < B96 -> x <= c_amt (b_quote b) ->
  13 * c_amt (b_quote b) * fee < E28 ->
  fee_for_rest b fee x = Ok F ->
  2 * F * c_amt (b_quote b) <= 2 * (x * fee) + c_amt (b_quote b) /\
  2 * (x * fee) <= 2 * F * c_amt (b_quote b) + c_amt (b_quote b).
Proof. exact fee_for_rest_nearest. Qed.
Print Assumptions C09_fee_nearest_unit.

(* and for every bid whose fee is at most 10^27 -- also inside K_prorata -- F x is never a whole unit away from the exact
   share fee * x / quote (one of its two neighbours) *)
Theorem C09_fee_within_a_unit : forall b fee x F,
  0 < c_amt (b_quote b) -> c_amt (b_quote b) < B96 -> fee <= 10 ^ 27 -> x <= c_amt (b_quote b) ->
  fee_for_rest b fee x = Ok F ->
  F * c_amt (b_quote b) < x * fee + c_amt (b_quote b) /\ x * fee < F * c_amt (b_quote b) + c_amt (b_quote b).
Proof. exact fee_for_rest_within_a_unit. Qed.
Print Assumptions C09_fee_within_a_unit.

(* hence: in every state reachable by a clean history the fee escrowed with an open bid is a nearest unit to
   fee * unspent / quote *)
Theorem C09_held_is_nearest_unit : forall e m st0 r0 evs c k b f,
  env_version_ok e -> instantiate e empty_state m = Ok (st0, r0) -> clean_run st0 evs ->
  st_cfg (run st0 evs) = Some c -> lookup k (st_bids (run st0 evs)) = Some (SlotV3 b) -> b_fee b = Some f ->
  13 * c_amt (b_quote b) * c_amt f < E28 ->
  2 * held b * c_amt (b_quote b) <= 2 * (unspent b * c_amt f) + c_amt (b_quote b) /\
  2 * (unspent b * c_amt f) <= 2 * held b * c_amt (b_quote b) + c_amt (b_quote b).
Proof.
  intros e m st0 r0 evs c k b f He Hi Hc Hcfg Hl Hf Hsmall.
  pose proof (Inv_reachable e m st0 r0 evs He Hi Hc) as [_ HB].
  destruct (inv_bids _ HB c k _ Hcfg Hl) as (b0 & Hb0 & Hok). injection Hb0 as <-.
  pose proof Hok as (_ & _ & _ & _ & Hab & Haq & _ & Hq96 & (p & (_ & _ & Hmnz & _) & HQ & _) & Hfee).
  rewrite Hf in Hfee. destruct Hfee as (_ & _ & Hf96 & HF).
  assert (HQ0 : 0 < c_amt (b_quote b)).
  { destruct (N.eq_dec (c_amt (b_quote b)) 0) as [Hz|]; [|lia]. rewrite Hz in HQ. nia. }
  eapply fee_for_rest_nearest; eauto. unfold unspent. lia.
Qed.
Print Assumptions C09_held_is_nearest_unit.

(* The implementation-side oracle of the correspondence run evaluates the same statement in exact rational arithmetic
   on every bid of every generated state (and flags the class K_prorata by name). *)

(* non-vacuity: in the witness history (Witness.v) the open bid was created with fee 25 on quote 250 (rate 0.1), has 150
   of its quote unspent after a price-improved fill and a partial reject, and holds exactly 15 *)
Example C09_witness :
  match lookup wB (st_bids (run w_st0 w_hist)) with
  | Some (SlotV3 b) => (unspent b, held b, fee_for_rest b 25 (unspent b))
  | _ => (0, 0, Refused 0)
  end = (150, 15, Ok 15).
Proof. vm_compute. reflexivity. Qed.

(* Inside K_rate the "rounded half away from zero" clause is FALSE of the code (recorded finding,
   corpus/known/k_rate_double_rounding.hist): the contract admits the bid with a fee of 96 and refuses it with 95, while
   rate * total = 95.49999999999999999999999999 rounds to 95. *)
Theorem C09_refuted_in_K_rate :
  exists e st sender id m total,
    Inv st /\
    match st_cfg st with Some c => option_map f_rate (cf_bid_fee c) | None => None end = Some "0.0954045954045954045954045954" /\
    dec_parse "0.0954045954045954045954045954" = Some (mkdec false m 28) /\
    is_ok (execute FX e st sender [mkcoin (total + 96) "q"] (CreateBid id "base" (Some (mkcoin 96 "q")) "1" "q" total total)) = true /\
    is_ok (execute FX e st sender [mkcoin (total + 95) "q"] (CreateBid id "base" (Some (mkcoin 95 "q")) "1" "q" total total)) = false /\
    2 * (m * total) < (2 * 95 + 1) * 10 ^ 28 /\ (2 * 95 - 1) * 10 ^ 28 <= 2 * (m * total).
Proof.
  exists k_env, (k_start k_rate_inst), "buyer", kB, 954045954045954045954045954, 1001.
  split; [apply k_start_inv; vm_compute; reflexivity|]. split; [vm_compute; reflexivity|]. split; [vm_compute; reflexivity|].
  exact k_rate_witness.
Qed.
Print Assumptions C09_refuted_in_K_rate.

(* Inside K_prorata the "to the nearest unit" clause is FALSE of the code (recorded finding,
   corpus/known/k_prorata_snap.hist): a reachable state in which a bid holds 9747718733245 of its fee while the exact
   share fee * unspent / quote lies strictly below 9747718733244 1/2. *)
Theorem C09_refuted_in_K_prorata :
  exists st k b f,
    Inv st /\ lookup k (st_bids st) = Some (SlotV3 b) /\ b_fee b = Some f /\
    2 * (c_amt f * unspent b) < (2 * (held b - 1) + 1) * c_amt (b_quote b) /\
    20 * c_amt (b_quote b) * c_amt f > 10 ^ 28.
Proof.
  exists (run (k_start k_prorata_inst) k_prorata_hist), kB.
  destruct (lookup kB (st_bids (run (k_start k_prorata_inst) k_prorata_hist))) as [[b|o]|] eqn:E;
    [|vm_compute in E; discriminate|vm_compute in E; discriminate].
  exists b. destruct (b_fee b) as [f|] eqn:Ef; [|vm_compute in E; injection E as <-; vm_compute in Ef; discriminate].
  exists f. split; [exact k_prorata_inv|]. split; [reflexivity|]. split; [reflexivity|].
  vm_compute in E. injection E as <-. vm_compute in Ef. injection Ef as <-. vm_compute. split; reflexivity.
Qed.
Print Assumptions C09_refuted_in_K_prorata.
