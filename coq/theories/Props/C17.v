(* C17 Response attributes truthfully report what was settled. *)
From ATS Require Import Prelude Dec DecFacts Uuid Semver Types Contract Tactics Spec Inv InvAsk InstProofs AskProofs
  BidFacts InvBid InvStep ExitProofs Ledger AdmitProofs Frame Reach Shadow Numeral Display.

(* every successful execute response starts with the action attribute naming the kind of request *)
Theorem C17_action : forall e st sender funds m st' r,
  execute FX e st sender funds m = Ok (st', r) -> hd_error (r_attrs r) = Some ("action", action_name m).
Proof. exact action_attribute. Qed.
Print Assumptions C17_action.

(* expire / reject of an ask: id = the order acted on, reverse_size = the size actually returned to the owner (and
   to the approver), order_open = "true" exactly when the ask is still on the book, whose size fell by reverse_size *)
Theorem C17_reverse_ask : forall e st sender funds id action csz st' r,
  asks_under_own_id st -> reverse_ask FX e st sender funds id action csz = Ok (st', r) ->
  exists a eff,
    lookup id (st_asks st) = Some a /\ eff <= a_size a /\
    r_attrs r = [("action", action); ("id", id); ("reverse_size", show_N eff);
                 ("order_open", bool_str (negb (a_size a - eff =? 0)))] /\
    outflow e (a_base a) (r_msgs r) >= eff /\
    ((a_size a - eff =? 0) = true <-> lookup id (st_asks st') = None) /\
    (forall a', lookup id (st_asks st') = Some a' -> a_size a' = a_size a - eff).
Proof. exact reverse_ask_attributes. Qed.
Print Assumptions C17_reverse_ask.

(* cancel / expire / reject of a bid (invariant state): reverse_size = the base size released (eff), whose quote
   price*eff and fee share were paid to the owner (C04); order_open = "true" exactly when the bid stays on the book *)
Theorem C17_reverse_bid : forall e st sender funds m id action is_cancel csz st' r,
  Inv st -> clean_exec st m -> bid_reverse_of m = Some (id, action, is_cancel, csz) ->
  execute FX e st sender funds m = Ok (st', r) ->
  exists b eff,
    lookup id (st_bids st) = Some (SlotV3 b) /\ eff = match csz with None => unfilled b | Some s => s end /\
    r_attrs r = reverse_attrs action id eff (negb (unfilled b - eff =? 0)) /\
    ((unfilled b - eff =? 0) = true <-> lookup id (st_bids st') = None).
Proof.
  intros e st sender funds m id action is_cancel csz st' r HI Hc Hm H.
  destruct (bid_reverse_settles e st sender funds m id action is_cancel csz st' r HI Hc Hm H) as
    (c & b & p & eff & cq & fa & _ & Hl & _ & _ & _ & Heff & _ & _ & _ & _ & -> & ->).
  exists b, eff. split; [exact Hl|]. split; [exact Heff|]. split; [reflexivity|].
  cbn [st_bids set_bids]. destruct (unfilled b - eff =? 0).
  - rewrite lookup_remove_eq. split; auto.
  - rewrite lookup_insert_eq. split; discriminate.
Qed.
Print Assumptions C17_reverse_bid.

(* match: ask_id / bid_id = the orders acted on, size = the executed size, price = the execution price as printed
   by the decimal library, ask_fee = af and bid_fee = the fee for the fill -- the very amounts paid to the fee
   accounts by the first two message groups of C02 *)
Theorem C17_match : forall e st sender funds ask_id bid_id price size st' r,
  execute_match FX e st sender funds ask_id bid_id price size = Ok (st', r) ->
  exists c a b xp af bfee rest,
    lookup ask_id (st_asks st) = Some a /\ lookup bid_id (st_bids st) = Some (SlotV3 b) /\ dec_parse price = Some xp /\
    r_attrs r = match_attrs ask_id bid_id a b xp size af bfee /\
    r_msgs r = m_ask_fee e c (c_denom (b_quote b)) af ++ m_bid_fee e c (c_denom (b_quote b)) bfee ++ rest.
Proof.
  intros e st sender funds ask_id bid_id price size st' r H.
  apply execute_match_inv in H as (c & a & b & ap & bp & xp & rb & gross_d & gross & af & bfee & fill & b' & rb' & imp &
    _ & _ & _ & Hla & Hlb & _ & _ & _ & Hxp & _ & _ & _ & _ & _ & _ & _ & _ & _ & _ & _ & _ & _ & _ & _ & _ & ->).
  exists c, a, b, xp, af, bfee. eexists. repeat split; eauto.
Qed.
Print Assumptions C17_match.

(* create and approve report the recorded price and size *)
Theorem C17_create_ask : forall e st sender funds id base quote price size st' r,
  create_ask e st sender funds id base quote price size = Ok (st', r) ->
  exists c, r_attrs r = create_ask_attrs c (new_ask c sender id base quote price size) /\
            lookup id (st_asks st') = Some (new_ask c sender id base quote price size).
Proof.
  intros e st sender funds id base quote price size st' r H. apply create_ask_iff in H as (c & _ & _ & -> & -> & _).
  exists c. split; [reflexivity|]. cbn. apply lookup_insert_eq.
Qed.
Print Assumptions C17_create_ask.
Theorem C17_create_bid : forall e st sender funds id base fee price quote qsize size st' r,
  create_bid e st sender funds id base fee price quote qsize size = Ok (st', r) ->
  r_attrs r = create_bid_attrs (new_bid sender id base fee price quote qsize size) /\
  lookup id (st_bids st') = Some (SlotV3 (new_bid sender id base fee price quote qsize size)).
Proof.
  intros e st sender funds id base fee price quote qsize size st' r H.
  apply create_bid_inv in H as (c & p & total & dq & rate & calc & tot & _ & _ & _ & _ & _ & _ & _ & _ & _ & _ & _ & _ & _ & _ & _ & _ & -> & ->).
  split; [reflexivity|]. cbn. apply lookup_insert_eq.
Qed.
Print Assumptions C17_create_bid.
Theorem C17_approve : forall e st sender funds id base size st' r,
  approve_ask e st sender funds id base size = Ok (st', r) ->
  exists a, lookup id (st_asks st') = Some a /\ r_attrs r = approve_attrs a.
Proof.
  intros e st sender funds id base size st' r H. apply approve_ask_inv in H as (c & a & _ & _ & _ & _ & _ & _ & _ & -> & ->).
  eexists. split; [cbn; apply lookup_insert_eq|reflexivity].
Qed.
Print Assumptions C17_approve.

(* The consumer-level guarantee.  `shadow_step` is a function of the attribute list ONLY (it reads action, id /
   ask_id / bid_id, size, class, reverse_size, order_open); `abs` keeps, per side, id |-> remaining size (and the
   approval state of an ask).  One step: for every accepted request of every kind, the shadow advanced with the
   response's attributes equals the abstraction of the new book.  Histories: replaying the attributes of the accepted
   steps from the empty record reproduces the on-chain book after every history, whatever was refused in between. *)
Theorem C17_shadow_step : forall e st sender funds m st' r,
  keys_ok st -> execute FX e st sender funds m = Ok (st', r) -> shadow_step (r_attrs r) (abs st) = abs st'.
Proof. exact shadow_refines. Qed.
Print Assumptions C17_shadow_step.

Theorem C17_shadow_never_diverges : forall e m st0 r0 evs,
  instantiate e empty_state m = Ok (st0, r0) ->
  shadow_run st0 evs (mksh [] []) = abs (run st0 evs).
Proof.
  intros e m st0 r0 evs H. pose proof (keys_ok_init e m st0 r0 H) as HK.
  rewrite <- (shadow_never_diverges evs st0 HK). f_equal.
  apply InstProofs.instantiate_stored in H as [-> _]. reflexivity.
Qed.
Print Assumptions C17_shadow_never_diverges.

(* "the execution price (as a number)": the price attribute is the decimal library's Display of the parsed execution
   price; Display is a right inverse of the parser (Display.display_parse), so reading the attribute back gives exactly
   the executed price -- same sign, mantissa and number of decimals -- for every price string the contract accepts *)
Theorem C17_printed_price_reads_back : forall price xp,
  dec_parse price = Some xp -> (d_neg xp = true -> d_mant xp <> 0) -> dec_parse (dec_to_string xp) = Some xp.
Proof.
  intros price xp Hp Hz. pose proof (dec_parse_wf _ _ Hp) as [Hs Hm]. rewrite display_parse by assumption.
  destruct xp as [n m s]. cbn [d_neg d_mant d_scale] in *. f_equal. f_equal.
  destruct n; [|reflexivity]. destruct (N.eqb_spec m 0) as [->|_]; [exfalso; apply Hz; reflexivity|reflexivity].
Qed.
Print Assumptions C17_printed_price_reads_back.
