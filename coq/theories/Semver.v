(* Semver: model of semver 1.0.17 `Version::parse` and of `VersionReq::matches` for the four
   requirements the contract uses (>=0.16.2 ; >=0.15.0 ; >=0.16.2, <0.19.1 ; <0.16.2). *)
From ATS Require Import Prelude.

Record version := { v_major : N; v_minor : N; v_patch : N; v_has_pre : bool }.

Definition U64MAX : N := 18446744073709551615.

(* numeric identifier: digits, no leading zero, u64 range; returns value and rest *)
Fixpoint numeric_loop (l : list N) (value : N) (len : N) : option (N * list N) :=
  match l with
  | c :: r =>
    if (48 <=? c) && (c <=? 57) then
      if (value =? 0) && (0 <? len) then None
      else
        let v' := value * 10 + (c - 48) in
        if U64MAX <? v' then None else numeric_loop r v' (len + 1)
    else if 0 <? len then Some (value, l) else None
  | [] => if 0 <? len then Some (value, []) else None
  end.
Definition numeric_identifier (l : list N) : option (N * list N) := numeric_loop l 0 0.

Definition is_alpha_hyphen (c : N) : bool :=
  ((65 <=? c) && (c <=? 90)) || ((97 <=? c) && (c <=? 122)) || (c =? 45).
Definition is_num (c : N) : bool := (48 <=? c) && (c <=? 57).

(* identifier(): dot-separated segments; returns (non-empty?, rest) or None on error *)
Fixpoint ident_loop (pre : bool) (l : list N) (acc_len seg_len : N) (nondigit first_zero : bool)
  : option (bool * list N) :=
  let boundary (is_dot : bool) (rest_from_boundary : list N) (k : unit -> option (bool * list N)) :=
    if seg_len =? 0 then
      if (acc_len =? 0) && negb is_dot then Some (false, rest_from_boundary) else None
    else if pre && (1 <? seg_len) && negb nondigit && first_zero then None
    else if is_dot then k tt
    else Some (true, rest_from_boundary) in
  match l with
  | c :: r =>
    if is_alpha_hyphen c then
      ident_loop pre r acc_len (seg_len + 1) true (if seg_len =? 0 then false else first_zero)
    else if is_num c then
      ident_loop pre r acc_len (seg_len + 1) nondigit (if seg_len =? 0 then c =? 48 else first_zero)
    else
      boundary (c =? 46) l (fun _ => ident_loop pre r (acc_len + seg_len + 1) 0 false false)
  | [] => boundary false [] (fun _ => None)
  end.

Definition expect_dot (l : list N) : option (list N) :=
  match l with 46 :: r => Some r | _ => None end.

Definition version_parse (s : string) : option version :=
  let l := map code (chars s) in
  match numeric_identifier l with
  | None => None
  | Some (major, l1) =>
  match expect_dot l1 with None => None | Some l2 =>
  match numeric_identifier l2 with None => None | Some (minor, l3) =>
  match expect_dot l3 with None => None | Some l4 =>
  match numeric_identifier l4 with None => None | Some (patch, l5) =>
    let after_pre :=
      match l5 with
      | 45 :: r =>
        match ident_loop true r 0 0 false false with
        | Some (true, rest) => Some (true, rest)
        | _ => None
        end
      | _ => Some (false, l5)
      end in
    match after_pre with
    | None => None
    | Some (has_pre, l6) =>
      let after_build :=
        match l6 with
        | 43 :: r =>
          match ident_loop false r 0 0 false false with
          | Some (true, rest) => Some rest
          | _ => None
          end
        | _ => Some l6
        end in
      match after_build with
      | Some [] => Some {| v_major := major; v_minor := minor; v_patch := patch; v_has_pre := has_pre |}
      | _ => None
      end
    end
  end end end end end.

Definition ver_cmp (a : version) (x y z : N) : comparison :=
  match v_major a ?= x with
  | Eq => match v_minor a ?= y with Eq => v_patch a ?= z | c => c end
  | c => c
  end.
Definition ver_ge (a : version) (x y z : N) : bool :=
  negb (v_has_pre a) && match ver_cmp a x y z with Lt => false | _ => true end.
Definition ver_lt (a : version) (x y z : N) : bool :=
  negb (v_has_pre a) && match ver_cmp a x y z with Lt => true | _ => false end.

Definition req_ge_0_16_2 (v : version) : bool := ver_ge v 0 16 2.
Definition req_ge_0_15_0 (v : version) : bool := ver_ge v 0 15 0.
Definition req_window (v : version) : bool := ver_ge v 0 16 2 && ver_lt v 0 19 1.
Definition req_lt_0_16_2 (v : version) : bool := ver_lt v 0 16 2.
