(* Hist: histories that interleave execute requests with migrations of the contract. *)
From ATS Require Import Prelude Dec DecFacts Uuid Semver Types Contract Tactics Spec ExactFacts Inv InvAsk InstProofs AskProofs
  BidFacts InvBid InvStep ExitProofs Ledger MigrateProofs MigrateInv.
Ltac Zify.zify_post_hook ::= Z.div_mod_to_equations.

Inductive hevent := HExec (ev : event) | HMigrate (e : env) (m : migmsg).
Definition hstep (st : state) (h : hevent) : state :=
  match h with
  | HExec ev => run_event st ev
  | HMigrate e m => match migrate e st m with Ok (st', _) => st' | Refused _ => st end
  end.
Definition hrun (st : state) (hs : list hevent) : state := fold_left hstep hs st.

Lemma all_v3_no_v2 (l : list (string * bslot)) :
  (forall k s, lookup k l = Some s -> exists b, s = SlotV3 b) -> keys_nodup l -> no_v2 l.
Proof.
  unfold keys_nodup. induction l as [|[k s] l IH]; cbn; [auto|]. intros H Hnd. inversion Hnd as [|? ? Hn Hr]; subst.
  assert (Hs : exists b, s = SlotV3 b) by (apply (H k); cbn; rewrite String.eqb_refl; reflexivity).
  destruct Hs as (b & ->). apply IH; [|exact Hr]. intros k' s' Hl. apply (H k'). cbn.
  destruct (String.eqb_spec k' k) as [->|]; [|exact Hl]. exfalso. apply Hn. apply lookup_in in Hl.
  apply in_map_iff. exists (k, s'). auto.
Qed.

(* migrating a state that satisfies the invariant: the book is untouched, nothing is paid, the invariant holds *)
Lemma migrate_from_inv e st m st' r :
  Inv st -> migrate e st m = Ok (st', r) ->
  st_asks st' = st_asks st /\ st_bids st' = st_bids st /\ r = mkresp [] [] /\ (env_version_ok e -> Inv st').
Proof.
  intros [HA HB] H. pose proof H as H0.
  apply migrate_inv in H as (d & vs & v & c & af & bf & bids' & _ & _ & _ & _ & _ & Hc & _ & _ & _ & Hconv & -> & ->).
  assert (Hno : no_v2 (st_bids st)).
  { apply all_v3_no_v2; [|apply HB]. intros k s Hl. destruct (inv_bids st HB c k s Hc Hl) as (b & -> & _). eauto. }
  rewrite (convert_slots_id _ _ Hno) in Hconv. injection Hconv as <-.
  split; [reflexivity|]. split; [reflexivity|]. split; [reflexivity|]. intros He.
  destruct (inv_cfg st HA) as (c0 & Hc0 & Hcok). rewrite Hc in Hc0. injection Hc0 as <-.
  eapply (Inv_after_migrate e st c m _ _); [|exact He|exact H0|].
  - constructor; [auto|intros k a Hl; eapply inv_asks; eauto|apply HA| |apply HB].
    intros k s Hl. destruct (inv_bids st HB c k s Hc Hl) as (b & -> & Hok). cbn. split; [exact Hok|].
    intros p Hp. eapply inv_prec; eauto.
  - cbn. intros k o Hl. destruct (inv_bids st HB c k _ Hc Hl) as (b & Hb & _). discriminate.
Qed.

Fixpoint hclean (st : state) (hs : list hevent) : Prop :=
  match hs with
  | [] => True
  | h :: rest =>
    match h with
    | HExec ev => clean_exec st (ev_msg ev) /\ ev_sender ev <> e_self (ev_env ev)
    | HMigrate e _ => env_version_ok e
    end /\ hclean (hstep st h) rest
  end.

Theorem Inv_hrun hs : forall st, Inv st -> hclean st hs -> Inv (hrun st hs).
Proof.
  induction hs as [|h hs IH]; intros st HI Hc; [exact HI|].
  change (hrun st (h :: hs)) with (hrun (hstep st h) hs). destruct Hc as [Hc1 Hc2]. apply IH; [|exact Hc2].
  destruct h as [ev|e m]; cbn [hstep].
  - destruct Hc1 as [Hc1 _]. unfold run_event.
    destruct (execute FX (ev_env ev) st (ev_sender ev) (ev_funds ev) (ev_msg ev)) as [[st' r]|t] eqn:E; [|exact HI].
    eapply Inv_step; eauto.
  - destruct (migrate e st m) as [[st' r]|t] eqn:E; [|exact HI].
    apply (migrate_from_inv e st m st' r HI E). exact Hc1.
Qed.

(* the ledger over such histories: a migration moves nothing *)
Fixpoint hledger (st : state) (hs : list hevent) (d : string) : N * N :=
  match hs with
  | [] => (0, 0)
  | h :: rest =>
    let io := hledger (hstep st h) rest d in
    match h with
    | HExec ev =>
      match execute FX (ev_env ev) st (ev_sender ev) (ev_funds ev) (ev_msg ev) with
      | Ok (_, r) => (funds_in d (ev_funds ev) + inflow (ev_env ev) d (r_msgs r) + fst io,
                      outflow (ev_env ev) d (r_msgs r) + snd io)
      | Refused _ => io
      end
    | HMigrate _ _ => io
    end
  end.

Lemma owed_same st st' d : st_asks st' = st_asks st -> st_bids st' = st_bids st -> owed st' d = owed st d.
Proof. unfold owed. intros -> ->. reflexivity. Qed.

Theorem hledger_balances hs : forall st d,
  Inv st -> hclean st hs -> fst (hledger st hs d) + owed st d = snd (hledger st hs d) + owed (hrun st hs) d.
Proof.
  induction hs as [|h hs IH]; intros st d HI Hc; [reflexivity|].
  change (hrun st (h :: hs)) with (hrun (hstep st h) hs). destruct Hc as [Hc1 Hc2]. cbn [hledger].
  destruct h as [ev|e m]; cbn [hstep] in *.
  - destruct Hc1 as [Hc1 Hs]. unfold run_event in *.
    destruct (execute FX (ev_env ev) st (ev_sender ev) (ev_funds ev) (ev_msg ev)) as [[st' r]|t] eqn:E.
    + pose proof (execute_conserves _ _ _ _ _ _ _ HI Hc1 Hs E d) as Hcons.
      pose proof (Inv_step _ _ _ _ _ _ _ HI Hc1 E) as HI'. specialize (IH st' d HI' Hc2). cbn [fst snd]. lia.
    + apply IH; auto.
  - destruct (migrate e st m) as [[st' r]|t] eqn:E; [|apply IH; auto].
    destruct (migrate_from_inv e st m st' r HI E) as (Ha & Hb & _ & HI'). specialize (IH st' d (HI' Hc1) Hc2).
    rewrite (owed_same st st' d Ha Hb) in IH. exact IH.
Qed.
