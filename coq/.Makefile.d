theories/Prelude.vo theories/Prelude.glob theories/Prelude.v.beautified theories/Prelude.required_vo: theories/Prelude.v 
theories/Prelude.vio: theories/Prelude.v 
theories/Prelude.vos theories/Prelude.vok theories/Prelude.required_vos: theories/Prelude.v 
theories/Dec.vo theories/Dec.glob theories/Dec.v.beautified theories/Dec.required_vo: theories/Dec.v theories/Prelude.vo
theories/Dec.vio: theories/Dec.v theories/Prelude.vio
theories/Dec.vos theories/Dec.vok theories/Dec.required_vos: theories/Dec.v theories/Prelude.vos
theories/Uuid.vo theories/Uuid.glob theories/Uuid.v.beautified theories/Uuid.required_vo: theories/Uuid.v theories/Prelude.vo
theories/Uuid.vio: theories/Uuid.v theories/Prelude.vio
theories/Uuid.vos theories/Uuid.vok theories/Uuid.required_vos: theories/Uuid.v theories/Prelude.vos
theories/Semver.vo theories/Semver.glob theories/Semver.v.beautified theories/Semver.required_vo: theories/Semver.v theories/Prelude.vo
theories/Semver.vio: theories/Semver.v theories/Prelude.vio
theories/Semver.vos theories/Semver.vok theories/Semver.required_vos: theories/Semver.v theories/Prelude.vos
