theories/Prelude.vo theories/Prelude.glob theories/Prelude.v.beautified theories/Prelude.required_vo: theories/Prelude.v 
theories/Prelude.vio: theories/Prelude.v 
theories/Prelude.vos theories/Prelude.vok theories/Prelude.required_vos: theories/Prelude.v 
theories/Dec.vo theories/Dec.glob theories/Dec.v.beautified theories/Dec.required_vo: theories/Dec.v theories/Prelude.vo
theories/Dec.vio: theories/Dec.v theories/Prelude.vio
theories/Dec.vos theories/Dec.vok theories/Dec.required_vos: theories/Dec.v theories/Prelude.vos
theories/Uuid.vo theories/Uuid.glob theories/Uuid.v.beautified theories/Uuid.required_vo: theories/Uuid.v theories/Prelude.vo
theories/Uuid.vio: theories/Uuid.v theories/Prelude.vio
theories/Uuid.vos theories/Uuid.vok theories/Uuid.required_vos: theories/Uuid.v theories/Prelude.vos
theories/Semver.vo theories/Semver.glob theories/Semver.v.beautified theories/Semver.required_vo: theories/Semver.v theories/Prelude.vo
theories/Semver.vio: theories/Semver.v theories/Prelude.vio
theories/Semver.vos theories/Semver.vok theories/Semver.required_vos: theories/Semver.v theories/Prelude.vos
theories/Types.vo theories/Types.glob theories/Types.v.beautified theories/Types.required_vo: theories/Types.v theories/Prelude.vo theories/Dec.vo
theories/Types.vio: theories/Types.v theories/Prelude.vio theories/Dec.vio
theories/Types.vos theories/Types.vok theories/Types.required_vos: theories/Types.v theories/Prelude.vos theories/Dec.vos
theories/Contract.vo theories/Contract.glob theories/Contract.v.beautified theories/Contract.required_vo: theories/Contract.v theories/Prelude.vo theories/Dec.vo theories/Uuid.vo theories/Semver.vo theories/Types.vo
theories/Contract.vio: theories/Contract.v theories/Prelude.vio theories/Dec.vio theories/Uuid.vio theories/Semver.vio theories/Types.vio
theories/Contract.vos theories/Contract.vok theories/Contract.required_vos: theories/Contract.v theories/Prelude.vos theories/Dec.vos theories/Uuid.vos theories/Semver.vos theories/Types.vos
theories/Runner.vo theories/Runner.glob theories/Runner.v.beautified theories/Runner.required_vo: theories/Runner.v theories/Prelude.vo theories/Dec.vo theories/Uuid.vo theories/Semver.vo theories/Types.vo theories/Contract.vo
theories/Runner.vio: theories/Runner.v theories/Prelude.vio theories/Dec.vio theories/Uuid.vio theories/Semver.vio theories/Types.vio theories/Contract.vio
theories/Runner.vos theories/Runner.vok theories/Runner.required_vos: theories/Runner.v theories/Prelude.vos theories/Dec.vos theories/Uuid.vos theories/Semver.vos theories/Types.vos theories/Contract.vos
theories/Extract.vo theories/Extract.glob theories/Extract.v.beautified theories/Extract.required_vo: theories/Extract.v theories/Prelude.vo theories/Dec.vo theories/Uuid.vo theories/Semver.vo theories/Types.vo theories/Contract.vo theories/Runner.vo
theories/Extract.vio: theories/Extract.v theories/Prelude.vio theories/Dec.vio theories/Uuid.vio theories/Semver.vio theories/Types.vio theories/Contract.vio theories/Runner.vio
theories/Extract.vos theories/Extract.vok theories/Extract.required_vos: theories/Extract.v theories/Prelude.vos theories/Dec.vos theories/Uuid.vos theories/Semver.vos theories/Types.vos theories/Contract.vos theories/Runner.vos
