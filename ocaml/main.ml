(* Hand-written driver around the extracted Coq model (Atsmodel_ext): string conversion and I/O only. *)
open Atsmodel_ext

let coq_of_char (c : char) : ascii =
  let n = Char.code c in
  let b i = (n lsr i) land 1 = 1 in
  Ascii (b 0, b 1, b 2, b 3, b 4, b 5, b 6, b 7)

let coq_of_string (s : Stdlib.String.t) : string =
  let r = ref EmptyString in
  for i = Stdlib.String.length s - 1 downto 0 do
    r := String (coq_of_char (Stdlib.String.get s i), !r)
  done;
  !r

let char_of_coq (a : ascii) : char =
  match a with
  | Ascii (b0, b1, b2, b3, b4, b5, b6, b7) ->
    let v b i = if b then 1 lsl i else 0 in
    Char.chr (v b0 0 + v b1 1 + v b2 2 + v b3 3 + v b4 4 + v b5 5 + v b6 6 + v b7 7)

let string_of_coq (s : string) : Stdlib.String.t =
  let buf = Buffer.create 64 in
  let rec go = function
    | EmptyString -> ()
    | String (c, r) -> Buffer.add_char buf (char_of_coq c); go r in
  go s;
  Buffer.contents buf

let fixes_of (s : Stdlib.String.t) : fixes =
  match s with
  | "all" -> all_fixes
  | "none" -> no_fixes
  | _ ->
    let b i = Stdlib.String.length s > i && Stdlib.String.get s i = '1' in
    { fix_reject_converted = b 0; fix_zero_fee_refund = b 1; fix_exit_lot = b 2;
      fix_conv_marker = b 3; fix_zero_net = b 4; fix_modify_funds = b 5 }

let () =
  let mode = if Array.length Sys.argv > 1 then Sys.argv.(1) else "run" in
  match mode with
  | "run" ->
    let fx = fixes_of (if Array.length Sys.argv > 2 then Sys.argv.(2) else "all") in
    let ic = if Array.length Sys.argv > 3 && Sys.argv.(3) <> "-" then open_in Sys.argv.(3) else stdin in
    let follow = not (Array.length Sys.argv > 4 && Sys.argv.(4) = "nofollow") in
    let st = ref (init_rstate fx follow) in
    (try
       while true do
         let line = input_line ic in
         let (st', out) = run_line !st (coq_of_string line) in
         st := st';
         List.iter (fun l -> print_string (string_of_coq l); print_char '\n') out;
         if out <> [] then flush stdout
       done
     with End_of_file -> ())
  | "dec" ->
    (try
       while true do
         let line = input_line stdin in
         if line <> "" then begin
           print_string (string_of_coq (dec_case (coq_of_string line))); print_char '\n'
         end
       done
     with End_of_file -> ())
  | _ -> prerr_endline "usage: atsmodel run [all|none|bits] [file|-] [nofollow] | atsmodel dec"; exit 2
