#!/bin/sh
# Build the Coq development (full .vo build), extract the model runner and compile it.
set -eu
cd /verif/coq
[ -f Makefile ] || coq_makefile -f _CoqProject -o Makefile >/dev/null
coq_makefile -f _CoqProject -o Makefile >/dev/null
timeout 3000 make -j16 >/verif/.cache/coq_build.log 2>&1 || { tail -40 /verif/.cache/coq_build.log; exit 1; }
mkdir -p /verif/.cache/ocaml
cp /verif/coq/atsmodel_ext.ml /verif/coq/atsmodel_ext.mli /verif/ocaml/main.ml /verif/.cache/ocaml/
cd /verif/.cache/ocaml
ocamlfind ocamlopt -w -a atsmodel_ext.mli atsmodel_ext.ml main.ml -o atsmodel
echo "MODEL /verif/.cache/ocaml/atsmodel"
