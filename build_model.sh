#!/bin/sh
# Build the Coq development (full .vo build), extract the model runner and compile it.
set -eu
ROOT="$(cd "$(dirname "$0")" && pwd)"
mkdir -p "$ROOT/.cache/ocaml"
cd "$ROOT/coq"
coq_makefile -f _CoqProject -o Makefile >/dev/null
timeout 3000 make -j16 >"$ROOT/.cache/coq_build.log" 2>&1 || { tail -40 "$ROOT/.cache/coq_build.log"; exit 1; }
cp "$ROOT/coq/atsmodel_ext.ml" "$ROOT/coq/atsmodel_ext.mli" "$ROOT/ocaml/main.ml" "$ROOT/.cache/ocaml/"
cd "$ROOT/.cache/ocaml"
ocamlfind ocamlopt -w -a atsmodel_ext.mli atsmodel_ext.ml main.ml -o atsmodel
echo "MODEL $ROOT/.cache/ocaml/atsmodel"
