use rust_decimal::prelude::*;
use rust_decimal::{Decimal, RoundingStrategy};
use std::io::{self, BufRead, Write};
fn mk(m: &str, s: &str, neg: &str) -> Decimal { let mut d = Decimal::from_i128_with_scale(m.parse::<i128>().unwrap(), s.parse().unwrap()); if neg == "1" { d.set_sign_negative(true); } d }
fn show(d: Decimal) -> String { format!("{} {} {}", d.mantissa().unsigned_abs(), d.scale(), if d.is_sign_negative() {1} else {0}) }
fn main() {
    let stdin = io::stdin(); let out = io::stdout(); let mut out = io::BufWriter::new(out.lock());
    for line in stdin.lock().lines() {
        let line = line.unwrap(); let t: Vec<&str> = line.split(' ').collect();
        let r = match t[0] {
            "mul" => match mk(t[1],t[2],t[3]).checked_mul(mk(t[4],t[5],t[6])) { Some(d) => show(d), None => "none".into() },
            "div" => match mk(t[1],t[2],t[3]).checked_div(mk(t[4],t[5],t[6])) { Some(d) => show(d), None => "none".into() },
            "sub" => match mk(t[1],t[2],t[3]).checked_sub(mk(t[4],t[5],t[6])) { Some(d) => format!("{} {:?}", d.normalize(), d.to_u128()), None => "none".into() },
            "rnd" => { let d = mk(t[1],t[2],t[3]).round_dp_with_strategy(0, RoundingStrategy::MidpointAwayFromZero); format!("{} {:?}", show(d), d.to_u128()) }
            "parse" => match Decimal::from_str(&t[1..].join(" ")) { Ok(d) => show(d), Err(_) => "err".into() },
            "str" => mk(t[1],t[2],t[3]).to_string(),
            "cmp" => format!("{:?} fract0={}", mk(t[1],t[2],t[3]).cmp(&mk(t[4],t[5],t[6])), mk(t[1],t[2],t[3]).fract().is_zero()),
            _ => "?".into() };
        writeln!(out, "{}", r).unwrap();
    }
}
