From Coq Require Import NArith ZArith Lia List Bool.
Open Scope N_scope.
Ltac Zify.zify_post_hook ::= Z.div_mod_to_equations.

Definition B : N := 2^96.

(* round half even of v/p *)
Definition rhe (v p : N) : N :=
  let q := v / p in let r := v mod p in
  if p <? 2*r then q+1 else if (2*r =? p) && N.odd q then q+1 else q.

Lemma rhe_exact v p : p <> 0 -> v mod p = 0 -> rhe v p = v / p.
Proof.
  intros Hp Hr. unfold rhe. cbv zeta. rewrite Hr.
  replace (2*0) with 0 by lia.
  destruct (N.ltb_spec p 0); [lia|].
  destruct (N.eqb_spec 0 p); [lia|]. reflexivity.
Qed.

Lemma rhe_bounds v p : p <> 0 -> 2 * p * rhe v p <= 2 * v + p /\ 2 * v <= 2 * p * rhe v p + p.
Proof.
  intros Hp. unfold rhe. cbv zeta.
  pose proof (N.div_mod v p Hp) as E. pose proof (N.mod_lt v p Hp) as L.
  set (q := v / p) in *. set (r := v mod p) in *.
  destruct (N.ltb_spec p (2*r)).
  - nia.
  - destruct ((2*r =? p) && N.odd q) eqn:T.
    + apply andb_prop in T. destruct T as [T _]. apply N.eqb_eq in T. nia.
    + nia.
Qed.

(* least d >= d0 with v / 10^d < B, searching at most fuel steps *)
Fixpoint least_d (fuel : nat) (v d : N) : N :=
  match fuel with
  | O => d
  | S f => if v / 10^d <? B then d else least_d f v (d+1)
  end.

Definition rescale (v s : N) : option (N * N) :=
  let d := least_d 60 v (if 28 <? s then s - 28 else 0) in
  if s <? d then None else
  if d =? 0 then Some (v, s) else
  let m := rhe v (10^d) in
  if m <? B then Some (m, s - d)
  else if s - d =? 0 then None else Some (rhe m 10, s - d - 1).

Lemma least_d_le fuel : forall v d dd, d <= dd -> v / 10^dd < B -> least_d fuel v d <= dd.
Proof.
  induction fuel as [|f IH]; intros v d dd Hle Hfit; cbn [least_d]; [exact Hle|].
  destruct (N.ltb_spec (v / 10^d) B) as [_|Hbig]; [exact Hle|].
  apply IH; [|exact Hfit].
  assert (d <> dd) by (intro; subst; lia). lia.
Qed.

Lemma least_d_ge fuel : forall v d, d <= least_d fuel v d.
Proof.
  induction fuel as [|f IH]; intros v d; cbn [least_d]; [lia|].
  destruct (N.ltb_spec (v / 10^d) B); [lia|]. specialize (IH v (d+1)). lia.
Qed.

Lemma pow10_nz d : 10^d <> 0. Proof. apply N.pow_nonzero. lia. Qed.

Lemma div_pow_mono v a b : a <= b -> v / 10^b <= v / 10^a.
Proof.
  intros H. apply N.div_le_compat_l. split.
  - pose proof (pow10_nz a). lia.
  - apply N.pow_le_mono_r; lia.
Qed.

(* the least d really fits, given that some dd >= start fits within fuel *)
Lemma least_d_fits fuel : forall v d dd, d <= dd -> dd < d + N.of_nat fuel -> v / 10^dd < B ->
  v / 10^(least_d fuel v d) < B.
Proof.
  induction fuel as [|f IH]; intros v d dd Hle Hf Hfit; cbn [least_d].
  - lia.
  - destruct (N.ltb_spec (v / 10^d) B) as [Hok|Hbig]; [exact Hok|].
    assert (d <> dd) by (intro; subst; lia).
    apply (IH v (d+1) dd); lia.
Qed.

(* mul_exact core: if v = m * 10^k with m < B, k <= s, s - k <= 28, then rescale is exact:
   result (m', s') satisfies m' * 10^(s - s') = v, i.e. same rational value *)
Lemma rescale_exact v s m k :
  v = m * 10^k -> m < B -> k <= s -> s - k <= 28 -> k < 60 ->
  exists m' s', rescale v s = Some (m', s') /\ s' <= s /\ m' * 10^(s - s') = v /\ m' < B.
Proof.
  intros Hv Hm Hk Hs Hk60. unfold rescale.
  set (d0 := if 28 <? s then s - 28 else 0).
  assert (Hd0 : d0 <= k) by (unfold d0; destruct (N.ltb_spec 28 s); lia).
  assert (Hfitk : v / 10^k < B).
  { rewrite Hv, N.div_mul by apply pow10_nz. exact Hm. }
  pose proof (least_d_le 60 v d0 k Hd0 Hfitk) as Hle.
  pose proof (least_d_ge 60 v d0) as Hge.
  assert (Hfit : v / 10^(least_d 60 v d0) < B).
  { apply (least_d_fits 60 v d0 k); try assumption. cbn. lia. }
  set (d := least_d 60 v d0) in *. cbv zeta.
  destruct (N.ltb_spec s d); [lia|].
  destruct (N.eqb_spec d 0) as [Hz|Hnz].
  - exists v, s. repeat split; try lia.
    + rewrite N.sub_diag. cbn. lia.
    + rewrite Hz in Hfit. cbn in Hfit. rewrite N.div_1_r in Hfit. exact Hfit.
  - (* 10^d divides v because d <= k *)
    assert (Hsplit : v = (m * 10^(k - d)) * 10^d).
    { rewrite Hv. rewrite <- N.mul_assoc, <- N.pow_add_r. f_equal. f_equal. lia. }
    assert (Hdiv : v mod 10^d = 0).
    { rewrite Hsplit. apply N.mod_mul. apply pow10_nz. }
    assert (Hq : v / 10^d = m * 10^(k - d)).
    { rewrite Hsplit at 1. apply N.div_mul. apply pow10_nz. }
    rewrite (rhe_exact v (10^d) (pow10_nz d) Hdiv).
    destruct (N.ltb_spec (v / 10^d) B); [|lia].
    exists (v / 10^d), (s - d). repeat split; try lia.
    replace (s - (s - d)) with d by lia.
    rewrite Hq. symmetry. exact Hsplit.
Qed.

Lemma same_side (A Q k c e : Z) :
  (0 < Q)%Z -> (0 < e)%Z ->
  (2 * A < Q * (2 * k + 1))%Z ->
  (2 * Q * (c * Q - A * e) < e * Q)%Z ->
  (2 * c < e * (2 * k + 1))%Z.
Proof. intros HQ He Hlt Herr. nia. Qed.
Print Assumptions rescale_exact.
