// scratch: random histories + ledger/solvency/exit/mechanism oracles on the real contract
use ats_smart_contract::ask_order::{AskOrderClass, AskOrderStatus, AskOrderV1, ASKS_V1};
use ats_smart_contract::bid_order::{BidOrderV3, BIDS_V3};
use ats_smart_contract::contract::{execute, instantiate};
use ats_smart_contract::msg::{ExecuteMsg, InstantiateMsg};
use cosmwasm_std::testing::{mock_env, mock_info, MockApi, MockStorage, MOCK_CONTRACT_ADDR};
use cosmwasm_std::{coin, to_binary, BankMsg, Binary, Coin, ContractResult, CosmosMsg, Empty, Order, OwnedDeps, Response, Storage, SystemResult, Uint128};
use prost::Message;
use provwasm_common::MockableQuerier;
use provwasm_mocks::{mock_provenance_dependencies, MockProvenanceQuerier};
use provwasm_std::shim::Any;
use provwasm_std::types::cosmos::auth::v1beta1::BaseAccount;
use provwasm_std::types::provenance::marker::v1::{MarkerAccount, MsgTransferRequest, QueryMarkerRequest, QueryMarkerResponse};
use std::collections::{BTreeMap, HashMap};
type Deps = OwnedDeps<MockStorage, MockApi, MockProvenanceQuerier, Empty>;
struct Rng(u64);
impl Rng { fn next(&mut self) -> u64 { self.0 ^= self.0 << 13; self.0 ^= self.0 >> 7; self.0 ^= self.0 << 17; self.0 }
  fn below(&mut self, n: u64) -> u64 { self.next() % n } fn pick<'a, T>(&mut self, v: &'a [T]) -> &'a T { &v[self.below(v.len() as u64) as usize] } fn chance(&mut self, pct: u64) -> bool { self.below(100) < pct } }
fn mkdeps(table: HashMap<String, i32>) -> Deps {
    let mut deps = mock_provenance_dependencies();
    deps.querier.register_custom_query("/provenance.marker.v1.Query/Marker".to_string(), Box::new(move |data: &Binary| {
        let req = QueryMarkerRequest::decode(data.as_slice()).unwrap();
        let resp = match table.get(&req.id) { Some(t) => { let m = MarkerAccount { base_account: Some(BaseAccount { address: "m".into(), pub_key: None, account_number: 1, sequence: 0 }), manager: "".into(), access_control: vec![], status: 3, denom: req.id.clone(), supply: "1".into(), marker_type: *t, supply_fixed: false, allow_governance_control: true, allow_forced_transfer: false, required_attributes: vec![] };
            QueryMarkerResponse { marker: Some(Any { type_url: "/provenance.marker.v1.MarkerAccount".into(), value: m.encode_to_vec() }) } } None => QueryMarkerResponse { marker: None } };
        SystemResult::Ok(ContractResult::Ok(to_binary(&resp).unwrap())) }));
    deps
}
fn clone_storage(s: &MockStorage) -> MockStorage { let mut n = MockStorage::default(); for (k, v) in s.range(None, None, Order::Ascending) { n.set(&k, &v); } n }
fn uuid(rng: &mut Rng) -> String { let a = rng.next(); let b = rng.next(); format!("{:08x}-{:04x}-{:04x}-{:04x}-{:012x}", (a >> 32) as u32, (a >> 16) as u16, a as u16, (b >> 48) as u16, b & 0xffff_ffff_ffff) }
fn price_str(k: u128, p: u32) -> String { if p == 0 { return k.to_string(); } let d = 10u128.pow(p); format!("{}.{:0width$}", k / d, k % d, width = p as usize) }
type Ledger = BTreeMap<(String, String), i128>;
fn apply(ledger: &mut Ledger, from: &str, to: &str, denom: &str, amt: u128) { *ledger.entry((from.into(), denom.into())).or_default() -= amt as i128; *ledger.entry((to.into(), denom.into())).or_default() += amt as i128; }
fn run_call(deps: &mut Deps, who: &str, funds: &[Coin], msg: ExecuteMsg) -> Option<Response> {
    let snap = clone_storage(&deps.storage);
    let r = std::panic::catch_unwind(std::panic::AssertUnwindSafe(|| execute(deps.as_mut(), mock_env(), mock_info(who, funds), msg)));
    match r { Ok(Ok(resp)) => Some(resp), _ => { deps.storage = snap; None } }
}
fn account(resp: &Response, who: &str, funds: &[Coin], ledger: &mut Ledger, table: &HashMap<String, i32>, problems: &mut Vec<String>) {
    for c in funds { apply(ledger, who, MOCK_CONTRACT_ADDR, &c.denom, c.amount.u128()); }
    for m in &resp.messages { match &m.msg {
        CosmosMsg::Bank(BankMsg::Send { to_address, amount }) => { for c in amount { if c.amount.is_zero() { problems.push(format!("C10 zero bank coin {}", c.denom)); } if table.get(&c.denom) == Some(&2) { problems.push(format!("C10 bank send of restricted {}", c.denom)); } apply(ledger, MOCK_CONTRACT_ADDR, to_address, &c.denom, c.amount.u128()); } if amount.len() != 1 { problems.push("C10 bank coins != 1".into()); } }
        CosmosMsg::Stargate { type_url, value } if type_url == "/provenance.marker.v1.MsgTransferRequest" => { let t = MsgTransferRequest::decode(value.as_slice()).unwrap(); let c = t.amount.unwrap(); let amt: u128 = c.amount.parse().unwrap();
            if table.get(&c.denom) != Some(&2) { problems.push(format!("C10 marker transfer of unrestricted {}", c.denom)); } if t.administrator != MOCK_CONTRACT_ADDR { problems.push("C10 admin".into()); } apply(ledger, &t.from_address, &t.to_address, &c.denom, amt); }
        other => problems.push(format!("C10 other msg {:?}", other)) } }
}
fn book(deps: &Deps) -> (Vec<AskOrderV1>, Vec<BidOrderV3>) {
    (ASKS_V1.range(&deps.storage, None, None, Order::Ascending).map(|r| r.unwrap().1).collect(), BIDS_V3.range(&deps.storage, None, None, Order::Ascending).map(|r| r.unwrap().1).collect())
}
fn owed(deps: &Deps) -> BTreeMap<String, i128> {
    let (asks, bids) = book(deps); let mut o: BTreeMap<String, i128> = BTreeMap::new();
    for a in asks { *o.entry(a.base.clone()).or_default() += a.size.u128() as i128; if let AskOrderClass::Convertible { status: AskOrderStatus::Ready { converted_base, .. } } = a.class { *o.entry(converted_base.denom).or_default() += converted_base.amount.u128() as i128; } }
    for b in bids { let rq = b.quote.amount.u128() as i128 - b.accumulated_quote.u128() as i128; let rf = b.fee.as_ref().map_or(0, |f| f.amount.u128() as i128) - b.accumulated_fee.u128() as i128; *o.entry(b.quote.denom.clone()).or_default() += rq + rf; }
    o
}
fn main() {
    std::panic::set_hook(Box::new(|i| { if std::env::var("SIMDBG").is_ok() { eprintln!("{}", i); } }));
    if std::env::var("SIMDBG").is_ok() { dbg_modify(); }
    let args: Vec<String> = std::env::args().collect(); let seeds: u64 = args.get(1).map_or(200, |s| s.parse().unwrap()); let steps: u64 = args.get(2).map_or(60, |s| s.parse().unwrap());
    let mut summary: BTreeMap<String, (u64, String)> = BTreeMap::new(); let mut accepted = 0u64; let mut total = 0u64; let mut kinds: BTreeMap<&str, (u64, u64)> = BTreeMap::new();
    for seed in 1..=seeds {
        let mut rng = Rng(seed.wrapping_mul(0x9E3779B97F4A7C15) | 1);
        let denoms = ["base", "conv", "q1", "q2"]; let mut table = HashMap::new();
        for d in denoms { match rng.below(3) { 0 => { table.insert(d.to_string(), 2); } 1 => { table.insert(d.to_string(), 1); } _ => {} } }
        let mut deps = mkdeps(table.clone());
        let p = *rng.pick(&[0u32, 0, 1, 2]); let inc = 10u128.pow(p) * *rng.pick(&[1u128, 1, 5, 10]);
        let askfee = rng.pick(&[None, None, Some("0.1"), Some("0.003"), Some("0.5"), Some("1")]).map(|s| s.to_string());
        let bidfee = rng.pick(&[None, None, Some("0.1"), Some("0.003"), Some("0.5"), Some("0.25")]).map(|s| s.to_string());
        let approver = rng.pick(&["approver", "sel1", "exec"]).to_string(); let askacct = rng.pick(&["askfee", "bidfee", "sel1", "exec"]).to_string(); let bidacct = rng.pick(&["bidfee", "buy1", "approver"]).to_string();
        instantiate(deps.as_mut(), mock_env(), mock_info("admin", &[]), InstantiateMsg { name: "n".into(), base_denom: "base".into(), convertible_base_denoms: vec!["conv".into()], supported_quote_denoms: vec!["q1".into(), "q2".into()], approvers: vec![approver.clone()], executors: vec!["exec".into(), "buy2".into()], ask_fee_rate: askfee.clone(), ask_fee_account: askfee.as_ref().map(|_| askacct.clone()), bid_fee_rate: bidfee.clone(), bid_fee_account: bidfee.as_ref().map(|_| bidacct.clone()), ask_required_attributes: vec![], bid_required_attributes: vec![], price_precision: Uint128::new(p as u128), size_increment: Uint128::new(inc) }).unwrap();
        let bidrate_num: u128 = match bidfee.as_deref() { Some("0.1") => 100, Some("0.003") => 3, Some("0.5") => 500, Some("0.25") => 250, _ => 0 }; // per mille
        let mut ledger: Ledger = BTreeMap::new(); let mut hist: Vec<String> = vec![format!("cfg p={} inc={} askfee={:?}@{} bidfee={:?}@{} approver={} markers={:?}", p, inc, askfee, askacct, bidfee, bidacct, approver, table)];
        for _ in 0..steps {
            let (asks, bids) = book(&deps); let mut problems: Vec<String> = vec![];
            let op = rng.below(100); let sellers = ["sel1", "sel2", "exec"]; let buyers = ["buy1", "buy2", "sel1"];
            let (kind, who, funds, msg): (&str, String, Vec<Coin>, ExecuteMsg) =
            if op < 18 { let base = if rng.chance(40) { "conv" } else { "base" }; let size = inc * (1 + rng.below(6) as u128); let k = 1 + rng.below(40) as u128; let who = rng.pick(&sellers).to_string();
                let funds = if table.get(base) == Some(&2) { vec![] } else { vec![coin(size, base)] };
                ("create_ask", who, funds, ExecuteMsg::CreateAsk { id: uuid(&mut rng), base: base.into(), quote: rng.pick(&["q1", "q1", "q2"]).to_string(), price: price_str(k, p), size: Uint128::new(size) }) }
            else if op < 36 { let size = inc * (1 + rng.below(6) as u128); let k = 1 + rng.below(40) as u128; let who = rng.pick(&buyers).to_string(); let q = rng.pick(&["q1", "q1", "q2"]).to_string();
                let total = k * size / 10u128.pow(p); let fee = (total * bidrate_num * 2 + 1000) / 2000; // half-up
                let feeopt = if bidrate_num == 0 { None } else { Some(coin(fee, q.clone())) };
                let funds = if table.get(q.as_str()) == Some(&2) { vec![] } else { vec![coin(total + fee, q.clone())] };
                ("create_bid", who, funds, ExecuteMsg::CreateBid { id: uuid(&mut rng), base: "base".into(), fee: feeopt, price: price_str(k, p), quote: q, quote_size: Uint128::new(total), size: Uint128::new(size) }) }
            else if op < 44 && !asks.is_empty() { let a = rng.pick(&asks).clone(); let funds = if table.get("base") == Some(&2) { vec![] } else { vec![coin(a.size.u128(), "base")] };
                ("approve", approver.clone(), funds, ExecuteMsg::ApproveAsk { id: a.id, base: "base".into(), size: a.size }) }
            else if op < 70 && !asks.is_empty() && !bids.is_empty() { let a = rng.pick(&asks).clone(); let b = rng.pick(&bids).clone(); let rb = b.base.amount.u128() - b.accumulated_base.u128(); let mx = a.size.u128().min(rb);
                let size = if rng.chance(50) { mx } else { 1 + rng.below(mx.max(1) as u64) as u128 }; let price = if rng.chance(50) { a.price.clone() } else { b.price.clone() };
                ("match", rng.pick(&["exec", "buy2"]).to_string(), vec![], ExecuteMsg::ExecuteMatch { ask_id: a.id, bid_id: b.id, price, size: Uint128::new(size) }) }
            else if op < 76 && !asks.is_empty() { let a = rng.pick(&asks).clone(); ("cancel_ask", a.owner.to_string(), vec![], ExecuteMsg::CancelAsk { id: a.id }) }
            else if op < 82 && !bids.is_empty() { let b = rng.pick(&bids).clone(); ("cancel_bid", b.owner.to_string(), vec![], ExecuteMsg::CancelBid { id: b.id }) }
            else if op < 88 && !asks.is_empty() { let a = rng.pick(&asks).clone(); let sz = if rng.chance(60) { Some(Uint128::new(inc * (1 + rng.below(3) as u128))) } else { None }; ("reject_ask", "exec".into(), vec![], ExecuteMsg::RejectAsk { id: a.id, size: sz }) }
            else if op < 94 && !bids.is_empty() { let b = rng.pick(&bids).clone(); let sz = if rng.chance(60) { Some(Uint128::new(inc * (1 + rng.below(3) as u128))) } else { None }; ("reject_bid", "exec".into(), vec![], ExecuteMsg::RejectBid { id: b.id, size: sz }) }
            else if op < 97 && !asks.is_empty() { let a = rng.pick(&asks).clone(); ("expire_ask", "buy2".into(), vec![], ExecuteMsg::ExpireAsk { id: a.id }) }
            else { let f = if rng.chance(30) { vec![coin(5, "q1")] } else { vec![] }; ("modify", "exec".into(), f, ExecuteMsg::ModifyContract { approvers: None, executors: None, ask_fee_rate: None, ask_fee_account: None, bid_fee_rate: None, bid_fee_account: None, ask_required_attributes: None, bid_required_attributes: None }) };
            let label = format!("{} by {} funds {:?} {:?}", kind, who, funds, msg); total += 1; let e = kinds.entry(kind).or_default(); e.0 += 1;
            if let Some(resp) = run_call(&mut deps, &who, &funds, msg) { accepted += 1; e.1 += 1; hist.push(label);
                account(&resp, &who, &funds, &mut ledger, &table, &mut problems);
                let o = owed(&deps); for d in denoms { let h = *ledger.get(&(MOCK_CONTRACT_ADDR.to_string(), d.to_string())).unwrap_or(&0); let w = *o.get(d).unwrap_or(&0); if h != w { problems.push(format!("C01 holdings {} of {} != owed {}", h, d, w)); } }
                // exit probes
                let (asks2, bids2) = book(&deps);
                for a in &asks2 { for (w, m) in [(a.owner.to_string(), ExecuteMsg::CancelAsk { id: a.id.clone() }), ("exec".to_string(), ExecuteMsg::ExpireAsk { id: a.id.clone() })] { let keep = clone_storage(&deps.storage); if run_call(&mut deps, &w, &[], m).is_none() { problems.push("C06 ask exit refused".into()); } deps.storage = keep; } }
                for b in &bids2 { for (w, m) in [(b.owner.to_string(), ExecuteMsg::CancelBid { id: b.id.clone() }), ("exec".to_string(), ExecuteMsg::ExpireBid { id: b.id.clone() })] { let keep = clone_storage(&deps.storage); if run_call(&mut deps, &w, &[], m).is_none() { problems.push("C06 bid exit refused".into()); } deps.storage = keep; } }
            }
            if !problems.is_empty() { for pb in &problems { let key: String = pb.split(' ').take(4).collect::<Vec<_>>().join(" "); let e = summary.entry(key).or_insert((0, String::new())); e.0 += 1; if e.1.is_empty() || hist.len() < e.1.lines().count() { e.1 = format!("seed {}: {}\n{}", seed, pb, hist.join("\n")); } } break; }
        }
    }
    println!("steps {} accepted {} per-kind (tried, accepted) {:?}", total, accepted, kinds);
    for (k, (n, ex)) in &summary { println!("== {} : {} histories; shortest:\n{}\n", k, n, ex); }
    if summary.is_empty() { println!("no problems found"); }
}
#[allow(dead_code)]
fn dbg_modify() {
    let mut deps = mkdeps(HashMap::new());
    instantiate(deps.as_mut(), mock_env(), mock_info("admin", &[]), InstantiateMsg { name: "n".into(), base_denom: "base".into(), convertible_base_denoms: vec!["conv".into()], supported_quote_denoms: vec!["q1".into()], approvers: vec!["approver".into()], executors: vec!["exec".into()], ask_fee_rate: None, ask_fee_account: None, bid_fee_rate: None, bid_fee_account: None, ask_required_attributes: vec![], bid_required_attributes: vec![], price_precision: Uint128::new(0), size_increment: Uint128::new(1) }).unwrap();
    let r = execute(deps.as_mut(), mock_env(), mock_info("exec", &[coin(5, "q1")]), ExecuteMsg::ModifyContract { approvers: None, executors: None, ask_fee_rate: None, ask_fee_account: None, bid_fee_rate: None, bid_fee_account: None, ask_required_attributes: None, bid_required_attributes: None });
    eprintln!("dbg modify with funds -> {:?}", r.map(|_| "ok"));
}
