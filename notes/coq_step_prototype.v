(* scratch: proof-ergonomics prototype for one contract function (reverse_ask, with repair F1/F3) *)
From Coq Require Import NArith ZArith Lia List Bool String.
Import ListNotations.
Open Scope N_scope.
Ltac Zify.zify_post_hook ::= Z.div_mod_to_equations.

Inductive res (A : Type) := Ok (a : A) | Refused (tag : N).
Arguments Ok {A} a. Arguments Refused {A} tag.
Definition bind {A B} (r : res A) (k : A -> res B) : res B :=
  match r with Ok a => k a | Refused t => Refused t end.
Notation "'do' x <- e ; k" := (bind e (fun x => k)) (at level 200, x pattern, e at level 100, k at level 200).
Definition guard (b : bool) (tag : N) : res unit := if b then Ok tt else Refused tag.

Inductive mkind := Restricted | Other | NoMarker.
Record env := { marker : string -> mkind; self : string }.
Definition is_restricted (e : env) (d : string) : bool := match marker e d with Restricted => true | _ => false end.

Inductive status := Pending | Ready (approver : string) (cdenom : string) (camt : N).
Inductive class := Basic | Convertible (s : status).
Record ask := { a_id : string; a_owner : string; a_class : class; a_base : string; a_quote : string; a_price : string; a_size : N }.

Inductive msg := Bank (to denom : string) (amt : N) | Xfer (from to denom : string) (amt : N) (admin : string).

Fixpoint lookup {V} (k : string) (m : list (string * V)) : option V :=
  match m with [] => None | (k', v) :: r => if String.eqb k k' then Some v else lookup k r end.
Fixpoint remove {V} (k : string) (m : list (string * V)) : list (string * V) :=
  match m with [] => [] | (k', v) :: r => if String.eqb k k' then remove k r else (k', v) :: remove k r end.
Definition insert {V} (k : string) (v : V) (m : list (string * V)) := (k, v) :: remove k m.

Lemma lookup_remove_ne {V} k k' (m : list (string * V)) : k <> k' -> lookup k (remove k' m) = lookup k m.
Proof.
  intros H. induction m as [|[k0 v] r IH]; cbn; [reflexivity|].
  destruct (String.eqb_spec k' k0) as [->|Hne].
  - destruct (String.eqb_spec k k0); [congruence|]. exact IH.
  - cbn. destruct (String.eqb_spec k k0); [reflexivity|exact IH].
Qed.
Lemma lookup_insert_ne {V} k k' (v : V) m : k <> k' -> lookup k (insert k' v m) = lookup k m.
Proof. intros H. unfold insert. cbn. destruct (String.eqb_spec k k'); [congruence|]. apply lookup_remove_ne; assumption. Qed.

(* add_transfer: zero restricted transfer panics *)
Definition add_transfer (e : env) (restricted : bool) (amt : N) (d to : string) : res msg :=
  if restricted then (if amt =? 0 then Refused 99 else Ok (Xfer (self e) to d amt (self e)))
  else Ok (Bank to d amt).

Record cfg := { executors : list string; increment : N }.
Definition mem (s : string) (l : list string) : bool := existsb (String.eqb s) l.

Definition reverse_ask (e : env) (c : cfg) (asks : list (string * ask)) (sender : string) (funds_empty : bool)
           (id : string) (csz : option N) : res (list (string * ask) * list msg * N * bool) :=
  do _ <- guard funds_empty 1;
  do _ <- guard (mem sender (executors c)) 2;
  match lookup id asks with
  | None => Refused 3
  | Some a =>
    let eff := match csz with None => a_size a | Some s => s end in
    do _ <- guard (match csz with None => true | Some _ => (eff mod increment c =? 0) end) 4;
    do _ <- guard (eff <=? a_size a) 5;
    let sz' := a_size a - eff in
    let cls' := match a_class a with Convertible (Ready ap d _) => Convertible (Ready ap d sz') | x => x end in
    let a' := {| a_id := a_id a; a_owner := a_owner a; a_class := cls'; a_base := a_base a; a_quote := a_quote a; a_price := a_price a; a_size := sz' |} in
    do m1 <- add_transfer e (is_restricted e (a_base a)) eff (a_base a) (a_owner a);
    do ms <- match a_class a with
             | Convertible (Ready ap d _) => do m2 <- add_transfer e (is_restricted e d) eff d ap; Ok [m1; m2]
             | _ => Ok [m1] end;
    if sz' =? 0 then Ok (remove (a_id a) asks, ms, eff, false) else Ok (insert (a_id a) a' asks, ms, eff, true)
  end.

(* outflow of a denom from the contract in a message list *)
Definition out_of (e : env) (d : string) (m : msg) : N :=
  match m with Bank _ d' a => if String.eqb d d' then a else 0
             | Xfer f _ d' a _ => if String.eqb d d' && String.eqb f (self e) then a else 0 end.
Definition outflow e d ms := fold_right (fun m acc => out_of e d m + acc) 0 ms.

Definition owed_ask (d : string) (a : ask) : N :=
  (if String.eqb d (a_base a) then a_size a else 0) +
  match a_class a with Convertible (Ready _ cd ca) => if String.eqb d cd then ca else 0 | _ => 0 end.

Definition inv_ask (k : string) (a : ask) : Prop :=
  a_id a = k /\ 1 <= a_size a /\ match a_class a with Convertible (Ready _ _ ca) => ca = a_size a | _ => True end.

Ltac inv_bind :=
  repeat match goal with
  | H : bind ?r _ = Ok _ |- _ => destruct r eqn:?; cbn [bind] in H; [|discriminate H]
  | H : guard ?b _ = Ok _ |- _ => unfold guard in H; destruct b eqn:?; [clear H|discriminate H]
  end.


Lemma lookup_remove_eq {V} k (m : list (string * V)) : lookup k (remove k m) = None.
Proof. induction m as [|[k0 v] r IH]; cbn; [reflexivity|]. destruct (String.eqb_spec k k0) as [->|Hne]; [exact IH|]. cbn. destruct (String.eqb_spec k k0); [congruence|exact IH]. Qed.
Lemma lookup_insert_eq {V} k (v : V) m : lookup k (insert k v m) = Some v.
Proof. unfold insert. cbn. rewrite String.eqb_refl. reflexivity. Qed.


(* ---- characterising (inversion) lemma: proved once, later proofs never unfold reverse_ask ---- *)
Definition pay (e : env) (d to : string) (amt : N) : msg :=
  if is_restricted e d then Xfer (self e) to d amt (self e) else Bank to d amt.
Definition ask_after (a : ask) (eff : N) : ask :=
  let sz' := a_size a - eff in
  {| a_id := a_id a; a_owner := a_owner a;
     a_class := match a_class a with Convertible (Ready ap d _) => Convertible (Ready ap d sz') | x => x end;
     a_base := a_base a; a_quote := a_quote a; a_price := a_price a; a_size := sz' |}.
Definition ask_msgs (e : env) (a : ask) (eff : N) : list msg :=
  pay e (a_base a) (a_owner a) eff ::
  match a_class a with Convertible (Ready ap d _) => [pay e d ap eff] | _ => [] end.

Lemma add_transfer_ok e r amt d to m : add_transfer e r amt d to = Ok m -> r = is_restricted e d ->
  m = pay e d to amt /\ (r = true -> amt <> 0).
Proof.
  unfold add_transfer, pay. intros H ->. destruct (is_restricted e d).
  - destruct (N.eqb_spec amt 0); [discriminate|]. injection H as <-. auto.
  - injection H as <-. split; [reflexivity|discriminate].
Qed.

Lemma reverse_ask_inv e c asks sender fe id csz asks' ms eff open :
  reverse_ask e c asks sender fe id csz = Ok (asks', ms, eff, open) ->
  exists a, lookup id asks = Some a /\ fe = true /\ mem sender (executors c) = true /\
    eff = match csz with None => a_size a | Some s => s end /\
    (match csz with None => True | Some s => s mod increment c = 0 end) /\
    eff <= a_size a /\ ms = ask_msgs e a eff /\
    open = negb (a_size a - eff =? 0) /\
    asks' = if a_size a - eff =? 0 then remove (a_id a) asks else insert (a_id a) (ask_after a eff) asks.
Proof.
  unfold reverse_ask. intros H.
  destruct fe; cbn [guard bind] in H; [|discriminate].
  destruct (mem sender (executors c)) eqn:Hex; cbn [guard bind] in H; [|discriminate].
  destruct (lookup id asks) as [a|] eqn:Hl; [|discriminate].
  set (effv := match csz with None => a_size a | Some s => s end) in *.
  destruct (match csz with None => true | Some _ => effv mod increment c =? 0 end) eqn:Hlot; cbn [guard bind] in H; [|discriminate].
  destruct (effv <=? a_size a) eqn:Hle; cbn [guard bind] in H; [|discriminate].
  destruct (add_transfer e (is_restricted e (a_base a)) effv (a_base a) (a_owner a)) as [m1|] eqn:H1; cbn [bind] in H; [|discriminate].
  apply add_transfer_ok in H1 as [-> _]; [|reflexivity].
  exists a. split; [reflexivity|]. split; [reflexivity|]. split; [reflexivity|].
  assert (Hms : forall X, (do ms0 <- match a_class a with
             | Convertible (Ready ap d _) => do m2 <- add_transfer e (is_restricted e d) effv d ap; Ok [pay e (a_base a) (a_owner a) effv; m2]
             | _ => Ok [pay e (a_base a) (a_owner a) effv] end; X ms0) = Ok (asks', ms, eff, open) ->
             exists ms0, ms0 = ask_msgs e a effv /\ X ms0 = Ok (asks', ms, eff, open)).
  { intros X HX. unfold ask_msgs. destruct (a_class a) as [|[|ap d ca]]; cbn [bind] in HX; eauto.
    destruct (add_transfer e (is_restricted e d) effv d ap) as [m2|] eqn:H2; cbn [bind] in HX; [|discriminate].
    apply add_transfer_ok in H2 as [-> _]; [|reflexivity]. eauto. }
  apply Hms in H as (ms0 & -> & H). clear Hms.
  assert (Hlot' : match csz with None => True | Some s => s mod increment c = 0 end).
  { destruct csz; [|exact I]. apply N.eqb_eq. exact Hlot. }
  apply N.leb_le in Hle.
  destruct (a_size a - effv =? 0) eqn:Hz; injection H as <- <- <- <-; repeat split; auto; rewrite ?Hz; reflexivity.
Qed.


Lemma out_of_pay e d d' to amt : out_of e d (pay e d' to amt) = if String.eqb d d' then amt else 0.
Proof. unfold pay, out_of. destruct (is_restricted e d'); destruct (String.eqb d d'); rewrite ?String.eqb_refl; reflexivity. Qed.

Lemma reverse_ask_conserves e c asks sender fe id csz asks' ms eff open a d :
  reverse_ask e c asks sender fe id csz = Ok (asks', ms, eff, open) ->
  lookup id asks = Some a -> inv_ask id a ->
  outflow e d ms + match lookup id asks' with Some a' => owed_ask d a' | None => 0 end = owed_ask d a.
Proof.
  intros H Hl (Hid & Hsz & Hcls).
  apply reverse_ask_inv in H as (a0 & Hl0 & _ & _ & Heff & _ & Hle & -> & _ & ->).
  rewrite Hl in Hl0. injection Hl0 as <-. rewrite Hid.
  destruct (N.eqb_spec (a_size a - eff) 0) as [Hz|Hnz].
  - rewrite lookup_remove_eq. assert (eff = a_size a) by lia. subst eff.
    unfold outflow, ask_msgs, owed_ask. destruct (a_class a) as [|[|ap cd ca]]; cbn [fold_right]; rewrite ?out_of_pay.
    all: repeat match goal with |- context [String.eqb ?x ?y] => destruct (String.eqb x y) end; lia.
  - rewrite lookup_insert_eq.
    unfold outflow, ask_msgs, owed_ask, ask_after. cbn [a_base a_size a_class].
    destruct (a_class a) as [|[|ap cd ca]]; cbn [fold_right]; rewrite ?out_of_pay.
    all: repeat match goal with |- context [String.eqb ?x ?y] => destruct (String.eqb x y) end; lia.
Qed.
Print Assumptions reverse_ask_conserves.
