use ats_smart_contract::contract::{execute, instantiate, query};
use ats_smart_contract::msg::{ExecuteMsg, InstantiateMsg, QueryMsg};
use cosmwasm_std::testing::{mock_env, mock_info, MockApi, MockStorage};
use cosmwasm_std::{coin, coins, Binary, ContractResult, OwnedDeps, SystemResult, Uint128, Empty, to_binary, Coin};
use prost::Message;
use provwasm_common::MockableQuerier;
use provwasm_mocks::{mock_provenance_dependencies, MockProvenanceQuerier};
use provwasm_std::shim::Any;
use provwasm_std::types::provenance::marker::v1::{MarkerAccount, QueryMarkerRequest, QueryMarkerResponse};
use provwasm_std::types::cosmos::auth::v1beta1::BaseAccount;
use std::collections::HashMap;

type Deps = OwnedDeps<MockStorage, MockApi, MockProvenanceQuerier, Empty>;

fn setup(markers: &[(&str, i32)]) -> Deps {
    let mut deps = mock_provenance_dependencies();
    let table: HashMap<String, i32> = markers.iter().map(|(d, t)| (d.to_string(), *t)).collect();
    deps.querier.register_custom_query(
        "/provenance.marker.v1.Query/Marker".to_string(),
        Box::new(move |data: &Binary| {
            let req = QueryMarkerRequest::decode(data.as_slice()).unwrap();
            let resp = match table.get(&req.id) {
                Some(t) => {
                    let m = MarkerAccount {
                        base_account: Some(BaseAccount { address: "m".into(), pub_key: None, account_number: 1, sequence: 0 }),
                        manager: "".into(), access_control: vec![], status: 3, denom: req.id.clone(), supply: "1".into(),
                        marker_type: *t, supply_fixed: false, allow_governance_control: true, allow_forced_transfer: false, required_attributes: vec![],
                    };
                    QueryMarkerResponse { marker: Some(Any { type_url: "/provenance.marker.v1.MarkerAccount".into(), value: m.encode_to_vec() }) }
                }
                None => QueryMarkerResponse { marker: None },
            };
            SystemResult::Ok(ContractResult::Ok(to_binary(&resp).unwrap()))
        }),
    );
    deps
}

fn inst(deps: &mut Deps, prec: u128, inc: u128, ask_fee: Option<&str>, bid_fee: Option<&str>) {
    let r = instantiate(deps.as_mut(), mock_env(), mock_info("admin", &[]), InstantiateMsg {
        name: "n".into(), base_denom: "base".into(), convertible_base_denoms: vec!["conv".into()],
        supported_quote_denoms: vec!["quote".into()], approvers: vec!["approver".into()], executors: vec!["exec".into()],
        ask_fee_rate: ask_fee.map(|s| s.to_string()), ask_fee_account: ask_fee.map(|_| "askfee".to_string()),
        bid_fee_rate: bid_fee.map(|s| s.to_string()), bid_fee_account: bid_fee.map(|_| "bidfee".to_string()),
        ask_required_attributes: vec![], bid_required_attributes: vec![],
        price_precision: Uint128::new(prec), size_increment: Uint128::new(inc),
    });
    println!("  instantiate -> {:?}", r.map(|_| "ok"));
}

fn ex(deps: &mut Deps, who: &str, funds: &[Coin], msg: ExecuteMsg) {
    let label = format!("{:?}", msg);
    let r = std::panic::catch_unwind(std::panic::AssertUnwindSafe(|| execute(deps.as_mut(), mock_env(), mock_info(who, funds), msg)));
    match r {
        Ok(Ok(resp)) => {
            println!("  {} by {} -> OK", label, who);
            for m in &resp.messages { println!("      msg {:?}", m.msg); }
            println!("      attrs {:?}", resp.attributes.iter().map(|a| format!("{}={}", a.key, a.value)).collect::<Vec<_>>());
        }
        Ok(Err(e)) => println!("  {} by {} -> ERR {:?}", label, who, e),
        Err(_) => println!("  {} by {} -> PANIC", label, who),
    }
}
fn q(deps: &Deps, msg: QueryMsg) {
    let label = format!("{:?}", msg);
    match query(deps.as_ref(), mock_env(), msg) {
        Ok(b) => println!("  {} -> {}", label, String::from_utf8_lossy(b.as_slice())),
        Err(e) => println!("  {} -> ERR {:?}", label, e),
    }
}

fn q_(d: &Deps) { q(d, QueryMsg::GetBid { id: B1.into() }); }
const A1: &str = "ab5f5a62-f6fc-46d1-aa84-51ccc51ec367";
const B1: &str = "c13f8888-ca43-4a64-ab1b-1ca8d60aa49b";

fn main() {
    std::panic::set_hook(Box::new(|i| println!("      [panic: {}]", i)));
    println!("A. partial reject then cancel of approved convertible ask");
    let mut d = setup(&[]);
    inst(&mut d, 0, 1, None, None);
    ex(&mut d, "seller", &coins(10, "conv"), ExecuteMsg::CreateAsk { id: A1.into(), base: "conv".into(), quote: "quote".into(), price: "2".into(), size: Uint128::new(10) });
    ex(&mut d, "approver", &coins(10, "base"), ExecuteMsg::ApproveAsk { id: A1.into(), base: "base".into(), size: Uint128::new(10) });
    ex(&mut d, "exec", &[], ExecuteMsg::RejectAsk { id: A1.into(), size: Some(Uint128::new(4)) });
    ex(&mut d, "seller", &[], ExecuteMsg::CancelAsk { id: A1.into() });
    println!("B. final fill at improved price, fee rounds to zero");
    let mut d = setup(&[]);
    inst(&mut d, 0, 1, None, Some("0.1"));
    ex(&mut d, "buyer", &coins(11, "quote"), ExecuteMsg::CreateBid { id: B1.into(), base: "base".into(), fee: Some(coin(1, "quote")), price: "10".into(), quote: "quote".into(), quote_size: Uint128::new(10), size: Uint128::new(1) });
    ex(&mut d, "seller", &coins(1, "base"), ExecuteMsg::CreateAsk { id: A1.into(), base: "base".into(), quote: "quote".into(), price: "4".into(), size: Uint128::new(1) });
    ex(&mut d, "exec", &[], ExecuteMsg::ExecuteMatch { ask_id: A1.into(), bid_id: B1.into(), price: "4".into(), size: Uint128::new(1) });
    println!("C. fill 15 of 20 with increment 10, then cancel / expire bid");
    let mut d = setup(&[]);
    inst(&mut d, 0, 10, None, None);
    ex(&mut d, "buyer", &coins(40, "quote"), ExecuteMsg::CreateBid { id: B1.into(), base: "base".into(), fee: None, price: "2".into(), quote: "quote".into(), quote_size: Uint128::new(40), size: Uint128::new(20) });
    ex(&mut d, "seller", &coins(20, "base"), ExecuteMsg::CreateAsk { id: A1.into(), base: "base".into(), quote: "quote".into(), price: "2".into(), size: Uint128::new(20) });
    ex(&mut d, "exec", &[], ExecuteMsg::ExecuteMatch { ask_id: A1.into(), bid_id: B1.into(), price: "2".into(), size: Uint128::new(15) });
    ex(&mut d, "exec", &[], ExecuteMsg::RejectBid { id: B1.into(), size: Some(Uint128::new(5)) });
    ex(&mut d, "exec", &[], ExecuteMsg::ExpireBid { id: B1.into() });
    ex(&mut d, "exec", &[], ExecuteMsg::ExpireAsk { id: A1.into() });
    println!("D. restricted conv, unrestricted base: match of convertible ask");
    let mut d = setup(&[("conv", 2), ("base", 1)]);
    inst(&mut d, 0, 1, None, None);
    ex(&mut d, "seller", &[], ExecuteMsg::CreateAsk { id: A1.into(), base: "conv".into(), quote: "quote".into(), price: "2".into(), size: Uint128::new(10) });
    ex(&mut d, "approver", &coins(10, "base"), ExecuteMsg::ApproveAsk { id: A1.into(), base: "base".into(), size: Uint128::new(10) });
    ex(&mut d, "buyer", &coins(20, "quote"), ExecuteMsg::CreateBid { id: B1.into(), base: "base".into(), fee: None, price: "2".into(), quote: "quote".into(), quote_size: Uint128::new(20), size: Uint128::new(10) });
    ex(&mut d, "exec", &[], ExecuteMsg::ExecuteMatch { ask_id: A1.into(), bid_id: B1.into(), price: "2".into(), size: Uint128::new(10) });
    println!("D6. modify with funds");
    let mut d = setup(&[]);
    inst(&mut d, 0, 1, None, None);
    ex(&mut d, "exec", &coins(77, "quote"), ExecuteMsg::ModifyContract { approvers: None, executors: None, ask_fee_rate: None, ask_fee_account: None, bid_fee_rate: None, bid_fee_account: None, ask_required_attributes: None, bid_required_attributes: None });
    println!("D7. ask fee rate 1 -> zero net proceeds (unrestricted, then restricted quote)");
    for restricted in [false, true] {
        let mut d = if restricted { setup(&[("quote", 2)]) } else { setup(&[]) };
        inst(&mut d, 0, 1, Some("1"), None);
        let f: Vec<Coin> = if restricted { vec![] } else { coins(20, "quote") };
        ex(&mut d, "buyer", &f, ExecuteMsg::CreateBid { id: B1.into(), base: "base".into(), fee: None, price: "2".into(), quote: "quote".into(), quote_size: Uint128::new(20), size: Uint128::new(10) });
        ex(&mut d, "seller", &coins(10, "base"), ExecuteMsg::CreateAsk { id: A1.into(), base: "base".into(), quote: "quote".into(), price: "2".into(), size: Uint128::new(10) });
        ex(&mut d, "exec", &[], ExecuteMsg::ExecuteMatch { ask_id: A1.into(), bid_id: B1.into(), price: "2".into(), size: Uint128::new(10) });
    }
    println!("W3 via contract: pro-rata held fee after partial fill");
    let mut d = setup(&[]);
    inst(&mut d, 0, 1, None, Some("0.010000000000018630"));
    let q: u128 = 1000000000000037; let fee: u128 = 10000000000019; let x: u128 = 974771873322634;
    ex(&mut d, "buyer", &coins(q + fee, "quote"), ExecuteMsg::CreateBid { id: B1.into(), base: "base".into(), fee: Some(coin(fee, "quote")), price: "1".into(), quote: "quote".into(), quote_size: Uint128::new(q), size: Uint128::new(q) });
    ex(&mut d, "seller", &coins(q - x, "base"), ExecuteMsg::CreateAsk { id: A1.into(), base: "base".into(), quote: "quote".into(), price: "1".into(), size: Uint128::new(q - x) });
    ex(&mut d, "exec", &[], ExecuteMsg::ExecuteMatch { ask_id: A1.into(), bid_id: B1.into(), price: "1".into(), size: Uint128::new(q - x) });
    q_(&d);
}
