#![allow(deprecated)]
use ats_smart_contract::bid_order::{BidOrderV2, BidOrderV3, BIDS_V2, BIDS_V3};
use ats_smart_contract::common::{Action, BlockInfo, Event};
use ats_smart_contract::contract::{execute, instantiate, migrate, query};
use ats_smart_contract::msg::{ExecuteMsg, InstantiateMsg, MigrateMsg, QueryMsg};
use ats_smart_contract::version_info::{set_version_info, VersionInfoV1, CRATE_NAME, PACKAGE_VERSION};
use cosmwasm_std::testing::{mock_env, mock_info};
use cosmwasm_std::{coin, Addr, Order, Storage, Uint128};
use provwasm_mocks::mock_provenance_dependencies;
const B1: &str = "c13f8888-ca43-4a64-ab1b-1ca8d60aa49b"; const B2: &str = "c13f8888ca434a64ab1b1ca8d60aa49c"; const B3: &str = "d13f8888-ca43-4a64-ab1b-1ca8d60aa49d";
fn mm() -> MigrateMsg { MigrateMsg { approvers: None, ask_fee_rate: None, ask_fee_account: None, bid_fee_rate: None, bid_fee_account: None, ask_required_attributes: None, bid_required_attributes: None } }
fn main() {
    println!("crate {} version {}", CRATE_NAME, PACKAGE_VERSION);
    for ver in ["0.16.1", "0.16.2", "0.19.0", "0.19.1", "1.0.0", "0.17.0-rc1", "0.17", "v0.17.0", "0.17.0+build5", "00.17.0", "0.17.0 ", "99999999999999999999.0.0"] {
        let mut deps = mock_provenance_dependencies();
        instantiate(deps.as_mut(), mock_env(), mock_info("admin", &[]), InstantiateMsg { name: "n".into(), base_denom: "base".into(), convertible_base_denoms: vec![], supported_quote_denoms: vec!["quote".into()], approvers: vec![], executors: vec!["exec".into()], ask_fee_rate: None, ask_fee_account: None, bid_fee_rate: None, bid_fee_account: None, ask_required_attributes: vec![], bid_required_attributes: vec![], price_precision: Uint128::new(0), size_increment: Uint128::new(1) }).unwrap();
        set_version_info(&mut deps.storage, &VersionInfoV1 { definition: "old".into(), version: ver.into() }).unwrap();
        let ev = |a: Action| Event { action: a, block_info: BlockInfo::default() };
        let v2 = BidOrderV2 { base: coin(10, "base"), events: vec![ev(Action::Fill { base: coin(2, "base"), fee: Some(coin(1, "quote")), price: "2".into(), quote: coin(4, "quote") }), ev(Action::Refund { fee: None, quote: coin(2, "quote") }), ev(Action::Reject { base: coin(3, "base"), fee: Some(coin(2, "quote")), quote: coin(9, "quote") })], fee: Some(coin(5, "quote")), id: B1.into(), owner: Addr::unchecked("buyer"), price: "3".into(), quote: coin(30, "quote") };
        BIDS_V2.save(&mut deps.storage, B1.as_bytes(), &v2).unwrap();
        let mut v2b = v2.clone(); v2b.id = B2.into(); v2b.events.clear(); BIDS_V2.save(&mut deps.storage, B2.as_bytes(), &v2b).unwrap();
        let v3 = BidOrderV3 { base: coin(10, "base"), accumulated_base: Uint128::new(1), accumulated_quote: Uint128::new(3), accumulated_fee: Uint128::zero(), fee: None, id: B3.into(), owner: Addr::unchecked("buyer"), price: "3".into(), quote: coin(30, "quote") };
        BIDS_V3.save(&mut deps.storage, B3.as_bytes(), &v3).unwrap();
        let qb = query(deps.as_ref(), mock_env(), QueryMsg::GetBid { id: B1.into() }).map(|_| "ok").map_err(|e| e.to_string());
        let r = migrate(deps.as_mut(), mock_env(), mm());
        let dump: Vec<String> = deps.storage.range(None, None, Order::Ascending).filter(|(k, _)| k.windows(3).any(|w| w == b"bid") || k.starts_with(b"version")).map(|(k, v)| format!("    {} = {}", String::from_utf8_lossy(&k).replace(char::from(0), "\\0"), String::from_utf8_lossy(&v))).collect();
        println!("version {:?}: GetBid(v2 slot) before -> {:?}; migrate -> {}", ver, qb, match &r { Ok(_) => "OK".to_string(), Err(e) => format!("ERR {}", e) });
        if ver == "0.16.2" || ver == "0.19.1" { for d in &dump { println!("{}", d); } 
            let c = execute(deps.as_mut(), mock_env(), mock_info("buyer", &[]), ExecuteMsg::CancelBid { id: B2.into() }); println!("    cancel legacy-id converted bid -> {:?}", c.map(|r| r.messages.iter().map(|m| format!("{:?}", m.msg)).collect::<Vec<_>>()).map_err(|e| e.to_string()));
            let r2 = migrate(deps.as_mut(), mock_env(), mm()); println!("    second migrate -> {:?}", r2.map(|_| "OK").map_err(|e| e.to_string())); }
    }
}
