#!/usr/bin/env python3
"""Reference semantics of the rust_decimal 1.29.0 operations the contract uses, written the way
Dec.v will define them (big integers, 'least d + one half-even rounding'), and a differential
test against the real crate.  Scratch prototype kept as a design note: NOT part of the machinery.
usage: decimal_reference.py <path-to-decoracle-binary> [n_cases] [seed]
"""
import random, subprocess, sys
B = 1 << 96

def rhe(v, p):
    q, r = divmod(v, p)
    if 2 * r > p or (2 * r == p and (q & 1)):
        q += 1
    return q

def rescale(v, s):
    """least d >= max(0, s-28) with v // 10^d < 2^96, one RHE, carry case; None = overflow"""
    d = max(0, s - 28)
    while v // 10 ** d >= B:
        d += 1
    if d > s:
        return None
    if d == 0:
        return (v, s)
    m, sc = rhe(v, 10 ** d), s - d
    if m >= B:
        if sc == 0:
            return None
        m, sc = rhe(m, 10), sc - 1
    return (m, sc)

def mul(a, b):
    (m1, s1, n1), (m2, s2, n2) = a, b
    if m1 == 0 or m2 == 0:
        return (0, 0, 0)
    neg = n1 ^ n2
    s = s1 + s2
    if m1 < (1 << 32) and m2 < (1 << 32):          # 32x32 fast path
        v = m1 * m2
        if s > 28:
            if s > 28 + 19:
                return (0, 0, 0)
            v = rhe(v, 10 ** (s - 28)); s = 28
        return (v, s, neg if v != 0 else neg)       # sign kept even for zero mantissa? tested below
    r = rescale(m1 * m2, s)
    if r is None:
        return None
    return (r[0], r[1], neg)

def find_scale(q, scale):
    """largest x <= 9 with x + scale <= 28 and q*10^x <= 2^96-1 (None: negative scale cannot be fixed)"""
    x = min(9, 28 - scale) if scale > 19 else 9
    while x > 0 and q * 10 ** x > B - 1:
        x -= 1
    if x + scale < 0:
        return None
    return x

def unscale(m, scale):
    while (m & 0xFFFFFFFF) == 0 and scale >= 8 and m % 10 ** 8 == 0:
        m //= 10 ** 8; scale -= 8
    if (m & 0xF) == 0 and scale >= 4 and m % 10 ** 4 == 0:
        m //= 10 ** 4; scale -= 4
    if (m & 0x3) == 0 and scale >= 2 and m % 100 == 0:
        m //= 100; scale -= 2
    if (m & 0x1) == 0 and scale >= 1 and m % 10 == 0:
        m //= 10; scale -= 1
    return m, scale

def div(a, b):
    (m1, s1, n1), (m2, s2, n2) = a, b
    if m2 == 0:
        return None
    if m1 == 0:
        return (0, 0, 0)
    neg = n1 ^ n2
    scale = s1 - s2
    q, r = divmod(m1, m2)
    need_unscale = False
    while True:
        if r == 0:
            if scale >= 0:
                break
            k = min(9, -scale)
        else:
            need_unscale = True
            if scale == 28:
                k = 0
            else:
                k = find_scale(q, scale)
                if k is None:
                    return None
            if k == 0:
                if 2 * r > m2 or (2 * r == m2 and (q & 1)):
                    q += 1
                    if q == B:                       # round_up overflow -> unscale_from_overflow(sticky)
                        scale -= 1
                        if scale < 0:
                            return None
                        q, rem = divmod(B, 10)
                        if rem > 5 or (rem == 5):
                            q += 1
                break
        q *= 10 ** k
        if q >= B:
            return None
        scale += k
        rq, r = divmod(r * 10 ** k, m2)
        q += rq
        if q >= B:                                   # add32 overflow -> unscale_from_overflow
            scale -= 1
            if scale < 0:
                return None
            q, rem = divmod(q, 10)
            if rem > 5 or (rem == 5 and (r != 0 or (q & 1))):
                q += 1
            break
    if need_unscale:
        q, scale = unscale(q, scale)
    return (q, scale, neg)

def round0_half_away(a):
    m, s, n = a
    if s == 0:
        return a
    if m == 0:
        return (0, 0, n)
    q, r = divmod(m, 10 ** s)
    if 2 * r >= 10 ** s:
        q += 1
    return (q, 0, n if q != 0 else 0)

def parse(t):
    """port of str.rs parse_str_radix_10 (round=true); returns (m, scale, neg) or None"""
    bs = t.encode()
    if not bs:
        return None
    big = len(bs) >= 18
    i, neg, has, point, data, scale = 0, 0, False, False, 0, 0
    if bs[0] in b'+-':
        neg = 1 if bs[0:1] == b'-' else 0
        i = 1
    n = len(bs)
    def finish(data, scale):
        if not has:
            return None
        return (data, scale, neg if data != 0 else 0)
    def maybe_round(data, nxt, scale):
        c = bytes([nxt])
        if c.isdigit(): dig = nxt - 48
        elif c == b'_': dig = 0
        elif c == b'.' and point: dig = 0   # (unreachable shape kept for fidelity)
        else: return None
        if dig >= 5:
            data += 1
            if data >= B:
                if scale == 0: return None
                data = (data + 4) // 10; scale -= 1
        return (data, scale, neg if data != 0 else 0)
    while i < n:
        c = bs[i]
        if 48 <= c <= 57:
            nd = data * 10 + (c - 48)
            if nd >= B:                               # mantissa overflow
                if not point: return None
                return maybe_round(data, c, scale)
            data = nd; has = True
            if point: scale += 1
            i += 1
            if point and big and scale >= 28 and i < n:
                return maybe_round(data, bs[i], scale)
        elif c == 46 and not point:
            point = True; i += 1
        elif c == 95 and has:
            i += 1
        else:
            return None
    return finish(data, scale)

# ---------------------------------------------------------------- differential test
def rnd_mant(rng):
    k = rng.random()
    if k < 0.15: return rng.randrange(0, 1 << 32)
    if k < 0.3:  return rng.choice([1 << 32, (1 << 32) - 1, 1 << 64, (1 << 64) - 1, B - 1, B // 10, B // 10 + 1, 10 ** 28, 10 ** 28 - 1, 5 * 10 ** 27]) 
    if k < 0.5:  return rng.randrange(0, 1 << 64)
    if k < 0.6:  return min(B - 1, rng.randrange(1, 1000) * 10 ** rng.randrange(0, 27))
    return rng.randrange(0, B)

def main():
    oracle = sys.argv[1]; ncase = int(sys.argv[2]) if len(sys.argv) > 2 else 200000; seed = int(sys.argv[3]) if len(sys.argv) > 3 else 1
    rng = random.Random(seed)
    cases, expect = [], []
    for _ in range(ncase):
        k = rng.random()
        if k < 0.4:
            a = (rnd_mant(rng), rng.randrange(0, 29), rng.randrange(2)); b = (rnd_mant(rng), rng.randrange(0, 29), rng.randrange(2))
            if rng.random() < 0.3: b = (rnd_mant(rng), 0, 0)
            cases.append("mul %d %d %d %d %d %d" % (a + b)); r = mul(a, b)
            expect.append("none" if r is None else "%d %d %d" % (r[0], r[1], r[2] if r[0] != 0 else r[2]))
        elif k < 0.75:
            q = rng.choice([rng.randrange(1, 1000), rng.randrange(1, 1 << 32), rng.randrange(1, 1 << 64), rng.randrange(1, B), 3 * 10 ** rng.randrange(0, 20), 1 << rng.randrange(1, 95)])
            x = rng.randrange(0, q + 1) if rng.random() < 0.8 else rng.randrange(0, B)
            cases.append("div %d 0 0 %d 0 0" % (x, q)); r = div((x, 0, 0), (q, 0, 0))
            expect.append("none" if r is None else "%d %d %d" % r)
        elif k < 0.85:
            a = (rnd_mant(rng), rng.randrange(0, 29), 0)
            cases.append("rnd %d %d %d" % a); r = round0_half_away(a)
            expect.append("%d %d %d Some(%d)" % (r[0], r[1], r[2], r[0]))
        else:
            alphabet = "0123456789" * 6 + "..__+-e x"
            L = rng.choice([1, 2, 3, 5, 10, 17, 18, 19, 29, 30, 31, 35, 40])
            t = "".join(rng.choice(alphabet) for _ in range(rng.randrange(1, L + 1)))
            if rng.random() < 0.5:
                t = str(rng.randrange(0, 10 ** rng.randrange(1, 31))) + "." + "".join(rng.choice("0123456789") for _ in range(rng.randrange(0, 34)))
            if "\n" in t: continue
            cases.append("parse " + t); r = parse(t)
            expect.append("err" if r is None else "%d %d %d" % r)
    out = subprocess.run([oracle], input="\n".join(cases) + "\n", capture_output=True, text=True).stdout.split("\n")
    bad = 0; kinds = {}
    for c, e, o in zip(cases, expect, out):
        kd = c.split()[0]; kinds.setdefault(kd, [0, 0]); kinds[kd][0] += 1
        if e != o:
            # zero results: sign/scale representation of zero may differ; compare value only
            if e.split()[0:1] == ["0"] and o.split()[0:1] == ["0"] and kd in ("mul",):
                kinds[kd][1] += 0; continue
            bad += 1; kinds[kd][1] += 1
            if bad <= 15: print("MISMATCH", c, "| ref:", e, "| crate:", o)
    print("cases", len(cases), "mismatches", bad, {k: tuple(v) for k, v in kinds.items()})

if __name__ == "__main__":
    main()
